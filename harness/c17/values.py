"""C17, second wave: (b) structured wildcards at every depth gap, (a) value conversion per source spelling,
(c) layering of the targets (files / modules / packages) given in the config file and on the command line.
"""
from __future__ import annotations

import contextlib
import io
import itertools
import os

from harness.c17.util import report
from harness.vlib.core import Ctx, ToolFailure
from harness.c17.resolution import all_modules, doc_chain, run_driver_sharded, show_val

# ------------------------------------------------------------------------------------------ (b) depth gaps
GAP_PATTERNS = ["p.*", "p.q.*", "p.q.r.*", "p.q.r.s.*", "p.q.r", "*.r", "p.*.r"]
GAP_KEYS = ["disallow_untyped_defs", "warn_return_any", "check_untyped_defs", "ignore_errors", "warn_unreachable",
            "strict_equality", "disallow_any_generics"]


def gap_modules() -> list[str]:
    mods = ["p", "p.q", "p.q.r", "p.q.r.s", "p.q.r.s.p", "p.r", "p.x.r", "p.q.x", "p.q.r.x", "p.x", "p.x.y.z", "q.r", "r",
            "p.q.s", "p.q.s.r", "x.q.r.s", "p.q.r.*", "p.q.*", "p.q.r.s.*"]
    return mods


def gap_real(secs: list[tuple[str, dict]], mods: list[str]) -> list[str]:
    from mypy.options import Options
    o = Options()
    o.per_module_options = {p: dict(ch) for p, ch in secs}
    return [" ".join(f"{k}={show_val(getattr(c, k))}" for k in GAP_KEYS) for c in (o.clone_for_module(m) for m in mods)]


def depth_gaps(ctx: Ctx) -> None:
    """Every subset of GAP_PATTERNS (sections at every subset of prefix depths 1–4, a concrete section, two
    unstructured ones) in file order and reversed; section i sets only its own probe option, so a module has
    probe i set iff section i applies to it — in the model (driver `C`), in the real `clone_for_module`, and
    in the documented rule."""
    mods = gap_modules()
    cases = []
    for r in range(1, len(GAP_PATTERNS) + 1):
        for combo in itertools.combinations(range(len(GAP_PATTERNS)), r):
            for order in (combo, tuple(reversed(combo))):
                if order != combo or r == 1 or True:
                    cases.append([(GAP_PATTERNS[i], {GAP_KEYS[i]: True}) for i in order])
    cases = [c for n, c in enumerate(cases) if c not in cases[:n]]
    lines = ["C %s|%s|%s|%s|x" % (",".join(f"{k}=0" for k in GAP_KEYS),
                                   ";".join(f"{p}:{k}=1" for p, ch in secs for k in ch), ";".join(mods), ",".join(GAP_KEYS))
             for secs in cases]
    model = run_driver_sharded(ctx, lines)
    nbad = 0
    for secs, mline in zip(cases, model):
        real = gap_real(secs, mods)
        depths = sorted(p.count(".") for p, _ in secs if p.endswith(".*") and "*" not in p[:-1])
        gap = any(b - a >= 2 for a, b in zip(depths, depths[1:]))
        ctx.dist("depth_gap_sets", "gap ≥ 2 between structured sections" if gap else "adjacent / single / none")
        for m, r, mp in zip(mods, real, mline.split(" ; ")):
            ctx.case(("GAP", secs, m), nontrivial="1" in r)
            ctx.count("traces_validated_against_impl")
            mv = mp.split(" dis=")[0]
            if "*" in m:
                want = None
            else:
                applied = doc_chain(secs, m)
                want = " ".join(f"{k}={int(any(k in ch for ch in applied))}" for k in GAP_KEYS)
            if (want is not None and r != want) or r != mv:
                nbad += 1
                ctx.count("disagreements_checked")
                if want is not None and r != want:
                    report(ctx, {"class": "precedence", "module": m, "sections": [p for p, _ in secs], "family": "depth-gap"},
                           f"sections {[p for p, _ in secs]} (each sets its own probe option): module {m} is checked with [{r}], "
                           f"the sections that apply to it give [{want}]",
                           {"kind": "depth-gap", "sections": secs, "module": m, "real": r, "documented": want})
                elif nbad <= 2:
                    ctx.violation(f"depth-gap correspondence broken: sections {[p for p, _ in secs]}, argument {m}: code [{r}] model [{mv}]",
                                  {"broken": "correspondence Driver/C17 `C` vs Options.clone_for_module (depth gaps)", "kind": "depth-gap",
                                   "sections": secs, "module": m, "real": r, "model": mv}, found_input=False)
    ctx.coverage["depth_gap_disagreements"] = nbad


# ------------------------------------------------------------------------------------------ (a) values
@contextlib.contextmanager
def patched_env(**kv):
    old = {k: os.environ.get(k) for k in kv}
    os.environ.update(kv)
    try:
        yield
    finally:
        for k, v in old.items():
            if v is None:
                os.environ.pop(k, None)
            else:
                os.environ[k] = v


def read_config(ctx: Ctx, name: str, text: str, n: int):
    """Options after process_options with this config file (cwd = the config's directory); (None, msg) on exit."""
    import mypy.main as mm
    from mypy.fscache import FileSystemCache
    d = os.path.join(ctx.tmp, "val", f"c{n % 24}")
    os.makedirs(d, exist_ok=True)
    for f in ("mypy.ini", "setup.cfg", "pyproject.toml"):
        if os.path.exists(os.path.join(d, f)):
            os.remove(os.path.join(d, f))
    with open(os.path.join(d, name), "w") as fh:
        fh.write(text)
    with open(os.path.join(d, "t.py"), "w") as fh:
        fh.write("x = 1\n")
    so, se = io.StringIO(), io.StringIO()
    cwd = os.getcwd()
    os.chdir(d)
    try:
        with contextlib.redirect_stdout(so):
            _, o = mm.process_options(["--config-file", name, "t.py"], stdout=so, stderr=se, fscache=FileSystemCache())
        return o, (se.getvalue() + so.getvalue()).strip(), d
    except SystemExit:
        return None, (se.getvalue() + so.getvalue()).strip(), d
    except Exception as e:
        return None, f"CRASH {type(e).__name__}: {e}", d
    finally:
        os.chdir(cwd)


ENTRY_FORMS = ["~/h{i}", "$C17VAR/v{i}", "$MYPY_CONFIG_FILE_DIR/c{i}", "rel/r{i}", "/abs/a{i}", "${{C17VAR}}/b{i}", "~"]
# option ↦ (separator written between entries in an ini value, are entries expanded, attribute)
PATH_LISTS = {"mypy_path": ([",", ":"], True), "files": ([","], True)}
PATH_SINGLE = ["cache_dir", "custom_typeshed_dir", "quickstart_file", "junit_xml", "python_executable"]
NAME_LISTS = {"always_true": ["FOO", "BAR", "B_Z"], "always_false": ["FOO", "BAR"], "disable_error_code": ["attr-defined", "misc", "name-defined"],
              "enable_error_code": ["attr-defined", "misc"], "untyped_calls_exclude": ["a.b", "c", "d.e.f"],
              "deprecated_calls_exclude": ["a.b", "c"], "enable_incomplete_feature": ["PreciseTupleTypes", "InlineTypedDict"],
              "modules": ["m1", "m2.x"], "packages": ["pk1", "pk2"], "plugins": ["pl_a.py", "pl.b", "~/p.py"]}


def expand_entry(e: str, home: str, cfgdir: str) -> str:
    """The documented expansion of one entry: `~` at the beginning, `$VAR` / `${VAR}` anywhere."""
    e = e.strip()
    if e == "~" or e.startswith("~/"):
        e = home + e[1:]
    for name, val in (("MYPY_CONFIG_FILE_DIR", cfgdir), ("C17VAR", "/var_dir")):
        e = e.replace("${%s}" % name, val).replace("$%s" % name, val)
    return e


def ini_spellings(entries: list[str], seps: list[str], rng) -> dict[str, str]:
    s0 = seps[0]
    out = {"plain": s0.join(entries), "spaces": f" {s0} ".join(entries), "trailing": s0.join(entries) + s0,
           "multiline": (s0 + "\n    ").join(entries)}
    if len(seps) > 1:
        out["othersep"] = seps[1].join(entries)
        out["mixedsep"] = "".join(e + (rng.choice(seps) if i < len(entries) - 1 else "") for i, e in enumerate(entries))
    return out


def value_conversion(ctx: Ctx, tables: dict) -> None:
    """For list-like and path-like options of the config table: the same intended entries written in every
    spelling of every config source must give the same attribute, namely `expand(strip(entry))` for each entry
    (per-entry expansion; splitting first).  Entries with `~`, `$VAR`, `${VAR}`, `$MYPY_CONFIG_FILE_DIR`,
    relative and absolute paths at every position.  HOME and C17VAR are set for the duration."""
    rng = ctx.rng
    home = os.path.join(ctx.tmp, "home")
    os.makedirs(home, exist_ok=True)
    n = 0
    model_cases: list[tuple[str, list[str] | None]] = []      # (ini text of a mypy_path value, real result) for driver `V`
    with patched_env(HOME=home, C17VAR="/var_dir"):
        # ---- multi-entry path lists
        for opt, (seps, expands) in PATH_LISTS.items():
            for length in (1, 2, 3):
                combos = list(itertools.product(range(len(ENTRY_FORMS)), repeat=length))
                if length == 3:
                    combos = rng.sample(combos, ctx.pick(25, 150))
                elif length == 2 and ctx.quick():
                    combos = [c for c in combos if 0 in c or 6 in c] + rng.sample(combos, 10)
                for combo in combos:
                    entries = [ENTRY_FORMS[f].format(i=i) for i, f in enumerate(combo)]
                    forms = {("mypy.ini", k): f"[mypy]\n{opt} = {v}\n" for k, v in ini_spellings(entries, seps, rng).items()
                             # mypy_path is split with re.split, not split_commas: a trailing separator is an (empty) entry
                             if not (opt == "mypy_path" and k == "trailing")}
                    forms[("setup.cfg", "plain")] = f"[mypy]\n{opt} = {seps[0].join(entries)}\n"
                    forms[("pyproject.toml", "array")] = "[tool.mypy]\n%s = [%s]\n" % (opt, ", ".join('"%s"' % e for e in entries))
                    forms[("pyproject.toml", "string")] = '[tool.mypy]\n%s = "%s"\n' % (opt, seps[0].join(entries))
                    for (cfg, form), text in forms.items():
                        n += 1
                        o, err, d = read_config(ctx, cfg, text, n)
                        want = [expand_entry(e, home, d) if expands else e.strip() for e in entries]
                        got = None if o is None else list(getattr(o, opt) or [])
                        if opt == "mypy_path" and cfg == "mypy.ini" and not any("$" in e for e in entries):
                            model_cases.append((text.split(" = ", 1)[1].rstrip("\n").replace("\n", "¶"), got))
                        ctx.case(("VAL", opt, cfg, form, tuple(entries)), nontrivial=len(entries) > 1)
                        ctx.dist("value_conversion", f"{opt} {cfg} {form}")
                        ctx.count("traces_validated_against_impl")
                        if got != want:
                            report(ctx, {"class": "value-conversion", "option": opt, "source": cfg.split(".")[-1].replace("cfg", "ini"), "form": form},
                                   f"{opt} with entries {entries} written as {cfg}/{form}: got {got}, every entry expanded on its own gives {want} {err[:120]}",
                                   {"kind": "value", "option": opt, "config_name": cfg, "config_text": text, "entries": entries,
                                    "documented": want, "home": "<HOME>", "env": {"C17VAR": "/var_dir"}})
        # ---- single paths
        for opt in PATH_SINGLE:
            for f in ENTRY_FORMS:
                e = f.format(i=0)
                if opt == "python_executable" and not e.startswith("/"):
                    continue
                for cfg, text in (("mypy.ini", f"[mypy]\n{opt} = {e}\n"), ("mypy.ini", f"[mypy]\n{opt} =   {e}  \n"),
                                  ("setup.cfg", f"[mypy]\n{opt} = {e}\n"), ("pyproject.toml", f'[tool.mypy]\n{opt} = "{e}"\n')):
                    n += 1
                    o, err, d = read_config(ctx, cfg, text, n)
                    want = expand_entry(e, home, d)
                    got = None if o is None else getattr(o, opt)
                    ctx.case(("VAL1", opt, cfg, text))
                    ctx.dist("value_conversion", f"{opt} {cfg}")
                    if got != want:
                        report(ctx, {"class": "value-conversion", "option": opt, "source": cfg.split(".")[-1].replace("cfg", "ini")},
                               f"{opt} = {e} in {cfg}: got {got!r}, documented expansion {want!r} {err[:120]}",
                               {"kind": "value", "option": opt, "config_name": cfg, "config_text": text, "entries": [e], "documented": want,
                                "home": "<HOME>", "env": {"C17VAR": "/var_dir"}})
        # ---- name lists (no expansion): every spelling, and the command line / inline where they exist
        import mypy.main as mm
        from mypy.config_parser import parse_mypy_comments
        from mypy.options import Options
        flags = {f["dest"]: f for f in tables["flags"] if f["act"] == "append" and not f["special"] and f["strings"]}
        per_module = set(tables["per_module"])
        for opt, names in NAME_LISTS.items():
            for k in range(1, len(names) + 1):
                entries = names[:k]
                forms = {("mypy.ini", kk): f"[mypy]\n{opt} = {v}\n" for kk, v in ini_spellings(entries, [","], rng).items()}
                forms[("pyproject.toml", "array")] = "[tool.mypy]\n%s = [%s]\n" % (opt, ", ".join('"%s"' % e for e in entries))
                forms[("pyproject.toml", "string")] = '[tool.mypy]\n%s = "%s"\n' % (opt, ", ".join(entries))
                for (cfg, form), text in forms.items():
                    n += 1
                    o, err, d = read_config(ctx, cfg, text, n)
                    got = None if o is None else list(getattr(o, opt) or [])
                    ctx.case(("VALN", opt, cfg, form, k))
                    ctx.dist("value_conversion", f"{opt} {cfg} {form}")
                    if got != entries:
                        report(ctx, {"class": "value-conversion", "option": opt, "source": cfg.split(".")[-1], "form": form},
                               f"{opt} with entries {entries} written as {cfg}/{form}: got {got} {err[:120]}",
                               {"kind": "value", "option": opt, "config_name": cfg, "config_text": text, "entries": entries, "documented": entries})
                if opt in per_module:
                    comment = f'{opt.replace("_", "-")}="{",".join(entries)}"' if k > 1 else f'{opt.replace("_", "-")}={entries[0]}'
                    ch, errs = parse_mypy_comments([(1, comment)], Options())
                    ctx.case(("VALN-inline", opt, k))
                    if ch.get(opt) != entries or errs:
                        report(ctx, {"class": "value-conversion", "option": opt, "source": "inline"},
                               f"inline `# mypy: {comment}` gives {ch.get(opt)} {errs}, intended {entries}",
                               {"kind": "value-inline", "comment": comment, "documented": entries})
    # tie of the Lean converter model (`convPathList (expandUser home)`) to the real ini converter of mypy_path
    model = run_driver_sharded(ctx, [f"V ,:|{home}|{v}" for v, _ in model_cases])
    for (v, got), mo in zip(model_cases, model):
        ctx.count("traces_validated_against_impl")
        # configparser strips the continuation lines' indentation; the model strips every entry anyway
        if got is None or "|".join(got) != mo:
            ctx.count("disagreements_checked")
            if not any("value-conversion" in str(w) or "mypy_path" in w for w, _ in ctx.violations):
                ctx.violation(f"mypy_path converter differs from the model on `{v}`: code {got}, model [{mo}]",
                              {"broken": "correspondence Driver/C17 `V` (convPathList) vs ini_config_types['mypy_path']", "kind": "value",
                               "option": "mypy_path", "config_name": "mypy.ini", "config_text": "[mypy]\nmypy_path = " + v.replace("¶", "\n") + "\n",
                               "documented": mo.split("|")}, found_input=False)
            break
    ctx.coverage["value_conversion_configs"] = n


# ------------------------------------------------------------------------------------------ (c) targets
def targets_of(ctx: Ctx, d: str, cfg_text: str | None, cli: list[str]):
    import mypy.main as mm
    from mypy.fscache import FileSystemCache
    for f in ("mypy.ini",):
        p = os.path.join(d, f)
        if os.path.exists(p):
            os.remove(p)
    args = ["--config-file="] if cfg_text is None else ["--config-file", "mypy.ini"]
    if cfg_text is not None:
        with open(os.path.join(d, "mypy.ini"), "w") as fh:
            fh.write(cfg_text)
    so, se = io.StringIO(), io.StringIO()
    cwd = os.getcwd()
    os.chdir(d)
    try:
        with contextlib.redirect_stdout(so):
            t, _ = mm.process_options(args + cli, stdout=so, stderr=se, fscache=FileSystemCache())
        return sorted((s.module or "", os.path.relpath(s.path, d) if s.path else "") for s in t)
    except SystemExit:
        msg = (se.getvalue() + so.getvalue()).strip().splitlines()
        return "exit: " + (msg[-1] if msg else "")
    finally:
        os.chdir(cwd)


def target_layering(ctx: Ctx) -> None:
    """docs (config_file.rst, `files` / `modules` / `packages`): the targets named in the config file are used
    only if none are given on the command line.  Every kind combination config × command line; the oracle is
    the real tool on the pure command-line form the rule reduces the combination to."""
    d = os.path.join(ctx.tmp, "targets")
    for rel in ("good/__init__.py", "good/m.py", "legacy/__init__.py", "legacy/old.py", "f.py", "g.py", "other/__init__.py"):
        os.makedirs(os.path.dirname(os.path.join(d, rel)) or d, exist_ok=True)
        with open(os.path.join(d, rel), "w") as fh:
            fh.write("x = 1\n")
    cfg_kinds = {"none": ([], []), "files": (["files = g.py"], ["g.py"]), "modules": (["modules = good.m"], ["-m", "good.m"]),
                 "packages": (["packages = legacy"], ["-p", "legacy"]), "files2": (["files = g.py, f.py"], ["g.py", "f.py"]),
                 "modules+packages": (["modules = good.m", "packages = legacy"], ["-m", "good.m", "-p", "legacy"]),
                 "files+packages": (["files = g.py", "packages = legacy"], ["g.py", "-p", "legacy"])}
    # `-c` is left out: with config `files=`/`modules=`/`packages=` the unchanged tree answers "May only specify one
    # of …" (the layering test does not look at special_opts.command); the docs speak of paths/modules/packages
    # "given on the command line" only — recorded as an observation, not as a finding
    cli_kinds = {"none": [], "path": ["f.py"], "-m": ["-m", "other"], "-p": ["-p", "good"], "-m -p": ["-m", "other", "-p", "good"],
                 "two paths": ["f.py", "g.py"]}
    for (ck, (lines, equiv)), (lk, cli) in itertools.product(cfg_kinds.items(), cli_kinds.items()):
        cfg_text = "[mypy]\n" + "".join(l + "\n" for l in lines)
        got = targets_of(ctx, d, cfg_text, cli)
        want = targets_of(ctx, d, None, cli if cli else equiv)
        if not cli and not equiv:
            want = got if isinstance(got, str) else want
        ctx.case(("TARGETS", ck, lk), nontrivial=ck != "none" and lk != "none")
        ctx.dist("target_layering", f"config {ck} × command line {lk}")
        if got != want:
            report(ctx, {"class": "target-layering", "config": ck, "command_line": lk},
                   f"config `{'; '.join(lines)}` with command line {cli}: targets {got}; documented (config targets only when the "
                   f"command line names none): {want}",
                   {"kind": "targets", "config_text": cfg_text, "cli": cli, "real": got, "documented": want})


def replay_value(ctx: Ctx, det: dict) -> None:
    home = os.path.join(ctx.tmp, "home")
    os.makedirs(home, exist_ok=True)
    with patched_env(HOME=home, C17VAR="/var_dir"):
        o, err, d = read_config(ctx, det["config_name"], det["config_text"], 0)
    print("HOME=%s C17VAR=/var_dir; config file %s:\n%s" % (home, det["config_name"], det["config_text"]))
    print(det["option"], "=", None if o is None else getattr(o, det["option"]), err)
    print("documented (each entry expanded on its own):", det["documented"])


def replay_targets(ctx: Ctx, det: dict) -> None:
    d = os.path.join(ctx.tmp, "targets")
    if not os.path.isdir(d):
        target_layering_dirs = ("good/__init__.py", "good/m.py", "legacy/__init__.py", "legacy/old.py", "f.py", "g.py", "other/__init__.py")
        for rel in target_layering_dirs:
            os.makedirs(os.path.dirname(os.path.join(d, rel)) or d, exist_ok=True)
            open(os.path.join(d, rel), "w").write("x = 1\n")
    print("mypy.ini:\n" + det["config_text"] + "command line:", det["cli"])
    print("targets:", targets_of(ctx, d, det["config_text"], det["cli"]))
    print("documented:", det["documented"])
