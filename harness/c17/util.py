"""Small helpers shared by the C17 harness modules."""
from __future__ import annotations

from harness.vlib.core import Ctx

CAP = 3


def report(ctx: Ctx, observed: dict, what: str, detail) -> None:
    """ctx.report, but at most CAP VIOLATION lines per failure class (one breaking change typically shows up on
    dozens of flags; the rest are counted in the evidence).  Known findings are never capped."""
    if ctx.match_known(observed) is None:
        by = ctx.coverage.setdefault("reports_by_class", {})
        cls = str(observed.get("class"))
        by[cls] = by.get(cls, 0) + 1
        if by[cls] > CAP:
            ctx.coverage["suppressed_repeated_reports"] = ctx.coverage.get("suppressed_repeated_reports", 0) + 1
            return
    ctx.report(observed, what, detail)
