"""C17 search on the real tool: the property's own oracle.

1. source equivalence (snapshots): every flag of the argparse table given as command-line flag / mypy.ini /
   setup.cfg / pyproject.toml / inline `# mypy:` comment — `Options.snapshot()` after `process_options`
   (+ `clone_for_module` + `parse_mypy_comments` for the inline source) must be the same;
2. locality: a setting in `[mypy-pk.a]` must not change the global options nor the options of another module;
3. conflicting pairs against the documented precedence, through the real config-file parsers;
4. source equivalence on diagnostics: a witness package checked by `python -m mypy` under each source.
"""
from __future__ import annotations

import contextlib
import io
import os
import shutil
import subprocess
from concurrent.futures import ThreadPoolExecutor

from harness.c17.util import report
from harness.vlib.core import Ctx, PY, ToolFailure, repo_env
from harness.c17.resolution import CODES, doc_oracle, real_clone, show_val

IGNORE_ATTRS = {"config_file"}


# ------------------------------------------------------------------------------------------ tables
def flag_table(tables: dict) -> list[dict]:
    out = []
    for f in tables["flags"]:
        out.append({"long": [s for s in f["strings"] if s.startswith("--")], "strings": f["strings"], "dest": f["dest"],
                    "special": f["special"], "act": f["act"], "bool": f["act"] in ("storeTrue", "storeFalse"),
                    "const": f["const"]})
    return out


def exemptions(ctx: Ctx) -> dict[str, list[str]]:
    line = ctx.lean_driver("Driver/C17.lean", ["E"])[0]
    out = {}
    for part in line.split(" "):
        name, _, rest = part.partition(":[")
        out[name] = [x for x in rest.rstrip("]").split(",") if x]
    return out


# ------------------------------------------------------------------------------------------ process_options
class Work:
    """A scratch directory with a tiny package; config files are (re)written per call."""

    def __init__(self, ctx: Ctx, name: str):
        self.dir = os.path.join(ctx.tmp, name)
        os.makedirs(os.path.join(self.dir, "pk"), exist_ok=True)
        for f, txt in (("pk/__init__.py", ""), ("pk/a.py", "x = 1\n"), ("pk/b.py", "y = 1\n")):
            with open(os.path.join(self.dir, f), "w") as fh:
                fh.write(txt)
        self.n = 0

    def options(self, cli: list[str], cfg_name: str | None = None, cfg_text: str = ""):
        """(Options | None, stderr+stdout) of process_options with the given config file and flags."""
        import mypy.main as mm
        from mypy.fscache import FileSystemCache
        if cfg_name is None:
            cfg = ["--config-file="]
        else:
            self.n += 1
            d = os.path.join(self.dir, f"cfg{self.n % 16}")
            os.makedirs(d, exist_ok=True)
            path = os.path.join(d, cfg_name)
            with open(path, "w") as fh:
                fh.write(cfg_text)
            cfg = ["--config-file", path]
        so, se = io.StringIO(), io.StringIO()
        cwd = os.getcwd()
        os.chdir(self.dir)
        try:
            with contextlib.redirect_stdout(so):     # process_options prints some warnings with a bare print()
                _, o = mm.process_options(cfg + cli + ["pk/a.py"], stdout=so, stderr=se, fscache=FileSystemCache())
            return o, _scrub(se.getvalue() + so.getvalue())
        except SystemExit:
            return None, _scrub(se.getvalue() + so.getvalue())
        except Exception as e:      # mypy itself crashed on this source: an outcome, not a tool failure
            return None, f"CRASH {type(e).__name__}: {e}"[:300]
        finally:
            os.chdir(cwd)


def _scrub(text: str) -> str:
    import re
    text = re.sub(r"\S*cfg\d+/(mypy\.ini|setup\.cfg|pyproject\.toml): ", "<cfg>: ", text)
    text = re.sub(r"\[mypy\]: |\[tool\.mypy\]: ", "", text)
    return text.strip()


def snap(o, drop=()) -> dict | None:
    if o is None:
        return None
    d = {k: repr(sorted(v, key=repr)) if isinstance(v, (set, frozenset)) else repr(v) for k, v in o.snapshot().items()}
    for k in set(IGNORE_ATTRS) | set(drop):
        d.pop(k, None)
    return d


def diff_snap(a: dict | None, b: dict | None) -> dict:
    if a is None or b is None:
        return {} if a is b else {"<accepted>": (a is not None, b is not None)}
    return {k: (a.get(k), b.get(k)) for k in sorted(set(a) | set(b)) if a.get(k) != b.get(k)}


def ini_text(pairs: list[tuple[str, str]], sections: list[tuple[str, list[tuple[str, str]]]] = ()) -> str:
    t = "[mypy]\n" + "".join(f"{k} = {v}\n" for k, v in pairs)
    for pat, kv in sections:
        t += f"[mypy-{pat}]\n" + "".join(f"{k} = {v}\n" for k, v in kv)
    return t


def toml_val(v) -> str:
    if isinstance(v, bool):
        return "true" if v else "false"
    if isinstance(v, int):
        return str(v)
    if isinstance(v, list):
        return "[" + ", ".join('"%s"' % x for x in v) + "]"
    return '"%s"' % v


def toml_text(pairs: list[tuple[str, object]], sections: list[tuple[str, list[tuple[str, object]]]] = ()) -> str:
    t = "[tool.mypy]\n" + "".join(f"{k} = {toml_val(v)}\n" for k, v in pairs)
    for pat, kv in sections:
        t += f'[[tool.mypy.overrides]]\nmodule = "{pat}"\n' + "".join(f"{k} = {toml_val(v)}\n" for k, v in kv)
    return t


def ini_val(v) -> str:
    if isinstance(v, list):
        return ", ".join(v)
    return str(v)


# sample values for the valued (store / append) flags, by dest
VALUES: dict[str, object] = {
    "follow_imports": "skip", "platform": "win32", "cache_dir": ".cache_x", "many_errors_threshold": 5,
    "sqlite_num_shards": 4, "num_workers": 0, "junit_xml": "j.xml", "junit_format": "per_file",
    "custom_typing_module": "mytyping", "custom_typeshed_dir": "ts", "quickstart_file": "q.json",
    "always_true": ["FOO", "BAR"], "always_false": ["BAZ"], "untyped_calls_exclude": ["a.b", "c"],
    "deprecated_calls_exclude": ["a.b", "c"], "disable_error_code": ["attr-defined", "misc"],
    "enable_error_code": ["name-defined"], "enable_incomplete_feature": ["PreciseTupleTypes"],
    "exclude": ["zz"], "python_version": "3.11", "python_executable": PY,
}
REPORT_DESTS = {"any-exprs_report", "cobertura-xml_report", "html_report", "linecount_report", "linecoverage_report",
                "lineprecision_report", "txt_report", "xml_report", "xslt-html_report", "xslt-txt_report"}


def cli_args(flag: str, act: str, value) -> list[str]:
    if isinstance(value, list) and act == "append":
        return [a for v in value for a in (flag, str(v))]
    return [flag, str(value)]


# ------------------------------------------------------------------------------------------ 1. equivalence
def source_equivalence(ctx: Ctx, tables: dict, only_flags: set[str] | None = None) -> None:
    """Every flag × every source; `only_flags` restricts to the flags an obligation complained about."""
    from mypy.config_parser import parse_mypy_comments
    from mypy.options import Options
    ex = exemptions(ctx)
    w = Work(ctx, "eq")
    base, _ = w.options([])
    if base is None:
        raise ToolFailure("process_options failed without any flag")
    per_module = set(tables["per_module"])
    reported = 0
    for f in flag_table(tables):
        if not f["long"] or (only_flags is not None and not (set(f["long"]) & only_flags)):
            continue
        flag, dest = f["long"][0], f["dest"]
        if f["bool"]:
            if f["special"]:
                drop = {"no_site_packages"} if dest == "no_executable" else set()
                key = {"no_executable": "no_site_packages"}.get(dest, dest)
                sources = {"cli": ([flag], None, ""), "mypy.ini": ([], "mypy.ini", ini_text([(key, "True")])),
                           "setup.cfg": ([], "setup.cfg", ini_text([(key, "True")])),
                           "pyproject.toml": ([], "pyproject.toml", toml_text([(key, True)]))}
            else:
                drop = set()
                v = f["const"]
                sources = {"cli": ([flag], None, ""), "mypy.ini": ([], "mypy.ini", ini_text([(dest, str(v))])),
                           "setup.cfg": ([], "setup.cfg", ini_text([(dest, str(v))])),
                           "pyproject.toml": ([], "pyproject.toml", toml_text([(dest, v)]))}
                for s in f["long"]:
                    if s not in ex["cliOnlySpellings"]:
                        k = s[2:].replace("-", "_")
                        sources[f"mypy.ini:{k}"] = ([], "mypy.ini", ini_text([(k, "True")]))
                        sources[f"pyproject.toml:{k}"] = ([], "pyproject.toml", toml_text([(k, True)]))
        elif f["act"] in ("store", "append") and (dest in VALUES or dest in REPORT_DESTS):
            drop = set()
            v = VALUES.get(dest, "rep_dir")
            key = dest.replace("-", "_")
            sources = {"cli": (cli_args(flag, f["act"], v), None, ""),
                       "mypy.ini": ([], "mypy.ini", ini_text([(key, ini_val(v))])),
                       "setup.cfg": ([], "setup.cfg", ini_text([(key, ini_val(v))])),
                       "pyproject.toml": ([], "pyproject.toml", toml_text([(key, v)]))}
        else:
            ctx.dist("equivalence_skipped", "no sample value / not a setting: " + f["act"])
            continue
        results = {}
        for name, (cli, cfg, text) in sources.items():
            o, err = w.options(cli, cfg, text)
            results[name] = (o, snap(o, drop), err)
        ref = results["cli"]
        ctx.dist("equivalence_flag_kind", ("bool" if f["bool"] else f["act"]) + (" special" if f["special"] else ""))
        for name, (o, s, err) in results.items():
            if name == "cli":
                continue
            ctx.case(("EQ", flag, name), nontrivial=ref[1] is None or bool(diff_snap(ref[1], snap(base, drop))))
            ctx.dist("equivalence_source", name.split(":")[0])
            d = diff_snap(ref[1], s)
            if d or ("Unrecognized option" in err) or (ref[0] is not None and err and not ref[2]):
                reported += 1
                src = name.split(":")[0]
                report(ctx, {"class": "source-inequivalent", "option": dest, "source": {"mypy.ini": "ini", "setup.cfg": "ini", "pyproject.toml": "toml"}[src]},
                           f"{flag} on the command line and `{sources[name][2].splitlines()[1]}` in {src} give different options: "
                           f"{dict(list(d.items())[:3])} {('messages: ' + err[:160]) if err else ''}",
                           {"kind": "equivalence", "flag": flag, "dest": dest, "cli": sources["cli"][0], "config_name": sources[name][1],
                            "config_text": sources[name][2], "difference": d, "messages": err})
        # inline comments: per-module options only
        if not f["special"] and dest in per_module and ref[0] is not None:
            for s in f["long"] if f["bool"] else [flag]:
                if f["bool"]:
                    comment = s[2:]
                    if s in ex["cliOnlySpellings"]:
                        continue
                else:
                    comment = f"{s[2:]}={ini_val(VALUES[dest]) if not isinstance(VALUES[dest], list) else VALUES[dest][0]}"
                changes, errs = parse_mypy_comments([(1, comment)], Options())
                got = snap(base.clone_for_module("pk.a").apply_changes(changes), {"ignore_missing_imports_per_module"})
                if f["bool"]:
                    want_o = ref[0]
                else:
                    v1 = VALUES[dest] if not isinstance(VALUES[dest], list) else VALUES[dest][:1]
                    want_o, _ = w.options(cli_args(flag, f["act"], v1))
                want_o.process_error_codes(error_callback=lambda m: None)
                want = snap(want_o.clone_for_module("pk.a").apply_changes({}), {"ignore_missing_imports_per_module"})
                ctx.case(("EQ-inline", s))
                ctx.dist("equivalence_source", "inline")
                d = diff_snap(want, got)
                if d or errs:
                    report(ctx, {"class": "source-inequivalent", "option": dest, "source": "inline"},
                               f"{s} on the command line and the inline comment `# mypy: {comment}` give different options: {d} {errs}",
                               {"kind": "equivalence-inline", "flag": s, "dest": dest, "comment": comment, "difference": d, "errors": errs})
    ctx.coverage["equivalence_failures"] = reported


# ------------------------------------------------------------------------------------------ 2. locality
def locality(ctx: Ctx, tables: dict) -> None:
    """`[mypy-pk.a] key = v` must only affect pk.a."""
    w = Work(ctx, "loc")
    attr = {a["name"]: a for a in tables["attrs"]}
    base, _ = w.options([], "mypy.ini", ini_text([]))
    bsnap = snap(base, {"per_module_options"})
    bother = snap(base.clone_for_module("pk.b"), {"per_module_options"})
    # correspondence for the model's `strictApplied`: which sections say `strict = True` ↦ do the strict
    # assignments land on the global options
    strict_dests = [d for d, v in tables["strict"] if v]
    bit_cases = [[0], [1], [0, 1], [0, 0], [0, 1, 0], [0, 0, 1], [1, 0, 0]]
    model = ctx.lean_driver("Driver/C17.lean", ["L " + ",".join(map(str, b)) for b in bit_cases])
    for bits, mo in zip(bit_cases, model):
        names = ["pk.a", "pk.b"]
        text = ini_text([("strict", "True")] if bits[0] else [], [(names[i], [("strict", "True")] if b else [("ignore_errors", "True")])
                                                                   for i, b in enumerate(bits[1:])])
        o, err = w.options([], "mypy.ini", text)
        if o is None:
            raise ToolFailure(f"process_options rejected {text}: {err}")
        real = int(any(getattr(o, d) != getattr(base, d) for d in strict_dests))
        ctx.case(("STRICT", bits))
        ctx.count("traces_validated_against_impl")
        if str(real) != mo:
            ctx.count("disagreements_checked")
            ctx.violation(f"`strict` handling differs from the model for sections {bits}: global options changed = {real}, model {mo}",
                          {"broken": "correspondence Driver/C17 `L` vs parse_config_file/set_strict_flags", "kind": "locality",
                           "key": "strict", "value": "True", "config_name": "mypy.ini", "config_text": text}, found_input=False)
    keys = [(k, str(not attr[k]["bool"])) for k in tables["per_module"] if attr.get(k, {}).get("ty") == "bool"]
    keys += [("follow_imports", "skip"), ("always_true", "FOO"), ("disable_error_code", "misc"),
             ("enable_error_code", "misc"), ("strict", "True")]
    for k, v in keys:
        for cfg, text in (("mypy.ini", ini_text([], [("pk.a", [(k, v)])])),
                          ("pyproject.toml", toml_text([], [("pk.a", [(k, {"True": True, "False": False}.get(v, v))])]))):
            o, err = w.options([], cfg, text)
            ctx.case(("LOC", k, cfg))
            ctx.dist("locality_source", cfg)
            if o is None:
                raise ToolFailure(f"process_options rejected a per-module section: {err}")
            dg = diff_snap(bsnap, snap(o, {"per_module_options"}))
            do = diff_snap(bother, snap(o.clone_for_module("pk.b"), {"per_module_options"}))
            if dg or do:
                report(ctx, {"class": "per-module-leaks-global", "key": k},
                           f"`{k} = {v}` in the section for module pk.a of {cfg} changes the global options / the options of pk.b: "
                           f"{dict(list((dg or do).items())[:4])}",
                           {"kind": "locality", "key": k, "value": v, "config_name": cfg, "config_text": text,
                            "global_difference": dg, "other_module_difference": do})


# ------------------------------------------------------------------------------------------ 3. precedence
def precedence_pairs(ctx: Ctx, tables: dict) -> None:
    """Conflicting sources on the real tool vs. the documented order: inline > concrete section >
    unstructured wildcards (later wins) > structured wildcards (more specific wins) > command line > [mypy]."""
    from mypy.config_parser import parse_mypy_comments
    w = Work(ctx, "prec")
    attr = {a["name"]: a for a in tables["attrs"]}
    flags = {}
    for f in flag_table(tables):
        if f["bool"] and not f["special"] and f["long"]:
            flags.setdefault(f["dest"], {})[f["const"]] = f["long"][0]
    opts = [k for k in tables["per_module"] if attr.get(k, {}).get("ty") == "bool" and len(flags.get(k, {})) == 2]
    opts = opts if not ctx.quick() else ctx.rng.sample(opts, min(10, len(opts)))
    rungs = ["[mypy]", "cli", "pk.*", "*.a", "pk.a", "inline"]   # lowest → highest
    for k in opts:
        for lo in range(len(rungs)):
            for hi in range(lo + 1, len(rungs)):
                for v in (True, False):
                    # rung `hi` says v, rung `lo` says not v → pk.a must see v; other rungs silent
                    say = {rungs[hi]: v, rungs[lo]: not v}
                    glob = [(k, str(say["[mypy]"]))] if "[mypy]" in say else []
                    secs = [(p, [(k, str(say[p]))]) for p in ("pk.*", "*.a", "pk.a") if p in say]
                    cli = [flags[k][say["cli"]]] if "cli" in say else []
                    for cfg, text in (("mypy.ini", ini_text(glob, secs)),
                                      ("pyproject.toml", toml_text([(a, b == "True") for a, b in glob],
                                                                   [(p, [(a, b == "True") for a, b in kv]) for p, kv in secs]))):
                        o, err = w.options(cli, cfg, text)
                        if o is None:
                            raise ToolFailure(f"process_options failed in precedence check: {err}")
                        c = o.clone_for_module("pk.a")
                        if "inline" in say:
                            ch, _ = parse_mypy_comments([(1, f"{k.replace('_', '-')}={say['inline']}")], c)
                            c = c.apply_changes(ch)
                        got = getattr(c, k)
                        ctx.case(("PREC", k, rungs[lo], rungs[hi], v, cfg))
                        ctx.dist("precedence_pair", f"{rungs[hi]} over {rungs[lo]}")
                        if got != v:
                            report(ctx, {"class": "precedence", "higher": rungs[hi], "lower": rungs[lo], "option": k},
                                       f"{k}: {rungs[hi]} says {v}, {rungs[lo]} says {not v}; module pk.a is checked with {got} ({cfg})",
                                       {"kind": "precedence-pair", "option": k, "higher": rungs[hi], "lower": rungs[lo], "value": v,
                                        "cli": cli, "config_name": cfg, "config_text": text,
                                        "inline": f"{k.replace('_', '-')}={say.get('inline')}" if "inline" in say else None})
                            return


def parsed_sections(ctx: Ctx) -> None:
    """The section tables of the resolution correspondence, but written to mypy.ini / setup.cfg /
    pyproject.toml and read back by the real parsers: file order must become dict order, and the resolved
    options must follow the documented precedence."""
    import itertools
    from harness.c17.resolution import K_A, K_B
    w = Work(ctx, "parsed")
    rng = ctx.rng
    pats = ["pk", "pk.a", "pk.a.x", "pk.*", "pk.a.*", "*.a", "pk.*.x", "*.x", "pk.*.a", "*.a.*"]
    mods = ["pk", "pk.a", "pk.b", "pk.a.x", "pk.b.x", "pk.a.a", "q.a"]
    combos = list(itertools.permutations(pats, 3))
    rng.shuffle(combos)
    for combo in combos[: ctx.pick(150, 720)]:
        secs_model, secs_ini = [], []
        for i, p in enumerate(combo):
            ch = {"follow_imports": ["silent", "skip", "error"][i]}
            if rng.random() < 0.5:
                ch[K_A] = rng.random() < 0.5
            if rng.random() < 0.5:
                ch[K_B] = rng.random() < 0.5
            ch["disable_error_code"] = rng.choice([[], [CODES[0]], [CODES[1]]])
            ch["enable_error_code"] = rng.choice([[], [CODES[0]]])
            secs_model.append((p, ch))
            secs_ini.append((p, [(k, v) for k, v in ch.items() if v != []]))
        glob = {"enable_error_code": [CODES[1]]} if rng.random() < 0.5 else {}
        for cfg in ("mypy.ini", "setup.cfg", "pyproject.toml"):
            if cfg == "pyproject.toml":
                text = toml_text(list(glob.items()), secs_ini)
            else:
                text = ini_text([(k, ini_val(v)) for k, v in glob.items()], [(p, [(k, ini_val(v)) for k, v in kv]) for p, kv in secs_ini])
            o, err = w.options([], cfg, text)
            if o is None or err:
                raise ToolFailure(f"config file rejected: {err}\n{text}")
            o.process_error_codes(error_callback=lambda m: None)
            from harness.c17.resolution import render_options
            for m in mods:
                got = render_options(o.clone_for_module(m))
                g2 = dict(glob); g2["follow_imports"] = "normal"
                want = doc_oracle(g2, secs_model, m).replace("follow_imports=g", "follow_imports=normal")
                ctx.case(("PARSED", combo, cfg, m))
                ctx.dist("parsed_config", cfg)
                if got != want:
                    report(ctx, {"class": "precedence", "module": m, "sections": list(combo), "source": cfg},
                               f"{cfg} with sections {list(combo)}: module {m} is checked with [{got}], documented precedence gives [{want}]",
                               {"kind": "parsed-sections", "config_name": cfg, "config_text": text, "module": m, "real": got, "documented": want})
                    return


def strict_overrides(ctx: Ctx, tables: dict) -> None:
    """`strict` plus the explicit opposite of one strict flag, for every flag of the regenerated strict list ×
    every source (mypy.ini, setup.cfg, pyproject.toml — both key orders and both key spellings —, the command
    line in both orders, and the two mixed forms).  (i) correspondence: the values of all strict options vs
    the model's `globalOptionsStrict` (driver `P`); (ii) oracle: the documented rule "individual flags
    override strict" — the explicit key wins inside one source in either order, the command line wins over
    the config file — and the sources agree on the whole snapshot."""
    from harness.c17.resolution import run_driver_sharded
    w = Work(ctx, "strict")
    dests = [d for d, _ in tables["strict"]]
    ft = flag_table(tables)
    jobs = []          # (dest, b, label, cli, cfg_name, cfg_text, model_ini, model_cli, expected value of dest)
    for d, b in tables["strict"]:
        opp = next((f for f in ft if f["bool"] and not f["special"] and f["dest"] == d and f["const"] == (not b) and f["long"]), None)
        if opp is None:
            ctx.dist("strict_override", "excluded: no opposite command-line flag")
            continue
        oflag = opp["long"][0]
        okey = oflag[2:].replace("-", "_")
        spell = [(d, str(not b))] + ([(okey, "True")] if okey != d else [])
        for key, val in spell:
            tval = (val == "True")
            for order in (0, 1):
                pairs = [("strict", "True"), (key, val)][:: (1 if order == 0 else -1)]
                mi = ",".join(f"{k}={v}" for k, v in pairs)
                for cfg in ("mypy.ini", "setup.cfg"):
                    jobs.append((d, b, f"{cfg} {'strict first' if order == 0 else 'strict last'} {key}", [], cfg, ini_text(pairs), mi, "", not b))
                tp = [("strict", True), (key, tval)][:: (1 if order == 0 else -1)]
                jobs.append((d, b, f"pyproject.toml {'strict first' if order == 0 else 'strict last'} {key}", [], "pyproject.toml", toml_text(tp), mi, "", not b))
            # mixed: explicit key in the config file, --strict on the command line → the command line wins
            jobs.append((d, b, f"config {key} + --strict", ["--strict"], "mypy.ini", ini_text([(key, val)]), f"{key}={val}", "--strict", b))
        jobs.append((d, b, "cli strict first", ["--strict", oflag], None, "", "", f"--strict {oflag}", not b))
        jobs.append((d, b, "cli strict last", [oflag, "--strict"], None, "", "", f"{oflag} --strict", not b))
        jobs.append((d, b, "config strict + cli flag", [oflag], "mypy.ini", ini_text([("strict", "True")]), "strict=True", oflag, not b))
    lines = [f"P {j[6]}|{j[7]}|{','.join(dests)}|x" for j in jobs]
    model = run_driver_sharded(ctx, lines)
    ref: dict = {}
    for (d, b, label, cli, cfg, text, _mi, _mc, want), mo in zip(jobs, model):
        o, err = w.options(cli, cfg, text)
        ctx.case(("STRICT-OVR", d, label))
        ctx.dist("strict_override", label.split(" ")[0] + (" mixed" if "+" in label else ""))
        ctx.count("traces_validated_against_impl")
        if o is None or err:
            report(ctx, {"class": "strict-override", "option": d, "source": label.split(" ")[0]},
                   f"strict plus explicit {d}: {label} is rejected: {err[:200]}",
                   {"kind": "strict-override", "cli": cli, "config_name": cfg, "config_text": text, "option": d, "documented": want})
            continue
        real = " ".join(f"{k}={show_val(getattr(o, k))}" for k in dests)
        got = getattr(o, d)
        if got != want:
            report(ctx, {"class": "strict-override", "option": d, "source": label.split(" ")[0]},
                   f"strict plus the explicit setting {d} = {not b} ({label}): {d} is {got}; individual settings override strict"
                   + (", the command line overrides the config file" if "+ --strict" in label else ""),
                   {"kind": "strict-override", "cli": cli, "config_name": cfg, "config_text": text, "option": d, "documented": want})
        elif real != mo.split(" dis=")[0]:
            ctx.count("disagreements_checked")
            ctx.violation(f"strict correspondence broken ({label}, {d}): code [{real}] model [{mo}]",
                          {"broken": "correspondence Driver/C17 `P` (globalOptionsStrict) vs process_options", "kind": "strict-override",
                           "cli": cli, "config_name": cfg, "config_text": text, "option": d, "documented": want}, found_input=False)
            return
        if "+ --strict" not in label:
            # all pure and "config strict + cli flag" forms describe the same settings: same snapshot
            sn = snap(o)
            r0 = ref.setdefault(d, (label, sn))
            dd = diff_snap(r0[1], sn)
            if dd:
                report(ctx, {"class": "strict-override", "option": d, "source": label.split(" ")[0]},
                       f"strict plus explicit {d} = {not b}: {label} and {r0[0]} give different options: {dict(list(dd.items())[:4])}",
                       {"kind": "strict-override", "cli": cli, "config_name": cfg, "config_text": text, "option": d, "documented": want})


def strict_diagnostics(ctx: Ctx, tables: dict) -> None:
    """The same on diagnostics of the witness package: `--strict --<opposite>` vs `strict = True` + the explicit
    key (both orders) in mypy.ini and pyproject.toml."""
    ft = flag_table(tables)
    cand = []
    for d, b in tables["strict"]:
        opp = next((f for f in ft if f["bool"] and not f["special"] and f["dest"] == d and f["const"] == (not b) and f["long"]), None)
        if opp is not None and d not in ("warn_unused_configs",):
            cand.append((d, b, opp["long"][0]))
    must = [c for c in cand if c[0] == "disallow_untyped_defs"]
    rest = [c for c in cand if c[0] != "disallow_untyped_defs"]
    pick = must + (ctx.rng.sample(rest, min(2, len(rest))) if ctx.quick() else rest)

    def one(job):
        n, (d, b, oflag) = job
        wd = os.path.join(ctx.tmp, f"sd{n}")
        os.makedirs(wd, exist_ok=True)
        write_witness(wd)
        res = {"cli": run_mypy(wd, ["--config-file=", "--strict", oflag], ".c0")}
        for name, cfg, text in (("mypy.ini strict first", "mypy.ini", ini_text([("strict", "True"), (d, str(not b))])),
                                ("mypy.ini strict last", "mypy.ini", ini_text([(d, str(not b)), ("strict", "True")])),
                                ("pyproject.toml strict first", "pyproject.toml", toml_text([("strict", True), (d, not b)]))):
            with open(os.path.join(wd, cfg), "w") as fh:
                fh.write(text)
            res[name] = (run_mypy(wd, [], ".c0"), cfg, text)      # same options → same cache
            os.remove(os.path.join(wd, cfg))
        return d, b, oflag, res

    with ThreadPoolExecutor(max_workers=6) as exr:
        outs = list(exr.map(one, enumerate(pick)))
    for d, b, oflag, res in outs:
        for name, v in res.items():
            if name == "cli":
                continue
            out, cfg, text = v
            ctx.case(("STRICT-DIAG", d, name))
            ctx.dist("strict_diagnostics", name)
            if out != res["cli"]:
                report(ctx, {"class": "strict-override", "option": d, "source": cfg, "level": "diagnostics"},
                       f"--strict {oflag} and `strict = True` + `{d} = {not b}` ({name}) give different diagnostics",
                       {"kind": "strict-diagnostics", "cli": ["--strict", oflag], "config_name": cfg, "config_text": text,
                        "cli_output": res["cli"][-1200:], "config_output": out[-1200:]})


SEC_KEYS = ["disallow_untyped_defs", "warn_return_any", "ignore_errors", "check_untyped_defs"]


def table_text(o) -> str:
    return ";".join("%s:%s" % (p, ",".join(f"{k}={show_val(v)}" for k, v in sorted(ch.items()))) for p, ch in o.per_module_options.items())


def section_tables(ctx: Ctx) -> None:
    """Config files whose sections name several patterns (`[mypy-a,b]`, `module = ["a", "b"]`), some pattern
    named by two sections.  (i) correspondence: the table `parse_config_file` builds (keys in dict order, values)
    vs the model's `iniSections` / `tomlSections`; (ii) oracle: section i sets its own key to True and nothing
    else, so a module must have key i set iff some pattern of section i matches it — in both file formats."""
    from harness.c17.resolution import doc_glob_match, run_driver_sharded
    rng = ctx.rng
    w = Work(ctx, "tables")
    pats = ["pk.a", "pk.b", "pk.*", "*.a", "pk.a.*", "q"]
    mods = ["pk.a", "pk.b", "pk.a.x", "pk", "q", "r.a"]
    cases = [[["pk.a", "pk.b"], ["pk.a"]], [["pk.a"], ["pk.a", "pk.b"]], [["*.a", "pk.b"], ["pk.*"], ["*.a"]]]
    for _ in range(ctx.pick(120, 1200)):
        n = rng.randint(2, 4)
        cases.append([rng.sample(pats, rng.randint(1, 2)) for _ in range(n)])
    lines = []
    for fs in cases:
        body = "/".join("+".join(ps) + ":" + f"{SEC_KEYS[i]}=1,disable_error_code=[],enable_error_code=[]" for i, ps in enumerate(fs))
        lines += [f"S ini {body}", f"S toml {body}"]
    model = run_driver_sharded(ctx, lines)
    for n, fs in enumerate(cases):
        dup = len({p for ps in fs for p in ps}) < sum(len(ps) for ps in fs)
        ini = "[mypy]\n" + "".join(f"[mypy-{','.join(ps)}]\n{SEC_KEYS[i]} = True\n" for i, ps in enumerate(fs))
        toml = "[tool.mypy]\n" + "".join("[[tool.mypy.overrides]]\nmodule = [%s]\n%s = true\n" % (", ".join('"%s"' % p for p in ps), SEC_KEYS[i])
                                           for i, ps in enumerate(fs))
        for j, (cfg, text) in enumerate((("mypy.ini", ini), ("pyproject.toml", toml))):
            if cfg == "mypy.ini" and len({",".join(ps) for ps in fs}) < len(fs):
                ctx.dist("section_table", "excluded: two ini sections with the same header (configparser rejects the file)")
                continue
            o, err = w.options([], cfg, text)
            if o is None or err:
                raise ToolFailure(f"config file rejected: {err}\n{text}")
            real = table_text(o)
            ctx.case(("TABLE", cfg, fs), nontrivial=dup)
            ctx.dist("section_table", f"{cfg} {'duplicate pattern' if dup else 'distinct patterns'}")
            ctx.count("traces_validated_against_impl")
            tie_broken = real != model[2 * n + j]
            failed = False
            for m in mods:
                c = o.clone_for_module(m)
                for i, ps in enumerate(fs):
                    want = any(doc_glob_match(p, m) if "*" in p[:-1] else (m == p or (p.endswith(".*") and (m == p[:-2] or m.startswith(p[:-1])))) for p in ps)
                    if getattr(c, SEC_KEYS[i]) != want and not failed:
                        failed = True
                        report(ctx, {"class": "duplicate-pattern-settings-lost" if dup else "section-not-applied", "source": "ini" if cfg != "pyproject.toml" else "toml"},
                               f"{cfg}: section {i + 1} ({','.join(ps)}) sets {SEC_KEYS[i]} = True, module {m} "
                               f"{'matches' if want else 'does not match'} it, but is checked with {SEC_KEYS[i]} = {getattr(c, SEC_KEYS[i])}",
                               {"kind": "section-table", "config_name": cfg, "config_text": text, "module": m, "key": SEC_KEYS[i], "documented": want})
            if tie_broken:
                ctx.count("disagreements_checked")
                if not failed:
                    ctx.violation(f"section-table correspondence broken for {cfg} sections {fs}: code [{real}] model [{model[2 * n + j]}]",
                                  {"broken": "correspondence Driver/C17 `S` vs config_parser.parse_config_file", "kind": "section-table",
                                   "config_name": cfg, "config_text": text, "real": real, "model": model[2 * n + j]}, found_input=False)
                    return


# ------------------------------------------------------------------------------------------ 4. diagnostics
WITNESS = {
    "pk/__init__.py": "# witness\nfrom pk.a import helper as helper\n",
    "pk/a.py": '''# witness
from typing import Any, Optional, List, cast
import missing_mod

def helper(x):
    return x

def partly(x: int, y):
    return x

def typed(x: int = None) -> int:
    if isinstance(x, int):
        return x
    return cast(int, 1)

def ret_any(d: Any) -> int:
    return d.foo

def unreach(x: int) -> None:
    if isinstance(x, str):
        print("never")

class Base(missing_mod.Thing):
    pass

def dec(f): return f

@dec
def decorated(x: int) -> int:
    return helper(x)

lst: List = []
ign = 1  # type: ignore
val: Optional[int] = None
val + 1
same = (1 == "a")
def redef() -> None:
    v = 1
    v = "s"
def noret(x: int) -> int:
    if x:
        return 1
''',
    "pk/b.py": '''# witness
from pk import helper
from pk.a import lst, Base
import pk.a as A

def use() -> None:
    reveal_type(helper)
    A.undefined_name
    b: bytes = bytearray(b"x")
''',
}


def write_witness(d: str, header: str = "# witness") -> None:
    for rel, txt in WITNESS.items():
        p = os.path.join(d, rel)
        os.makedirs(os.path.dirname(p), exist_ok=True)
        with open(p, "w") as fh:
            fh.write(txt.replace("# witness", header, 1))


def run_mypy(d: str, args: list[str], cache: str = ".cache") -> str:
    p = subprocess.run([PY, "-m", "mypy", "--no-error-summary", "--cache-dir", os.path.join(d, cache)] + args + ["pk"],
                       cwd=d, env=repo_env({"MYPY_FORCE_COLOR": "0", "NO_COLOR": "1"}), capture_output=True, text=True, timeout=600)
    if p.returncode not in (0, 1, 2):
        raise ToolFailure("mypy crashed in the diagnostics search: " + (p.stdout + p.stderr)[-500:])
    # notices about the flag itself ("Warning: --strict-concatenate is deprecated; …") are printed by
    # process_options for the global sources only; they are not diagnostics of the program
    text = "\n".join(l for l in (p.stdout + p.stderr).splitlines() if not l.startswith("Warning: "))
    return f"exit={p.returncode}\n" + _scrub(text)


def diagnostics_equivalence(ctx: Ctx, tables: dict, only_flags: set[str] | None = None) -> None:
    ex = exemptions(ctx)
    per_module = set(tables["per_module"])
    inline_ok = {k for k in per_module if k.startswith(("disallow_", "warn_", "check_", "strict_", "allow_", "extra_", "implicit_optional", "local_partial"))}
    flags = [f for f in flag_table(tables) if f["bool"] and not f["special"] and f["long"]
             and f["dest"] not in ("pdb", "raise_exceptions", "show_traceback", "install_types", "non_interactive", "dump_graph",
                                   "dump_deps", "dump_type_stats", "dump_inference_stats", "dump_build_stats", "verbosity",
                                   "debug_serialize", "test_env", "semantic_analysis_only", "incremental", "sqlite_cache",
                                   "cache_fine_grained", "fixed_format_cache", "bazel", "logical_deps", "native_parser",
                                   "skip_version_check", "skip_cache_mtime_checks", "fast_exit", "mypyc_skip_c_generation",
                                   "export_ref_info", "color_output", "pretty", "error_summary", "scripts_are_modules",
                                   "explicit_package_bases", "namespace_packages", "fast_module_lookup", "exclude_gitignore",
                                   "debug_cache", "disable_expression_cache")]
    if only_flags is not None:
        flags = [f for f in flags if set(f["long"]) & only_flags]
    elif ctx.quick():
        flags = ctx.rng.sample(flags, min(18, len(flags)))
    nw = 6
    dirs = []
    for i in range(nw):
        d = os.path.join(ctx.tmp, f"diag{i}")
        os.makedirs(d, exist_ok=True)
        dirs.append(d)

    def one(job):
        i, f = job
        d = dirs[i % nw]
        flag, dest, v = f["long"][0], f["dest"], f["const"]
        write_witness(d)
        for n in ("mypy.ini", "setup.cfg", "pyproject.toml"):
            if os.path.exists(os.path.join(d, n)):
                os.remove(os.path.join(d, n))
        # one cache per flag: every source of a flag yields the same options, so they may share it; sharing it
        # between *flags* would let stale rendered messages through (options outside OPTIONS_AFFECTING_CACHE,
        # property C09) and blur this comparison
        cache = f".cache{i}"
        res = {"cli": run_mypy(d, ["--config-file=", flag], cache)}
        for cfg, text in (("mypy.ini", ini_text([(dest, str(v))])), ("setup.cfg", ini_text([(dest, str(v))])),
                          ("pyproject.toml", toml_text([(dest, v)]))):
            with open(os.path.join(d, cfg), "w") as fh:
                fh.write(text)
            res[cfg] = run_mypy(d, [], cache)          # discovered from the working directory
            os.remove(os.path.join(d, cfg))
        if dest in inline_ok and flag not in ex["cliOnlySpellings"]:
            write_witness(d, f"# mypy: {flag[2:]}")
            res["inline"] = run_mypy(d, ["--config-file="], cache + "i")
            shutil.rmtree(os.path.join(d, cache + "i"), ignore_errors=True)
        shutil.rmtree(os.path.join(d, cache), ignore_errors=True)
        return f, res

    # one flag after the other per directory (they share its cache); directories in parallel
    jobs = list(enumerate(flags))
    with ThreadPoolExecutor(max_workers=nw) as exr:
        chunks = [[j for j in jobs if j[0] % nw == i] for i in range(nw)]
        outs = list(exr.map(lambda ch: [one(j) for j in ch], chunks))
    write_witness(dirs[0])
    base = run_mypy(dirs[0], ["--config-file="], ".cachebase")
    for f, res in [x for o in outs for x in o]:
        ctx.dist("diagnostics_flag_effect", "changes the witness output" if res["cli"] != base else "no visible effect on the witness")
        for src, out in res.items():
            ctx.case(("DIAG", f["long"][0], src), nontrivial=True)
            ctx.dist("diagnostics_source", src)
            if out != res["cli"]:
                report(ctx, {"class": "diagnostics-differ", "option": f["dest"], "source": src},
                           f"{f['long'][0]}: diagnostics under {src} differ from the command-line run",
                           {"kind": "diagnostics", "flag": f["long"][0], "dest": f["dest"], "const": f["const"], "source": src,
                            "cli_output": res["cli"][-1500:], "source_output": out[-1500:]})
    ctx.coverage["diagnostics_flags"] = len(flags)


def precedence_diagnostics(ctx: Ctx) -> None:
    """Conflicting pairs on *diagnostics*: `disallow_untyped_defs` said by two rungs of the documented ladder;
    pk/a.py contains an unannotated function, so the error is there iff the higher rung says True."""
    rungs = ["[mypy]", "cli", "pk.*", "*.a", "pk.a", "inline"]
    k = "disallow_untyped_defs"
    jobs = [(lo, hi, v) for lo in range(len(rungs)) for hi in range(lo + 1, len(rungs)) for v in (True, False)]
    if ctx.quick():
        jobs = ctx.rng.sample(jobs, 6)

    def one(job):
        n, (lo, hi, v) = job
        d = os.path.join(ctx.tmp, f"pd{n}")
        os.makedirs(os.path.join(d, "pk"), exist_ok=True)
        say = {rungs[hi]: v, rungs[lo]: not v}
        head = f"# mypy: {k.replace('_', '-')}={say['inline']}" if "inline" in say else "# witness"
        for rel, txt in (("pk/__init__.py", ""), ("pk/a.py", head + "\ndef f(x):\n    return x\n"), ("pk/b.py", "y = 1\n")):
            with open(os.path.join(d, rel), "w") as fh:
                fh.write(txt)
        text = ini_text([(k, str(say["[mypy]"]))] if "[mypy]" in say else [],
                        [(p, [(k, str(say[p]))]) for p in ("pk.*", "*.a", "pk.a") if p in say])
        with open(os.path.join(d, "mypy.ini"), "w") as fh:
            fh.write(text)
        cli = [{True: "--disallow-untyped-defs", False: "--allow-untyped-defs"}[say["cli"]]] if "cli" in say else []
        out = run_mypy(d, cli, os.devnull)
        return (lo, hi, v, text, cli, head, out)

    with ThreadPoolExecutor(max_workers=6) as exr:
        res = list(exr.map(one, enumerate(jobs)))
    for lo, hi, v, text, cli, head, out in res:
        ctx.case(("PREC-DIAG", rungs[lo], rungs[hi], v))
        ctx.dist("precedence_diagnostics_pair", f"{rungs[hi]} over {rungs[lo]}")
        got = "pk/a.py:2: error: Function is missing a type annotation" in out
        if got != v:
            report(ctx, {"class": "precedence", "higher": rungs[hi], "lower": rungs[lo], "option": k, "level": "diagnostics"},
                   f"{k}: {rungs[hi]} says {v}, {rungs[lo]} says {not v}; pk/a.py is {'reported' if got else 'not reported'}",
                   {"kind": "precedence-diagnostics", "config_text": text, "cli": cli, "header": head, "output": out})


def findings_on_diagnostics(ctx: Ctx) -> None:
    """The defects found by this check shown on diagnostics (so that a finding is about behaviour, not only
    about an Options snapshot); (1) was repaired by 9b531e7 and must stay repaired."""
    d = os.path.join(ctx.tmp, "find")
    os.makedirs(os.path.join(d, "pk"), exist_ok=True)
    files = {"pk/__init__.py": "", "pk/lib.py": "from typing_extensions import deprecated\nclass C:\n    @deprecated('x')\n    def m(self) -> None: ...\n",
             "pk/a.py": "from pk.lib import C\nC().m()\ndef f(x):\n    return x\n", "pk/b.py": "def g(x):\n    return x\n"}
    for rel, txt in files.items():
        with open(os.path.join(d, rel), "w") as fh:
            fh.write(txt)
    # (1) deprecated_calls_exclude
    cli = run_mypy(d, ["--config-file=", "--enable-error-code", "deprecated", "--deprecated-calls-exclude", "pk.lib"], ".c1")
    with open(os.path.join(d, "mypy.ini"), "w") as fh:
        fh.write("[mypy]\nenable_error_code = deprecated\ndeprecated_calls_exclude = pk.lib\n")
    ini = run_mypy(d, [], ".c2")
    os.remove(os.path.join(d, "mypy.ini"))
    ctx.case(("FIND", "deprecated_calls_exclude"))
    if cli != ini:
        report(ctx, {"class": "source-inequivalent", "option": "deprecated_calls_exclude", "source": "ini"},
                   "--deprecated-calls-exclude pk.lib silences the deprecation error, `deprecated_calls_exclude = pk.lib` in "
                   "mypy.ini does not (the value is split into characters)",
                   {"kind": "finding-diagnostics", "files": files, "cli": ["--enable-error-code", "deprecated", "--deprecated-calls-exclude", "pk.lib"],
                    "config_text": "[mypy]\nenable_error_code = deprecated\ndeprecated_calls_exclude = pk.lib\n", "cli_output": cli, "ini_output": ini})
    # (2) per-module strict
    with open(os.path.join(d, "mypy.ini"), "w") as fh:
        fh.write("[mypy]\n[mypy-pk.a]\nstrict = True\n")
    strict = run_mypy(d, [], ".c3")
    with open(os.path.join(d, "mypy.ini"), "w") as fh:
        fh.write("[mypy]\n[mypy-pk.a]\ndisallow_untyped_defs = True\n")
    single = run_mypy(d, [], ".c4")
    os.remove(os.path.join(d, "mypy.ini"))
    # (3) a pattern named by two ini sections
    with open(os.path.join(d, "mypy.ini"), "w") as fh:
        fh.write("[mypy]\n[mypy-pk.a,pk.b]\ndisallow_untyped_defs = True\n[mypy-pk.a]\nwarn_return_any = True\n")
    dup_ini = run_mypy(d, [], ".c5")
    os.remove(os.path.join(d, "mypy.ini"))
    with open(os.path.join(d, "pyproject.toml"), "w") as fh:
        fh.write('[tool.mypy]\n[[tool.mypy.overrides]]\nmodule = ["pk.a", "pk.b"]\ndisallow_untyped_defs = true\n'
                 '[[tool.mypy.overrides]]\nmodule = "pk.a"\nwarn_return_any = true\n')
    dup_toml = run_mypy(d, [], ".c6")
    os.remove(os.path.join(d, "pyproject.toml"))
    ctx.case(("FIND", "duplicate pattern"))
    if dup_ini != dup_toml:
        report(ctx, {"class": "duplicate-pattern-settings-lost", "source": "ini"},
               "[mypy-pk.a,pk.b] disallow_untyped_defs=True + [mypy-pk.a] warn_return_any=True: mypy.ini does not report pk/a.py, "
               "the same tables in pyproject.toml do",
               {"kind": "finding-diagnostics", "files": files, "config_text": "[mypy]\n[mypy-pk.a,pk.b]\ndisallow_untyped_defs = True\n[mypy-pk.a]\nwarn_return_any = True\n",
                "ini_output": dup_ini, "toml_output": dup_toml})
    ctx.case(("FIND", "per-module strict"))
    if "pk/b.py" in strict and "pk/b.py" not in single:
        report(ctx, {"class": "per-module-leaks-global", "key": "strict"},
                   "`strict = True` in [mypy-pk.a] makes pk/b.py strict as well",
                   {"kind": "finding-diagnostics", "files": files, "config_text": "[mypy]\n[mypy-pk.a]\nstrict = True\n", "output": strict})
