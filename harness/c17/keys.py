"""C17 correspondence (b): key resolution, flag inversion, inline-comment merging, command line over config.

Real `config_parser.parse_section`, `main.invert_flag_name`, `config_parser.parse_mypy_comments`,
`main.process_options` (in-process) against the Lean model (`Driver/C17.lean` commands K, I, M, P).
"""
from __future__ import annotations

import configparser
import contextlib
import io
import os

from harness.c17.util import report
from harness.vlib.core import Ctx, ToolFailure
from harness.c17.resolution import corpus, run_driver_sharded, show_val

TRUE_WORDS = ["True", "yes", "1", "on", "TRUE"]
FALSE_WORDS = ["False", "no", "0", "off"]


# ------------------------------------------------------------------------------------------ parse_section
def real_parse(kind: str, key: str, value) -> str:
    """Canonical outcome of parse_section on the one-line section `key = value`."""
    from mypy.config_parser import ini_config_types, parse_section, toml_config_types
    from mypy.options import Options
    err = io.StringIO()
    strict: list[int] = []
    if kind == "toml":
        section = {key: value}
        types = toml_config_types
    else:
        cp = configparser.RawConfigParser()
        cp["d"] = {key: value}
        section = cp["d"]
        types = ini_config_types
    try:
        res, rep = parse_section("", Options(), lambda: strict.append(1), section, types, err)
    except Exception as e:  # a crash is an outcome of its own (the model says `sets … bool=0` for odd types)
        return f"crash {type(e).__name__}"
    res = {k: v for k, v in res.items() if not (k in ("enable_error_code", "disable_error_code") and v == [])}
    if key == "strict" and not err.getvalue():
        return "strict"
    if rep:
        return "report " + ",".join(sorted(rep))
    if len(res) == 1:
        (k, v), = res.items()
        return f"sets {k}={int(v)}" if isinstance(v, bool) else f"sets {k}"
    if err.getvalue().strip():
        return "rejected"
    return "ignored" if not res else "multi " + ",".join(sorted(res))


def model_outcome(line: str) -> str:
    res, _, b = line[len("res="):].rpartition(" bool=")
    if res.startswith("sets "):
        _, k, isb, _inv = res.split(" ")
        if isb == "bool=1":
            return "rejected" if b == "none" else f"sets {b}"
        return f"sets {k}"
    if res.startswith("report "):
        return res
    return res


def key_variants(tables: dict, ctx: Ctx) -> list[tuple[str, str, object, str]]:
    """(kind, key, value, family) for every attribute × every spelling family × several values."""
    out: list[tuple[str, str, object, str]] = []
    attr_ty = {a["name"]: a["ty"] for a in tables["attrs"] if not a["name"].startswith("_")}
    sample_value = {"bool": None, "int": "3", "str": "abc", "list": "a", "none": "abc"}
    typed_value = {"python_version": "3.12", "follow_imports": "skip", "junit_format": "global", "strict": "True",
                   "no_site_packages": "True"}
    rng = ctx.rng

    def add(kind, key, ty, fam):
        if ty == "bool":
            for v in (rng.choice(TRUE_WORDS), rng.choice(FALSE_WORDS)) + (() if key == "strict" else ("maybe",)):
                out.append((kind, key, v if kind == "ini" else (v if v == "maybe" else v in TRUE_WORDS), fam))
        else:
            out.append((kind, key, typed_value.get(key, sample_value.get(ty, "abc")), fam))

    for name, ty in sorted(attr_ty.items()):
        for kind in ("ini", "toml"):
            conv = dict(tables[kind])
            if name in conv:
                add(kind, name, "bool" if conv[name] else "typed", "plain")
            elif ty in ("tuple", "dict", "set", "other"):
                ctx.dist("excluded_keys", f"default of type {ty}, no converter")
                continue
            else:
                add(kind, name, ty, "plain")
            # every inversion family is tried on every name: most must be rejected
            fams = {"no_": "no_" + name, "x_": "x_" + name, "_report": name + "_report", "typo": name + "x"}
            if name.startswith("disallow"):
                fams["allow"] = name[3:]
            if name.startswith("allow"):
                fams["disallow"] = "dis" + name
            if name.startswith("show_"):
                fams["hide_"] = "hide_" + name[5:]
            if name.startswith("hide_"):
                fams["show_"] = "show_" + name[5:]
            for fam, key in fams.items():
                if kind == "toml" and fam in ("x_", "typo"):
                    continue
                add(kind, key, "bool", fam)
    for kind in ("ini", "toml"):
        for k, isbool in tables[kind]:
            if k not in attr_ty:
                add(kind, k, "bool" if isbool else "str", "config_types-only")
        for r in tables["reporters"]:
            out.append((kind, r.replace("-", "_") + "_report", "dir", "report"))
        for k in ("allow_redefinition_new", "no_allow_redefinition_new", "disallow_redefinition_new",
                  "enabled_error_codes", "disabled_error_codes", "strict", "no_strict", "bogus_report", "x_anything",
                  "no_", "allow", "show_", "disallow"):
            add(kind, k, "bool", "special")
    return out


def keys_correspondence(ctx: Ctx, tables: dict) -> None:
    cases = key_variants(tables, ctx)
    lines = []
    for kind, key, value, _ in cases:
        v = value if isinstance(value, str) else ("True" if value else "False")
        lines.append(f"K {kind} {key}={v}")
    model = run_driver_sharded(ctx, lines)
    diffs = []
    for (kind, key, value, fam), mline in zip(cases, model):
        real = real_parse(kind, key, value)
        mo = model_outcome(mline)
        ctx.case(("K", kind, key, str(value)), nontrivial=fam != "plain" or real.startswith("sets"))
        ctx.dist("key_family", fam)
        ctx.dist("key_outcome", real.split(" ")[0].split("=")[0])
        ctx.count("traces_validated_against_impl")
        if real != mo:
            ctx.count("disagreements_checked")
            diffs.append((kind, key, value, fam, real, mo))
    ctx.sample({"key_case": lines[11], "model": model[11]})
    ctx.coverage["key_disagreements"] = len(diffs)
    if diffs:
        # search: every differing key is examined with the property's oracle; the tie itself is reported
        # (without input) only when none of them is a concrete source inequivalence
        seen: set = set()
        concrete = []
        for d in diffs:
            if (d[0], d[1]) not in seen:
                seen.add((d[0], d[1]))
                if keys_search(ctx, tables, *d):
                    concrete.append(d)
        if not concrete:
            kind, key, value, fam, real, mo = diffs[0]
            ctx.violation(f"parse_section correspondence broken on {kind} key `{key} = {value}`: code [{real}] model [{mo}] "
                          f"({len(diffs)} keys differ); no source inequivalence found for any of them",
                          {"broken": "correspondence Driver/C17 `K` vs config_parser.parse_section", "kind": "key",
                           "file_kind": kind, "key": key, "value": str(value), "real": real, "model": mo,
                           "all_differing_keys": sorted({d[1] for d in diffs})[:40]}, found_input=False)


def keys_search(ctx: Ctx, tables: dict, kind: str, key: str, value, fam: str, real: str, mo: str) -> bool:
    """Model ≠ parse_section on a key.  The property speaks about sources agreeing: look for a command-line
    flag whose config spelling this key is, and compare what the two sources set."""
    from harness.c17.sources import flag_table
    for f in flag_table(tables):
        for s in f["long"]:
            if s[2:].replace("-", "_") == key and f["bool"]:
                want = f"sets {f['dest']}={int(f['const'])}"
                got = real_parse(kind, key, "True" if kind == "ini" else True)
                if got != want and not got.startswith("rejected") and not got.startswith("ignored"):
                    report(ctx, {"class": "source-inequivalent", "flag": s, "source": kind},
                               f"command-line flag {s} sets {f['dest']}={f['const']} but the {kind} line `{key} = True` gives [{got}]",
                               {"kind": "key", "file_kind": kind, "key": key, "value": "True", "flag": s, "cli_sets": want, "config_gives": got})
                    return True
                if got != want:
                    report(ctx, {"class": "source-inequivalent", "flag": s, "source": kind},
                               f"command-line flag {s} sets {f['dest']}={f['const']} but the {kind} line `{key} = True` is {got}",
                               {"kind": "key", "file_kind": kind, "key": key, "value": "True", "flag": s, "cli_sets": want, "config_gives": got})
                    return True
    # inversion families are documented for Boolean options: `no_<opt> = v` must set <opt> = not v
    attr_ty = {a["name"]: a["ty"] for a in tables["attrs"]}
    if fam == "no_" and attr_ty.get(key[3:]) == "bool" and key not in attr_ty:
        base = key[3:]
        for word, val in (("True", False), ("False", True)):
            got = real_parse(kind, key, word if kind == "ini" else (word == "True"))
            if got != f"sets {base}={int(val)}":
                report(ctx, {"class": "inversion", "key": key, "source": kind},
                           f"`{key} = {word}` in a {kind} file gives [{got}], documented: {base} = {val}",
                           {"kind": "key", "file_kind": kind, "key": key, "value": word, "documented": f"sets {base}={int(val)}", "config_gives": got})
                return True
    if (fam in ("allow", "disallow")) and key not in attr_ty:
        base = key[3:] if key.startswith("dis") else "dis" + key
        if attr_ty.get(base) == "bool":
            got = real_parse(kind, key, "True" if kind == "ini" else True)
            if got != f"sets {base}=0":
                report(ctx, {"class": "inversion", "key": key, "source": kind},
                           f"`{key} = True` in a {kind} file gives [{got}], documented: {base} = False",
                           {"kind": "key", "file_kind": kind, "key": key, "value": "True", "documented": f"sets {base}=0", "config_gives": got})
                return True
    return False


# ------------------------------------------------------------------------------------------ invert_flag_name
def invert_correspondence(ctx: Ctx, tables: dict) -> None:
    import mypy.main as mm
    flags = sorted({s for f in tables["flags"] for s in f["strings"] if s.startswith("--")})
    flags += ["--a", "--no", "--no-", "--allow", "--allow-", "--show-x-y", "--hide-x", "--disallow-a-b", "--x-no-y", "--nox-y"]
    model = run_driver_sharded(ctx, ["I " + f for f in flags])
    for f, mo in zip(flags, model):
        real = mm.invert_flag_name(f)
        ctx.case(("I", f))
        ctx.count("traces_validated_against_impl")
        if real != mo:
            ctx.count("disagreements_checked")
            # the property: the flag the parser registers as the inverse must resolve, in a config file, to
            # the same option with the opposite value — checked by cli_ini_agree/sources; here only the tie
            ctx.violation(f"invert_flag_name correspondence broken on {f}: code [{real}] model [{mo}]",
                          {"broken": "correspondence Driver/C17 `I` vs main.invert_flag_name", "kind": "invert",
                           "flag": f, "real": real, "model": mo}, found_input=False)
            return


# ------------------------------------------------------------------------------------------ inline merging
INLINE_ATOMS = ["disallow-untyped-defs", "allow-untyped-defs", "no-warn-return-any", "warn-return-any",
                "warn-return-any=False", "ignore-errors", "strict-optional=no", "follow-imports=skip",
                "follow-imports=silent", "always-true=FOO", "disable-error-code=attr-defined",
                "disable-error-code=name-defined", "enable-error-code=attr-defined", "enable-error-code=misc",
                'disable-error-code="misc,attr-defined"', "no-check-untyped-defs", "check_untyped_defs"]


def inline_changes(d: dict) -> str:
    return ",".join(f"{k}={show_val(v)}" for k, v in sorted(d.items()))


def inline_correspondence(ctx: Ctx) -> None:
    from mypy.config_parser import parse_mypy_comments
    from mypy.options import Options
    rng = ctx.rng
    cases = [list(c) for c in corpus().get("inline", [])]
    for _ in range(ctx.pick(300, 3000)):
        nlines = rng.randint(1, 4)
        cases.append([", ".join(rng.sample(INLINE_ATOMS, rng.randint(1, 3))) for _ in range(nlines)])
    lines, reals = [], []
    for c in cases:
        per_line = []
        for ln in c:
            d, _ = parse_mypy_comments([(1, ln)], Options())
            per_line.append(inline_changes(d))
        lines.append("M " + "/".join(per_line))
        d, _errs = parse_mypy_comments(list(enumerate(c, 1)), Options())
        reals.append(inline_changes(d))
    model = run_driver_sharded(ctx, lines)
    for c, ln, real, mo in zip(cases, lines, reals, model):
        ctx.case(("M", c), nontrivial=len(c) > 1)
        ctx.dist("inline_comment_lines", str(len(c)))
        ctx.count("traces_validated_against_impl")
        if real != mo:
            ctx.count("disagreements_checked")
            # oracle of the property: later comment wins for ordinary options; error-code lists accumulate
            want: dict = {}
            for one in c:
                d, _ = parse_mypy_comments([(1, one)], Options())
                for k, v in d.items():
                    if k in ("enable_error_code", "disable_error_code"):
                        want[k] = sorted(set(want.get(k, [])) | set(v))
                    else:
                        want[k] = v
            if inline_changes(want) != real:
                report(ctx, {"class": "inline-merge", "comments": c},
                           f"inline comments {c} are merged to [{real}], documented (later wins, code lists accumulate): [{inline_changes(want)}]",
                           {"kind": "inline", "comments": c, "real": real, "documented": inline_changes(want)})
            else:
                ctx.violation(f"parse_mypy_comments correspondence broken on {c}: code [{real}] model [{mo}]",
                              {"broken": "correspondence Driver/C17 `M` vs config_parser.parse_mypy_comments",
                               "kind": "inline", "comments": c, "real": real, "model": mo}, found_input=False)
            return
    ctx.sample({"inline_case": lines[0], "model": model[0]})


# ------------------------------------------------------------------------------------------ process_options
P_KEYS = ["warn_return_any", "disallow_untyped_defs", "strict_optional", "hide_error_codes", "show_error_context",
          "disable_error_code", "enable_error_code", "always_true"]
P_CODES = ["attr-defined", "name-defined", "misc"]
P_INI = ["warn_return_any=True", "warn_return_any=no", "no_warn_return_any=True", "disallow_untyped_defs=True",
         "allow_untyped_defs=True", "strict_optional=False", "no_strict_optional=False", "show_error_codes=False",
         "hide_error_codes=True", "show_error_context=True", "no_show_error_context=1",
         "disable_error_code=attr-defined", "disable_error_code=attr-defined+misc", "enable_error_code=attr-defined",
         "enable_error_code=name-defined", "strict=True", "strict=no"]
P_CLI = ["--warn-return-any", "--no-warn-return-any", "--disallow-untyped-defs", "--allow-untyped-defs",
         "--strict-optional", "--no-strict-optional", "--hide-error-codes", "--show-error-codes",
         "--show-error-context", "--hide-error-context", "--disable-error-code=attr-defined",
         "--disable-error-code=misc", "--enable-error-code=attr-defined", "--enable-error-code=name-defined",
         "--always-true=FOO", "--always-true=BAR", "--strict"]


def real_process(ctx: Ctx, ini: list[str], cli: list[str], n: int) -> str:
    import mypy.main as mm
    from mypy.fscache import FileSystemCache
    d = os.path.join(ctx.tmp, "po")
    os.makedirs(d, exist_ok=True)
    src = os.path.join(d, "f.py")
    if not os.path.exists(src):
        open(src, "w").write("x = 1\n")
    cfg = os.path.join(d, f"c{n}.ini")
    with open(cfg, "w") as f:
        f.write("[mypy]\n" + "".join(k.replace("=", " = ", 1).replace("+", ", ") + "\n" for k in ini))
    so, se = io.StringIO(), io.StringIO()
    try:
        with contextlib.redirect_stdout(so):
            _, o = mm.process_options(["--config-file", cfg] + cli + [src], stdout=so, stderr=se, fscache=FileSystemCache())
    except SystemExit:
        return "exit: " + se.getvalue().strip()[:200]
    except Exception as e:
        return f"crash {type(e).__name__}"
    o.process_error_codes(error_callback=lambda m: None)
    vals = " ".join(f"{k}={show_val(getattr(o, k))}" for k in P_KEYS)
    dis = "+".join(c for c in P_CODES if any(e.code == c for e in o.disabled_error_codes))
    en = "+".join(c for c in P_CODES if any(e.code == c for e in o.enabled_error_codes))
    return f"{vals} dis={{{dis}}} en={{{en}}} imi=0"


def process_correspondence(ctx: Ctx) -> None:
    rng = ctx.rng
    cases = [(c["ini"], c["cli"]) for c in corpus().get("process", [])]
    for _ in range(ctx.pick(250, 2500)):
        ini = []
        seen = set()
        for k in rng.sample(P_INI, rng.randint(0, 4)):
            name = k.split("=")[0]
            if name not in seen:       # configparser rejects duplicate keys
                seen.add(name); ini.append(k)
        cli = [rng.choice(P_CLI) for _ in range(rng.randint(0, 4))]
        cases.append((ini, cli))
    lines = ["P %s|%s|%s|%s" % (",".join(i), " ".join(c), ",".join(P_KEYS), ",".join(P_CODES)) for i, c in cases]
    model = run_driver_sharded(ctx, lines)
    for n, ((ini, cli), mo) in enumerate(zip(cases, model)):
        real = real_process(ctx, ini, cli, n % 8)
        ctx.case(("P", ini, cli), nontrivial=bool(ini) and bool(cli))
        ctx.dist("global_sources", f"ini={min(len(ini), 3)} cli={min(len(cli), 3)}")
        ctx.count("traces_validated_against_impl")
        if real != mo:
            ctx.count("disagreements_checked")
            process_search(ctx, ini, cli, real, mo)
            return
    ctx.sample({"process_case": lines[3], "model": model[3]})


def process_search(ctx: Ctx, ini, cli, real, mo) -> None:
    """The documented rule for ordinary options: command line beats `[mypy]`, `[mypy]` beats the default."""
    import mypy.main as mm
    from mypy.options import Options
    parser, _, strict_assign = mm.define_options()
    dflt = Options()
    by_flag = {s: a for a in parser._actions for s in a.option_strings}
    # documented: defaults < strict of [mypy] < explicit keys of [mypy] (either order) < --strict < explicit flags
    want: dict = {}
    if any(real_parse("ini", *i.split("=", 1)) == "strict" and i.split("=", 1)[1].lower() in ("true", "yes", "1", "on") for i in ini):
        want.update(dict(strict_assign))
    for i in ini:
        out = real_parse("ini", *i.split("=", 1))
        if out.startswith("sets ") and "=" in out:
            k, v = out[5:].split("=")
            want[k] = bool(int(v))
    if "--strict" in cli:
        want.update(dict(strict_assign))
    for c in cli:
        a = by_flag.get(c.split("=")[0])
        if a is not None and isinstance(a.const, bool) and not a.dest.startswith("special-opts"):
            want[a.dest] = a.const
    got = dict(kv.split("=", 1) for kv in real.split(" ") if "=" in kv and not kv.startswith(("dis=", "en=", "imi=")))
    for k, v in want.items():
        if k in got and got[k] != show_val(v):
            report(ctx, {"class": "precedence-cli-config", "option": k},
                       f"[mypy] {ini} + command line {cli}: {k} = {got[k]}; documented (explicit settings override strict, "
                       f"command line overrides [mypy]): {show_val(v)}",
                       {"kind": "process", "ini": ini, "cli": cli, "real": real})
            return
    ctx.violation(f"process_options correspondence broken for [mypy] {ini} + command line {cli}: code [{real}] model [{mo}]",
                  {"broken": "correspondence Driver/C17 `P` vs main.process_options", "kind": "process",
                   "ini": ini, "cli": cli, "real": real, "model": mo}, found_input=False)
