"""C17 — configuration sources are equivalent; precedence is as documented.

1. Translator `translate/options.py` → `Gen/Options.lean` (argparse table, Options attributes, converter
   tables, PER_MODULE_OPTIONS … of the *imported* mypy), then `lake build MypyVerif.Props.C17`:
   `resolution_matches_doc`, `structured_inherit`, `glob_correct` (unbounded) and the generated obligations
   `cli_ini_agree`, `toml_ini_same_keys`, `per_module_flags_inline_ok`, … (`decide` over the regenerated table).
2. Correspondence (model driver vs. real code, same generated inputs):
   a. `Options.clone_for_module` on every ordered tuple of ≤ 3 sections of a pattern pool × 44 module names
      (harness/c17/resolution.py), `compile_glob` regex text + matches;
   b. `parse_section` on every attribute × every spelling family, `invert_flag_name`, `parse_mypy_comments`
      merging, `process_options` (command line over `[mypy]`) (harness/c17/keys.py).
3. Search = the property's own oracle on the real tool (harness/c17/sources.py): source equivalence of every
   flag (snapshots; diagnostics on a witness package), locality of per-module sections, conflicting pairs
   against the documented precedence, section tables read back through the real ini/toml parsers.
"""
from __future__ import annotations

import json
import os
import sys

from harness.c17.util import report
from harness.vlib.core import Ctx, REPO, ToolFailure, VERIF

MODEL_FILES = ["MypyVerif/Model/Config.lean", "MypyVerif/Model/ConfigTable.lean", "MypyVerif/Proofs/Config.lean",
               "MypyVerif/Proofs/ConfigCache.lean", "MypyVerif/Proofs/ConfigChain.lean",
               "MypyVerif/Proofs/ConfigStrings.lean"]

def translate(ctx: Ctx) -> dict:
    sys.path.insert(0, VERIF)
    from translate import options as tr
    try:
        tables = tr.collect()
        tr.selftest(tables)
        changed = tr.write_if_changed(tr.OUT, tr.render(tables))
    except AssertionError as e:
        raise ToolFailure(f"translate.options self-test failed: {e}")
    ctx.coverage["translator"] = {"file": "lean/MypyVerif/Gen/Options.lean", "updated": changed,
                                  "argparse_actions": len(tables["flags"]), "options_attributes": len(tables["attrs"]),
                                  "ini_keys": len(tables["ini"]), "per_module": len(tables["per_module"])}
    ctx.sample({"generated_lean_snippet": tr.render(tables).split("def flags")[1][:420]})
    return tables


def obligations_search(ctx: Ctx, tables: dict) -> bool:
    """The Lean build failed.  Ask the model which generated obligation is violated by which flag/option, and
    look for a concrete source inequivalence on the real tool for exactly those.  Returns True when a
    concrete failing input was reported."""
    from harness.c17 import sources
    ok, log = ctx.lean_build(["MypyVerif.Model.ConfigTable"])
    if not ok:
        return False
    line = ctx.lean_driver("Driver/C17.lean", ["F"])[0]
    failing: dict[str, list[str]] = {}
    for part in line.split(" "):
        name, _, rest = part.partition(":[")
        items = [x for x in rest.rstrip("]").split(",") if x]
        if items:
            failing[name] = items
    ctx.coverage["violated_obligations"] = failing
    before = len(ctx.violations) + len(ctx.known_hits)
    flags = {s for k in ("cli_ini_agree", "dest_settable") for item in failing.get(k, []) for s in item.split("/") if s.startswith("--")}
    # a list-valued option without a converter: compare the flag that sets it with the config-file spelling
    untyped = set(failing.get("list_options_typed", []))
    flags |= {s for f in tables["flags"] if f["dest"] in untyped for s in f["strings"] if s.startswith("--")}
    if flags:
        sources.source_equivalence(ctx, tables, only_flags=flags)
        if len(ctx.violations) + len(ctx.known_hits) == before:
            # the flag spelling itself: `--x-y` on the command line vs `x_y = True` in mypy.ini
            w = sources.Work(ctx, "obl")
            for fl in sorted(flags):
                cli, _ = w.options([fl])
                ini, err = w.options([], "mypy.ini", sources.ini_text([(fl[2:].replace("-", "_"), "True")]))
                d = sources.diff_snap(sources.snap(cli), sources.snap(ini))
                if d or "Unrecognized" in err:
                    report(ctx, {"class": "source-inequivalent", "flag": fl, "source": "ini"},
                               f"{fl} on the command line vs `{fl[2:].replace('-', '_')} = True` in mypy.ini: {d} {err[:200]}",
                               {"kind": "equivalence", "flag": fl, "cli": [fl], "config_name": "mypy.ini",
                                "config_text": sources.ini_text([(fl[2:].replace('-', '_'), 'True')]), "difference": d, "messages": err})
    for key in failing.get("toml_ini_same_keys", []):
        from harness.c17.keys import real_parse
        for v in ("True", "abc", "a, b"):
            a, b = real_parse("ini", key, v), real_parse("toml", key, v)
            if a != b:
                report(ctx, {"class": "source-inequivalent", "option": key, "source": "toml"},
                           f"`{key} = {v}`: mypy.ini gives [{a}], pyproject.toml gives [{b}]",
                           {"kind": "key-both", "key": key, "value": v, "ini": a, "toml": b})
                break
    for key in failing.get("per_module_flags_inline_ok", []):
        from harness.c17.keys import real_parse
        got = real_parse("ini", key, "True")
        if not got.startswith("sets " + key):
            report(ctx, {"class": "per-module-option-not-settable", "option": key},
                       f"per-module option {key} cannot be set in a section / inline comment: parse_section gives [{got}]",
                       {"kind": "key", "file_kind": "ini", "key": key, "value": "True", "config_gives": got})
    return len(ctx.violations) + len(ctx.known_hits) > before


def main(ctx: Ctx) -> None:
    from harness.c17 import keys, resolution, sources, values
    ctx.level = "proof"
    ctx.coverage["rule"] = (
        "resolution: every ordered tuple of ≤ 3 distinct section patterns from a pool (12 fixed + seeded sample of the "
        "shapes concrete / foo.* / foo.bar.* / foo.*.bar / *.bar / odd ones over {a,b,c}) × option-setting schemes × 44 "
        "module names (all names to depth 3, two of depth 4, three wildcard keys); a case is (globals, sections, module), "
        "non-trivial when some section other than an exact-name one applies; keys: every Options attribute × spelling "
        "family × value; equivalence: flag × source; distinct by content.")
    tables = translate(ctx)
    proved = ctx.prove("MypyVerif.Props.C17", MODEL_FILES)
    ctx.trusted("translator translate/options.py (introspects the imported mypy: argparse actions, vars(Options()), "
                "ini/toml converter tables, PER_MODULE_OPTIONS, strict_flag_assignments)",
                "models: Options.compile_glob / apply_changes / build_per_module_cache / clone_for_module, "
                "config_parser.parse_section key resolution, parse_mypy_comments merging, main.invert_flag_name, "
                "process_options' order (config file, then command line)",
                "Python `re` semantics for the fragment compile_glob emits (escaped literals, `.*`, `(\\..*)?`, `\\Z`): "
                "a match exists iff a split exists",
                "hand-written exemption lists in Model/ConfigTable.lean (cliOnlySpellings, specialHandled, cliOnlySettings)",
                "modelled, not verified: value converters of non-Boolean options (compared on the real tool by the search only), "
                "config-file discovery order, toml `overrides` destructuring (exercised by the parsed-sections search)")
    ctx.assume("section patterns have components that are `*` or star-free names with all characters above '.' "
               "(what parse_config_file admits for identifiers); option keys do not start with an underscore")
    ctx.coverage["covered_by_theorem"] = [
        "per-module resolution = documented precedence for every section table, module and option (resolution_matches_doc, "
        "resolution_first_defined, resolution_error_codes, structured_inherit, full_precedence)",
        "compile_glob's regex = component-wise matching on dotted names (glob_correct); section names ↔ component lists (section_names_faithful)",
        "inline comments on top / later comment wins; command line over [mypy] over defaults for store-type flags",
        "multi-entry path values: split, then strip and expand each entry, at every position (convPathList_entries; "
        "not_expand_whole_then_split)",
        "strict inside one source and across sources (strict_explicit_key_wins, strict_expands, cli_strict_over_config_key, "
        "cli_flag_over_strict, strict_source_equiv; strict_opposites_expressible over the regenerated strict list)",
        "over the regenerated tables: cli_ini_agree, dest_settable, toml_ini_same_keys, per_module_flags_inline_ok, strict_flags_ok, "
        "list_options_typed (pre_repair_row_untyped: the row before repair 9b531e7 fails it)"]
    ctx.coverage["validated_by_correspondence"] = [
        "models of clone_for_module / compile_glob / parse_section keys / invert_flag_name / parse_mypy_comments merging / "
        "process_options order vs the real functions, on the generated inputs counted in `distribution`"]
    ctx.coverage["searched_only"] = [
        "value converters of non-Boolean options (one sample value per option: command line vs mypy.ini / setup.cfg / pyproject.toml)",
        "config files read back through configparser / tomllib (section order → dict order, overrides tables)",
        "effect on diagnostics (witness package; sampled flags in the quick tier, all checker flags in the thorough tier)",
        "locality of per-module sections"]
    found = False
    if not proved:
        found = obligations_search(ctx, tables)
    # the correspondence needs the driver, i.e. the model files; they build even when a Props obligation fails
    ok, _ = ctx.lean_build(["MypyVerif.Model.ConfigTable"])
    if ok:
        resolution.resolution_correspondence(ctx)
        resolution.glob_correspondence(ctx)
        values.depth_gaps(ctx)
        keys.keys_correspondence(ctx, tables)
        keys.invert_correspondence(ctx, tables)
        keys.inline_correspondence(ctx)
        keys.process_correspondence(ctx)
        sources.source_equivalence(ctx, tables)
        sources.locality(ctx, tables)
        sources.strict_overrides(ctx, tables)
        sources.precedence_pairs(ctx, tables)
        sources.parsed_sections(ctx)
        sources.section_tables(ctx)
        values.value_conversion(ctx, tables)
        values.target_layering(ctx)
        sources.diagnostics_equivalence(ctx, tables)
        sources.precedence_diagnostics(ctx)
        sources.strict_diagnostics(ctx, tables)
        sources.findings_on_diagnostics(ctx)
    if not proved and not ctx.violations and not found:
        ctx.violation("Lean development for C17 no longer builds against the regenerated option table",
                      {"broken": ctx.broken_ties, "violated_obligations": ctx.coverage.get("violated_obligations")},
                      found_input=False)
    elif not proved and not ctx.violations:
        # only known findings reproduced, yet an obligation is broken: still not shown to hold
        ctx.violation("a generated obligation of C17 is broken", {"broken": ctx.broken_ties,
                      "violated_obligations": ctx.coverage.get("violated_obligations")}, found_input=False)


# ------------------------------------------------------------------------------------------------ replay
def replay(ctx: Ctx, path: str) -> int:
    """Re-run the concrete input of a replay file against the real code and print what it does."""
    from harness.c17 import keys, resolution, sources
    body = json.load(open(path))
    rep = body["replay"]
    det = rep.get("detail", rep)
    kind = det.get("kind")
    print(f"replay of: {body.get('what')}")
    if kind == "resolution":
        g, secs, m = det["global"], [(p, ch) for p, ch in det["sections"]], det["module"]
        print("sections (file order):", secs)
        print("clone_for_module(%r):" % m, resolution.real_clone(g, secs, [m])[0])
        print("documented precedence:", resolution.doc_oracle(g, secs, m))
    elif kind == "glob":
        from mypy.options import Options
        rx = Options().compile_glob(det["pattern"])
        print(f"compile_glob({det['pattern']!r}) = {rx.pattern!r}; match({det['module']!r}) = {bool(rx.match(det['module']))}; "
              f"documented: {resolution.doc_glob_match(det['pattern'], det['module'])}")
    elif kind in ("key", "key-both"):
        for fk in ([det["file_kind"]] if "file_kind" in det else ["ini", "toml"]):
            v = det["value"]
            print(f"parse_section({fk}) `{det['key']} = {v}` →", keys.real_parse(fk, det["key"], v if fk == "ini" else {"True": True, "False": False}.get(v, v)))
        if "cli_sets" in det:
            print("the command-line flag", det.get("flag"), "gives:", det["cli_sets"])
    elif kind == "invert":
        import mypy.main as mm
        print(f"invert_flag_name({det['flag']!r}) = {mm.invert_flag_name(det['flag'])!r}")
    elif kind == "inline":
        from mypy.config_parser import parse_mypy_comments
        from mypy.options import Options
        print(parse_mypy_comments(list(enumerate(det["comments"], 1)), Options()))
        print("documented:", det.get("documented"))
    elif kind == "process":
        print(keys.real_process(ctx, det["ini"], det["cli"], 0))
    elif kind == "depth-gap":
        from harness.c17 import values
        secs = [(p, ch) for p, ch in det["sections"]]
        print("sections (file order; each sets only its own probe option):", secs)
        print(f"clone_for_module({det['module']!r}):", values.gap_real(secs, [det["module"]])[0])
        print("documented (the sections that apply):", det.get("documented"))
    elif kind == "value":
        from harness.c17 import values
        values.replay_value(ctx, det)
    elif kind == "targets":
        from harness.c17 import values
        values.replay_targets(ctx, det)
    elif kind == "strict-override":
        w = sources.Work(ctx, "replay")
        o, err = w.options(det["cli"], det["config_name"], det["config_text"])
        if det["config_name"]:
            print("config file %s:\n%s" % (det["config_name"], det["config_text"]))
        print("command line:", det["cli"])
        print(f"{det['option']} = {getattr(o, det['option']) if o is not None else err}; documented (individual settings override strict; "
              f"command line over config file): {det['documented']}")
    elif kind == "strict-diagnostics":
        d = os.path.join(ctx.tmp, "rp")
        os.makedirs(d, exist_ok=True)
        sources.write_witness(d)
        print("--- command line", det["cli"]); print(sources.run_mypy(d, ["--config-file="] + det["cli"], ".r1"))
        open(os.path.join(d, det["config_name"]), "w").write(det["config_text"])
        print("---", det["config_name"], "\n" + det["config_text"]); print(sources.run_mypy(d, [], ".r2"))
    elif kind == "section-table":
        w = sources.Work(ctx, "replay")
        o, err = w.options([], det["config_name"], det["config_text"])
        print("config file %s:\n%s" % (det["config_name"], det["config_text"]))
        print("per_module_options:", dict(o.per_module_options))
        if "module" in det:
            print(f"module {det['module']}: {det['key']} = {getattr(o.clone_for_module(det['module']), det['key'])}; documented: {det['documented']}")
    elif kind in ("equivalence", "locality", "precedence-pair", "parsed-sections"):
        w = sources.Work(ctx, "replay")
        cli = det.get("cli", [])
        a, ea = w.options(cli) if kind == "equivalence" else (None, "")
        b, eb = w.options([] if kind == "equivalence" else cli, det["config_name"], det["config_text"])
        print("config file %s:\n%s" % (det["config_name"], det["config_text"]))
        if kind == "equivalence":
            print("command line:", cli)
            print("difference (command line, config):", sources.diff_snap(sources.snap(a), sources.snap(b)), ea, eb)
        elif kind == "locality":
            base, _ = w.options([], "mypy.ini", sources.ini_text([]))
            print("global options changed by the per-module section:",
                  sources.diff_snap(sources.snap(base, {"per_module_options"}), sources.snap(b, {"per_module_options"})))
        elif kind == "precedence-pair":
            from mypy.config_parser import parse_mypy_comments
            c = b.clone_for_module("pk.a")
            if det.get("inline"):
                c = c.apply_changes(parse_mypy_comments([(1, det["inline"])], c)[0])
            print(f"command line {cli}; module pk.a is checked with {det['option']} = {getattr(c, det['option'])}; "
                  f"documented: {det['higher']} (says {det['value']}) beats {det['lower']}")
        else:
            b.process_error_codes(error_callback=lambda m: None)
            print("module", det["module"], "→", resolution.render_options(b.clone_for_module(det["module"])))
            print("documented      →", det["documented"])
    elif kind == "equivalence-inline":
        from mypy.config_parser import parse_mypy_comments
        from mypy.options import Options
        print(f"# mypy: {det['comment']} →", parse_mypy_comments([(1, det["comment"])], Options()), "; command line", det["flag"])
        print("difference:", det["difference"])
    elif kind == "diagnostics":
        d = os.path.join(ctx.tmp, "rp")
        os.makedirs(d, exist_ok=True)
        sources.write_witness(d)
        print("--- command line", det["flag"])
        print(sources.run_mypy(d, ["--config-file=", det["flag"]], ".r1"))
        src = det["source"]
        if src == "inline":
            sources.write_witness(d, f"# mypy: {det['flag'][2:]}")
            print("--- inline comment")
            print(sources.run_mypy(d, ["--config-file="], ".r2"))
        else:
            text = sources.toml_text([(det["dest"], det["const"])]) if src.endswith(".toml") else sources.ini_text([(det["dest"], str(det["const"]))])
            open(os.path.join(d, src), "w").write(text)
            print("---", src, "\n" + text)
            print(sources.run_mypy(d, [], ".r3"))
    elif kind == "precedence-diagnostics":
        d = os.path.join(ctx.tmp, "rp")
        os.makedirs(os.path.join(d, "pk"), exist_ok=True)
        for rel, txt in (("pk/__init__.py", ""), ("pk/a.py", det["header"] + "\ndef f(x):\n    return x\n"), ("pk/b.py", "y = 1\n")):
            open(os.path.join(d, rel), "w").write(txt)
        open(os.path.join(d, "mypy.ini"), "w").write(det["config_text"])
        print("--- mypy.ini\n" + det["config_text"] + "--- pk/a.py starts with: " + det["header"] + "\n--- command line", det["cli"])
        print(sources.run_mypy(d, det["cli"], os.devnull))
    elif kind == "finding-diagnostics":
        d = os.path.join(ctx.tmp, "rp")
        for rel, txt in det["files"].items():
            os.makedirs(os.path.dirname(os.path.join(d, rel)), exist_ok=True)
            open(os.path.join(d, rel), "w").write(txt)
        if det.get("cli"):
            print("--- command line", det["cli"]); print(sources.run_mypy(d, ["--config-file="] + det["cli"], ".r4"))
        open(os.path.join(d, "mypy.ini"), "w").write(det["config_text"])
        print("--- mypy.ini\n" + det["config_text"]); print(sources.run_mypy(d, [], ".r5"))
    else:
        print(json.dumps(rep, indent=1)[:4000])
        print("(no concrete input in this replay: it names the obligation / correspondence that no longer checks)")
    return 0
