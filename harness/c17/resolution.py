"""C17 correspondence (a): per-module resolution.

Real `Options.clone_for_module` / `compile_glob` (in-process, the tree named by VERIF_REPO) against the Lean
model (`Driver/C17.lean`, commands `C` and `G`) on an exhaustive bounded enumeration of section sets, and
the property's own oracle (`doc_oracle`: an independent, direct Python transcription of the documented
precedence list) for the failing-input search.
"""
from __future__ import annotations

import itertools
import re
from concurrent.futures import ThreadPoolExecutor

from harness.c17.util import report
from harness.vlib.core import Ctx, ToolFailure

# the two error codes the enumeration uses (must be real error-code names: apply_changes indexes error_codes)
CODES = ["attr-defined", "name-defined"]
# ordinary options: a string-valued one that every section sets to its own marker, and two Booleans
K_MARK = "follow_imports"
K_A = "disallow_untyped_defs"
K_B = "warn_return_any"
K_IMI = "ignore_missing_imports"
KEYS = [K_MARK, K_A, K_B, "disable_error_code", "enable_error_code"]
NAMES = ["a", "b", "c"]


# ------------------------------------------------------------------------------------------ rendering
def show_val(v) -> str:
    if v is None:
        return "~"
    if v is True:
        return "1"
    if v is False:
        return "0"
    if isinstance(v, (list, tuple)):
        return "[" + "+".join(v) + "]"
    return str(v)


def show_changes(ch: dict) -> str:
    return ",".join(f"{k}={show_val(v)}" for k, v in ch.items())


def case_line(glob: dict, secs: list[tuple[str, dict]], mods: list[str]) -> str:
    return "C %s|%s|%s|%s|%s" % (show_changes(glob), ";".join(f"{p}:{show_changes(ch)}" for p, ch in secs),
                                 ";".join(mods), ",".join(KEYS), ",".join(CODES))


def render_options(o) -> str:
    vals = " ".join(f"{k}={show_val(getattr(o, k))}" for k in KEYS)
    dis = "+".join(c for c in CODES if any(e.code == c for e in o.disabled_error_codes))
    en = "+".join(c for c in CODES if any(e.code == c for e in o.enabled_error_codes))
    return f"{vals} dis={{{dis}}} en={{{en}}} imi={int(bool(o.ignore_missing_imports_per_module))}"


# ------------------------------------------------------------------------------------------ real code
def real_clone(glob: dict, secs: list[tuple[str, dict]], mods: list[str]) -> list[str]:
    from mypy.options import Options
    o = Options()
    o.follow_imports = "g"          # marker of the global options
    o.warn_return_any = False
    for k, v in glob.items():
        setattr(o, k, list(v) if isinstance(v, list) else v)
    o.process_error_codes(error_callback=lambda m: None)
    o.per_module_options = {p: {k: (list(v) if isinstance(v, list) else v) for k, v in ch.items()} for p, ch in secs}
    return [render_options(o.clone_for_module(m)) for m in mods]


def model_globals(glob: dict) -> dict:
    g = {K_MARK: "g", K_A: False, K_B: False}
    g.update(glob)
    return g


# ------------------------------------------------------------------------------------------ oracle
def doc_glob_match(pat: str, mod: str) -> bool:
    """docs/source/config_file.rst: "Stars match zero or more module components" (a leading star stands
    for a non-empty prefix: `*.bar` is a pattern for modules *ending* in `.bar`)."""
    P, M = pat.split("."), mod.split(".")

    def tail(ps, ms) -> bool:
        if not ps:
            return not ms
        if ps[0] == "*":
            return any(tail(ps[1:], ms[i:]) for i in range(len(ms) + 1))
        return bool(ms) and ms[0] == ps[0] and tail(ps[1:], ms[1:])
    if P[0] == "*":
        return any(tail(P[1:], M[i:]) for i in range(1, len(M) + 1))
    return M[0] == P[0] and tail(P[1:], M[1:])


def doc_chain(secs: list[tuple[str, dict]], mod: str) -> list[dict]:
    """Sections that apply to `mod`, lowest precedence first (documented order: concrete > unstructured,
    later in the file wins > structured, more specific wins > global)."""
    d = dict(secs)
    parts = mod.split(".")
    chain = []
    for i in range(1, len(parts) + 1):
        k = ".".join(parts[:i] + ["*"])
        if k in d:
            chain.append(d[k])
    for p, ch in secs:
        if "*" in p[:-1] and doc_glob_match(p, mod):
            chain.append(ch)
    if "*" not in mod and mod in d:
        chain.append(d[mod])
    return chain


def doc_oracle(glob: dict, secs: list[tuple[str, dict]], mod: str) -> str:
    """The documented precedence evaluated directly (independent of both the model and mypy's code)."""
    g = model_globals(glob)
    vals = {k: g.get(k, [] if k.endswith("error_code") else False) for k in KEYS}
    dis = set(g.get("disable_error_code", [])) - set(g.get("enable_error_code", []))
    en = set(g.get("enable_error_code", []))
    imi = False
    for ch in doc_chain(secs, mod):
        for k, v in ch.items():
            if k in vals:
                vals[k] = v
        if ch.get(K_IMI):
            imi = True
        for c in vals["disable_error_code"]:
            dis.add(c); en.discard(c)
        for c in vals["enable_error_code"]:
            en.add(c); dis.discard(c)
    txt = " ".join(f"{k}={show_val(vals[k])}" for k in KEYS)
    return "%s dis={%s} en={%s} imi=%d" % (txt, "+".join(c for c in CODES if c in dis),
                                           "+".join(c for c in CODES if c in en), int(imi))


# ------------------------------------------------------------------------------------------ generators
def all_modules(depth: int, names=NAMES) -> list[str]:
    out = []
    for d in range(1, depth + 1):
        out += [".".join(t) for t in itertools.product(names, repeat=d)]
    return out


def pattern_pool(ctx: Ctx) -> list[tuple[str, str]]:
    """(pattern, shape) — every shape of the design over the 3-name alphabet; the quick tier takes a fixed
    core plus a seeded sample, the thorough tier a much larger sample."""
    core = [("a", "concrete"), ("a.b", "concrete"), ("a.b.c", "concrete"), ("b", "concrete"),
            ("a.*", "foo.*"), ("b.*", "foo.*"),
            ("a.b.*", "foo.bar.*"), ("a.c.*", "foo.bar.*"),
            ("a.*.c", "foo.*.bar"), ("a.*.b", "foo.*.bar"),
            ("*.c", "*.bar"), ("*.b", "*.bar")]
    rest = []
    for x in NAMES:
        rest.append((x, "concrete")); rest.append((x + ".*", "foo.*")); rest.append(("*." + x, "*.bar"))
        for y in NAMES:
            rest.append((f"{x}.{y}", "concrete")); rest.append((f"{x}.{y}.*", "foo.bar.*"))
            rest.append((f"{x}.*.{y}", "foo.*.bar"))
            for z in NAMES:
                rest.append((f"{x}.{y}.{z}", "concrete"))
    rest += [("a.b.c.*", "foo.bar.baz.*"), ("*.b.c", "*.bar.baz"), ("*.b.*", "*.bar.*"), ("a.*.*", "foo.*.*"),
             ("a.*.b.*", "foo.*.bar.*"), ("*.*", "*.*"), ("*", "*"), ("*.*.c", "*.*.bar"), ("a.*.b.c", "foo.*.bar.baz")]
    seen = {p for p, _ in core}
    rest = [r for r in dict.fromkeys(rest) if r[0] not in seen]
    ctx.rng.shuffle(rest)
    return core + rest[: ctx.pick(6, 18)]


def schemes(ctx: Ctx, k: int, exhaustive: bool):
    """How the k sections of a case set their options.  Every section sets the marker option to its own
    name; A (a Boolean) is set by a subset of the sections; B, the error-code lists and
    ignore_missing_imports vary."""
    rng = ctx.rng
    code_opts = [None, [], [CODES[0]], [CODES[1]], [CODES[0], CODES[1]]]
    if exhaustive:
        for mask in range(1 << k):
            for dlist in ([None] * k, [[CODES[0]]] * k):
                yield [{"A": bool(mask >> i & 1), "Aval": i % 2 == 0, "B": None, "D": dlist[i], "E": None, "imi": None}
                       for i in range(k)]
        return
    # two fixed schemes + one random
    yield [{"A": True, "Aval": i % 2 == 0, "B": None, "D": [], "E": [], "imi": None} for i in range(k)]
    yield [{"A": i % 2 == 1, "Aval": True, "B": i == 0, "D": [CODES[0]] if i != 1 else [], "E": [CODES[0]] if i == 1 else [],
            "imi": i == 0} for i in range(k)]
    yield [{"A": rng.random() < 0.6, "Aval": rng.random() < 0.5, "B": rng.choice([None, True, False]),
            "D": rng.choice(code_opts), "E": rng.choice(code_opts), "imi": rng.choice([None, True, False])}
           for i in range(k)]


def section_changes(i: int, sc: dict) -> dict:
    ch: dict = {K_MARK: f"s{i}"}
    if sc["A"]:
        ch[K_A] = sc["Aval"]
    if sc["B"] is not None:
        ch[K_B] = sc["B"]
    if sc["D"] is not None:
        ch["disable_error_code"] = sc["D"]
    if sc["E"] is not None:
        ch["enable_error_code"] = sc["E"]
    if sc["imi"] is not None:
        ch[K_IMI] = sc["imi"]
    return ch


def global_variants(ctx: Ctx):
    rng = ctx.rng
    yield {}
    yield {"disable_error_code": [CODES[0]], "enable_error_code": [CODES[1]]}
    yield {K_A: True, "enable_error_code": [CODES[0]], "disable_error_code": rng.choice([[], [CODES[0]], [CODES[1]]])}


def corpus() -> dict:
    import json, os
    from harness.vlib.core import VERIF
    path = os.path.join(VERIF, "corpus", "c17", "cases.json")
    return json.load(open(path)) if os.path.exists(path) else {}


def generate(ctx: Ctx):
    """Yield (glob, secs, mods, kind).  Corpus first, then exhaustive over ordered tuples of ≤ 3 distinct
    patterns of the pool."""
    for c in corpus().get("resolution", []):
        yield c["global"], [(p, ch) for p, ch in c["sections"]], all_modules(3) + ["a.*", "a.b.*", "a.c.*", "a.b.c.a"], "corpus"
    pool = pattern_pool(ctx)
    shape = dict(pool)
    pats = [p for p, _ in pool]
    mods = all_modules(3) + ["a.*", "a.b.*", "b.*", "a.b.c.a", "a.c.b.c"]
    globs = list(global_variants(ctx))
    n = 0
    for k in (1, 2, 3):
        for combo in itertools.permutations(pats, k):
            exhaustive = k <= 2 and all(p in pats[:12] for p in combo)
            for sc in schemes(ctx, k, exhaustive):
                secs = [(p, section_changes(i, s)) for i, (p, s) in enumerate(zip(combo, sc))]
                yield globs[n % len(globs)], secs, mods, "+".join(sorted(shape[p] for p in combo))
                n += 1


# ------------------------------------------------------------------------------------------ correspondence
def run_driver_sharded(ctx: Ctx, lines: list[str], shards: int = 6) -> list[str]:
    if len(lines) < 200:
        return ctx.lean_driver("Driver/C17.lean", lines)
    size = (len(lines) + shards - 1) // shards
    parts = [lines[i:i + size] for i in range(0, len(lines), size)]
    with ThreadPoolExecutor(max_workers=shards) as ex:
        outs = list(ex.map(lambda p: ctx.lean_driver("Driver/C17.lean", p), parts))
    res = [x for o in outs for x in o]
    if len(res) != len(lines):
        raise ToolFailure(f"driver returned {len(res)} lines for {len(lines)} cases")
    return res


def resolution_correspondence(ctx: Ctx) -> None:
    cases = list(generate(ctx))
    lines = [case_line(model_globals(g), secs, mods) for g, secs, mods, _ in cases]
    model = run_driver_sharded(ctx, lines)
    ndiff = nspecdiff = 0
    for (g, secs, mods, kind), mline in zip(cases, model):
        real = real_clone(g, secs, mods)
        mparts = mline.split(" ; ")
        if len(mparts) != len(mods):
            raise ToolFailure("driver output malformed: " + mline[:200])
        ctx.dist("sections_per_case", str(len(secs)))
        ctx.dist("pattern_shapes", kind)
        for m, r, mp in zip(mods, real, mparts):
            mvals, _, spec = mp.rpartition(" spec=")
            nontrivial = any(p != m for p, _ in secs) and r.split(" ")[0] != f"{K_MARK}=g"
            ctx.case(("C", g, secs, m), nontrivial=nontrivial)
            ctx.count("traces_validated_against_impl")
            if spec == "0":
                nspecdiff += 1     # would contradict the theorem resolution_matches_doc
                ctx.violation("model evaluation disagrees with its own specification (theorem resolution_matches_doc "
                              "instance fails at run time)", {"broken": "Driver/C17 `C` spec= flag", "case": lines[0][:400],
                                                              "module": m}, found_input=False) if nspecdiff == 1 else None
            if r != mvals:
                ndiff += 1
                ctx.count("disagreements_checked")
                if ndiff <= 3:
                    resolution_search(ctx, g, secs, m, r, mvals)
    ctx.sample({"resolution_case": lines[len(lines) // 2][:600], "model": model[len(lines) // 2][:300]})
    ctx.coverage["resolution_disagreements"] = ndiff


def shrink_sections(g, secs, m):
    """Smallest sub-list of sections on which the real resolution still differs from the documented one."""
    cur = list(secs)
    changed = True
    while changed:
        changed = False
        for i in range(len(cur)):
            cand = cur[:i] + cur[i + 1:]
            if cand and real_clone(g, cand, [m])[0] != doc_oracle(g, cand, m):
                cur, changed = cand, True
                break
    return cur


def resolution_search(ctx: Ctx, g, secs, m, real: str, mvals: str) -> None:
    """Model ≠ code on (sections, module).  Decide with the property's own oracle: the documented
    precedence, evaluated directly, on this case and on every sub-list of its sections."""
    if "*" in m:
        # clone_for_module on a wildcard key is internal to the cache construction: look at the modules
        # underneath it instead
        cands = [x for x in all_modules(3) if x.startswith(m[:-1]) or x == m[:-2]]
    else:
        cands = [m]
    for mod in cands:
        if real_clone(g, secs, [mod])[0] != doc_oracle(g, secs, mod):
            small = shrink_sections(g, secs, mod)
            got, want = real_clone(g, small, [mod])[0], doc_oracle(g, small, mod)
            report(ctx, {"class": "precedence", "module": mod, "sections": [p for p, _ in small]},
                       f"clone_for_module('{mod}') with sections {[p for p, _ in small]} gives [{got}], the documented "
                       f"precedence gives [{want}]",
                       {"kind": "resolution", "global": g, "sections": small, "module": mod, "real": got, "documented": want})
            return
    ctx.violation(f"per-module resolution correspondence broken on module '{m}' (model ≠ Options.clone_for_module) but "
                  "the result still equals the documented precedence",
                  {"broken": "correspondence Driver/C17 `C` vs mypy.options.Options.clone_for_module",
                   "kind": "resolution", "global": g, "sections": secs, "module": m, "real": real, "model": mvals},
                  found_input=False)


# ------------------------------------------------------------------------------------------ compile_glob
def glob_correspondence(ctx: Ctx) -> None:
    """compile_glob's regex text and its matches vs. the model's regex, regex matcher and component matcher,
    for every pattern shape × every module to depth 4 (plus non-matching near misses)."""
    from mypy.options import Options
    o = Options()
    pats = sorted({p for p, _ in pattern_pool(ctx)} | {"a.*.b", "*.b", "*.b.*", "a.*.*", "*.*", "a.*.b.*", "*.a.*.b", "ab.*.b", "*.bc"})
    mods = all_modules(3) + [".".join(t) for t in itertools.product(["a", "b"], repeat=4)] + ["ab", "ab.b", "a.bc", "abc.b", "a.ab.b"]
    lines, real = [], []
    for p in pats:
        rx = o.compile_glob(p)
        for m in mods:
            lines.append(f"G {p}|{m}")
            real.append(f"re={rx.pattern} m={int(bool(rx.match(m)))}")
    model = run_driver_sharded(ctx, lines)
    ndiff = 0
    for ln, r, mo in zip(lines, real, model):
        ctx.case(ln, nontrivial="*" in ln.split("|")[0])
        ctx.dist("glob_result", mo.split(" ")[-2] if " " in mo else "?")
        ctx.count("traces_validated_against_impl")
        head, _, c = mo.rpartition(" c=")
        pat, mod = ln[2:].split("|")
        doc = int(doc_glob_match(pat, mod))
        if head != r or str(doc) != c:
            ndiff += 1
            ctx.count("disagreements_checked")
            if ndiff <= 3:
                realm = int(r.rsplit("m=", 1)[1])
                if realm != doc:
                    report(ctx, {"class": "glob", "pattern": pat, "module": mod},
                               f"section pattern '{pat}' {'matches' if realm else 'does not match'} module '{mod}' "
                               f"(regex {r.split(' ')[0][3:]}), the documented rule says the opposite",
                               {"kind": "glob", "pattern": pat, "module": mod, "real": r, "documented_match": doc})
                else:
                    ctx.violation(f"compile_glob correspondence broken on '{pat}' / '{mod}': code [{r}] model [{mo}]",
                                  {"broken": "correspondence Driver/C17 `G` vs Options.compile_glob", "kind": "glob",
                                   "pattern": pat, "module": mod, "real": r, "model": mo}, found_input=False)
    ctx.sample({"glob_case": lines[7], "model": model[7]})
    ctx.coverage["glob_disagreements"] = ndiff
