example : "ab".toList = ['a','b'] := by decide
example : ("ab" ++ ".py") = "ab.py" := by decide
example : "ab".toList.reverse = ['b','a'] := by decide
example : ("ab" < "b") = true := by decide
#check @String.toList_ofList
#check @String.ofList_toList
#check @List.isSuffixOf
#check @String.splitOn
example : ("a.b".splitOn ".") = ["a","b"] := by decide
#eval "a.b.py".splitOn "."
#eval ("abc".toList.isSuffixOf "xabc".toList)
