import MypyVerif.Props.C18
import MypyVerif.Proofs.LayoutFS
open Layout

def P (s : String) : Path := ((s.splitOn "/").filter (· ≠ "")).map String.toList

def n (s : String) : Name := s.toList

def fsW : FS := FS.ofEntries [([n "t", n "p", n "__init__.py"], .file), ([n "t", n "p", n "q", n "x.py"], .file), ([n "t", n "p", n "q", n "x", n "y.py"], .file)]
def oW : Opts := { ns := true, epb := false, mypyPath := [], cwd := [n "t"] }
def argsW : List Path := [[n "t", n "p", n "__init__.py"], [n "t", n "p", n "q", n "x.py"], [n "t", n "p", n "q", n "x", n "y.py"]]

set_option maxRecDepth 100000 in
example : (match createSourceList fsW oW 8 argsW with
   | .ok srcs => !hasDuplicate srcs && srcs.any (fun s => !roundTrips fsW oW srcs s)
   | .error _ => false) = true := by decide
