import MypyVerif.Proofs.LayoutFind
namespace Layout
variable (fs : FS)

/-- **`_find_module` returns the first candidate in its fixed order** — stub-only package, package `__init__.pyi`,
    package `__init__.py`, module `.pyi`, module `.py`: everything before the file it returns does not exist
    (for a verified candidate directory and a last component other than `__init__`). -/
theorem scanDir_found_first {ns : Bool} {bd : Path} {last : Name} {nlev : Nat} {g : Path} (hl : last ≠ sInit)
    (h : scanDir fs ns bd last nlev = .found g) :
    ∃ pre post, pkgFiles bd last ++ modFiles bd last = pre ++ g :: post ∧ ∀ p ∈ pre, fs.isFile p = false := by
  unfold scanDir at h
  split at h
  · next c hc =>
    simp only [Scan.found.injEq] at h
    subst h
    obtain ⟨hpred, as, bs, heq, hnot⟩ := List.find?_eq_some_iff_append.mp hc
    have hmap : (scanCands bd last).map (·.1) = pkgFiles bd last ++ modFiles bd last := by
      simp [scanCands, List.map_map, Function.comp_def]
    refine ⟨as.map (·.1), bs.map (·.1), ?_, ?_⟩
    · rw [← hmap, heq]; simp
    · intro p hp
      rw [List.mem_map] at hp
      obtain ⟨a, ha, rfl⟩ := hp
      have := hnot a ha
      have hv : verifyFrom fs bd.reverse nlev = true := by
        simp only [Bool.and_eq_true, verifyAt_of_ne fs hl] at hpred
        exact hpred.2
      simpa [verifyAt_of_ne fs hl, hv] using this
  · cases h

end Layout
