import MypyVerif.Props.C18
open Layout
#eval (findModulesRecursive fsGood oGood.ns (packageRoots oGood) 8 (pth ["p"])).map (fun e => (e.1.map String.ofList, e.2.map String.ofList, fsGood.isFile e.1, importable e.2, noInnerBase oGood (packageRoots oGood) e.2, topOK fsGood oGood (packageRoots oGood) e.2, fsGood.isDir e.1))
