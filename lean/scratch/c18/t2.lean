open List in
#check @List.dropLast_concat_getLast
#check @List.dropLast_append_getLast?
example (q : List Nat) (h : q ≠ []) : q.dropLast ++ [q.getLast h] = q := by exact?
