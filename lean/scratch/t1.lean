import MypyVerif.Model.Store
open Store
def Below (p : Phys) (t : Tag) : Prop :=
  (∀ d, p.data = some d → d < t) ∧ (∀ a b, p.metaR = some (a, b) → a < t ∧ b < t) ∧ (∀ e, p.metaEx = some e → e < t)
example (d : Option Tag) (m e) (t : Tag) (hb1 : ∀ x, d = some x → x < t) : ∀ x, (Phys.mk d m e).data = some x → x < t + 1 := by
  intro x hx
  have := hb1 x hx
  trace_state
  omega
