import MypyVerif.Model.StubDefault
open StubDefault
example : defaultToks (fun _ => 0) (.float "inf" false) = [.name "inf"] := by decide
example : defaultToks (fun _ => 0) (.unary .not (.int 1)) = [.name "not1"] := by decide
example : defaultToks (fun _ => 0) (.unary .not (.float "1.5" true)) = [.raw "not1.5"] := by decide
example : defaultToks (fun _ => 0) (.bytes ['\\', '\'', '"']) = [.bytes "'\\\\'\"'".toList] := by decide
