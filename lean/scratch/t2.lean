example (l1 l2 : List Nat) (f : Nat → Bool) (p : l1.Perm l2) : l1.any f = l2.any f := p.any_eq
example (l1 l2 : List Nat) (f : Nat → Bool) (p : l1.Perm l2) : (l1.filter f).Perm (l2.filter f) := p.filter f
example (l1 l2 : List Nat) (f : Nat → Bool) (p : l1.Perm l2) : l1.all f = l2.all f := p.all_eq
#check @List.Perm.mem_iff
