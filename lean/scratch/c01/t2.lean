inductive E where
  | lit (n : Nat)
  | call (f : Nat) (args : List E)
deriving Repr, Inhabited

mutual
def E.depth : E → Nat
  | .lit _ => 1
  | .call _ args => 1 + depthL args
def depthL : List E → Nat
  | [] => 0
  | e :: r => max e.depth (depthL r) + 1
end
example : (E.call 0 [.lit 1, .call 1 [.lit 2]]).depth = 5 := by decide

mutual
def ev : Nat → E → Option Nat
  | 0, _ => none
  | n+1, e => match e with
    | .lit k => some k
    | .call _ args => (evs n args).map List.sum
def evs : Nat → List E → Option (List Nat)
  | 0, _ => none
  | n+1, es => match es with
    | [] => some []
    | e :: r => match ev n e with
      | none => none
      | some v => (evs n r).map (v :: ·)
end
example : ev 1000 (.call 0 [.lit 1, .lit 2]) = some 3 := by decide
