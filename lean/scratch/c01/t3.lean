#check @List.getElem?_set_self
#check @List.getElem?_set_ne
#check @List.getElem?_append_left
#check @List.getElem?_append_right
