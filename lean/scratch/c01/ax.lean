import MypyVerif.Props.C01
#print axioms Lang.soundness
#print axioms Lang.soundness_probe
#print axioms Lang.not_soundness_F18
#print axioms Lang.hole_loop_cap
