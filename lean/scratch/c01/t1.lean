inductive E where
  | lit (n : Nat)
  | call (f : Nat) (args : List E)
deriving Repr, Inhabited

mutual
def ev : Nat → E → Option Nat
  | 0, _ => none
  | n+1, e => match e with
    | .lit k => some k
    | .call _ args => (evs n args).map List.sum
def evs : Nat → List E → Option (List Nat)
  | 0, _ => none
  | n+1, es => match es with
    | [] => some []
    | e :: r => match ev n e with
      | none => none
      | some v => (evs n r).map (v :: ·)
end

example : ev 5 (.call 0 [.lit 1, .lit 2]) = some 3 := by decide
theorem t : ∀ n e v, ev n e = some v → ev (n+1) e = some v := by
  intro n; induction n with
  | zero => intro e v h; simp [ev] at h
  | succ n ih => intro e v h; cases e <;> simp_all [ev]; sorry
