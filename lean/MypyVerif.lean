-- Root of the MypyVerif library: every property file is imported here so `lake build` checks all.
import MypyVerif.Props.C16
import MypyVerif.Props.C02
import MypyVerif.Props.C04
import MypyVerif.Props.C09
import MypyVerif.Props.C07
import MypyVerif.Props.C12Mro
import MypyVerif.Props.C12Reach
import MypyVerif.Props.C12Bind
import MypyVerif.Props.C12Fold
import MypyVerif.Props.C11
import MypyVerif.Props.C10
import MypyVerif.Props.C15
import MypyVerif.Props.C17
import MypyVerif.Props.C13
import MypyVerif.Props.C08
import MypyVerif.Props.C06
import MypyVerif.Props.C05
