/-
Model of the *normalisations* both mypy front ends must implement — hand-written, import-free, executable.
(C14: "both parsers mean the same thing".  The grammar of Python is not modelled; what is modelled is the
logic that sits between a parsed signature / comment and mypy's own AST.)

Transcribed from `/repo`:

* `mypy/fastparse.py : ASTConverter.transform_args / make_argument`   → `transformArgs`
  `mypy/fastparse.py : ASTConverter.do_func_def` (the `special_function_elide_names` loop and the
  `arg_names` of the `CallableType`)                                  → `funcDefArgs`, `argNames`
  `mypy/sharedparse.py : argument_elide_name`                         → `elideName`
  `mypy/nodes.py : check_param_names`                                 → `firstDup`
  `mypy/nodes.py : ARG_KINDS` (the integer the native reader indexes) → `Kind.ofIndex`
  (the native front end receives `(name, kind, has_default, pos_only)` per parameter from the external
  `ast_serialize` writer and only re-applies `special_function_elide_names`: `mypy/nativeparse.py :
  read_parameters / read_func_def` — the correspondence check compares what comes out of *both* with this
  model.)
* `mypy/fastparse.py : parse_type_ignore_tag`                         → `parseTag`
* `mypy/util.py : get_mypy_comments`                                  → `mypyComments`

Strings are `List Char` so that everything is structural and `decide` can evaluate the examples.
-/
namespace ParseNorm

/-! ## argument kinds -/

/-- `mypy.nodes.ArgKind`, constructor order = the enum values (ARG_POS = 0 … ARG_NAMED_OPT = 5) -/
inductive Kind where
  | pos | opt | star | named | star2 | namedOpt
deriving Repr, DecidableEq

/-- `ARG_KINDS[i]` — how `nativeparse.read_parameters` turns the serialized integer into a kind -/
def Kind.ofIndex : Nat → Option Kind
  | 0 => some .pos | 1 => some .opt | 2 => some .star | 3 => some .named | 4 => some .star2
  | 5 => some .namedOpt | _ => none

def Kind.index : Kind → Nat
  | .pos => 0 | .opt => 1 | .star => 2 | .named => 3 | .star2 => 4 | .namedOpt => 5

/-- position of a kind in a signature: positional < optional < `*args` < keyword-only < `**kwargs` -/
def Kind.rank : Kind → Nat
  | .pos => 0 | .opt => 1 | .star => 2 | .named => 3 | .namedOpt => 3 | .star2 => 4

abbrev Name := List Char

/-- one `mypy.nodes.Argument`: `variable.name`, `kind`, `pos_only`, `initializer` -/
structure Arg (δ : Type) where
  name : Name
  kind : Kind
  posOnly : Bool
  default : Option δ
deriving Repr, DecidableEq

/-- `ast.arguments` (annotations are irrelevant for the normalisation; defaults are opaque `δ`) -/
structure Arguments (δ : Type) where
  posonlyargs : List Name
  args : List Name
  vararg : Option Name
  kwonlyargs : List Name
  kwDefaults : List (Option δ)
  kwarg : Option Name
  defaults : List δ
deriving Repr

/-- what CPython's parser guarantees about an `ast.arguments` node -/
def Arguments.WF {δ : Type} (a : Arguments δ) : Prop :=
  a.defaults.length ≤ a.posonlyargs.length + a.args.length ∧ a.kwDefaults.length = a.kwonlyargs.length

instance {δ : Type} (a : Arguments δ) : Decidable a.WF := by unfold Arguments.WF; infer_instance

/-! ## `argument_elide_name` -/

def startsDunder : Name → Bool
  | a :: b :: _ => a == '_' && b == '_'
  | _ => false

def endsDunder : Name → Bool
  | [] => false
  | [_] => false
  | [a, b] => a == '_' && b == '_'
  | _ :: b :: c :: r => endsDunder (b :: c :: r)

/-- `name is not None and name.startswith("__") and not name.endswith("__")` -/
def elideName (n : Name) : Bool := startsDunder n && !endsDunder n

/-! ## `transform_args` -/

/-- `make_argument(a, default, kind, no_type_check, pos_only)` (the `Argument` it builds): the legacy
    `__x` convention is applied to *every* parameter, whatever its kind -/
def mkArg {δ : Type} (n : Name) (d : Option δ) (k : Kind) (posOnly : Bool) : Arg δ :=
  { name := n, kind := k, posOnly := posOnly || elideName n, default := d }

/-- what the native front end delivers (observed; the writer is the external `ast_serialize`): the `__x`
    convention only for positional parameters (`ARG_POS` / `ARG_OPT`) -/
def mkArgNative {δ : Type} (n : Name) (d : Option δ) (k : Kind) (posOnly : Bool) : Arg δ :=
  { name := n, kind := k, posOnly := posOnly || (elideName n && (k == .pos || k == .opt)), default := d }

/-- `[f(i, x) for i, x in enumerate(xs, start)]` -/
def mapIdxFrom {α β : Type} (f : Nat → α → β) : Nat → List α → List β
  | _, [] => []
  | i, x :: xs => f i x :: mapIdxFrom f (i + 1) xs

def optArg {δ : Type} (mk : Name → Option δ → Kind → Bool → Arg δ) (o : Option Name) (k : Kind) : List (Arg δ) :=
  match o with
  | none => []
  | some n => [mk n none k false]

def kwKind {δ : Type} (kd : Option δ) : Kind :=
  match kd with
  | none => .named
  | some _ => .namedOpt

/-- `ASTConverter.transform_args`, with the `Argument` constructor as a parameter.  `num_no_defaults` is a
    Python `int`; under `Arguments.WF` (always true of a node CPython produced) it is non-negative and `Nat`
    subtraction is exact. -/
def transformArgsWith {δ : Type} (mk : Name → Option δ → Kind → Bool → Arg δ) (a : Arguments δ) : List (Arg δ) :=
  let argsArgs := a.posonlyargs ++ a.args
  let nPosOnly := a.posonlyargs.length
  let numNoDefaults := argsArgs.length - a.defaults.length
  -- positional arguments without defaults
  mapIdxFrom (fun i n => mk n none .pos (decide (i < nPosOnly))) 0 (argsArgs.take numNoDefaults)
  -- positional arguments with defaults
  ++ mapIdxFrom (fun i (nd : Name × δ) => mk nd.1 (some nd.2) .opt (decide (numNoDefaults + i < nPosOnly))) 0
       ((argsArgs.drop numNoDefaults).zip a.defaults)
  -- *arg
  ++ optArg mk a.vararg .star
  -- keyword-only arguments (with and without defaults)
  ++ (a.kwonlyargs.zip a.kwDefaults).map (fun (nk : Name × Option δ) => mk nk.1 nk.2 (kwKind nk.2) false)
  -- **kwarg
  ++ optArg mk a.kwarg .star2

/-- the default front end: `ASTConverter.transform_args` -/
def transformArgs {δ : Type} (a : Arguments δ) : List (Arg δ) := transformArgsWith mkArg a

/-- the native front end (as observed through `nativeparse.read_parameters`) -/
def transformArgsNative {δ : Type} (a : Arguments δ) : List (Arg δ) := transformArgsWith mkArgNative a

/-- `do_func_def` / `read_func_def`: `if special_function_elide_names(name): for arg in args: arg.pos_only = True`
    (`special` = the function's name is in `MAGIC_METHODS_POS_ARGS_ONLY` [and, in fastparse only,
    `options.pos_only_special_methods`]) -/
def funcDefArgs {δ : Type} (special : Bool) (args : List (Arg δ)) : List (Arg δ) :=
  if special then args.map (fun x => { x with posOnly := true }) else args

/-- `arg_names = [None if arg.pos_only else arg.variable.name for arg in args]` -/
def argNames {δ : Type} (args : List (Arg δ)) : List (Option Name) :=
  args.map (fun x => if x.posOnly then none else some x.name)

/-- `check_param_names`: index of the first name that was seen before (the `fail` … `break`) -/
def firstDupFrom (seen : List Name) : Nat → List Name → Option Nat
  | _, [] => none
  | i, n :: ns => if n ∈ seen then some i else firstDupFrom (n :: seen) (i + 1) ns

def firstDup (names : List Name) : Option Nat := firstDupFrom [] 0 names

/-! ## `parse_type_ignore_tag` -/

/-- `Py_UNICODE_ISSPACE` — what `str.strip()` strips and `\s` matches on `str` patterns -/
def isSpace (c : Char) : Bool :=
  let n := c.toNat
  (decide (0x09 ≤ n) && decide (n ≤ 0x0D)) || (decide (0x1C ≤ n) && decide (n ≤ 0x20)) || n == 0x85 || n == 0xA0 ||
  n == 0x1680 || (decide (0x2000 ≤ n) && decide (n ≤ 0x200A)) || n == 0x2028 || n == 0x2029 || n == 0x202F ||
  n == 0x205F || n == 0x3000

def lstrip (s : List Char) : List Char := s.dropWhile isSpace

def rstrip : List Char → List Char
  | [] => []
  | c :: cs =>
    match rstrip cs with
    | [] => if isSpace c then [] else [c]
    | r :: rs => c :: r :: rs

def strip (s : List Char) : List Char := rstrip (lstrip s)

/-- `s.split(sep)` for a one-character separator (never returns the empty list) -/
def splitOn (sep : Char) : List Char → List (List Char)
  | [] => [[]]
  | c :: cs =>
    if c = sep then [] :: splitOn sep cs
    else match splitOn sep cs with
      | [] => [[c]]
      | h :: t => (c :: h) :: t

/-- `[stripped for code in group1.split(",") if (stripped := code.strip())]` -/
def codes (body : List Char) : List (List Char) :=
  ((splitOn ',' body).map strip).filter (fun c => !c.isEmpty)

def notNewline (c : Char) : Bool := c != '\n'
def inBody (c : Char) : Bool := c != ']' && c != '#'

/-- the rest of the pattern after `\]\s*`: `(#.*)?$` — `.` does not match a newline, `$` matches at the
    end and just before a final newline -/
def tailOk : List Char → Bool
  | [] => true
  | c :: r =>
    if c = '#' then
      match r.dropWhile notNewline with
      | [] => true
      | [_] => true
      | _ :: _ :: _ => false
    else false

/-- `re.match(r"\s*\[([^]#]*)\]\s*(#.*)?$", tag)` → `group(1)` -/
def matchBracket (tag : List Char) : Option (List Char) :=
  match lstrip tag with
  | [] => none
  | c :: r =>
    if c = '[' then
      match r.dropWhile inBody with
      | [] => none
      | c' :: t => if c' = ']' ∧ tailOk (lstrip t) = true then some (r.takeWhile inBody) else none
    else none

/-- `parse_type_ignore_tag(tag)`: `some []` = ignore everything, `some codes`, `none` = invalid comment -/
def parseTag (tag : Option (List Char)) : Option (List (List Char)) :=
  match tag with
  | none => some []
  | some t =>
    if t.isEmpty || (strip t).isEmpty || (strip t).head? == some '#' then some []
    else (matchBracket t).map codes

/-! ## `get_mypy_comments` -/

def mypyPrefix : List Char := ['#', ' ', 'm', 'y', 'p', 'y', ':', ' ']

/-- `line.startswith(PREFIX)` → `line[len(PREFIX):]` -/
def stripPrefix : List Char → List Char → Option (List Char)
  | [], l => some l
  | _ :: _, [] => none
  | p :: ps, c :: cs => if p = c then stripPrefix ps cs else none

def collectFrom : Nat → List (List Char) → List (Nat × List Char)
  | _, [] => []
  | i, l :: ls =>
    match stripPrefix mypyPrefix l with
    | some rest => (i, rest) :: collectFrom (i + 1) ls
    | none => collectFrom (i + 1) ls

/-- `get_mypy_comments(source)`: `(1-based line, text after "# mypy: ")` for every line of
    `source.split("\n")` that starts with the prefix.  (The `if PREFIX not in source: return []` shortcut is
    an optimisation: a line that starts with the prefix contains it.) -/
def mypyComments (source : List Char) : List (Nat × List Char) :=
  collectFrom 1 (splitOn '\n' source)

/-! ## module-level `# type: ignore`  (`ASTConverter.visit_Module` / `translate_stmt_list`) -/

/-- what `translate_stmt_list(ismodule=True)` looks at in `stmts[0]`: its `lineno`, and — for a
    FunctionDef / AsyncFunctionDef / ClassDef with a non-empty `decorator_list` — the line of the first decorator -/
structure FirstStmt where
  line : Nat
  firstDecoratorLine : Option Nat
deriving Repr, DecidableEq

/-- `ASTConverter.get_lineno`: a decorated definition *starts* at its first decorator (since Python 3.8 the
    node's own `lineno` is the line of the `def` / `class` keyword) -/
def getLineno (s : FirstStmt) : Nat :=
  match s.firstDecoratorLine with
  | some d => d
  | none => s.line

abbrev Codes := List (List Char)

/-- `visit_Module`: `self.type_ignores[ti.lineno] = parsed` for every valid tag; the lines whose tag is invalid
    get the 'Invalid "type: ignore" comment' error instead -/
def buildIgnores : List (Nat × Option (List Char)) → List (Nat × Codes) × List Nat
  | [] => ([], [])
  | (l, tag) :: r =>
    match parseTag tag, buildIgnores r with
    | some cs, (ign, bad) => ((l, cs) :: ign.filter (fun p => p.1 != l), bad)
    | none, (ign, bad) => (ign, l :: bad)

/-- `min(self.type_ignores)` -/
def minLine : List (Nat × Codes) → Option Nat
  | [] => none
  | p :: r =>
    match minLine r with
    | none => some p.1
    | some m => some (if p.1 ≤ m then p.1 else m)

def lookupLine (l : Nat) : List (Nat × Codes) → Option Codes
  | [] => none
  | p :: r => if p.1 = l then some p.2 else lookupLine l r

structure ModuleIgnore where
  /-- the whole body is wrapped in one block marked unreachable (nothing in the module is checked) -/
  wholeModule : Bool
  /-- `TYPE_IGNORE_WITH_ERRCODE_ON_MODULE` is reported at this line with these codes -/
  errCodes : Option (Nat × Codes)
  /-- `MypyFile.ignored_lines` -/
  ignores : List (Nat × Codes)
deriving Repr, DecidableEq

/-- `translate_stmt_list(stmts, ismodule=True)`: a `# type: ignore` comment **before the first statement**
    (decorator-aware: `get_lineno`) ignores the whole module; only the first such comment is consumed
    (`self.type_ignores.pop(first)`), with an error if it carries codes -/
def moduleIgnore (ign : List (Nat × Codes)) (first : Option FirstStmt) : ModuleIgnore :=
  match first, minLine ign with
  | some s, some m =>
    if m < getLineno s then
      { wholeModule := true,
        errCodes := match lookupLine m ign with
          | some (c :: cs) => some (m, c :: cs)
          | _ => none,
        ignores := ign.filter (fun p => p.1 != m) }
    else { wholeModule := false, errCodes := none, ignores := ign }
  | _, _ => { wholeModule := false, errCodes := none, ignores := ign }

/-! ## skipped lines of statically unreachable blocks (`SemanticAnalyzerPreAnalysis.visit_block`) -/

/-- an unreachable `Block`: `b.line`, `b.end_line` -/
structure BlockSpan where
  line : Nat
  endLine : Nat
deriving Repr, DecidableEq

/-- `set(range(b.line, b.end_line + 1))` -/
def blockLines (b : BlockSpan) : List Nat := List.range' b.line (b.endLine + 1 - b.line)

/-- `file.skipped_lines`: the union over the (outermost) unreachable blocks — on these lines a `# type: ignore` is
    never reported as unused -/
def skippedLines (bs : List BlockSpan) : List Nat := bs.flatMap blockLines

end ParseNorm
