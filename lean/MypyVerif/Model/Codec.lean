import MypyVerif.Gen.CodecConsts
/-!
# Model of mypy's fixed-format (binary) cache serialisation — C11

Hand-written, import-free (core Lean + the generated constants), executable.

Layer 1 — byte-level primitives of `librt.internal`, transcribed from
`mypyc/lib-rt/internal/librt_internal.c`:

  _write_short_int / _read_short_int      ↦ `encShort` / `decShort`
  write_int_internal / _write_long_int    ↦ `encInt`
  read_int_internal                       ↦ `decInt`
  write_str_internal / read_str_internal  ↦ `encStr` / `decStr`   (payload = the UTF-8 bytes)
  write_bytes_internal/read_bytes_internal↦ `encStr` / `decStr`   (same layout)
  write_bool / read_bool                  ↦ `encBool` / `decBool`
  write_float / read_float                ↦ 8 raw bytes (IEEE-754 little endian image)
  write_tag / read_tag                    ↦ one byte

The numeric constants (`MIN_ONE_BYTE_INT` …) come from `Gen/CodecConsts.lean`, regenerated from the C
file on every check.  Bytes are `Nat`s; encoders only emit values < 256; decoders accept any list.

Layer 2 — a codec algebra `C` (what `mypy/cache.py`'s helpers and the `write`/`read` methods of
`nodes.py`/`types.py` are made of) with `enc`/`dec`, recursive references through an environment
(`ref`, unfolded with fuel), named fields, and the relation `sub r w` ("the reader `r` accepts, slot for
slot and name for name, what the writer `w` emits").

Layer 3 — `skip` (`_skip_object`/`_skip_class`, used by `extract_symbol` for lazily deserialised
symbols) and string-keyed maps written in `sorted` key order (`encMap`).
-/
namespace Codec
open K

abbrev Byte := Nat
abbrev Bytes := List Byte

/-! ## Layer 1: primitives -/

/-- `_write_short_int(data, real_value)` — caller guarantees MIN_FOUR ≤ v ≤ MAX_FOUR.
    The arithmetic mirrors the C casts: `(uint8_t)(v - MIN) << 1` stored into a `uint8_t`,
    `((uint16_t)(v - MIN) << 2) | 1` stored little-endian, `((uint32_t)(v - MIN) << 3) | 3`. -/
def encShort (v : Int) : Bytes :=
  if MIN_ONE_BYTE_INT ≤ v ∧ v ≤ MAX_ONE_BYTE_INT then
    [(((v - MIN_ONE_BYTE_INT) % 256) * 2 % 256).toNat]
  else if MIN_TWO_BYTES_INT ≤ v ∧ v ≤ MAX_TWO_BYTES_INT then
    let x := ((((v - MIN_TWO_BYTES_INT) % 65536) * 4 + TWO_BYTES_INT_BIT) % 65536).toNat
    [x % 256, x / 256]
  else
    let x := ((((v - MIN_FOUR_BYTES_INT) % 4294967296) * 8 % 4294967296) + FOUR_BYTES_INT_TRAILER).toNat
    [x % 256, x / 256 % 256, x / 65536 % 256, x / 16777216 % 256]

/-- `_read_short_int(data, first)`; `none` = "reading past the buffer end". -/
def decShort (first : Byte) (bs : Bytes) : Option (Int × Bytes) :=
  if first % 2 = 0 then                       -- (first & TWO_BYTES_INT_BIT) == 0
    some ((first / 2 : Nat) + MIN_ONE_BYTE_INT, bs)
  else if first / 2 % 2 = 0 then              -- (first & FOUR_BYTES_INT_BIT) == 0
    match bs with
    | second :: bs' => some ((second * 64 + first / 4 : Nat) + MIN_TWO_BYTES_INT, bs')
    | [] => none
  else
    match bs with
    | second :: b2 :: b3 :: bs' =>
      some (((b2 + 256 * b3) * 8192 + second * 32 + first / 8 : Nat) + MIN_FOUR_BYTES_INT, bs')
    | _ => none

/-- little-endian base-256 digits of `n`, minimal length (`[]` for 0); `fuel ≥ n` is always enough -/
def natToLEAux : Nat → Nat → Bytes
  | 0, _ => []
  | f + 1, n => if n = 0 then [] else (n % 256) :: natToLEAux f (n / 256)

def natToLE (n : Nat) : Bytes := natToLEAux n n

/-- `_PyLong_FromByteArray(ptr, size, little_endian=1, signed=0)` -/
def leToNat : Bytes → Nat
  | [] => 0
  | b :: bs => b + 256 * leToNat bs

/-- `_write_long_int`: trailer byte, (byte-length << 1 | negative) as a short int, magnitude bytes
    little-endian (the C code walks the hex string backwards two digits at a time). -/
def encLong (v : Int) : Bytes :=
  let mag := natToLE v.natAbs
  LONG_INT_TRAILER.toNat :: (encShort ((mag.length : Int) * 2 + (if v < 0 then 1 else 0)) ++ mag)

def inShort (v : Int) : Bool := decide (MIN_FOUR_BYTES_INT ≤ v) && decide (v ≤ MAX_FOUR_BYTES_INT)

/-- `write_int_internal` -/
def encInt (v : Int) : Bytes := if inShort v then encShort v else encLong v

/-- the writer raises "int too long to serialize" instead of writing when this fails -/
def IntOk (v : Int) : Prop :=
  inShort v = true ∨ ((natToLE v.natAbs).length : Int) * 2 + (if v < 0 then 1 else 0) ≤ MAX_FOUR_BYTES_INT
instance (v : Int) : Decidable (IntOk v) := by unfold IntOk; infer_instance

/-- `read_int_internal` -/
def decInt : Bytes → Option (Int × Bytes)
  | [] => none
  | first :: bs =>
    if (first : Int) ≠ LONG_INT_TRAILER then decShort first bs
    else match bs with
      | [] => none
      | f2 :: bs2 =>
        match decShort f2 bs2 with
        | none => none
        | some (ss, bs3) =>
          if ss < 0 then none                       -- "invalid int data"
          else
            let size := (ss / 2).toNat
            if bs3.length < size then none
            else
              let n : Int := leToNat (bs3.take size)
              some (if ss % 2 = 1 then -n else n, bs3.drop size)

/-- `write_str_internal` / `write_bytes_internal`: length as a short int, then the payload.
    Raises ("str too long to serialize") when the length exceeds MAX_FOUR_BYTES_INT. -/
def encStr (s : Bytes) : Bytes := encShort s.length ++ s

def StrOk (s : Bytes) : Prop := (s.length : Int) ≤ MAX_FOUR_BYTES_INT
instance (s : Bytes) : Decidable (StrOk s) := by unfold StrOk; infer_instance

/-- `read_str_internal` / `read_bytes_internal` (UTF-8 validation of the payload is outside the model) -/
def decStr : Bytes → Option (Bytes × Bytes)
  | [] => none
  | first :: bs =>
    if (first : Int) = LONG_INT_TRAILER then none      -- "invalid str size"
    else match decShort first bs with
      | none => none
      | some (n, bs') =>
        if n < 0 then none
        else if bs'.length < n.toNat then none
        else some (bs'.take n.toNat, bs'.drop n.toNat)

def encBool (b : Bool) : Bytes := [if b then 1 else 0]

def decBool : Bytes → Option (Bool × Bytes)
  | 0 :: bs => some (false, bs)
  | 1 :: bs => some (true, bs)
  | _ => none

def decFloat (bs : Bytes) : Option (Bytes × Bytes) :=
  if bs.length < 8 then none else some (bs.take 8, bs.drop 8)

/-- `write_flags`: bit `i` of the packed int is flag `i` -/
def packFlags : List Bool → Int
  | [] => 0
  | b :: bs => (if b then 1 else 0) + 2 * packFlags bs

/-- `read_flags(data, n)`: `[(packed & (1 << i)) != 0 for i in range(n)]` -/
def unpackFlags : Nat → Int → List Bool
  | 0, _ => []
  | n + 1, p => decide (p % 2 = 1) :: unpackFlags n (p / 2)

/-! ## Layer 2: the codec algebra -/

/-- Codecs.  `unit`/`pair` build sequences (records), `fail`/`alt` build tag-dispatch tables
    (`alt t c rest`: if the next byte is `t`, consume it and continue with `c`, otherwise try `rest`),
    `ref n` is a recursive reference into the environment (a class body), `field` names a slot. -/
inductive C where
  | int | str | bytes | float | bool          -- bare primitives (`write_int_bare`, …, `write_bool`)
  | lit (t : Byte)                             -- a constant byte: `write_tag(data, T)` / `assert read_tag(data) == T`
  | flags (n : Nat)                            -- `write_flags` / `read_flags(data, n)`
  | field (name : String) (c : C)
  | unit
  | pair (a b : C)
  | list (c : C)                               -- bare length, then that many items
  | fail
  | alt (t : Byte) (c : C) (rest : C)
  | ref (n : String)
deriving DecidableEq, Repr, Inhabited

inductive Val where
  | unit
  | int (i : Int) | str (b : Bytes) | bytes (b : Bytes) | float (b : Bytes) | bool (b : Bool)
  | flags (bs : List Bool)
  | fld (name : String) (v : Val)
  | pair (a b : Val)
  | nil | cons (h t : Val)
  | variant (t : Byte) (v : Val)
deriving DecidableEq, Repr, Inhabited

abbrev Env := String → C

def C.seq : List C → C
  | [] => .unit
  | c :: cs => .pair c (C.seq cs)

def C.table : List (Byte × C) → C
  | [] => .fail
  | (t, c) :: r => .alt t c (C.table r)

def Val.seq : List Val → Val
  | [] => .unit
  | v :: vs => .pair v (Val.seq vs)

def Val.ofList : List Val → Val
  | [] => .nil
  | v :: vs => .cons v (Val.ofList vs)

/-- number of items of a `nil`/`cons` chain -/
def Val.len : Val → Nat
  | .cons _ t => t.len + 1
  | _ => 0

def Val.isList : Val → Bool
  | .nil => true
  | .cons _ t => t.isList
  | _ => false

def encItems (f : Val → Bytes) : Val → Bytes
  | .cons h t => f h ++ encItems f t
  | _ => []

def decItems (d : Bytes → Option (Val × Bytes)) : Nat → Bytes → Option (Val × Bytes)
  | 0, bs => some (.nil, bs)
  | n + 1, bs =>
    match d bs with
    | none => none
    | some (v, bs') =>
      match decItems d n bs' with
      | none => none
      | some (vs, bs'') => some (.cons v vs, bs'')

/-- one unfolding level of the writer; `self` writes a referenced class body -/
def encBody (self : String → Val → Bytes) : C → Val → Bytes
  | .int, .int i => encInt i
  | .str, .str s => encStr s
  | .bytes, .bytes s => encStr s
  | .float, .float b => b
  | .bool, .bool b => encBool b
  | .lit t, _ => [t]
  | .flags _, .flags bs => T_LITERAL_INT :: encInt (packFlags bs)
  | .field _ c, .fld _ v => encBody self c v
  | .unit, _ => []
  | .pair a b, .pair x y => encBody self a x ++ encBody self b y
  | .list c, v => encInt v.len ++ encItems (encBody self c) v
  | .alt t c rest, .variant t' v => if t' = t then t :: encBody self c v else encBody self rest (.variant t' v)
  | .ref n, v => self n v
  | _, _ => []

/-- one unfolding level of the reader -/
def decBody (self : String → Bytes → Option (Val × Bytes)) : C → Bytes → Option (Val × Bytes)
  | .int => fun bs => (decInt bs).map fun (i, r) => (.int i, r)
  | .str => fun bs => (decStr bs).map fun (s, r) => (.str s, r)
  | .bytes => fun bs => (decStr bs).map fun (s, r) => (.bytes s, r)
  | .float => fun bs => (decFloat bs).map fun (s, r) => (.float s, r)
  | .bool => fun bs => (decBool bs).map fun (b, r) => (.bool b, r)
  | .lit t => fun bs => match bs with
    | b :: r => if b = t then some (.unit, r) else none
    | [] => none
  | .flags n => fun bs => match bs with
    | b :: r => if b = T_LITERAL_INT then (decInt r).map fun (p, r') => (.flags (unpackFlags n p), r') else none
    | [] => none
  | .field name c => fun bs => (decBody self c bs).map fun (v, r) => (.fld name v, r)
  | .unit => fun bs => some (.unit, bs)
  | .pair a b => fun bs =>
    match decBody self a bs with
    | none => none
    | some (x, r) =>
      match decBody self b r with
      | none => none
      | some (y, r') => some (.pair x y, r')
  | .list c => fun bs =>
    match decInt bs with
    | none => none
    | some (n, r) => if n < 0 then none else decItems (decBody self c) n.toNat r
  | .fail => fun _ => none
  | .alt t c rest => fun bs => match bs with
    | b :: r => if b = t then (decBody self c r).map fun (v, r') => (.variant t v, r') else decBody self rest (b :: r)
    | [] => none
  | .ref n => fun bs => self n bs

/-- the writer with `fuel` levels of class nesting -/
def enc (env : Env) : Nat → C → Val → Bytes
  | 0 => fun _ _ => []
  | f + 1 => encBody (fun n v => enc env f (env n) v)

/-- the reader with `fuel` levels of class nesting -/
def dec (env : Env) : Nat → C → Bytes → Option (Val × Bytes)
  | 0 => fun _ _ => none
  | f + 1 => decBody (fun n bs => dec env f (env n) bs)

/-- the body a dispatch table associates with tag `t` (first match) -/
def C.lookup : C → Byte → Option C
  | .alt t c rest, t' => if t' = t then some c else rest.lookup t'
  | _, _ => none

def C.isTable : C → Bool
  | .fail => true
  | .alt _ _ rest => rest.isTable
  | _ => false

def wtItems (p : Val → Bool) : Val → Bool
  | .nil => true
  | .cons h t => p h && wtItems p t
  | _ => false

/-- one unfolding level of "value `v` is a value of codec `c` that the writer accepts" -/
def wtBody (self : String → Val → Bool) : C → Val → Bool
  | .int, .int i => decide (IntOk i)
  | .str, .str s => decide (StrOk s)
  | .bytes, .bytes s => decide (StrOk s)
  | .float, .float b => b.length == 8
  | .bool, .bool _ => true
  | .lit _, .unit => true
  | .flags n, .flags bs => bs.length == n && decide (n ≤ 26)
  | .field name c, .fld name' v => name == name' && wtBody self c v
  | .unit, .unit => true
  | .pair a b, .pair x y => wtBody self a x && wtBody self b y
  | .list c, v => decide ((v.len : Int) ≤ MAX_FOUR_BYTES_INT) && wtItems (wtBody self c) v   -- `_read_size` rejects longer lists
  | .alt t c rest, .variant t' v =>
    if t' = t then wtBody self c v else (rest.isTable && wtBody self rest (.variant t' v))
  | .ref n, v => self n v
  | _, _ => false

def wt (env : Env) : Nat → C → Val → Bool
  | 0 => fun _ _ => false
  | f + 1 => wtBody (fun n v => wt env f (env n) v)

/-! ### `sub r w`: reader `r` accepts what writer `w` emits -/

/-- `subTab r w`: every entry of the reader's table `r` has, in the writer's table `w`, an entry with the
    same tag whose body the reader's body accepts.  (`w` is walked by `lookup`, `r` structurally.) -/
def sub : C → C → Bool
  | .int, .int | .str, .str | .bytes, .bytes | .float, .float | .bool, .bool | .unit, .unit => true
  | .lit a, .lit b => a == b
  | .flags n, .flags m => n == m
  | .field a r, .field b w => a == b && sub r w
  | .pair r1 r2, .pair w1 w2 => sub r1 w1 && sub r2 w2
  | .list r, .list w => sub r w
  | .fail, w => w.isTable
  | .alt t r rest, w =>
    w.isTable && (match w.lookup t with
      | some wb => sub r wb
      | none => false) && sub rest w
  | .ref n, .ref m => n == m
  | _, _ => false

/-- environments from the generated association list (class, write codec, read codec) -/
def envOfW (l : List (String × C × C)) : Env := fun n =>
  match l.find? (fun e => e.1 == n) with
  | some e => e.2.1
  | none => .fail

def envOfR (l : List (String × C × C)) : Env := fun n =>
  match l.find? (fun e => e.1 == n) with
  | some e => e.2.2
  | none => .fail

/-! ## Layer 3a: string-keyed maps are written in `sorted` key order -/

/-- lexicographic order on byte strings = Python's `str` order on the UTF-8 images of the keys
    (UTF-8 preserves code point order) -/
def bytesLt : Bytes → Bytes → Bool
  | [], [] => false
  | [], _ :: _ => true
  | _ :: _, [] => false
  | a :: as, b :: bs => if a < b then true else if b < a then false else bytesLt as bs

def insertKV (kv : Bytes × Val) : List (Bytes × Val) → List (Bytes × Val)
  | [] => [kv]
  | x :: xs => if bytesLt x.1 kv.1 then x :: insertKV kv xs else kv :: x :: xs

/-- `for key in sorted(value)` -/
def sortKV : List (Bytes × Val) → List (Bytes × Val)
  | [] => []
  | x :: xs => insertKV x (sortKV xs)

def kvVal (m : List (Bytes × Val)) : Val := Val.ofList (m.map fun kv => .pair (.str kv.1) (.pair kv.2 .unit))

/-- codec of the pairs of a str-keyed dict with value codec `c`: bare key, then the value -/
def C.dictOf (c : C) : C := .list (.pair .str (.pair c .unit))

/-- `write_type_map` / `write_json` / `SymbolTable.write`: bare size, then the pairs in sorted key order -/
def encMap (env : Env) (fuel : Nat) (c : C) (m : List (Bytes × Val)) : Bytes :=
  enc env fuel (C.dictOf c) (kvVal (sortKV m))

/-- `read_type_map` & co.: the pairs in stream order (a Python dict remembers that order) -/
def decMap (env : Env) (fuel : Nat) (c : C) (bs : Bytes) : Option (Val × Bytes) :=
  dec env fuel (C.dictOf c) bs

/-! ## Layer 3b: `_skip_object` / `_skip_class` (what `extract_symbol` relies on) -/

/-- tag numbers as `#define`d in librt_internal.c (256 = not defined: never matches a byte) -/
def cTag (name : String) : Nat := ((cTags.find? fun p => p.1 == name).map (·.2)).getD 256

/-- `_read_size`: a short int that must be neither long nor negative -/
def readSize : Bytes → Option (Nat × Bytes)
  | [] => none
  | first :: bs =>
    if (first : Int) = LONG_INT_TRAILER then none
    else match decShort first bs with
      | none => none
      | some (n, r) => if n < 0 then none else some (n.toNat, r)

/-- `_skip(data, n)` -/
def skipBytes (n : Nat) (bs : Bytes) : Option Bytes := if bs.length < n then none else some (bs.drop n)

/-- `_skip_str_bytes` -/
def skipStr (bs : Bytes) : Option Bytes :=
  match readSize bs with
  | none => none
  | some (n, r) => skipBytes n r

/-- `_skip_int` -/
def skipInt : Bytes → Option Bytes
  | [] => none
  | first :: bs =>
    if (first : Int) ≠ LONG_INT_TRAILER then
      (if first % 2 = 0 then some bs else if first / 2 % 2 = 0 then skipBytes 1 bs else skipBytes 3 bs)
    else match bs with
      | [] => none
      | f2 :: bs2 =>
        match decShort f2 bs2 with
        | none => none
        | some (ss, r) => if ss < 0 then none else skipBytes (ss / 2).toNat r

/-- `n` repetitions of a skipper -/
def skipN (f : Bytes → Option Bytes) : Nat → Bytes → Option Bytes
  | 0, bs => some bs
  | n + 1, bs => match f bs with
    | none => none
    | some r => skipN f n r

/-- read a tag, then skip the object it announces -/
def skipTagged (obj : Byte → Bytes → Option Bytes) : Bytes → Option Bytes
  | [] => none
  | t :: r => obj t r

/-- `_skip_class` loop: tagged objects until END_TAG; `k` bounds the number of iterations (each consumes
    at least the tag byte, so `k = length` is always enough) -/
def skipClassLoop (obj : Byte → Bytes → Option Bytes) : Nat → Bytes → Option Bytes
  | 0, _ => none
  | _ + 1, [] => none
  | k + 1, t :: r =>
    if t = cTag "END_TAG" then some r
    else match obj t r with
      | none => none
      | some r' => skipClassLoop obj k r'

/-- one nesting level of `_skip_object(data, tag)`; `self` skips a nested object -/
def skipObjectBody (self : Byte → Bytes → Option Bytes) (tag : Byte) (bs : Bytes) : Option Bytes :=
  if tag = cTag "LITERAL_STR" ∨ tag = cTag "LITERAL_BYTES" then skipStr bs
  else if tag = cTag "LITERAL_NONE" ∨ tag = cTag "LITERAL_FALSE" ∨ tag = cTag "LITERAL_TRUE" then some bs
  else if tag = cTag "LIST_GEN" ∨ tag = cTag "TUPLE_GEN" then
    match readSize bs with
    | none => none
    | some (n, r) => skipN (skipTagged self) n r
  else if tag = cTag "LITERAL_INT" then skipInt bs
  else if tag = cTag "INSTANCE" then
    match bs with
    | [] => none
    | t2 :: r =>
      if cTag "INSTANCE_STR" ≤ t2 ∧ t2 ≤ cTag "INSTANCE_OBJECT" then some r
      else if t2 = cTag "INSTANCE_SIMPLE" then skipStr r
      else if t2 = cTag "INSTANCE_GENERIC" then skipClassLoop self r.length r
      else none
  else if cTag "MYPY_FILE" < tag ∧ tag < cTag "RESERVED" then skipClassLoop self bs.length bs
  else if tag = cTag "LIST_INT" then
    match readSize bs with
    | none => none
    | some (n, r) => skipN skipInt n r
  else if tag = cTag "LIST_STR" ∨ tag = cTag "LIST_BYTES" then
    match readSize bs with
    | none => none
    | some (n, r) => skipN skipStr n r
  else if tag = cTag "DICT_STR_GEN" then
    match readSize bs with
    | none => none
    | some (n, r) => skipN (fun b => match skipStr b with
        | none => none
        | some b' => skipTagged self b') n r
  else if tag = cTag "LITERAL_FLOAT" then skipBytes 8 bs
  else if tag = cTag "LITERAL_COMPLEX" then skipBytes 16 bs
  else if tag = cTag "LITERAL_SENTINEL" then (skipStr bs).bind skipStr
  else none

/-- `_skip_object` with `fuel` levels of nesting -/
def skipObject : Nat → Byte → Bytes → Option Bytes
  | 0 => fun _ _ => none
  | f + 1 => skipObjectBody (skipObject f)

/-- `extract_symbol(data)`: the bytes of one class body (the caller has read its tag) -/
def extractSymbol (fuel : Nat) (bs : Bytes) : Option (Bytes × Bytes) :=
  match skipClassLoop (skipObject fuel) bs.length bs with
  | none => none
  | some r => some (bs.take (bs.length - r.length), r)

/-! ### which codecs the skipper can step over -/

/-- what an environment entry is, from the skipper's point of view -/
inductive Kind where
  | other          -- not claimed to be skippable (CacheMeta, FileRawData, MypyFile …)
  | body           -- a class body: tagged objects, then END_TAG  (`_skip_class`)
  | one            -- exactly one tagged object                   (`read_tag` + `_skip_object`)
  | inst           -- what follows the INSTANCE tag               (`_skip_instance`)
deriving DecidableEq, Repr

/-- position in which a codec is used -/
inductive Mode where
  | pay (t : Byte)   -- the payload of tag `t`, exactly
  | ent (t : Byte)   -- (pairs only) payload of `t`, then zero or more further objects
  | one              -- exactly one tagged object
  | seq              -- zero or more tagged objects
  | body             -- zero or more tagged objects, then END_TAG
  | inst             -- secondary tag of an Instance and what follows it
  | dictItem         -- bare str key, then exactly one tagged object

def emptyPay (t : Byte) : Bool :=
  t == cTag "LITERAL_NONE" || t == cTag "LITERAL_FALSE" || t == cTag "LITERAL_TRUE"

def isClassTag (t : Byte) : Bool :=
  decide (cTag "MYPY_FILE" < t) && decide (t < cTag "RESERVED") && t != cTag "INSTANCE"

def isStrLike : C → Bool
  | .str | .bytes => true
  | .field _ c => isStrLike c
  | _ => false

/-- `skipOK κ m c`: everything codec `c` can emit in position `m` is what `_skip_object` / `_skip_class` /
    `_skip_instance` step over, byte for byte (`κ` classifies the referenced environment entries). -/
def skipOK (κ : String → Kind) : Mode → C → Bool
  | m, .field _ c => skipOK κ m c
  | .pay t, .unit => emptyPay t
  | .seq, .unit => true
  | .pay t, .int => t == cTag "LITERAL_INT"
  | .pay t, .str => t == cTag "LITERAL_STR" || t == cTag "LITERAL_BYTES"
  | .pay t, .bytes => t == cTag "LITERAL_STR" || t == cTag "LITERAL_BYTES"
  | .pay t, .float => t == cTag "LITERAL_FLOAT"
  | .one, .bool => true
  | .seq, .bool => true
  | .one, .flags _ => true
  | .seq, .flags _ => true
  | .body, .lit t => t == cTag "END_TAG"
  | .pay t, .ref n => (isClassTag t && κ n == .body) || (t == cTag "INSTANCE" && κ n == .inst)
  | .one, .ref n => κ n == .one
  | .seq, .ref n => κ n == .one
  | .pay t, .list c =>
    ((t == cTag "LIST_GEN" || t == cTag "TUPLE_GEN") && skipOK κ .one c) ||
    (t == cTag "LIST_INT" && c == .int) ||
    ((t == cTag "LIST_STR" || t == cTag "LIST_BYTES") && isStrLike c) ||
    (t == cTag "DICT_STR_GEN" && skipOK κ .dictItem c)
  | .dictItem, .pair .str (.pair o .unit) => skipOK κ .one o
  | .pay t, .pair a b =>
    (t == cTag "LITERAL_COMPLEX" && a == .float && b == .pair .float .unit) ||
    (t == cTag "LITERAL_SENTINEL" && a == .str && b == .pair .str .unit)
  | .ent t, .pair a b => skipOK κ (.pay t) a && skipOK κ .seq b
  | .one, .pair (.lit t) (.pair p .unit) => t != cTag "END_TAG" && skipOK κ (.pay t) p
  | .seq, .pair (.lit t) (.pair p r) => t != cTag "END_TAG" && skipOK κ (.pay t) p && skipOK κ .seq r
  | .seq, .pair (.lit t) .unit => emptyPay t
  | .seq, .pair (.lit _) _ => false
  | .seq, .pair a b => skipOK κ .seq a && skipOK κ .seq b
  | .body, .pair (.lit t) (.pair p r) =>
    if t == cTag "END_TAG" then false else skipOK κ (.pay t) p && skipOK κ .body r
  | .body, .pair (.lit t) .unit => t == cTag "END_TAG"
  | .body, .pair (.lit _) _ => false
  | .body, .pair a b => skipOK κ .seq a && skipOK κ .body b
  | .one, .fail => true
  | .seq, .fail => true
  | .inst, .fail => true
  | .one, .alt t c rest => t != cTag "END_TAG" && skipOK κ (.pay t) c && skipOK κ .one rest
  | .seq, .alt t c rest =>
    t != cTag "END_TAG" && (skipOK κ (.pay t) c || (emptyPay t && skipOK κ .seq c) || skipOK κ (.ent t) c) &&
    skipOK κ .seq rest
  | .inst, .alt t c rest =>
    ((decide (cTag "INSTANCE_STR" ≤ t) && decide (t ≤ cTag "INSTANCE_OBJECT") && c == .unit) ||
     (t == cTag "INSTANCE_SIMPLE" && isStrLike c) ||
     (t == cTag "INSTANCE_GENERIC" && skipOK κ .body c)) && skipOK κ .inst rest
  | _, _ => false

def kindOK (κ : String → Kind) (k : Kind) (c : C) : Bool :=
  match k with
  | .other => true
  | .body => skipOK κ .body c
  | .one => skipOK κ .one c
  | .inst => skipOK κ .inst c

end Codec
