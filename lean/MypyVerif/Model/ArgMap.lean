import MypyVerif.Gen.BindCfg
/-
Model of mypy's actual-to-formal mapping and arity / keyword diagnostics — hand-written, executable;
imports only the generated constant of `Gen/BindCfg.lean` (translate/c12bind.py: one observed dispatch
fact of the mapper under check).

  mypy/argmap.py     map_actuals_to_formals              ↦ `mapActualsToFormals`
  mypy/checkexpr.py  check_argument_count                ↦ `checkArgumentCount`
                     check_for_extra_actual_arguments    ↦ `checkExtra`
                     is_duplicate_mapping                ↦ `isDuplicateMapping`
                     is_non_empty_tuple                  ↦ `Actual.nonEmptyTuple`
  mypy/messages.py   too_many_arguments_from_typed_dict  ↦ `extraFromTD` (which message is produced)

Data refinement: `formal_to_actual : list[list[int]]` is represented by the chronological list of
`(formal index, actual index)` pairs (`formal_to_actual[fi].append(ai)` ↦ append the pair `(fi, ai)`);
`formal_to_actual[i]` is `mapped pairs i`.  ParamSpec branches and `in_checked_function() == False`
are outside the model (call sites are in checked code, callees have no ParamSpec).
-/
namespace ArgMap

abbrev Name := Nat

/-- formal argument kinds (mypy.nodes.ArgKind) -/
inductive FK where
  | pos | opt | star | named | namedOpt | star2
deriving Repr, DecidableEq

def FK.isStar : FK → Bool
  | .star | .star2 => true
  | _ => false

/-- `kind.is_named()` -/
def FK.isNamed : FK → Bool
  | .named | .namedOpt => true
  | _ => false

/-- `kind.is_named(star=True)` -/
def FK.isNamedOrStar2 : FK → Bool
  | .named | .namedOpt | .star2 => true
  | _ => false

def FK.isRequired : FK → Bool
  | .pos | .named => true
  | _ => false

def FK.isPositional : FK → Bool
  | .pos | .opt => true
  | _ => false

structure Formal where
  kind : FK
  name : Option Name       -- `None` for positional-only parameters
deriving Repr, DecidableEq

/-- actual argument: kind + what `actual_arg_type(i)` tells the mapper -/
inductive Actual where
  | pos                                   -- ARG_POS
  | star (len : Option Nat)               -- ARG_STAR: `some k` = TupleType with k items, `none` = other iterable
  | named (name : Name)                   -- ARG_NAMED
  | star2 (keys : Option (List Name))     -- ARG_STAR2: `some ks` = TypedDictType with these keys, `none` = other mapping
deriving Repr, DecidableEq

inductive AK where
  | pos | star | named | star2
deriving Repr, DecidableEq

def Actual.kind : Actual → AK
  | .pos => .pos
  | .star _ => .star
  | .named _ => .named
  | .star2 _ => .star2

/-- `is_non_empty_tuple(actual_types[i])` -/
def Actual.nonEmptyTuple : Actual → Bool
  | .star (some k) => k > 0
  | _ => false

def Actual.isTypedDict : Actual → Bool
  | .star2 (some _) => true
  | _ => false

/-! ## map_actuals_to_formals -/

def kindAt (F : List Formal) (i : Nat) : Option FK := (F[i]?).map (·.kind)

/-- `formal_names.index(name)` when `name in formal_names` -/
def nameIndex : List Formal → Name → Option Nat
  | [], _ => none
  | f :: fs, x => if f.name = some x then some 0 else (nameIndex fs x).map (· + 1)

/-- `formal_kinds.index(ARG_STAR2)` when `ARG_STAR2 in formal_kinds` -/
def star2Index : List Formal → Option Nat
  | [] => none
  | f :: fs => if f.kind = .star2 then some 0 else (star2Index fs).map (· + 1)

def hasStar (F : List Formal) : Bool := F.any (·.kind == .star)

abbrev Pairs := List (Nat × Nat)

/-- `formal_to_actual[i]` -/
def mapped (ps : Pairs) (i : Nat) : List Nat :=
  ps.filterMap fun p => if p.1 = i then some p.2 else none

structure St where
  fi : Nat
  pairs : Pairs
  ambiguous : List Nat
deriving Repr

def St.add (s : St) (formal actual : Nat) : St := { s with pairs := s.pairs ++ [(formal, actual)] }

/-- the `ARG_POS` branch -/
def stepPos (F : List Formal) (s : St) (ai : Nat) : St :=
  match kindAt F s.fi with
  | none => s                                   -- fi ≥ nformals
  | some k =>
    if !k.isStar then { (s.add s.fi ai) with fi := s.fi + 1 }
    else if k = .star then s.add s.fi ai
    else s

/-- the `for _ in range(len(actualt.items))` loop of the `ARG_STAR` / TupleType branch -/
def stepStarTuple (F : List Formal) (ai : Nat) : Nat → St → St
  | 0, s => s
  | n + 1, s =>
    match kindAt F s.fi with
    | none => stepStarTuple F ai n s            -- `if fi < nformals` fails, the loop goes on
    | some k =>
      if k = .star2 then s                      -- break
      else
        let s1 := s.add s.fi ai
        stepStarTuple F ai n (if k = .star then s1 else { s1 with fi := s1.fi + 1 })

/-- the `while fi < nformals` loop of the `ARG_STAR` / non-tuple branch (`fuel` ≥ nformals - fi) -/
def stepStarIter (F : List Formal) (ai : Nat) : Nat → St → St
  | 0, s => s
  | fuel + 1, s =>
    match kindAt F s.fi with
    | none => s
    | some k =>
      if k.isNamedOrStar2 then s                -- break
      else
        let s1 := s.add s.fi ai
        if k = .star then s1                    -- break
        else stepStarIter F ai fuel { s1 with fi := s1.fi + 1 }

/-- the `actual_kind.is_named()` branch -/
def stepNamed (F : List Formal) (s : St) (ai : Nat) (x : Name) : St :=
  match nameIndex F x with
  | some j =>
    if kindAt F j ≠ some .star then s.add j ai
    else match star2Index F with
      | some j2 => s.add j2 ai
      | none => s
  | none =>
    match star2Index F with
    | some j2 => s.add j2 ai
    | none => s

/-- one key of a `**TypedDict` actual.  Before the repair f470bb5 this branch had no `!= ARG_STAR` test
    (`Cfg.typedDictKeyMayNameStarArgs = true`, F9 iii); since then it reads like the keyword branch (`false`). -/
def stepKey (F : List Formal) (ai : Nat) (s : St) (x : Name) : St :=
  match nameIndex F x with
  | some j =>
    if Cfg.typedDictKeyMayNameStarArgs || kindAt F j ≠ some .star then s.add j ai
    else match star2Index F with
      | some j2 => s.add j2 ai
      | none => s
  | none =>
    match star2Index F with
    | some j2 => s.add j2 ai
    | none => s

def step (F : List Formal) (s : St) (ai : Nat) (a : Actual) : St :=
  match a with
  | .pos => stepPos F s ai
  | .star (some k) => stepStarTuple F ai k s
  | .star none => stepStarIter F ai (F.length + 1) s
  | .named x => stepNamed F s ai x
  | .star2 (some keys) => keys.foldl (stepKey F ai) s
  | .star2 none => { s with ambiguous := s.ambiguous ++ [ai] }

/-- the main loop `for ai, actual_kind in enumerate(actual_kinds)` -/
def mapLoop (F : List Formal) : List Actual → Nat → St → St
  | [], _, s => s
  | a :: as, ai, s => mapLoop F as (ai + 1) (step F s ai a)

def actualKindAt (acts : List Actual) (i : Nat) : Option AK := (acts[i]?).map (·.kind)

/-- `unmatched_formals` of the ambiguous-`**kwargs` phase -/
def unmatchedFormals (F : List Formal) (acts : List Actual) (ps : Pairs) : List Nat :=
  (List.range F.length).filter fun fi =>
    match F[fi]? with
    | none => false
    | some f =>
      (f.name.isSome &&
        ((mapped ps fi).isEmpty || ((mapped ps fi).head?.bind (actualKindAt acts)) == some .star) &&
        f.kind != .star)
      || f.kind == .star2

def mapActualsToFormals (F : List Formal) (acts : List Actual) : Pairs :=
  let s := mapLoop F acts 0 { fi := 0, pairs := [], ambiguous := [] }
  if s.ambiguous.isEmpty then s.pairs
  else
    let um := unmatchedFormals F acts s.pairs
    s.pairs ++ (s.ambiguous.flatMap fun ai => um.map fun fi => (fi, ai))

/-! ## check_argument_count -/

inductive Err where
  | tooMany                       -- "Too many arguments"
  | unexpectedKw (x : Name)       -- "Unexpected keyword argument"
  | extraFromTD (x : Name)        -- "Extra argument "x" from **args"
  | tooFew                        -- "Too few arguments" / "Missing positional argument(s)"
  | missingNamed (x : Option Name)  -- "Missing named argument"
  | duplicate (x : Option Name)   -- "gets multiple values for keyword argument"
  | tooManyPositional             -- "Too many positional arguments"
deriving Repr, DecidableEq

/-- `all_actuals.get(a, 0)` -/
def countActual (ps : Pairs) (a : Nat) : Nat := (ps.filter fun p => p.2 = a).length

def formalNames (F : List Formal) : List Name := F.filterMap (·.name)

/-- `too_many_arguments_from_typed_dict`: names the first key that is no formal name, else falls back -/
def extraFromTD (F : List Formal) (keys : List Name) : Err :=
  match keys.find? (fun k => !(formalNames F).contains k) with
  | some k => .extraFromTD k
  | none => .tooMany

/-- one iteration of `check_for_extra_actual_arguments`: (errors, is_unexpected_arg_error set) -/
def checkExtraOne (F : List Formal) (ps : Pairs) (i : Nat) (a : Actual) : List Err × Bool :=
  let cnt := countActual ps i
  if cnt == 0 && (a.kind != .star || a.nonEmptyTuple) && a.kind != .star2 then
    match a with
    | .named x => ([.unexpectedKw x], true)
    | _ => ([.tooMany], false)
  else if (a.kind == .star && !hasStar F) || a.kind == .star2 then
    match a with
    | .star (some len) => if cnt < len then ([.tooMany], false) else ([], false)
    | .star2 (some keys) => if cnt < keys.length then ([extraFromTD F keys], true) else ([], false)
    | _ => ([], false)
  else ([], false)

def checkExtraLoop (F : List Formal) (ps : Pairs) : List Actual → Nat → List Err × Bool
  | [], _ => ([], false)
  | a :: as, i =>
    let r1 := checkExtraOne F ps i a
    let r2 := checkExtraLoop F ps as (i + 1)
    (r1.1 ++ r2.1, r1.2 || r2.2)

def checkExtra (F : List Formal) (acts : List Actual) (ps : Pairs) : List Err × Bool :=
  checkExtraLoop F ps acts 0

def isDuplicateMapping (acts : List Actual) (m : List Nat) : Bool :=
  m.length > 1
  && !(m.length == 2 && (m[0]?.bind (actualKindAt acts)) == some .star
                     && (m[1]?.bind (actualKindAt acts)) == some .star2)
  && !(m.all fun j => match acts[j]? with
                      | some (.star2 none) => true       -- ARG_STAR2 and not a TypedDict
                      | _ => false)

/-- `actual_kinds[mapped_args[0]] not in [ARG_NAMED, ARG_STAR2]` -/
def firstNotKeyword (acts : List Actual) (m : List Nat) : Bool :=
  match m.head?.bind (actualKindAt acts) with
  | some .named => false
  | some .star2 => false
  | _ => true

/-- the body of `for i, kind in enumerate(callee.arg_kinds)` -/
def checkFormal (acts : List Actual) (ps : Pairs) (unexpected : Bool) (i : Nat) (f : Formal) : List Err :=
  let m := mapped ps i
  if f.kind.isRequired && m.isEmpty && !unexpected then
    if f.kind.isPositional then [.tooFew] else [.missingNamed f.name]
  else if !f.kind.isStar && isDuplicateMapping acts m then [.duplicate f.name]
  else if f.kind.isNamed && !m.isEmpty && firstNotKeyword acts m then [.tooManyPositional]
  else []

def checkFormalsLoop (acts : List Actual) (ps : Pairs) (unexpected : Bool) : List Formal → Nat → List Err
  | [], _ => []
  | f :: fs, i => checkFormal acts ps unexpected i f ++ checkFormalsLoop acts ps unexpected fs (i + 1)

/-- all diagnostics of `check_argument_count` for a given mapping -/
def checkArgumentCount (F : List Formal) (acts : List Actual) (ps : Pairs) : List Err :=
  let ex := checkExtra F acts ps
  ex.1 ++ checkFormalsLoop acts ps ex.2 F 0

/-- the arity / keyword diagnostics mypy reports for the call -/
def mypyErrors (F : List Formal) (acts : List Actual) : List Err :=
  checkArgumentCount F acts (mapActualsToFormals F acts)

/-- `check_argument_count(...)` returns `False` -/
def mypyRejects (F : List Formal) (acts : List Actual) : Bool := !(mypyErrors F acts).isEmpty

end ArgMap
