/-
Model of stubgen's decision about a function's return type — hand-written, import-free, executable.

  mypy/stubgen.py   ASTStubGenerator._get_func_return                    ↦ `getFuncReturn`
                    METHODS_WITH_RETURN_VALUE                             ↦ `methodsWithReturnValue`
  mypy/stubutil.py  infer_method_ret_type                                 ↦ `inferMethodRet`
  mypy/traverser.py has_yield_expression / has_yield_from_expression / all_yield_expressions /
                    has_return_statement                                  ↦ the Boolean facts of `FuncInfo`

The printed annotation is an opaque string (the annotation printer is not modelled); `Generator` and
`Incomplete` are the names `add_name` returns when they are not shadowed.
-/
namespace StubRet

structure FuncInfo where
  name : String
  annotated : Bool            -- isinstance(o.unanalyzed_type, CallableType): some annotation is spelled out
  retAnn : Option String      -- the printed return annotation; none = the return type is an implicit Any
  abstract : Bool             -- o.abstract_status == IS_ABSTRACT
  implicitlyAbstract : Bool   -- o.abstract_status == IMPLICITLY_ABSTRACT (protocol member with a trivial body)
  yieldFrom : Bool            -- has_yield_from_expression
  yields : Bool               -- has_yield_expression
  yieldsValue : Bool          -- some `yield e` with e not None
  yieldAssigned : Bool        -- some `x = yield …`
  returnsValue : Bool         -- has_return_statement: some `return e` with e not None

def dunder (s : String) : String := "__" ++ s ++ "__"

/-- `mypy.stubutil.infer_method_ret_type` -/
def inferMethodRet (name : String) : Option String :=
  if name ∈ ["float", "bool", "bytes", "int", "complex", "str"].map dunder then
    some ((name.drop 2).dropEnd 2).toString
  else if name ∈ ["eq", "ne", "lt", "le", "gt", "ge", "contains"].map dunder then some "bool"
  else if name ∈ ["len", "length_hint", "index", "hash", "sizeof", "trunc", "floor", "ceil"].map dunder then some "int"
  else if name ∈ ["format", "repr"].map dunder then some "str"
  else if name ∈ ["init", "setitem", "del", "delitem"].map dunder then some "None"
  else none

def methodsWithReturnValue : List String :=
  ["__ne__", "__eq__", "__lt__", "__le__", "__gt__", "__ge__", "__hash__", "__iter__"]

def generatorRet (f : FuncInfo) : String :=
  let y := if f.yieldFrom || f.yieldsValue then "Incomplete" else "None"
  let s : Option String := if f.yieldFrom || f.yieldAssigned then some "Incomplete" else none
  if f.returnsValue then "Generator[" ++ y ++ ", " ++ s.getD "None" ++ ", Incomplete]"
  else match s with
    | some s => "Generator[" ++ y ++ ", " ++ s ++ "]"
    | none => "Generator[" ++ y ++ "]"

/-- `_get_func_return`: `none` = no return annotation is emitted (implicit Any) -/
def getFuncReturn (f : FuncInfo) : Option String :=
  if f.name ≠ "__init__" && f.annotated then f.retAnn
  else if f.abstract || f.name ∈ methodsWithReturnValue then none
  else match inferMethodRet f.name with
    | some r => some r
    | none =>
      if f.yields || f.yieldFrom then some (generatorRet f)
      else if !f.returnsValue && !f.abstract && !f.implicitlyAbstract then some "None"
      else none

end StubRet
