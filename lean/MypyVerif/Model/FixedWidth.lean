import MypyVerif.Model.Tagged
/-!
# C15 — hand model of the lowering done in Python (`mypyc/lower/int_ops.py`, `mypyc/irbuild/ll_builder.py`)

What is *not* C text and therefore not covered by `translate/cfast.py`:

* `compare_tagged`            — comparison of two `int` operands: tag test(s), then either a machine
                                comparison or a call of `CPyTagged_IsEq_` / `CPyTagged_IsLt_` (operands
                                possibly swapped, result possibly negated) as listed in
                                `int_comparison_op_mapping` (that table is regenerated: `CFast.intComparisonOpMapping`);
* `fixed_width_int_op`        — `IntOp`s on `i64/i32/i16/u8` registers (C arithmetic on `int64_t … uint8_t`);
* `inline_fixed_width_divide/mod` — floor division / modulo by a literal other than 0 and -1;
* `check_for_zero_division` + C `/`, `%` for `u8`;
* `coerce_int_to_fixed_width`, `coerce_fixed_width_to_int` — conversions with range checks.

The model is tied to the code by the compiled-harness correspondence (every run) and, for the parts the
IR translator covers, by `Gen/IrOps.lean`.
-/
namespace FixedWidth
open CSem Tagged

/-! ## `compare_tagged` -/

/-- `ComparisonOp` variants used for two short operands. -/
def cmpVariant (variant : String) (l r : BitVec 64) : Bool :=
  if variant = "EQ" then l == r
  else if variant = "NEQ" then l != r
  else if variant = "SLT" then BitVec.slt l r
  else if variant = "SGT" then BitVec.slt r l
  else if variant = "SLE" then BitVec.sle l r
  else if variant = "SGE" then BitVec.sle r l
  else if variant = "ULT" then BitVec.ult l r
  else if variant = "UGT" then BitVec.ult r l
  else if variant = "ULE" then BitVec.ule l r
  else BitVec.ule r l

/-- `check_tagged_short_int(val, negated=True)`: `(val & 1) != 0`. -/
def isLongWord (x : BitVec 64) : Bool := (x &&& 1#64) != 0#64

/-- `compare_tagged(lhs, rhs, op)` for operands of type `int` (the non-`quick` path): `==`/`!=` test only the
    left tag, the ordering operators test both; `row` is the entry of `int_comparison_op_mapping`. -/
def compareTagged (row : String × String × String × Bool × Bool) (l r : BitVec 64) : Res Bool :=
  let op := row.1
  let variant := row.2.1
  let cfun := row.2.2.1
  let neg := row.2.2.2.1
  let swap := row.2.2.2.2
  let call : SlowCall := ⟨cfun, if swap then [r, l] else [l, r], neg⟩
  if op = "==" ∨ op = "!=" then
    if isLongWord l then .slow call else .fast (cmpVariant variant l r)
  else
    if isLongWord l then .slow call
    else if isLongWord r then .slow call
    else .fast (cmpVariant variant l r)

/-- Python's comparison operators on `Int`. -/
def pyCmp (op : String) (a b : Int) : Bool :=
  if op = "==" then decide (a = b)
  else if op = "!=" then decide (a ≠ b)
  else if op = "<" then decide (a < b)
  else if op = "<=" then decide (a ≤ b)
  else if op = ">" then decide (a > b)
  else decide (a ≥ b)

/-! ## fixed-width registers -/

/-- Integer value of a register: two's complement for the signed types, plain binary for `u8`. -/
def fwVal {w : Nat} (signed : Bool) (x : BitVec w) : Int := if signed then x.toInt else (x.toNat : Int)

/-- `n` is representable in a `w`-bit register of that signedness. -/
def InRange (w : Nat) (signed : Bool) (n : Int) : Prop :=
  if signed then -((2 ^ w : Nat) : Int) ≤ 2 * n ∧ 2 * n < ((2 ^ w : Nat) : Int)
  else 0 ≤ n ∧ n < ((2 ^ w : Nat) : Int)
instance (w : Nat) (s : Bool) (n : Int) : Decidable (InRange w s n) := by unfold InRange; infer_instance

inductive Op | add | sub | mul | and | or | xor | shl | shr
deriving DecidableEq, Repr

/-- `IntOp(type, lhs, rhs, op)` as the emitted C computes it.  For `i16`/`u8` C promotes the operands to
    `int` and the assignment truncates; for `+ - * & | ^` that is the `w`-bit operation, for the shifts with a
    count below the width as well (larger counts are outside the property's domain). -/
def intOp {w : Nat} (signed : Bool) (op : Op) (a b : BitVec w) : BitVec w :=
  match op with
  | .add => a + b
  | .sub => a - b
  | .mul => a * b
  | .and => a &&& b
  | .or => a ||| b
  | .xor => a ^^^ b
  | .shl => a <<< b.toNat
  | .shr => if signed then a.sshiftRight b.toNat else a >>> b.toNat

/-- `unary_minus`: `0 - x`;  `unary_invert`: `x ^ -1` (signed) / `x ^ 0xff…` (unsigned). -/
def neg {w : Nat} (a : BitVec w) : BitVec w := 0#w - a
def invert {w : Nat} (a : BitVec w) : BitVec w := a ^^^ BitVec.allOnes w

/-- `inline_fixed_width_divide(type, lhs, rhs)` (signed types, literal divisor). -/
def inlineDivide {w : Nat} (a c : BitVec w) : BitVec w :=
  let div := BitVec.sdiv a c
  if (BitVec.slt a 0#w) == (BitVec.slt c 0#w) then div
  else if div * c == a then div
  else div - 1#w

/-- `inline_fixed_width_mod(type, lhs, rhs)`. -/
def inlineMod {w : Nat} (a c : BitVec w) : BitVec w :=
  let m := BitVec.srem a c
  if (BitVec.slt a 0#w) == (BitVec.slt c 0#w) then m
  else if m == 0#w then m
  else m + c

/-- `u8` `//` and `%`: `check_for_zero_division`, then the C operator. -/
def u8Divide (a b : BitVec 8) : Res (BitVec 8) :=
  if b == 0#8 then .raise "ZeroDivisionError" 239#8 else .fast (a / b)
def u8Mod (a b : BitVec 8) : Res (BitVec 8) :=
  if b == 0#8 then .raise "ZeroDivisionError" 239#8 else .fast (a % b)

/-! ## conversions -/

/-- `coerce_int_to_fixed_width(src, target)` for the 64-bit target: short → `src >> 1` (arithmetic);
    long → `CPyLong_AsInt64(src ^ 1)` (out of line). -/
def intToI64 (src : BitVec 64) : Res (BitVec 64) :=
  if (src &&& 1#64) == 0#64 then .fast (src.sshiftRight 1)
  else .slow ⟨"CPyLong_AsInt64", [src ^^^ 1#64], false⟩

/-- the value returned together with a pending exception (`RPrimitive.c_undefined`: -113 / 239) -/
def errValue (w : Nat) (signed : Bool) : BitVec w := if signed then BitVec.ofInt w (-113) else BitVec.ofNat w 239

/-- … for a narrower target of `w` bits (`i32`, `i16`, `u8`): the range check is done on the *tagged* word
    (`src < upper << 1`, `src >= lower << 1`, signed comparisons), then `(src >> 1)` is truncated; a long
    operand or an out-of-range short one raises (`CPyInt32_Overflow` …: `ValueError`). -/
def intToNarrow (w : Nat) (signed : Bool) (src : BitVec 64) : Res (BitVec w) :=
  let upper : Int := if signed then ((2 ^ (w - 1) : Nat) : Int) else ((2 ^ w : Nat) : Int)
  let lower : Int := if signed then -((2 ^ (w - 1) : Nat) : Int) else 0
  if (src &&& 1#64) == 0#64 then
    if BitVec.slt src (BitVec.ofInt 64 (2 * upper)) then
      if BitVec.sle (BitVec.ofInt 64 (2 * lower)) src then
        .fast (BitVec.truncate w (src.sshiftRight 1))
      else .raise "ValueError" (errValue w signed)
    else .raise "ValueError" (errValue w signed)
  else .raise "ValueError" (errValue w signed)

/-- `coerce_fixed_width_to_int` for `i64`: `MIN_SHORT_INT ≤ src ≤ MAX_SHORT_INT` → `src << 1`, else
    `CPyTagged_FromInt64(src)` (boxes). -/
def i64ToInt (src : BitVec 64) : Res (BitVec 64) :=
  if BitVec.sle src 4611686018427387903#64 then
    if BitVec.sle 13835058055282163712#64 src then .fast (src <<< 1)
    else .slow ⟨"CPyTagged_FromInt64", [src], false⟩
  else .slow ⟨"CPyTagged_FromInt64", [src], false⟩

/-- … for the narrower types: extend (by the type's signedness) to the word size, shift left by one. -/
def narrowToInt {w : Nat} (signed : Bool) (src : BitVec w) : BitVec 64 :=
  (if signed then BitVec.signExtend 64 src else BitVec.zeroExtend 64 src) <<< 1

end FixedWidth
