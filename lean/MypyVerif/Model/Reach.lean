/-
Model of mypy/reachability.py (static truth value of version / platform conditions) and of the run-time
meaning of the same conditions — hand-written, import-free, executable.

mypy side:
  infer_condition_value          ↦ `infer`            (not / and / or tables, PY2, PY3, MYPY, TYPE_CHECKING,
                                                        always_true, always_false)
  consider_sys_version_info      ↦ `considerSysVersionInfo`
  consider_sys_platform          ↦ `considerSysPlatform`
  fixed_comparison               ↦ `fixedCmpInt` / `fixedCmpTuple` / `fixedCmpStr`
  contains_sys_version_info      ↦ `containsSysVersionInfo`
  contains_int_or_tuple_of_ints  ↦ `containsIntOrTupleOfInts`
  reverse_op, inverted_truth_mapping ↦ `reverseOp`, `invert`

run-time side (CPython semantics of the expressions, `sys.version_info` a 5-tuple
(major, minor, micro, releaselevel : str, serial)):
  indexing / slicing of a tuple   ↦ `pyIndex`, `pySlice`      (PySlice_AdjustIndices for a positive step)
  tuple / int / str comparison    ↦ `cmpVal`, `cmpElems`     (tuplerichcompare: first differing item decides)
  `not`, `and`, `or`               ↦ `eval`                   (short circuit; `none` = the evaluation raises)

The expression grammar is what mypy's parser (and CPython's) make of the source: a negative number is a
unary minus applied to an int literal (so *not* an IntExpr), everything outside the grammar is `opaque`.
-/
namespace Reach

/-! ## syntax -/

inductive Op | eq | ne | lt | le | gt | ge
deriving DecidableEq, Repr

/-- an integer literal as the parser sees it -/
inductive Lit
  | int (n : Nat)     -- IntExpr
  | neg (n : Nat)     -- UnaryExpr('-', IntExpr): not an IntExpr
deriving DecidableEq, Repr

def Lit.val : Lit → Int
  | .int n => (n : Int)
  | .neg n => - (n : Int)

inductive Operand
  | versionInfo                                       -- sys.version_info
  | index (i : Lit)                                   -- sys.version_info[i]
  | slice (lo hi : Option Lit) (stride : Option Nat)  -- sys.version_info[lo:hi] / [lo:hi:stride], stride an IntExpr
  | platform                                          -- sys.platform
  | lit (n : Lit)
  | tuple (items : List Lit)                          -- tuple display of integer literals
  | str (s : String)                                  -- StrExpr
deriving DecidableEq, Repr

inductive Cond
  | cmp (l : Operand) (op : Op) (r : Operand)         -- ComparisonExpr with one operator among == != < <= > >=
  | call (recv : Operand) (meth : String) (arg : Operand)   -- <recv>.<meth>(<arg>): CallExpr, MemberExpr callee, one argument
  | callKw (recv : Operand) (meth : String) (arg : Operand) -- <recv>.<meth>(kw=<arg>): the same `args` list for mypy
  | name (n : String)                                 -- NameExpr `n` or MemberExpr `<anything>.n`
  | opaque (k : Nat)                                  -- any other expression (its run-time value is an input)
  | not (c : Cond)
  | and (a b : Cond)
  | or (a b : Cond)
deriving Repr

/-! ## mypy side -/

/-- reachability.py: ALWAYS_TRUE = 1, MYPY_TRUE = 2, ALWAYS_FALSE = 3, MYPY_FALSE = 4, TRUTH_VALUE_UNKNOWN = 5 -/
inductive TV | alwaysTrue | mypyTrue | alwaysFalse | mypyFalse | unknown
deriving DecidableEq, Repr

/-- inverted_truth_mapping -/
def invert : TV → TV
  | .alwaysTrue => .alwaysFalse
  | .alwaysFalse => .alwaysTrue
  | .unknown => .unknown
  | .mypyTrue => .mypyFalse
  | .mypyFalse => .mypyTrue

/-- reverse_op -/
def reverseOp : Op → Op
  | .eq => .eq | .ne => .ne | .lt => .gt | .gt => .lt | .le => .ge | .ge => .le

def cmpInt (a b : Int) : Ordering := if a < b then .lt else if a = b then .eq else .gt

/-- Python's ordering of two tuples of ints -/
def lexOrd : List Int → List Int → Ordering
  | [], [] => .eq
  | [], _ :: _ => .lt
  | _ :: _, [] => .gt
  | x :: xs, y :: ys => if x = y then lexOrd xs ys else cmpInt x y

def opHolds : Op → Ordering → Bool
  | .eq, o => o == .eq
  | .ne, o => o != .eq
  | .lt, o => o == .lt
  | .le, o => o != .gt
  | .gt, o => o == .gt
  | .ge, o => o != .lt

def ofBool (b : Bool) : TV := if b then .alwaysTrue else .alwaysFalse     -- rmap

/-- fixed_comparison on ints / tuples of ints / strings -/
def fixedCmpInt (l : Int) (op : Op) (r : Int) : TV := ofBool (opHolds op (cmpInt l r))
def fixedCmpTuple (l : List Int) (op : Op) (r : List Int) : TV := ofBool (opHolds op (lexOrd l r))
def strOrd (a b : String) : Ordering := if a < b then .lt else if a = b then .eq else .gt
def fixedCmpStr (l : String) (op : Op) (r : String) : TV := ofBool (opHolds op (strOrd l r))

def litNat? : Lit → Option Nat            -- isinstance(x, IntExpr) → x.value
  | .int n => some n
  | .neg _ => none

inductive VIdx
  | index (i : Nat)
  | slice (lo hi : Option Nat)
deriving DecidableEq, Repr

/-- contains_sys_version_info -/
def containsSysVersionInfo : Operand → Option VIdx
  | .versionInfo => some (.slice none none)
  | .index i => (litNat? i).map .index
  | .slice lo hi stride =>
    if stride ≠ none ∧ stride ≠ some 1 then none
    else
      match lo, hi with
      | none, none => some (.slice none none)
      | some l, none => (litNat? l).map (fun a => .slice (some a) none)
      | none, some h => (litNat? h).map (fun b => .slice none (some b))
      | some l, some h =>
        match litNat? l, litNat? h with
        | some a, some b => some (.slice (some a) (some b))
        | _, _ => none
  | _ => none

inductive Thing
  | int (n : Nat)
  | tuple (xs : List Nat)
deriving DecidableEq, Repr

def allNat? : List Lit → Option (List Nat)
  | [] => some []
  | x :: xs =>
    match litNat? x, allNat? xs with
    | some n, some ns => some (n :: ns)
    | _, _ => none

/-- contains_int_or_tuple_of_ints -/
def containsIntOrTupleOfInts : Operand → Option Thing
  | .lit l => (litNat? l).map .int
  | .tuple items => (allNat? items).map .tuple
  | _ => none

def natsToInts (l : List Nat) : List Int := l.map Int.ofNat

/-- the part of consider_sys_version_info after `index`, `thing`, `op` are settled -/
def decideVersion (index : Option VIdx) (thing : Option Thing) (op : Op) (major minor : Nat) : TV :=
  match index, thing with
  | some (.index i), some (.int k) =>
    if i = 0 then fixedCmpInt major op k
    else if i = 1 then fixedCmpInt minor op k
    else .unknown
  | some (.slice lo hi), some (.tuple t) =>
    let lo := lo.getD 0
    let hi := hi.getD 2
    if lo < hi ∧ hi ≤ 2 then
      let val := ((natsToInts [major, minor]).drop lo).take (hi - lo)          -- pyversion[lo:hi]
      if val.length = t.length ∨ (val.length > t.length ∧ op ≠ .eq ∧ op ≠ .ne) then
        fixedCmpTuple val op (natsToInts t)
      else .unknown
    else .unknown
  | _, _ => .unknown

/-- consider_sys_version_info after proposed_fix_F4: inside `if 0 <= lo < hi <= 2:`, before the length test,
    `if open_ended and val == thing: return fixed_comparison(1, op, 0)` — at run time an open-ended slice goes
    on after (major, minor), so it is strictly longer than, hence greater than, an equal tuple. -/
def decideVersionFix (index : Option VIdx) (thing : Option Thing) (op : Op) (major minor : Nat) : TV :=
  match index, thing with
  | some (.slice lo none), some (.tuple t) =>
    if lo.getD 0 < 2 ∧ (natsToInts [major, minor]).drop (lo.getD 0) = natsToInts t then fixedCmpInt 1 op 0
    else decideVersion index thing op major minor
  | _, _ => decideVersion index thing op major minor

/-- the operand pair actually used: as written, or swapped with the operator reversed -/
def pickOperands (l : Operand) (op : Op) (r : Operand) : Option VIdx × Option Thing × Op :=
  match containsSysVersionInfo l, containsIntOrTupleOfInts r with
  | some i, some t => (some i, some t, op)
  | _, _ => (containsSysVersionInfo r, containsIntOrTupleOfInts l, reverseOp op)

/-- consider_sys_version_info for a single-operator comparison -/
def considerSysVersionInfo (l : Operand) (op : Op) (r : Operand) (major minor : Nat) : TV :=
  let p := pickOperands l op r
  decideVersion p.1 p.2.1 p.2.2 major minor

def considerSysVersionInfoFix (l : Operand) (op : Op) (r : Operand) (major minor : Nat) : TV :=
  let p := pickOperands l op r
  decideVersionFix p.1 p.2.1 p.2.2 major minor

/-- `platform.startswith(prefix)` -/
def pyStartsWith (s pre : String) : Bool := pre.toList.isPrefixOf s.toList
def pyEndsWith (s suf : String) : Bool := suf.toList.isSuffixOf s.toList

structure Options where
  major : Nat
  minor : Nat
  platform : String
  alwaysTrue : List String
  alwaysFalse : List String
  /-- which consider_sys_version_info is in the tree: `true` = with the open-ended-slice rule of
      harness/c12/proposed_fix_F4.diff (`decideVersionFix`), `false` = the code as it was (`decideVersion`).
      translate/reach_tables.py determines it from the source on every check. -/
  openSliceFix : Bool := false
deriving Repr

/-- consider_sys_platform -/
def considerSysPlatform (c : Cond) (platform : String) : TV :=
  match c with
  | .cmp .platform op (.str s) =>
    if op = .eq ∨ op = .ne then fixedCmpStr platform op s else .unknown
  | .call .platform meth (.str s) =>
    if meth = "startswith" then ofBool (pyStartsWith platform s) else .unknown
  | .callKw .platform meth (.str s) =>                       -- arg_kinds are not looked at
    if meth = "startswith" then ofBool (pyStartsWith platform s) else .unknown
  | _ => .unknown

def nameValue (n : String) (o : Options) : TV :=
  if n = "PY2" then .alwaysFalse
  else if n = "PY3" then .alwaysTrue
  else if n = "MYPY" ∨ n = "TYPE_CHECKING" then .mypyTrue
  else if o.alwaysTrue.contains n then .alwaysTrue
  else if o.alwaysFalse.contains n then .alwaysFalse
  else .unknown

/-- the `or` table of infer_condition_value -/
def orTable (l r : TV) : TV :=
  if l = .alwaysTrue ∨ r = .alwaysTrue then .alwaysTrue
  else if l = .mypyTrue ∨ r = .mypyTrue then .mypyTrue
  else if l = .mypyFalse ∧ r = .mypyFalse then .mypyFalse
  else if (l = .alwaysFalse ∨ l = .mypyFalse) ∧ (r = .alwaysFalse ∨ r = .mypyFalse) then .alwaysFalse
  else .unknown

/-- the `and` table of infer_condition_value -/
def andTable (l r : TV) : TV :=
  if l = .alwaysFalse ∨ r = .alwaysFalse then .alwaysFalse
  else if l = .mypyFalse ∨ r = .mypyFalse then .mypyFalse
  else if l = .alwaysTrue ∧ r = .alwaysTrue then .alwaysTrue
  else if (l = .alwaysTrue ∨ l = .mypyTrue) ∧ (r = .alwaysTrue ∨ r = .mypyTrue) then .mypyTrue
  else .unknown

/-- a leaf: consider_sys_version_info, then consider_sys_platform -/
def leafValue (c : Cond) (o : Options) : TV :=
  let v := match c with
    | .cmp l op r =>
      if o.openSliceFix then considerSysVersionInfoFix l op r o.major o.minor
      else considerSysVersionInfo l op r o.major o.minor
    | _ => .unknown
  if v = .unknown then considerSysPlatform c o.platform else v

/-- infer_condition_value -/
def infer (o : Options) : Cond → TV
  | .not c => invert (infer o c)
  | .name n => nameValue n o
  | .or a b => orTable (infer o a) (infer o b)
  | .and a b => andTable (infer o a) (infer o b)
  | .cmp l op r => leafValue (.cmp l op r) o
  | .call recv m a => leafValue (.call recv m a) o
  | .callKw recv m a => leafValue (.callKw recv m a) o
  | .opaque _ => .unknown

/-! ## run-time side -/

inductive Elem
  | int (n : Int)
  | str (s : String)
deriving DecidableEq, Repr

inductive Val
  | int (n : Int)
  | str (s : String)
  | tup (xs : List Elem)
deriving DecidableEq, Repr

structure Env where
  versionInfo : List Elem
  platform : String
  names : String → Option Bool      -- truth value of a global name; none = NameError
  opq : Nat → Option Bool           -- truth value of an unmodelled expression; none = it raises

def Elem.toVal : Elem → Val
  | .int n => .int n
  | .str s => .str s

/-- `t[i]`: negative indices count from the end; out of range raises IndexError -/
def pyIndex (t : List Elem) (i : Int) : Option Elem :=
  let j := if i < 0 then i + t.length else i
  if j < 0 then none else t[j.toNat]?

/-- PySlice_AdjustIndices, one bound, positive step -/
def adjust (len : Nat) (i : Int) : Nat :=
  if i < 0 then (i + len).toNat else min i.toNat len

/-- every `step`-th element, starting with the first -/
def everyNth (step : Nat) : List Elem → List Elem
  | [] => []
  | x :: xs => x :: everyNth step (xs.drop (step - 1))
termination_by l => l.length
decreasing_by simp; omega

/-- `t[lo:hi:stride]` for a positive stride; stride 0 raises ValueError -/
def pySlice (t : List Elem) (lo hi : Option Int) (stride : Option Nat) : Option (List Elem) :=
  let start := (lo.map (adjust t.length)).getD 0
  let stop := (hi.map (adjust t.length)).getD t.length
  let body := (t.drop start).take (stop - start)
  match stride with
  | none => some body
  | some 0 => none
  | some 1 => some body
  | some s => some (everyNth s body)

def evalOperand (env : Env) : Operand → Option Val
  | .versionInfo => some (.tup env.versionInfo)
  | .index i => (pyIndex env.versionInfo i.val).map Elem.toVal
  | .slice lo hi stride => (pySlice env.versionInfo (lo.map Lit.val) (hi.map Lit.val) stride).map .tup
  | .platform => some (.str env.platform)
  | .lit n => some (.int n.val)
  | .tuple items => some (.tup (items.map (fun l => .int l.val)))
  | .str s => some (.str s)

/-- comparison of two tuple items that are not equal (`==` is False for an int and a str) -/
def elemCmp (op : Op) : Elem → Elem → Option Bool
  | .int a, .int b => some (opHolds op (cmpInt a b))
  | .str a, .str b => some (opHolds op (strOrd a b))
  | _, _ => match op with
    | .eq => some false
    | .ne => some true
    | _ => none                                    -- TypeError: '<' not supported between 'int' and 'str'

/-- tuplerichcompare: skip the common prefix; the first differing pair decides; else the lengths do -/
def cmpElems (op : Op) : List Elem → List Elem → Option Bool
  | [], [] => some (opHolds op .eq)
  | [], _ :: _ => some (opHolds op .lt)
  | _ :: _, [] => some (opHolds op .gt)
  | x :: xs, y :: ys => if x = y then cmpElems op xs ys else elemCmp op x y

def cmpVal (op : Op) : Val → Val → Option Bool
  | .int a, .int b => some (opHolds op (cmpInt a b))
  | .str a, .str b => some (opHolds op (strOrd a b))
  | .tup a, .tup b => cmpElems op a b
  | _, _ => match op with
    | .eq => some false
    | .ne => some true
    | _ => none

/-- truth value of the condition at run time; `none` = evaluating it raises -/
def eval (env : Env) : Cond → Option Bool
  | .cmp l op r =>
    match evalOperand env l, evalOperand env r with
    | some a, some b => cmpVal op a b
    | _, _ => none
  | .call recv meth arg =>
    match evalOperand env recv, evalOperand env arg with
    | some (.str s), some (.str a) =>
      if meth = "startswith" then some (pyStartsWith s a)
      else if meth = "endswith" then some (pyEndsWith s a)
      else none
    | _, _ => none
  | .callKw _ _ _ => none                  -- TypeError: str.startswith() takes no keyword arguments
  | .name n => env.names n
  | .opaque k => env.opq k
  | .not c => (eval env c).map (!·)
  | .and a b =>
    match eval env a with
    | none => none
    | some false => some false
    | some true => eval env b
  | .or a b =>
    match eval env a with
    | none => none
    | some true => some true
    | some false => eval env b

/-- the environment mypy pretends to run in: MYPY and TYPE_CHECKING are true -/
def mtEnv (env : Env) : Env :=
  { env with names := fun n => if n = "MYPY" ∨ n = "TYPE_CHECKING" then some true else env.names n }

end Reach
