/-
Model of which modules a run brings into the build (mypy/build.py: `load_graph`), core Lean only, executable.

`load_graph` starts from the sources named on the command line and follows, for every module it adds, its
ancestors (parent packages) and
  * a module WITHOUT a usable cache entry (`st.meta is None`: no meta, or `validate_meta` rejected it):
    the imports found by parsing the current source (`compute_dependencies`);
  * a module WITH a usable cache entry: the cached lists `meta.dependencies` and `meta.suppressed`
    (the indirect ones of `meta_ex` appended, priority `PRI_INDIRECT`), where
      - dependencies of priority PRI_INDIRECT are skipped,
      - a suppressed dependency is followed when a file for it can be found now ("added"),
      - `Cfg.suppFiltered` says whether suppressed dependencies of priority PRI_INDIRECT are skipped too
        (read from the source by `translate/loadcfg.py`; the unchanged upstream code did not — finding F33);
  a dependency for which no file is found is not added (`ModuleNotFound` → suppressed).
`C02`'s build model takes the processing order of a run as given and equal for the warm and the cold run;
this model is the part that justifies it: the set of modules of the warm run equals that of the cold run.
-/
namespace Load

abbrev Mod := Nat

/-- one entry of a cached dependency list: the module and whether its priority is PRI_INDIRECT -/
structure Dep where
  m : Mod
  indirect : Bool
deriving Repr, DecidableEq

/-- what `load_graph` reads from a usable cache entry -/
structure CMeta where
  deps : List Dep
  supp : List Dep
deriving Repr, DecidableEq

/-- what one run sees -/
structure View where
  found : Mod → Bool               -- `find_module` finds a file for the module now
  ancestors : Mod → List Mod       -- parent packages (`st.ancestors`: a function of the module id, followed in either case)
  imports : Mod → List Mod         -- imports in the current source of the module
  cached : Mod → Option CMeta      -- `some` = a cache entry exists and `validate_meta` accepts it

structure Cfg where
  suppFiltered : Bool
deriving Repr, DecidableEq

/-- modules followed from `m` by a run without cache -/
def succCold (v : View) (m : Mod) : List Mod := (v.ancestors m ++ v.imports m).filter v.found

def directOf (l : List Dep) : List Mod := (l.filter (fun d => !d.indirect)).map (·.m)

def suppOf (cfg : Cfg) (l : List Dep) : List Mod :=
  (l.filter (fun d => !(cfg.suppFiltered && d.indirect))).map (·.m)

/-- modules followed from `m` by a run with a cache -/
def succWarm (cfg : Cfg) (v : View) (m : Mod) : List Mod :=
  match v.cached m with
  | none => succCold v m
  | some c => (v.ancestors m ++ (directOf c.deps ++ suppOf cfg c.supp)).filter v.found

/-- the modules of the build: everything reachable from the roots -/
inductive Reach (succ : Mod → List Mod) (roots : List Mod) : Mod → Prop
  | root {m : Mod} : m ∈ roots → Reach succ roots m
  | step {m n : Mod} : Reach succ roots m → n ∈ succ m → Reach succ roots n

/-- executable version: worklist with fuel (the driver passes more fuel than there are edges) -/
def bfs (succ : Mod → List Mod) : Nat → List Mod → List Mod → List Mod
  | 0, _, vis => vis
  | _ + 1, [], vis => vis
  | fuel + 1, m :: fr, vis =>
    if vis.contains m then bfs succ fuel fr vis else bfs succ fuel (fr ++ succ m) (m :: vis)

/-- the cache entry a run writes for a module it parsed: direct imports split by whether a file was found
    at that time, plus indirect dependencies (in the graph → dependency, otherwise → suppressed) -/
def mkMeta (foundThen : Mod → Bool) (imports : List Mod) (indirectIn indirectOut : List Mod) : CMeta :=
  { deps := (imports.filter foundThen).map (fun m => { m := m, indirect := false })
            ++ indirectIn.map (fun m => { m := m, indirect := true }),
    supp := (imports.filter (fun m => !foundThen m)).map (fun m => { m := m, indirect := false })
            ++ indirectOut.map (fun m => { m := m, indirect := true }) }

end Load
