/-
Model of mypy's type lattice operations for an Any-free fragment — hand-written, import-free, executable.

  mypy/subtypes.py  is_subtype / is_proper_subtype / _is_subtype / SubtypeVisitor   ↦ `subStep`, `isSubtype`, `isProperSubtype`
  mypy/subtypes.py  check_type_parameter                                            ↦ `varCheck`
  mypy/subtypes.py  is_callable_compatible / are_parameters_compatible (ARG_POS only) ↦ `subCallable`
  mypy/maptype.py   map_instance_to_supertype                                       ↦ `Hier.mapTo` (the path table is `Hier.sup`)
  mypy/typeops.py   make_simplified_union / _remove_redundant_union_items           ↦ `simplifyUnion`, `removePass`
  mypy/typeops.py   tuple_fallback                                                  ↦ `tupleFallback`
  mypy/types.py     flatten_nested_unions / UnionType.make_union / TypeType.make_normalized ↦ `flattenL`, `makeUnion`, `normType`
  mypy/join.py      join_types / TypeJoinVisitor / InstanceJoiner                   ↦ `joinStep`, `joinInstStep`, `join`
  mypy/meet.py      meet_types / TypeMeetVisitor                                    ↦ `meetStep`, `meet`

Fragment (`Ty`): Never, None, nominal instances of non-generic classes (`inst`) and of classes with one type
parameter of declared variance (`gen`), unions, fixed-length tuples with fallback `builtins.tuple`, callables with
required positional parameters and fallback `builtins.function`, int/bytes literals, `type[...]`.
Not in the fragment (the harness never maps such a type to a term): Any in any form (incl. bare `type`, bare
generics, `Callable[..., T]`), protocols, TypedDicts, NamedTuples and other tuple subclasses, variadic tuples,
type variables, overloads, enums/`bool` (literal contraction), classes with `_promote` targets inside the
universe (`float`), metaclasses, classes defining `__call__`, classes used as a constant base argument that
have generic bases themselves (`class str(Sequence[str])`), `Type[...]` of tuples / builtins / abstract classes.
Where the real result of an operation leaves the fragment (`join_types(Literal[1], Type[A])` is `Any`) the
model's value is not compared.

The class hierarchy is a parameter (`Hier`): the harness exports it from the real `TypeInfo`s of the fixture
(`mro`, `bases`, `map_instance_to_supertype`, declared variance; protocol ancestors such as `typing.Collection`
are contracted out) and the driver checks the hypotheses the theorems need (`Hier.ok`) on that concrete table
on every run.

Modelling decisions (each exercised by the correspondence):
* `Type.__eq__` on unions compares item *sets*; the model compares terms structurally (`Ty.beq`).  The `==`
  fast paths of the code are semantically redundant for reflexive relations, so this is not observable; the
  universe contains permuted unions to check exactly that.
* The fast paths of `visit_union_type` (`fast_check`, literal de-duplication) are subsumed by the item loop.
* `join_types(t, self.s)` / `meet_types(t, self.s)` inside `visit_instance` (re-dispatch with swapped operands)
  are replaced by a direct call of the other operand's visitor method (see `joinVisitInstance`).
* `InstanceJoiner.seen_instances` (recursion guard for recursive generic bases), promotions and the protocol
  bases consulted by `join_instances_via_supertype` do not arise in the fragment and are not modelled.
* `can_be_true` / `can_be_false` are those of declared types (`joinTruthiness`).

Recursion: every mutually recursive group is written as a non-recursive *step functional* over the recursive
calls (`subStep`, `joinInstStep`, `joinStep`, `meetStep`) iterated by structural recursion on a fuel `Nat`
that the wrappers initialise from a size measure; Proofs/Types.lean and Proofs/TypesJoinFuel.lean show the
fuel is always sufficient (`S_unfold`, `join_unfold`, `meet_unfold`), so the wrappers satisfy the step
equations and nothing else about fuel is used.
-/
namespace Types

inductive Ty where
  | never                                   -- UninhabitedType
  | none                                    -- NoneType
  | inst (c : Nat)                          -- Instance of a class without type parameters
  | gen (c : Nat) (arg : Ty)                -- Instance of a class with one type parameter
  | union (items : List Ty)                 -- UnionType
  | tuple (items : List Ty)                 -- TupleType, partial_fallback builtins.tuple
  | callable (args : List Ty) (ret : Ty)    -- CallableType, ARG_POS only, fallback builtins.function
  | lit (c : Nat) (v : Nat)                 -- LiteralType, fallback `inst c`
  | typeType (item : Ty)                    -- TypeType (not a TypeForm)
deriving Repr, Inhabited

mutual
def Ty.beq : Ty → Ty → Bool
  | .never, .never => true
  | .none, .none => true
  | .inst c, .inst d => c == d
  | .gen c a, .gen d b => c == d && Ty.beq a b
  | .union xs, .union ys => beqL xs ys
  | .tuple xs, .tuple ys => beqL xs ys
  | .callable xs r, .callable ys s => beqL xs ys && Ty.beq r s
  | .lit c v, .lit d w => c == d && v == w
  | .typeType a, .typeType b => Ty.beq a b
  | _, _ => false
def beqL : List Ty → List Ty → Bool
  | [], [] => true
  | x :: xs, y :: ys => Ty.beq x y && beqL xs ys
  | _, _ => false
end

instance : BEq Ty := ⟨Ty.beq⟩

/- Size measure (weights chosen so that every recursive call of the step functionals is on a smaller pair:
   a literal is bigger than its fallback instance, a callable bigger than `builtins.function`, a tuple
   bigger than its fallback `tuple[Union[items]]`). -/
mutual
def Ty.size : Ty → Nat
  | .never => 1 | .none => 1 | .inst _ => 1
  | .gen _ a => 1 + a.size
  | .union is => 1 + sizeL is
  | .tuple is => 3 + sizeL is
  | .callable as r => 2 + sizeL as + r.size
  | .lit _ _ => 2
  | .typeType i => 1 + i.size
def sizeL : List Ty → Nat
  | [] => 0
  | t :: ts => t.size + sizeL ts
end

def Ty.isUnion : Ty → Bool | .union _ => true | _ => false
def Ty.isNone : Ty → Bool | .none => true | _ => false
def Ty.isNever : Ty → Bool | .never => true | _ => false
/-- Instance (of a generic or non-generic class) -/
def Ty.isInstance : Ty → Bool | .inst _ => true | .gen _ _ => true | _ => false
def Ty.cls : Ty → Option Nat | .inst c => some c | .gen c _ => some c | _ => Option.none

/-! ## The class hierarchy -/

inductive Variance | inv | co | contra deriving DecidableEq, Repr

/-- How the (single) type argument of a class instance is seen from a superclass:
    `na` superclass has no parameter, `param` the subclass's own argument is passed through,
    `const a` the superclass is instantiated with the non-generic class instance `inst a`. -/
inductive BaseArg | na | param | const (a : Nat) deriving DecidableEq, Repr

structure Hier where
  /-- the classes of the table (everything below is only meaningful for these) -/
  classes : List Nat
  /-- the class has a (single) type parameter -/
  generic : Nat → Bool
  /-- `sup c d = some m`: `d ∈ c.mro`; `m` = argument mapping of `map_instance_to_supertype(c[T], d)` -/
  sup : Nat → Nat → Option BaseArg
  /-- declared variance of the parameter of a generic class -/
  variance : Nat → Variance
  /-- `TypeInfo.bases` (class ids, in order) -/
  bases : Nat → List Nat
  /-- `len(TypeInfo.mro)` -/
  mroLen : Nat → Nat
  /-- fullname ∈ TUPLE_LIKE_INSTANCE_NAMES -/
  tupleLike : Nat → Bool
  objectC : Nat
  tupleC : Nat
  functionC : Nat
  typeC : Nat

/-- `left.type.has_base(rname) or rname == "builtins.object"` -/
def Hier.hasBase (H : Hier) (c d : Nat) : Bool := (H.sup c d).isSome || d == H.objectC

/-- `map_instance_to_supertype(t, d)` for an Instance `t` whose class has base `d` -/
def Hier.mapTo (H : Hier) (t : Ty) (d : Nat) : Ty :=
  match t with
  | .inst c =>
    if c == d then t else
    match H.sup c d with
    | some (.const a) => .gen d (.inst a)
    | _ => .inst d
  | .gen c x =>
    if c == d then t else
    match H.sup c d with
    | some .param => .gen d x
    | some (.const a) => .gen d (.inst a)
    | _ => .inst d
  | _ => t

/-- composition of argument mappings: `c` seen from `d` (`m1`), `d` seen from `e` (`m2`) -/
def BaseArg.comp (m1 m2 : BaseArg) : BaseArg :=
  match m2 with
  | .na => .na
  | .const a => .const a
  | .param => m1

/-- shape of a mapping `sup c d = some m` w.r.t. which of the classes are generic -/
def Hier.shapeOk (H : Hier) (c d : Nat) (m : BaseArg) : Bool :=
  match m with
  | .na => !H.generic d
  | .param => H.generic c && H.generic d
  | .const a => H.generic d && H.classes.contains a && !H.generic a

/-! The hypotheses about the class table under which the laws are proved: a finite, executable check
    (`Hier.ok`) that the driver evaluates on the table exported from the real `TypeInfo`s on every run. -/

/-- the special classes exist with the right arity; object has no bases -/
def Hier.okSpecial (H : Hier) : Bool :=
  let cs := H.classes
  cs.contains H.objectC && !H.generic H.objectC && (H.bases H.objectC).isEmpty
  && cs.contains H.tupleC && H.generic H.tupleC && H.tupleLike H.tupleC
  && cs.contains H.functionC && !H.generic H.functionC
  && cs.contains H.typeC && !H.generic H.typeC

/-- `sup` is reflexive with the identity mapping, has object on top, is well-shaped, transitive with
    composed mappings, antisymmetric; declared variances agree along a passed-through parameter -/
def Hier.okSup (H : Hier) : Bool :=
  let cs := H.classes
  cs.all (fun c =>
    H.sup c c == some (if H.generic c then .param else .na)
    && H.sup c H.objectC == some .na
    && cs.all (fun d => match H.sup c d with
        | none => true
        | some m => H.shapeOk c d m
            && cs.all (fun e => match H.sup d e with
                | none => true
                | some m2 => H.sup c e == some (m.comp m2))
            && (m != .param || H.variance c == .inv || H.variance c == H.variance d)
            && (c == d || H.sup d c == none)))

/-- direct bases are proper superclasses inside the table; only object has none; mro lengths grow strictly
    downwards; every proper superclass is reached through a direct base -/
def Hier.okBases (H : Hier) : Bool :=
  let cs := H.classes
  cs.all (fun c =>
    (H.bases c).all (fun b => cs.contains b && b != c && (H.sup c b).isSome)
    && (c == H.objectC || !(H.bases c).isEmpty)
    && cs.all (fun d => match H.sup c d with
        | none => true
        | some _ => c == d || (H.mroLen d < H.mroLen c && (H.bases c).any (fun b => (H.sup b d).isSome))))

/-- tuple-like classes are covariant generics closed upwards among generic superclasses; their only
    non-generic superclass is object -/
def Hier.okTupleLike (H : Hier) : Bool :=
  let cs := H.classes
  cs.all (fun d => !H.tupleLike d ||
    (H.generic d && H.variance d == .co
     && cs.all (fun e => match H.sup d e with
        | none => true
        | some .na => e == H.objectC
        | some .param => H.tupleLike e
        | some (.const _) => false)))

/-- builtins.function and builtins.type have no subclasses and only object above them; no class is
    instantiated over builtins.function -/
def Hier.okFunType (H : Hier) : Bool :=
  let cs := H.classes
  cs.all (fun c =>
    (H.sup c H.functionC == none || c == H.functionC)
    && (H.sup H.functionC c == none || c == H.functionC || c == H.objectC)
    && (H.sup c H.typeC == none || c == H.typeC)
    && (H.sup H.typeC c == none || c == H.typeC || c == H.objectC)
    && cs.all (fun d => H.sup c d != some (.const H.functionC)))

/-- a class used as a constant type argument of a base (`class Sub(Inv[A])`) has no generic superclass
    itself (so joining two such arguments never needs a further join of arguments; `class str(Sequence[str])`
    is outside the fragment) -/
def Hier.okConst (H : Hier) : Bool :=
  let cs := H.classes
  cs.all (fun c => cs.all (fun d => match H.sup c d with
    | some (.const a) => cs.all (fun e => H.sup a e == none || H.sup a e == some .na)
    | _ => true))

def Hier.ok (H : Hier) : Bool :=
  H.okSpecial && H.okSup && H.okBases && H.okTupleLike && H.okFunType && H.okConst

mutual
/-- `builtins.function` (not denotable in source; the fallback of callables) does not occur -/
def Ty.noFunc (H : Hier) : Ty → Bool
  | .never => true
  | .none => true
  | .inst c => c != H.functionC
  | .gen _ a => a.noFunc H
  | .union is => noFuncL H is
  | .tuple is => noFuncL H is
  | .callable as r => noFuncL H as && r.noFunc H
  | .lit c _ => c != H.functionC
  | .typeType i => i.noFunc H
def noFuncL (H : Hier) : List Ty → Bool
  | [] => true
  | t :: ts => t.noFunc H && noFuncL H ts
end

mutual
/-- no `Type[...]` anywhere in the term -/
def Ty.noTypeType : Ty → Bool
  | .never => true
  | .none => true
  | .inst _ => true
  | .gen _ a => a.noTypeType
  | .union is => noTypeTypeL is
  | .tuple is => noTypeTypeL is
  | .callable as r => noTypeTypeL as && r.noTypeType
  | .lit _ _ => true
  | .typeType _ => false
def noTypeTypeL : List Ty → Bool
  | [] => true
  | t :: ts => t.noTypeType && noTypeTypeL ts
end

mutual
/-- the restriction under which the join/meet bound laws are proved: the argument of every invariant or
    contravariant generic instance is free of `Type[...]` (so that for such arguments `is_subtype` and
    `is_proper_subtype` coincide; see `not_meet_lower` for what happens otherwise) -/
def Ty.latOk (H : Hier) : Ty → Bool
  | .never => true
  | .none => true
  | .inst _ => true
  | .gen c a => a.latOk H && (H.variance c == .co || a.noTypeType)
  | .union is => latOkL H is
  | .tuple is => latOkL H is
  | .callable as r => latOkL H as && r.latOk H
  | .lit _ _ => true
  | .typeType i => i.latOk H
def latOkL (H : Hier) : List Ty → Bool
  | [] => true
  | t :: ts => t.latOk H && latOkL H ts
end

mutual
/-- well-formed terms: classes from the table used with the right arity; unions flattened
    (`UnionType.__init__` flattens) and non-empty (`Union[()]` has no subtype at all in the code, not even
    Never); `Type[...]` normalised (`TypeType.make_normalized`) -/
def Ty.wf (H : Hier) : Ty → Bool
  | .never => true
  | .none => true
  | .inst c => H.classes.contains c && !H.generic c
  | .gen c a => H.classes.contains c && H.generic c && a.wf H
  | .union is => wfL H is && is.all (fun i => !i.isUnion) && !is.isEmpty
  | .tuple is => wfL H is
  | .callable as r => wfL H as && r.wf H
  | .lit c _ => H.classes.contains c && !H.generic c
  | .typeType i => i.wf H && !i.isUnion
def wfL (H : Hier) : List Ty → Bool
  | [] => true
  | t :: ts => t.wf H && wfL H ts
end

/-! ## Subtyping -/

/-- `check_type_parameter` (Any-free: `is_equivalent` / `is_same_type` are both "each way") -/
def varCheck (v : Variance) (rec : Ty → Ty → Bool) (x y : Ty) : Bool :=
  match v with
  | .co => rec x y
  | .contra => rec y x
  | .inv => rec x y && rec y x

/-- `all(f(a, b) for a, b in zip(xs, ys))` -/
def all2 (f : Ty → Ty → Bool) : List Ty → List Ty → Bool
  | x :: xs, y :: ys => f x y && all2 f xs ys
  | _, _ => true

/-- `visit_instance`, right an Instance: nominal check after mapping left to the right's class -/
def subInstance (H : Hier) (rec : Ty → Ty → Bool) (l r : Ty) (c d : Nat) : Bool :=
  if H.hasBase c d then
    match H.mapTo l d, r with
    | .gen _ x, .gen _ y => varCheck (H.variance d) rec x y
    | _, _ => true
  else false

/-- `visit_instance(left)` — left an Instance of class `c`, right not a union -/
def subFromInstance (H : Hier) (rec : Ty → Ty → Bool) (l : Ty) (c : Nat) (r : Ty) : Bool :=
  match r with
  | .inst d => subInstance H rec l r c d
  | .gen d _ => subInstance H rec l r c d
  | _ => false      -- TupleType (Any-free), TypeType (no metaclasses; bare `type` is outside the fragment),
                    -- LiteralType (no last_known_value), CallableType (no `__call__`), None, Never

/-- `visit_tuple_type(left)` -/
def subFromTuple (H : Hier) (rec : Ty → Ty → Bool) (ls : List Ty) (r : Ty) : Bool :=
  match r with
  | .inst d => d == H.objectC                 -- partial_fallback <: right and tuple_fallback(left) <: right
  | .gen d y => if H.tupleLike d then ls.all (fun li => rec li y) else false
  | .tuple rs => ls.length == rs.length && all2 rec ls rs
  | _ => false

/-- `visit_callable_type(left)`; `is_callable_compatible` for required positional parameters:
    return types first, then every right parameter has a left parameter at the same position whose type is
    more general, and left has no extra required parameter -/
def subFromCallable (H : Hier) (rec : Ty → Ty → Bool) (as : List Ty) (ret : Ty) (r : Ty) : Bool :=
  match r with
  | .callable bs ret' => rec ret ret' && as.length == bs.length && all2 rec bs as
  | .inst _ => rec (.inst H.functionC) r      -- left.fallback <: right
  | .gen _ _ => rec (.inst H.functionC) r
  | _ => false                                -- TypeType: left is not a type object

/-- `visit_type_type(left)` -/
def subFromTypeType (H : Hier) (p : Bool) (rec : Ty → Ty → Bool) (x : Ty) (r : Ty) : Bool :=
  match r with
  | .typeType y => rec x y
  | .callable _ ret => if p then false else rec x ret   -- constructor's return type vs right's return type
  | .inst d => d == H.objectC || d == H.typeC           -- (no metaclasses in the fragment)
  | _ => false

/-- `left.accept(SubtypeVisitor(right))` for non-union left and non-union right -/
def subAtom (H : Hier) (p : Bool) (rec : Ty → Ty → Bool) (l r : Ty) : Bool :=
  match l with
  | .never => true                                       -- visit_uninhabited_type
  | .none => r.isNone || r == .inst H.objectC            -- visit_none_type (strict optional, no protocols)
  | .inst c => subFromInstance H rec l c r
  | .gen c _ => subFromInstance H rec l c r
  | .tuple ls => subFromTuple H rec ls r
  | .callable as ret => subFromCallable H rec as ret r
  | .lit c _ =>                                          -- visit_literal_type
    match r with
    | .lit _ _ => false                                  -- `left == self.right`, already known to be false
    | _ => rec (.inst c) r                               -- left.fallback <: right
  | .typeType x => subFromTypeType H p rec x r
  | .union _ => false                                    -- not reached

/-- one unfolding of `is_subtype` (`p = false`) / `is_proper_subtype` (`p = true`): the `left == right`
    fast path, the right-hand union special case of `_is_subtype`, then the visitor -/
def subStep (H : Hier) (p : Bool) (rec : Ty → Ty → Bool) (l r : Ty) : Bool :=
  if l == r then true else
  match l with
  | .union ls => ls.all (fun i => rec i r)               -- visit_union_type (fast paths are subsumed)
  | _ =>
    match r with
    | .union rs => rs.any (fun x => rec l x)             -- _is_subtype: right is a union, left is not
    | _ => subAtom H p rec l r

def subF (H : Hier) (p : Bool) : Nat → Ty → Ty → Bool
  | 0, _, _ => false
  | n + 1, l, r => subStep H p (subF H p n) l r

def isSubtype (H : Hier) (l r : Ty) : Bool := subF H false (l.size + r.size) l r
def isProperSubtype (H : Hier) (l r : Ty) : Bool := subF H true (l.size + r.size) l r
def isEquivalent (H : Hier) (a b : Ty) : Bool := isSubtype H a b && isSubtype H b a

/-! ## Union simplification -/

mutual
/-- `flatten_nested_unions` -/
def flattenT : Ty → List Ty
  | .union is => flattenL is
  | t => [t]
def flattenL : List Ty → List Ty
  | [] => []
  | t :: ts => flattenT t ++ flattenL ts
end

/-- `UnionType.make_union` -/
def makeUnion : List Ty → Ty
  | [] => .never
  | [t] => t
  | ts => .union ts

/-- one direction of `_remove_redundant_union_items`: `acc` = new_items, `lf` = fallbacks of the literals
    already kept (`unduplicated_literal_fallbacks`) -/
def removePass (ps : Ty → Ty → Bool) : List Ty → List Ty → List Nat → List Ty
  | [], acc, _ => acc
  | ti :: rest, acc, lf =>
    if ti.isNever then removePass ps rest acc lf
    else if acc.contains ti then removePass ps rest acc lf
    else
      match ti with
      | .lit c _ =>
        if lf.contains c then removePass ps rest (acc ++ [ti]) lf
        else if acc.any (fun tj => ps ti tj) then removePass ps rest acc lf
        else removePass ps rest (acc ++ [ti]) (c :: lf)
      | _ =>
        if acc.any (fun tj => ps ti tj) then removePass ps rest acc lf
        else removePass ps rest (acc ++ [ti]) lf

/-- `_remove_redundant_union_items`: forward pass, then the same on the reversed list -/
def removeRedundant (ps : Ty → Ty → Bool) (items : List Ty) : List Ty :=
  let i1 := removePass ps items [] []
  if i1.length ≤ 1 then i1 else
  let i2 := removePass ps i1.reverse [] []
  if i2.length ≤ 1 then i2 else i2.reverse

/-- `make_simplified_union(items)` (no enum/bool literals in the fragment, so no contraction) -/
def simplifyUnion (H : Hier) (items : List Ty) : Ty :=
  let fl := flattenL items
  match fl with
  | [t] => t
  | _ => makeUnion (removeRedundant (isProperSubtype H) fl)

/-- `tuple_fallback` of a plain fixed tuple: `builtins.tuple[make_simplified_union(items)]` -/
def tupleFallback (H : Hier) (items : List Ty) : Ty := .gen H.tupleC (simplifyUnion H items)

/-- `TypeType.make_normalized` -/
def normType : Ty → Ty
  | .union is => makeUnion (is.map .typeType)
  | t => .typeType t

/-! ## Join -/

def zipWith2 (f : Ty → Ty → Ty) : List Ty → List Ty → List Ty
  | x :: xs, y :: ys => f x y :: zipWith2 f xs ys
  | _, _ => []

/-- `is_better` on a list of candidates, first wins ties: longest MRO -/
def pickBest (H : Hier) : Option Ty → List Ty → Ty
  | Option.none, [] => .inst H.objectC
  | some b, [] => b
  | Option.none, r :: rs => pickBest H (some r) rs
  | some b, r :: rs =>
    if H.mroLen (r.cls.getD 0) > H.mroLen (b.cls.getD 0) then pickBest H (some r) rs else pickBest H (some b) rs

/-- `InstanceJoiner.join_instances(t, s)`: `J` joins type arguments, `rec` is the recursive call -/
def joinInstStep (H : Hier) (J : Ty → Ty → Ty) (rec : Ty → Ty → Ty) (t s : Ty) : Ty :=
  match t.cls, s.cls with
  | some c, some d =>
    if c == d then
      match t, s with
      | .gen _ x, .gen _ y =>
        match H.variance c with
        | .co => .gen c (J x y)
        | _ => if isEquivalent H x y then .gen c (J x y) else .inst H.objectC
      | _, _ => t
    else if !(H.bases c).isEmpty && H.hasBase c d then
      -- join_instances_via_supertype(t, s)
      pickBest H Option.none ((H.bases c).map (fun b => rec (H.mapTo t b) s))
    else
      pickBest H Option.none ((H.bases d).map (fun b => rec (H.mapTo s b) t))
  | _, _ => .inst H.objectC

def joinInstF (H : Hier) (J : Ty → Ty → Ty) : Nat → Ty → Ty → Ty
  | 0, _, _ => .inst H.objectC
  | k + 1, t, s => joinInstStep H J (joinInstF H J k) t s

def joinInstances (H : Hier) (J : Ty → Ty → Ty) (t s : Ty) : Ty :=
  joinInstF H J (H.mroLen (t.cls.getD 0) + H.mroLen (s.cls.getD 0) + 1) t s

/-- `TypeJoinVisitor(s).visit_type_type(t)`, `t = Type[y]` -/
def joinVisitTypeType (H : Hier) (J : Ty → Ty → Ty) (s : Ty) (y : Ty) : Ty :=
  match s with
  | .typeType x => normType (J y x)
  | .inst c => if c == H.typeC then s else .inst H.objectC
  | _ => .inst H.objectC             -- default(s) (for a literal `s` the code yields Any: outside the fragment)

/-- `visit_literal_type(t)`, `t = Literal[v]` with fallback class `c` -/
def joinVisitLiteral (J : Ty → Ty → Ty) (s : Ty) (t : Ty) (c : Nat) : Ty :=
  match s with
  | .lit c' _ => if s == t then t else J (.inst c') (.inst c)
  | _ => J s (.inst c)

/-- `visit_tuple_type(t)` -/
def joinVisitTuple (H : Hier) (J : Ty → Ty → Ty) (s : Ty) (t : Ty) (ts : List Ty) : Ty :=
  match s with
  | .tuple ss =>
    if ss.length == ts.length then .tuple (zipWith2 J ts ss)
    else if isProperSubtype H s t then t
    else if isProperSubtype H t s then s
    else joinInstances H J (tupleFallback H ss) (tupleFallback H ts)
  | _ => J s (tupleFallback H ts)

/-- `visit_callable_type(t)` -/
def joinVisitCallable (H : Hier) (J M : Ty → Ty → Ty) (s : Ty) (t : Ty) (bs : List Ty) (ret : Ty) : Ty :=
  match s with
  | .callable as ret' =>
    if bs.length == as.length then
      if isEquivalent H t s then .callable (zipWith2 J bs as) (J ret ret')         -- combine_similar_callables
      else
        let args := zipWith2 M bs as                                              -- join_similar_callables
        if args.any (fun a => a.isNone || a.isNever) then J (.inst H.functionC) s
        else .callable args (J ret ret')
    else if isSubtype H s t then t
    else if isSubtype H t s then s
    else J (.inst H.functionC) s
  | _ => J (.inst H.functionC) s

/-- `visit_instance(t)`.  For `self.s` a TypeType / TupleType / LiteralType the code calls
    `join_types(t, self.s)`: this re-enters `join_types` with swapped operands, neither is a union / None / Never
    and the truthiness normalisation is idempotent, so it amounts to the other operand's visitor method with
    `self.s = t`; the model calls that method directly (keeps every recursive call on a smaller pair). -/
def joinVisitInstance (H : Hier) (J : Ty → Ty → Ty) (s t : Ty) : Ty :=
  match s with
  | .inst _ => joinInstances H J t s
  | .gen _ _ => joinInstances H J t s
  | .callable _ _ => J t (.inst H.functionC)
  | .typeType y => joinVisitTypeType H J t y
  | .tuple ss => joinVisitTuple H J t s ss
  | .lit c _ => joinVisitLiteral J t s c
  | _ => .inst H.objectC

/-- `Type.can_be_true` of a declared type (`can_be_true_default`); literal values are encoded so that
    0 (the int 0) and 1 (the empty string) are the falsy ones -/
def Ty.canBeTrue : Ty → Bool
  | .never => false
  | .none => false
  | .tuple is => !is.isEmpty
  | .lit _ v => v != 0 && v != 1
  | .union is => is.any (fun i => match i with
      | .never => false | .none => false | .tuple js => !js.isEmpty | .lit _ v => v != 0 && v != 1 | _ => true)
  | _ => true

/-- `Type.can_be_false` (`can_be_false_default`) -/
def Ty.canBeFalse : Ty → Bool
  | .never => false
  | .tuple is => is.isEmpty
  | .lit _ v => v == 0 || v == 1
  | .callable _ _ => false                     -- FunctionLike.__init__ sets `_can_be_false = False`
  | .union is => is.any (fun i => match i with
      | .never => false | .tuple js => js.isEmpty | .lit _ v => v == 0 || v == 1 | .callable _ _ => false
      | _ => true)
  | _ => true

/-- `true_or_false(t)`: a union is re-simplified, any other type only has its truthiness flags reset -/
def trueOrFalse (H : Hier) : Ty → Ty
  | .union is => simplifyUnion H is
  | t => t

/-- `join_types`: "if types are restricted in different ways, use the more general versions" -/
def joinTruthiness (H : Hier) (s t : Ty) : Ty × Ty :=
  if s.canBeTrue != t.canBeTrue || s.canBeFalse != t.canBeFalse then (trueOrFalse H s, trueOrFalse H t) else (s, t)

/-- the three operand swaps at the top of `join_types` -/
def joinSwap (s t : Ty) : Ty × Ty :=
  let (s, t) := if s.isUnion && !t.isUnion then (t, s) else (s, t)
  let (s, t) := if s.isNone && !t.isNone then (t, s) else (s, t)
  if s.isNever && !t.isNever then (t, s) else (s, t)

/-- `t.accept(TypeJoinVisitor(s))` -/
def joinVisit (H : Hier) (J M : Ty → Ty → Ty) (s t : Ty) : Ty :=
  match t with
  | .union _ => if isProperSubtype H s t then t else simplifyUnion H [s, t]
  | .none => if s.isNone || s.isNever then t else simplifyUnion H [s, t]
  | .never => s
  | .inst _ => joinVisitInstance H J s t
  | .gen _ _ => joinVisitInstance H J s t
  | .tuple ts => joinVisitTuple H J s t ts
  | .callable bs ret => joinVisitCallable H J M s t bs ret
  | .lit c _ => joinVisitLiteral J s t c
  | .typeType y => joinVisitTypeType H J s y

/-- one unfolding of `join_types(s, t)`: truthiness normalisation, operand swaps, visitor -/
def joinStep (H : Hier) (J M : Ty → Ty → Ty) (s0 t0 : Ty) : Ty :=
  let st0 := joinTruthiness H s0 t0
  let st := joinSwap st0.1 st0.2
  joinVisit H J M st.1 st.2

/-! ## Meet -/

/-- `visit_callable_type(t)` -/
def meetVisitCallable (H : Hier) (J M : Ty → Ty → Ty) (s t : Ty) (bs : List Ty) (ret : Ty) : Ty :=
  match s with
  | .callable as ret' =>
    if bs.length == as.length then
      if isEquivalent H t s then .callable (zipWith2 J bs as) (J ret ret')          -- combine_similar_callables
      else
        let r := M ret ret'                                                        -- meet_similar_callables
        if r.isNever then .never else .callable (zipWith2 J bs as) r
    else .never
  | _ => .never

/-- `visit_tuple_type(t)` -/
def meetVisitTuple (H : Hier) (M : Ty → Ty → Ty) (s t : Ty) (ts : List Ty) : Ty :=
  match s with
  | .tuple ss => if ss.length == ts.length then .tuple (zipWith2 M ts ss) else .never
  | .gen d y =>
    if H.tupleLike d then .tuple (ts.map (fun it => M it y))
    else if isProperSubtype H t s then t else .never
  | .inst _ => if isProperSubtype H t s then t else .never
  | _ => .never

/-- `visit_type_type(t)`, `t = Type[y]` (for a callable `self.s` the code re-dispatches to
    `visit_callable_type`, which yields the default for a non-type-object callable) -/
def meetVisitTypeType (H : Hier) (M : Ty → Ty → Ty) (s t : Ty) (y : Ty) : Ty :=
  match s with
  | .typeType x =>
    let m := M y x
    if m.isNone then m else normType m
  | .inst c => if c == H.typeC then t else .never
  | _ => .never

/-- `TypeMeetVisitor(s).visit_instance(t)`.  For `self.s` a TypeType / TupleType / LiteralType the code calls
    `meet_types(t, self.s)`; the proper-subtype shortcuts were already tried both ways and neither operand is
    a union, so this amounts to the other operand's visitor method with `self.s = t`, called directly here. -/
def meetVisitInstance (H : Hier) (M : Ty → Ty → Ty) (s t : Ty) : Ty :=
  if s.isInstance then
    if s.cls == t.cls then
      if isSubtype H t s || isSubtype H s t then
        match t, s with
        | .gen c x, .gen _ y => .gen c (M x y)
        | _, _ => t
      else .never
    else if isSubtype H t s then t
    else if isSubtype H s t then s
    else .never
  else
    match s with
    | .typeType y => meetVisitTypeType H M t s y
    | .tuple ss => meetVisitTuple H M t s ss
    | .lit c _ => if isSubtype H (.inst c) t then s else .never       -- visit_literal_type
    | _ => .never

/-- `t.accept(TypeMeetVisitor(s))` -/
def meetVisit (H : Hier) (J M : Ty → Ty → Ty) (s t : Ty) : Ty :=
  match t with
  | .union ts =>
    match s with
    | .union ss => simplifyUnion H (ts.flatMap (fun x => ss.map (fun y => M x y)))
    | _ => simplifyUnion H (ts.map (fun x => M x s))
  | .none => if s.isNone || s == .inst H.objectC then t else .never
  | .never => t
  | .inst _ => meetVisitInstance H M s t
  | .gen _ _ => meetVisitInstance H M s t
  | .tuple ts => meetVisitTuple H M s t ts
  | .callable bs ret => meetVisitCallable H J M s t bs ret
  | .lit c _ => if s.isInstance && isSubtype H (.inst c) s then t else .never
  | .typeType y => meetVisitTypeType H M s t y

/-- one unfolding of `meet_types(s, t)`: the two proper-subtype shortcuts, the union swap, the visitor -/
def meetStep (H : Hier) (J M : Ty → Ty → Ty) (s0 t0 : Ty) : Ty :=
  if isProperSubtype H s0 t0 then s0
  else if isProperSubtype H t0 s0 then t0
  else
    let st := if s0.isUnion && !t0.isUnion then (t0, s0) else (s0, t0)
    meetVisit H J M st.1 st.2

mutual
def joinF (H : Hier) : Nat → Ty → Ty → Ty
  | 0, s, _ => s
  | n + 1, s, t => joinStep H (joinF H n) (meetF H n) s t
def meetF (H : Hier) : Nat → Ty → Ty → Ty
  | 0, s, _ => s
  | n + 1, s, t => meetStep H (joinF H n) (meetF H n) s t
end

/-- fuel: every recursive call of `joinStep` / `meetStep` is on a pair of smaller total size -/
def jmFuel (s t : Ty) : Nat := s.size + t.size

def join (H : Hier) (s t : Ty) : Ty := joinF H (jmFuel s t) s t
def meet (H : Hier) (s t : Ty) : Ty := meetF H (jmFuel s t) s t

end Types
