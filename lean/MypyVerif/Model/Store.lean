/-
Model of how one module's cache entry is updated in the metadata store, with crashes and failed
operations (mypy/build.py: write_cache, replace_cache_meta / write_cache_meta, write_cache_meta_ex,
process_stale_scc, process_stale_scc_interface / _implementation; mypy/metastore.py).

A cache entry has three physical records: data, meta, meta_ex.  Every record carries a ghost *tag*: the
analysis (run) that produced it.  The next run trusts an entry iff meta and meta_ex are present and
`meta.data_mtime` equals the data record's mtime (`find_cache_meta`, `validate_meta`) — then it replays
meta_ex's error lines and dependency hashes next to meta's.

Write protocol for a re-analysed module (analysis `t`, `changed` = interface hash differs):
    [write data t]  (only if changed; failure ⇒ nothing else is written)
    commit
    remove meta_ex            (only in the repaired protocol `new = true`; failure ⇒ stop)
    write meta (t, data stamp)   (failure ⇒ stop in the repaired protocol; the old protocol carried on)
    write meta_ex t
    commit
The same order is used by the parallel workers (interface phase: data, commit, remove, meta, commit;
implementation phase: meta_ex, commit), so per module the sequence of store operations is the same.
-/
namespace Store

abbrev Tag := Nat

structure Phys where
  data : Option Nat              -- data record written by analysis t (its mtime stamp identifies t)
  metaR : Option (Nat × Nat)      -- (analysis, data stamp it refers to)
  metaEx : Option Nat
deriving Repr, DecidableEq

inductive Op
  | wData (t : Nat)
  | rmMetaEx
  | wMeta (t dt : Nat)
  | wMetaEx (t : Nat)
deriving Repr, DecidableEq

def apply (p : Phys) : Op → Phys
  | .wData t => { p with data := some t }
  | .rmMetaEx => { p with metaEx := none }
  | .wMeta t dt => { p with metaR := some (t, dt) }
  | .wMetaEx t => { p with metaEx := some t }

/-- which of the (up to four) store operations of this update fail: data, remove, meta, meta_ex -/
structure Fails where
  data : Bool
  rm : Bool
  metaR : Bool
  metaEx : Bool
deriving Repr, DecidableEq

/-- the meta / meta_ex part of the update, given the data stamp `dt` the new meta refers to -/
def tailOps (new : Bool) (t dt : Nat) (f : Fails) : List Op :=
  if new then
    (if f.rm then [] else if f.metaR then [Op.rmMetaEx]
     else [Op.rmMetaEx, Op.wMeta t dt] ++ (if f.metaEx then [] else [Op.wMetaEx t]))
  else
    (if f.metaR then [] else [Op.wMeta t dt]) ++ (if f.metaEx then [] else [Op.wMetaEx t])

/-- the data part: operations, and the stamp of the data record the new meta will refer to
    (`none`: `write_cache` returns no meta — failed data write, or no data record to stat) -/
def dataOps (changed : Bool) (t : Nat) (cur : Option Nat) (f : Fails) : Option (List Op × Nat) :=
  if changed then (if f.data then none else some ([Op.wData t], t))
  else match cur with
    | some dt => some ([], dt)      -- interface unchanged: the old data record is kept
    | none => none

/-- the operations that take effect, in order, when analysis `t` updates an entry whose data record
    currently carries stamp `cur` (`none` = no data record) -/
def updateOps (new : Bool) (changed : Bool) (t : Nat) (cur : Option Nat) (f : Fails) : List Op :=
  match dataOps changed t cur f with
  | none => []
  | some (ops, dt) => ops ++ tailOps new t dt f

/-- the entry would be trusted by the next run -/
def trusted (p : Phys) : Bool :=
  match p.metaR, p.data, p.metaEx with
  | some (_, dt), some d, some _ => dt == d
  | _, _, _ => false

/-- what the next run would replay: (analysis of meta, analysis of meta_ex) -/
def replayed (p : Phys) : Option (Nat × Nat) :=
  match p.metaR, p.data, p.metaEx with
  | some (t, dt), some d, some t' => if dt == d then some (t, t') else none
  | _, _, _ => none

/-- The invariant: a trusted entry pairs a meta with the meta_ex of the same analysis. -/
def Safe (p : Phys) : Prop :=
  ∀ t dt t', p.metaR = some (t, dt) → p.data = some dt → p.metaEx = some t' → t' = t

instance (p : Phys) : Decidable (Safe p) := by
  unfold Safe
  cases hm : p.metaR with
  | none => exact isTrue (by intro _ _ _ h; cases h)
  | some m =>
    cases hd : p.data with
    | none => exact isTrue (by intro _ _ _ _ h; cases h)
    | some d =>
      cases he : p.metaEx with
      | none => exact isTrue (by intro _ _ _ _ _ h; cases h)
      | some e =>
        by_cases h1 : m.2 = d
        · by_cases h2 : e = m.1
          · exact isTrue (by
              intro t dt t' a b c
              cases a; cases c; exact h2)
          · exact isFalse (by
              intro h
              exact h2 (h m.1 m.2 e rfl (by rw [h1]) rfl))
        · exact isTrue (by
            intro t dt t' a b c
            cases a; cases b
            exact absurd rfl h1)

/-- all states a crash can leave behind on a store where every successful write is durable at once
    (the file store): the state after every prefix of the effective operations -/
def crashStates (p : Phys) : List Op → List Phys
  | [] => [p]
  | o :: os => p :: crashStates (apply p o) os

end Store
