/-
Model of the loop mypyc emits for `for … in zip(e0, e1, …)` (also inside comprehensions) — hand-written,
import-free, executable.

  mypyc/irbuild/for_helpers.py  ForZip.gen_condition  ↦ `condPass`: the operands' exit tests run strictly in operand
                                order; the first exhausted operand leaves the loop (`loop_exit`), the later ones
                                are not touched.  For an iterator / generator operand the test *is* `next()`
                                (ForIterable / ForNativeGenerator), so every operand before the exhausted one has
                                already given up an item.
                                ForZip.begin_body / gen_step ↦ `run` (one body execution per complete pass)
  CPython Python/bltinmodule.c  zip_next: `for i in 0..n: item = next(it_i); if (item == NULL) return NULL`
                                — the same left-to-right pass; `closed` is its well-known closed form.

An operand is represented by the number of items it can still produce.
-/
namespace ForZip

/-- one pass over the exit tests: items taken from each operand in this pass, and whether the body runs -/
def condPass : List Nat → List Nat × Bool
  | [] => ([], true)
  | 0 :: rest => (0 :: rest.map (fun _ => 0), false)
  | (_ + 1) :: rest => let r := condPass rest; (1 :: r.1, r.2)

def subEach : List Nat → List Nat → List Nat
  | a :: as, b :: bs => (a - b) :: subEach as bs
  | _, _ => []

def addEach : List Nat → List Nat → List Nat
  | a :: as, b :: bs => (a + b) :: addEach as bs
  | _, _ => []

/-- the whole loop: (number of body executions, items taken from each operand) -/
def run : Nat → List Nat → Nat × List Nat
  | 0, rem => (0, rem.map (fun _ => 0))
  | fuel + 1, rem =>
    let p := condPass rem
    if p.2 then
      let r := run fuel (subEach rem p.1)
      (r.1 + 1, addEach p.1 r.2)
    else (0, p.1)

/-- smallest length -/
def minLen : List Nat → Nat
  | [] => 0
  | [a] => a
  | a :: rest => min a (minLen rest)

/-- closed form of what `zip` takes from its operands: the shortest length from every operand, and one more
    from each operand that precedes the *first* shortest one -/
def closedFrom (m : Nat) : List Nat → List Nat
  | [] => []
  | a :: rest => if a = m then m :: rest.map (fun _ => m) else (m + 1) :: closedFrom m rest

def closed (lens : List Nat) : Nat × List Nat := (minLen lens, closedFrom (minLen lens) lens)

end ForZip
