import MypyVerif.Model.CSem
/-!
# C15 — the tagged-integer representation and what the operations are specified to compute

`mypyc/lib-rt/mypyc_util.h`: a `CPyTagged` is a machine word; low bit clear = *short* int holding
`value << 1`; low bit set = pointer to a heap `int` ("long").  Tagged integers are always normalised: a
long never holds a value that fits a short.

The specification side (what Python computes) is over unbounded `Int`:
`+ - *`, `Int.fdiv`/`Int.fmod` (floor division, result takes the sign of the divisor), `-n`, `-n-1` (`~`),
`n * 2^k` / `Int.fdiv n (2^k)` (shifts), comparisons of `Int`; `&`, `|`, `^` act on the two's-complement
representation — for operands that fit 64 bits that is the 64-bit operation on `BitVec.ofInt 64`.
-/
namespace Tagged

/-- Tag bit clear. -/
def isShort (x : BitVec 64) : Prop := x.toNat % 2 = 0
instance (x : BitVec 64) : Decidable (isShort x) := by unfold isShort; infer_instance

/-- The integer a short tagged word stands for (`CPyTagged_ShortAsSsize_t`). -/
def sval (x : BitVec 64) : Int := x.toInt / 2

/-- The values a short tagged int can hold: 63-bit signed (`CPY_TAGGED_MIN … CPY_TAGGED_MAX`). -/
def Fits (n : Int) : Prop := -4611686018427387904 ≤ n ∧ n < 4611686018427387904
instance (n : Int) : Decidable (Fits n) := by unfold Fits; infer_instance

/-- The short tagged word of a fitting value. -/
def enc (n : Int) : BitVec 64 := BitVec.ofInt 64 (2 * n)

/-- Python `a >> k` for `k ≥ 0`: floor division by `2^k`. -/
def pyShr (a : Int) (k : Nat) : Int := a / (2 ^ k : Nat)

/-- Python `a << k` for `k ≥ 0`. -/
def pyShl (a : Int) (k : Nat) : Int := a * (2 ^ k : Nat)

/-- Bitwise operations of Python on operands that fit 64 bits: the operation on the 64-bit two's-complement
    words, read back as signed. -/
def and64 (a b : Int) : Int := (BitVec.ofInt 64 a &&& BitVec.ofInt 64 b).toInt
def or64 (a b : Int) : Int := (BitVec.ofInt 64 a ||| BitVec.ofInt 64 b).toInt
def xor64 (a b : Int) : Int := (BitVec.ofInt 64 a ^^^ BitVec.ofInt 64 b).toInt

/-! ### Python's bitwise operators on unbounded integers (two's complement, `~n = -n-1`) -/

/-- bits of `m` that are not in `n` -/
def natAndNot (m n : Nat) : Nat := m ^^^ (m &&& n)

def pyAnd : Int → Int → Int
  | .ofNat m, .ofNat n => .ofNat (m &&& n)
  | .ofNat m, .negSucc n => .ofNat (natAndNot m n)
  | .negSucc m, .ofNat n => .ofNat (natAndNot n m)
  | .negSucc m, .negSucc n => .negSucc (m ||| n)

def pyOr : Int → Int → Int
  | .ofNat m, .ofNat n => .ofNat (m ||| n)
  | .ofNat m, .negSucc n => .negSucc (natAndNot n m)
  | .negSucc m, .ofNat n => .negSucc (natAndNot m n)
  | .negSucc m, .negSucc n => .negSucc (m &&& n)

def pyXor : Int → Int → Int
  | .ofNat m, .ofNat n => .ofNat (m ^^^ n)
  | .ofNat m, .negSucc n => .negSucc (m ^^^ n)
  | .negSucc m, .ofNat n => .negSucc (m ^^^ n)
  | .negSucc m, .negSucc n => .ofNat (m ^^^ n)

/-! ### What a result word / an out-of-line call denotes -/

/-- Value computed by an operation: an integer, a truth value, or nothing claimed (`unspecified`: the
    out-of-line function may raise — division by zero, negative shift count — or is not specified here). -/
inductive SlowVal where
  | int (n : Int)
  | bool (b : Bool)
  | unspecified
deriving DecidableEq, Repr

/-- A valuation of tagged words: short words by `sval`; long words (heap pointers) by an arbitrary
    function, constrained only by normalisation (`CPyTagged_StealFromObject` & co. never box a value
    that fits). -/
structure Valuation where
  long : BitVec 64 → Int
  normalised : ∀ x, ¬ isShort x → ¬ Fits (long x)

def Valuation.val (V : Valuation) (x : BitVec 64) : Int :=
  if x.toNat % 2 = 0 then sval x else V.long x

/-- What the out-of-line functions are *trusted* to compute (`mypyc/lib-rt/int_ops.c`: they box the
    operands, call CPython's `PyNumber_*` / `PyObject_RichCompareBool` and unbox the result). -/
def slowSpec (V : Valuation) (name : String) (args : List (BitVec 64)) : SlowVal :=
  match args with
  | [a] =>
    if name = "CPyTagged_Negate_" then .int (-(V.val a))
    else if name = "CPyTagged_Invert_" then .int (-(V.val a) - 1)
    else .unspecified
  | [a, b] =>
    if name = "CPyTagged_Add_" then .int (V.val a + V.val b)
    else if name = "CPyTagged_Subtract_" then .int (V.val a - V.val b)
    else if name = "CPyTagged_Multiply_" then .int (V.val a * V.val b)
    else if name = "CPyTagged_FloorDivide_" then
      (if V.val b = 0 then .unspecified else .int ((V.val a).fdiv (V.val b)))
    else if name = "CPyTagged_Remainder_" then
      (if V.val b = 0 then .unspecified else .int ((V.val a).fmod (V.val b)))
    else if name = "CPyTagged_Rshift_" then
      (if V.val b < 0 then .unspecified else .int (pyShr (V.val a) (V.val b).toNat))
    else if name = "CPyTagged_Lshift_" then
      (if V.val b < 0 then .unspecified else .int (pyShl (V.val a) (V.val b).toNat))
    else if name = "CPyTagged_IsEq_" then .bool (decide (V.val a = V.val b))
    else if name = "CPyTagged_IsLt_" then .bool (decide (V.val a < V.val b))
    else .unspecified
  | [a, b, op] =>
    if name = "CPyTagged_BitwiseLongOp_" then
      (if op = 38#64 then .int (pyAnd (V.val a) (V.val b))          -- '&'
       else if op = 124#64 then .int (pyOr (V.val a) (V.val b))     -- '|'
       else if op = 94#64 then .int (pyXor (V.val a) (V.val b))     -- '^'
       else .unspecified)
    else .unspecified
  | _ => .unspecified

def SlowVal.negate : SlowVal → SlowVal
  | .bool b => .bool (!b)
  | _ => .unspecified

def denoteCall (V : Valuation) (c : CSem.SlowCall) : SlowVal :=
  if c.negated then (slowSpec V c.name c.args).negate else slowSpec V c.name c.args

/-- Denotation of the outcome of an integer-valued operation. -/
def denoteInt (V : Valuation) : CSem.Res (BitVec 64) → SlowVal
  | .fast v => if v.toNat % 2 = 0 then .int (sval v) else .unspecified
  | .slow c => denoteCall V c
  | .raise _ _ => .unspecified

/-- Denotation of the outcome of a comparison. -/
def denoteBool (V : Valuation) : CSem.Res Bool → SlowVal
  | .fast b => .bool b
  | .slow c => denoteCall V c
  | .raise _ _ => .unspecified

end Tagged
