/-
Model of mypy/ipc.py `IPCBase` (framing) — hand-written, import-free, executable.
Bytes are `Nat`s (the driver feeds values < 256; the theorems do not need the bound).

  frame_from_buffer  ↦ `frameFromBuffer`
  read_bytes         ↦ `readBytes`   (the POSIX branch: loop { frame_from_buffer ; recv ; extend })
  write_bytes        ↦ `frame`       (struct.pack("!L", len) ++ data)
-/
namespace Ipc

abbrev Byte := Nat

structure St where
  buffer : List Byte
  messageSize : Option Nat
deriving Repr, DecidableEq

def St.init : St := { buffer := [], messageSize := none }

/-- struct.unpack("!L", b[:4]) — big endian -/
def decodeLen (h : List Byte) : Nat := h.foldl (fun acc b => acc * 256 + b) 0

/-- struct.pack("!L", n) for n < 2^32 -/
def encodeLen (n : Nat) : List Byte :=
  [n / 16777216 % 256, n / 65536 % 256, n / 256 % 256, n % 256]

def frame (m : List Byte) : List Byte := encodeLen m.length ++ m

def HEADER : Nat := 4

/-- `self.message_size` after the `if self.message_size is None:` assignment -/
def St.ms (s : St) : Nat :=
  match s.messageSize with
  | some m => m
  | none => decodeLen (s.buffer.take 4)

def frameFromBuffer (s : St) : St × Option (List Byte) :=
  let size := s.buffer.length
  if size < 4 then (s, none)
  else
    let ms := s.ms
    if size < ms + 4 then ({ s with messageSize := some ms }, none)
    else ({ buffer := s.buffer.drop (4 + ms), messageSize := none }, some ((s.buffer.drop 4).take ms))

/-- `read_bytes`: `chunks` are the successive results of `recv`; an empty chunk or an exhausted list
    means the peer closed.  Result: new state, unread chunks, `some frame` or `none` (= b"" returned). -/
def readBytes (s : St) : List (List Byte) → St × List (List Byte) × Option (List Byte)
  | [] =>
    match frameFromBuffer s with
    | (s', some b) => (s', [], some b)
    | (s', none) => (s', [], none)
  | c :: cs =>
    match frameFromBuffer s with
    | (s', some b) => (s', c :: cs, some b)
    | (s', none) =>
      if c.isEmpty then (s', cs, none)
      else readBytes { s' with buffer := s'.buffer ++ c } cs

/-- `n` successive `read_bytes` calls on one connection -/
def readN : Nat → St → List (List Byte) → List (Option (List Byte)) × St × List (List Byte)
  | 0, s, cs => ([], s, cs)
  | n + 1, s, cs =>
    match readBytes s cs with
    | (s', cs', r) =>
      match readN n s' cs' with
      | (rs, s'', cs'') => (r :: rs, s'', cs'')

end Ipc
