import MypyVerif.Model.ErrPos
/-
Model of the error sink `mypy/errors.py : class Errors` — hand-written, import-free, executable.

  Errors.report                      ↦ `mkInfo` (position clamp from Model/ErrPos, code defaulting) then `addErrorInfo`
  Errors.add_error_info              ↦ `addErrorInfo`  = `ignoreStage` (is_ignored_error over origin_span,
                                        disabled codes, ignored_files) then `storeStage` (only_once,
                                        has_many_errors/hidden, _add_error_info, the "not covered by
                                        type: ignore" note, the error-code-link note)
  Errors.is_ignored_error            ↦ `isIgnoredError`
  Errors.is_error_code_enabled       ↦ `isEnabled`
  Errors._add_error_info             ↦ `rawAdd`        (no ErrorWatcher is installed: watchers filter upstream)
  Errors.note_for_info               ↦ `noteFor`
  Errors.report_simple_error         ↦ `simpleError`
  Errors.generate_unused_ignore_errors        ↦ `genUnused`
  Errors.generate_ignore_without_code_errors  ↦ `genNoCode`
  Errors.file_messages               ↦ `fileMessages` = render ∘ removeDuplicates ∘ sortMessages ∘ (not hidden)
  Errors.sort_messages / sort_within_context / remove_duplicates / render_messages (show_error_context off)

Abstractions: a message text is a `Msg` (caller-supplied texts are numbered; the texts the sink itself
composes are constructors carrying the data they are composed from); an error-code *name* is a number
(index in the alphabetical list of names, `Gen/ErrorCodes.lean`); an `ErrorCode` object is a `Code`
(name, name of `sub_code_of`, `default_enabled`) — equality of ErrorCodes is equality of names, as in
`ErrorCode.__eq__`; an `ErrorInfo` object identity (only used for `parent_error`) is `uid`; an import
context and a file path are numbers (only compared for equality).
Not modelled: ErrorWatchers, `show_error_context` (render_messages' context notes), the daemon's
`clear_errors_in_targets`, path simplification, message formatting (see Model/ExitStatus.lean).
-/
namespace Errors

abbrev CodeName := Nat
abbrev FileId := Nat

structure Code where
  name : CodeName
  subOf : Option CodeName
  defaultEnabled : Bool
  /-- `code not in HIDE_LINK_CODES and code.code in mypy_error_codes` -/
  linkable : Bool
deriving Repr, DecidableEq

/-- constants of mypy/errorcodes.py and mypy/errors.py the sink refers to -/
structure Env where
  misc : Code
  unusedIgnore : Code
  ignoreWithoutCode : Code
  /-- names of IMPORT, IMPORT_UNTYPED, IMPORT_NOT_FOUND -/
  importCodes : List CodeName
  /-- `original_error_codes` : new code name ↦ old code name -/
  originalCodes : List (CodeName × CodeName)
  /-- `errorcodes.sub_code_map` : code name ↦ names of its sub-codes (absent = empty) -/
  subCodeMap : List (CodeName × List CodeName)
deriving Repr

inductive Sev | error | note
deriving Repr, DecidableEq

inductive Msg
  /-- text supplied by the caller of `report` (numbered), prefixed with `offset` spaces -/
  | user (id : Nat) (offset : Nat)
  /-- `Error code "c" not covered by "type: ignore[...]" comment` -/
  | notCovered (code : CodeName) (ignored : List CodeName)
  /-- `Error code changed to c; "type: ignore" comment may be out of date` -/
  | codeChanged (code : CodeName)
  /-- `Unused "type: ignore[detail]" comment` + `, use narrower [..] instead of [u] code` per entry -/
  | unusedIgnore (detail : List CodeName) (narrower : List (CodeName × List CodeName))
  /-- `"type: ignore" comment without error code (consider "type: ignore[hint]" instead)` -/
  | ignoreWithoutCode (hint : List CodeName)
  /-- `See https://mypy.rtfd.io/en/stable/_refs.html#code-c for more info` -/
  | seeLink (code : CodeName)
  /-- `(Skipping most remaining errors due to unresolved imports or missing stubs; fix these first)` -/
  | skipping
deriving Repr, DecidableEq

structure Info where
  uid : Nat
  importCtx : Nat
  line : Int
  column : Int
  endLine : Int
  endColumn : Int
  sev : Sev
  msg : Msg
  code : Option Code
  blocker : Bool
  onlyOnce : Bool
  /-- `origin_span` (already defaulted to `[line]` when empty) -/
  span : List Int
  priority : Int
  hidden : Bool
  /-- uid of `parent_error` -/
  parent : Option Nat
deriving Repr, DecidableEq

structure Opts where
  enabled : List CodeName
  disabled : List CodeName
  /-- `options.show_error_code_links and not options.hide_error_codes` -/
  showLinks : Bool
  manyThreshold : Int
deriving Repr, DecidableEq

/-- the part of `Errors` that only configuration calls write -/
structure Cfg where
  file : FileId
  importCtx : Nat
  opts : Opts
  ignoredLines : List (FileId × List (Int × List CodeName))
  skippedLines : List (FileId × List Int)
  ignoredFiles : List FileId
deriving Repr

/-- the part of `Errors` that reports write -/
structure Dyn where
  /-- `used_ignored_lines` as the log of appends (file, line, code name) -/
  used : List (FileId × Int × CodeName)
  onlyOnce : List Msg
  /-- `error_info_map` as one global list in order of insertion -/
  infos : List (FileId × Info)
  hasBlockers : List FileId
  seenImportError : Bool
deriving Repr

def Dyn.init : Dyn := { used := [], onlyOnce := [], infos := [], hasBlockers := [], seenImportError := false }

def Cfg.init : Cfg :=
  { file := 0, importCtx := 0, opts := { enabled := [], disabled := [], showLinks := false, manyThreshold := -1 },
    ignoredLines := [], skippedLines := [], ignoredFiles := [] }

/-- dict lookup in an association list (first binding wins; setters put new bindings in front) -/
def lookup {κ ν : Type} [DecidableEq κ] (k : κ) : List (κ × ν) → Option ν
  | [] => none
  | (k', v) :: rest => if k = k' then some v else lookup k rest

/-! ### is_error_code_enabled / is_ignored_error -/

def subDisabled (o : Opts) (sub : Option CodeName) : Bool :=
  match sub with
  | some p => decide (p ∈ o.disabled)
  | none => false

def isEnabled (o : Opts) (c : Code) : Bool :=
  if c.name ∈ o.disabled then false
  else if c.name ∈ o.enabled then true
  else if subDisabled o c.subOf then false
  else c.defaultEnabled

/-- `info.code and not self.is_error_code_enabled(info.code)` -/
def codeDisabled (o : Opts) (code : Option Code) : Bool :=
  match code with
  | some c => !isEnabled o c
  | none => false

def subIn (sub : Option CodeName) (cs : List CodeName) : Bool :=
  match sub with
  | some p => decide (p ∈ cs)
  | none => false

/-- the last `if` of `is_ignored_error`: the line carries a non-empty code list `cs` -/
def codeMatches (o : Opts) (code : Option Code) (cs : List CodeName) : Bool :=
  match code with
  | some c => isEnabled o c && (decide (c.name ∈ cs) || subIn c.subOf cs)
  | none => false

def lineMatches (o : Opts) (code : Option Code) (entry : Option (List CodeName)) : Bool :=
  match entry with
  | none => false
  | some [] => true
  | some cs => codeMatches o code cs

def isIgnoredError (o : Opts) (line : Int) (i : Info) (ignores : List (Int × List CodeName)) : Bool :=
  if i.blocker then false
  else if codeDisabled o i.code then true
  else lineMatches o i.code (lookup line ignores)

/-! ### add_error_info, first half: the decision to drop the message -/

inductive Outcome
  /-- `return` without touching any state -/
  | dropped
  /-- `used_ignored_lines[file][line].append(code)` then `return` -/
  | ignoredAt (line : Int) (code : CodeName)
  /-- fall through to the storing half -/
  | pass
deriving Repr, DecidableEq

def afterLoop (cfg : Cfg) (file : FileId) : Outcome :=
  if file ∈ cfg.ignoredFiles then .dropped else .pass

def markOrDrop (env : Env) (o : Opts) (i : Info) (l : Int) : Outcome :=
  let ec := i.code.getD env.misc
  if isEnabled o ec then .ignoredAt l ec.name else .dropped

def scanSpan (env : Env) (cfg : Cfg) (file : FileId) (i : Info) (ign : List (Int × List CodeName)) : Outcome :=
  match i.span.find? (fun l => isIgnoredError cfg.opts l i ign) with
  | some l => markOrDrop env cfg.opts i l
  | none => afterLoop cfg file

def ignoreStage (env : Env) (cfg : Cfg) (file : FileId) (i : Info) : Outcome :=
  if i.blocker then .pass
  else match lookup file cfg.ignoredLines with
    | some ign => scanSpan env cfg file i ign
    | none => afterLoop cfg file

/-! ### add_error_info, second half -/

def isImportCode (env : Env) (code : Option Code) : Bool :=
  match code with
  | some c => decide (c.name ∈ env.importCodes)
  | none => false

/-- `_add_error_info` -/
def rawAdd (env : Env) (d : Dyn) (file : FileId) (i : Info) : Dyn :=
  { d with
    infos := d.infos ++ [(file, i)],
    hasBlockers := if i.blocker then d.hasBlockers ++ [file] else d.hasBlockers,
    seenImportError := d.seenImportError || isImportCode env i.code }

/-- the ErrorInfo `note_for_info` builds -/
def noteFor (i : Info) (msg : Msg) (code : Option Code) (onlyOnce : Bool) (priority : Int) : Info :=
  { i with uid := 0, sev := .note, msg := msg, code := code, blocker := false, onlyOnce := onlyOnce,
           priority := priority, hidden := false, parent := none }

def numFiles (infos : List (FileId × Info)) : Nat := (infos.map (·.1)).eraseDups.length

def hasManyErrors (o : Opts) (d : Dyn) : Bool :=
  if o.manyThreshold < 0 then false
  else if (numFiles d.infos : Int) ≥ o.manyThreshold then true
  else decide ((d.infos.length : Int) ≥ o.manyThreshold)

def shouldHide (env : Env) (o : Opts) (d : Dyn) (i : Info) : Bool :=
  d.seenImportError && !isImportCode env i.code && hasManyErrors o d

/-- `report_hidden_errors` -/
def reportHidden (env : Env) (d : Dyn) (file : FileId) (i : Info) : Dyn :=
  if Msg.skipping ∈ d.onlyOnce then d
  else rawAdd env { d with onlyOnce := d.onlyOnce ++ [Msg.skipping] } file (noteFor i .skipping none true 0)

def notCoveredMsg (env : Env) (c : Code) (ignored : List CodeName) : Msg :=
  match lookup c.name env.originalCodes with
  | some old => if old ∈ ignored then .codeChanged c.name else .notCovered c.name ignored
  | none => .notCovered c.name ignored

/-- the "not covered by type: ignore[...]" note, keyed on `info.line` (not on the origin span) -/
def notCoveredNote (env : Env) (cfg : Cfg) (file : FileId) (i : Info) : Option Info :=
  match i.code with
  | none => none
  | some c =>
    match ((lookup file cfg.ignoredLines).getD []) |> lookup i.line with
    | none => none
    | some [] => none
    | some cs => some (noteFor i (notCoveredMsg env c cs) none false 0)

def addNote (env : Env) (d : Dyn) (file : FileId) (n : Option Info) : Dyn :=
  match n with
  | some n => rawAdd env d file n
  | none => d

def linkStage (env : Env) (cfg : Cfg) (d : Dyn) (file : FileId) (i : Info) : Dyn :=
  match i.code with
  | none => d
  | some c =>
    if cfg.opts.showLinks && c.linkable then
      if Msg.seeLink c.name ∈ d.onlyOnce then d
      else rawAdd env { d with onlyOnce := d.onlyOnce ++ [Msg.seeLink c.name] } file
             (noteFor i (.seeLink c.name) (some c) true 20)
    else d

def hideStage (env : Env) (cfg : Cfg) (d : Dyn) (file : FileId) (i : Info) : Dyn × Info :=
  if shouldHide env cfg.opts d i then (reportHidden env d file { i with hidden := true }, { i with hidden := true })
  else (d, i)

def afterOnlyOnce (env : Env) (cfg : Cfg) (d : Dyn) (file : FileId) (i : Info) : Dyn :=
  let di := hideStage env cfg d file i
  let d1 := rawAdd env di.1 file di.2
  let d2 := addNote env d1 file (notCoveredNote env cfg file di.2)
  linkStage env cfg d2 file di.2

def storeStage (env : Env) (cfg : Cfg) (d : Dyn) (file : FileId) (i : Info) : Dyn :=
  if i.onlyOnce then
    if i.msg ∈ d.onlyOnce then d
    else afterOnlyOnce env cfg { d with onlyOnce := d.onlyOnce ++ [i.msg] } file i
  else afterOnlyOnce env cfg d file i

def applyOutcome (env : Env) (cfg : Cfg) (d : Dyn) (file : FileId) (i : Info) : Outcome → Dyn
  | .dropped => d
  | .ignoredAt l c => { d with used := d.used ++ [(file, l, c)] }
  | .pass => storeStage env cfg d file i

/-- `add_error_info(info, file=file)` -/
def addErrorInfo (env : Env) (cfg : Cfg) (d : Dyn) (i : Info) (fileArg : Option FileId) : Dyn :=
  applyOutcome env cfg d (fileArg.getD cfg.file) i (ignoreStage env cfg (fileArg.getD cfg.file) i)

/-! ### Errors.report -/

/-- arguments of `Errors.report` (None = `none`) -/
structure ReportArgs where
  uid : Nat
  line : Int
  column : Option Int
  msgId : Nat
  code : Option Code
  blocker : Bool
  sev : Sev
  onlyOnce : Bool
  span : List Int
  offset : Nat
  endLine : Option Int
  endColumn : Option Int
  /-- `parent_error`: its uid and its code -/
  parent : Option (Nat × Option Code)
deriving Repr

def parentCode (p : Option (Nat × Option Code)) : Option Code :=
  match p with
  | some (_, c) => c
  | none => none

/-- `code = code or parent.code ; code = code or (MISC if not blocker else None)` -/
def defaultCode (env : Env) (a : ReportArgs) : Option Code :=
  match a.code with
  | some c => some c
  | none =>
    match parentCode a.parent with
    | some c => some c
    | none => if a.blocker then none else some env.misc

def mkInfo (env : Env) (cfg : Cfg) (a : ReportArgs) : Info :=
  let p := ErrPos.clamp a.line a.column a.endLine a.endColumn
  { uid := a.uid, importCtx := cfg.importCtx, line := p.line, column := p.column, endLine := p.endLine,
    endColumn := p.endColumn, sev := a.sev, msg := .user a.msgId a.offset, code := defaultCode env a,
    blocker := a.blocker, onlyOnce := a.onlyOnce,
    span := if a.span.isEmpty then [a.line] else a.span,
    priority := 0, hidden := false, parent := a.parent.map (·.1) }

/-! ### generate_unused_ignore_errors / generate_ignore_without_code_errors -/

/-- the ErrorInfo `report_simple_error` builds -/
def simpleError (cfg : Cfg) (line : Int) (msg : Msg) (code : Code) : Info :=
  { uid := 0, importCtx := cfg.importCtx, line := line, column := -1, endLine := line, endColumn := -1,
    sev := .error, msg := msg, code := some code, blocker := false, onlyOnce := false, span := [line],
    priority := 0, hidden := false, parent := none }

/-- `used_ignored_lines[file][line]` (from the log of appends) -/
def usedCodesOf (used : List (FileId × Int × CodeName)) (file : FileId) (line : Int) : List CodeName :=
  (used.filter (fun u => u.1 = file ∧ u.2.1 = line)).map (·.2.2)

def usedCodes (d : Dyn) (file : FileId) (line : Int) : List CodeName := usedCodesOf d.used file line

def narrowerOf (env : Env) (used : List CodeName) (unused : CodeName) : Option (CodeName × List CodeName) :=
  let n := ((lookup unused env.subCodeMap).getD []).filter (· ∈ used)
  if n.isEmpty then none else some (unused, n)

/-- the message for one `ignored_lines` item, or none when the loop `continue`s -/
def unusedMsg (env : Env) (skipped : List Int) (used : List CodeName) (line : Int) (codes : List CodeName) : Option Msg :=
  if line ∈ skipped then none
  else if env.unusedIgnore.name ∈ codes then none
  else
    let unused := codes.filter (· ∉ used)
    if codes.isEmpty && !used.isEmpty then none
    else if !codes.isEmpty && unused.isEmpty then none
    else
      let detail := if codes.length > 1 && !unused.isEmpty then unused else []
      some (.unusedIgnore detail (unused.filterMap (narrowerOf env used)))

/-- the errors one call of `generate_unused_ignore_errors` appends (dict order of `ignored_lines[file]`) -/
def unusedNews (env : Env) (cfg : Cfg) (used : List (FileId × Int × CodeName)) (file : FileId) : List Info :=
  let ign := (lookup file cfg.ignoredLines).getD []
  let skipped := (lookup file cfg.skippedLines).getD []
  ign.filterMap fun lc =>
    (unusedMsg env skipped (usedCodesOf used file lc.1) lc.1 lc.2).map fun m => simpleError cfg lc.1 m env.unusedIgnore

def addAll (env : Env) (d : Dyn) (file : FileId) (news : List Info) : Dyn :=
  news.foldl (fun d n => rawAdd env d file n) d

def genUnused (env : Env) (cfg : Cfg) (d : Dyn) (file : FileId) (isTypeshed : Bool) : Dyn :=
  if isTypeshed || file ∈ cfg.ignoredFiles then d
  else addAll env d file (unusedNews env cfg d.used file)

/-- insertion sort of code names + removal of duplicates: `sorted(set(...))` -/
def insertNat (x : Nat) : List Nat → List Nat
  | [] => [x]
  | y :: ys => if x < y then x :: y :: ys else if x = y then y :: ys else y :: insertNat x ys

def sortedSet (l : List Nat) : List Nat := l.foldr insertNat []

def noCodeMsg (skipped : List Int) (used : List CodeName) (warnUnused : Bool) (line : Int) (codes : List CodeName) : Option Msg :=
  if line ∈ skipped then none
  else if !codes.isEmpty then none
  else if warnUnused && used.isEmpty then none
  else some (.ignoreWithoutCode (sortedSet used))

def noCodeNews (env : Env) (cfg : Cfg) (used : List (FileId × Int × CodeName)) (file : FileId) (warnUnused : Bool) : List Info :=
  let ign := (lookup file cfg.ignoredLines).getD []
  let skipped := (lookup file cfg.skippedLines).getD []
  ign.filterMap fun lc =>
    (noCodeMsg skipped (usedCodesOf used file lc.1) warnUnused lc.1 lc.2).map fun m => simpleError cfg lc.1 m env.ignoreWithoutCode

def genNoCode (env : Env) (cfg : Cfg) (d : Dyn) (file : FileId) (warnUnused isTypeshed : Bool) : Dyn :=
  if isTypeshed || file ∈ cfg.ignoredFiles then d
  else addAll env d file (noCodeNews env cfg d.used file warnUnused)

/-! ### file_messages -/

/-- stable insertion sort (`sorted(..., key=...)`): `le a b` = key a ≤ key b -/
def insertBy {α : Type} (le : α → α → Bool) (x : α) : List α → List α
  | [] => [x]
  | y :: ys => if le x y then x :: y :: ys else y :: insertBy le x ys

def sortBy {α : Type} (le : α → α → Bool) (l : List α) : List α := l.foldr (insertBy le) []

/-- split into maximal runs of neighbours related by `same` (each element is compared with its predecessor) -/
def runs {α : Type} (same : α → α → Bool) : List α → List (List α)
  | [] => []
  | [x] => [[x]]
  | x :: y :: ys =>
    match runs same (y :: ys) with
    | r :: rs => if same x y then (x :: r) :: rs else [x] :: r :: rs
    | [] => [[x]]

def posLe (a b : Info) : Bool := decide (a.line < b.line ∨ (a.line = b.line ∧ a.column ≤ b.column))

def codeName (i : Info) : Option CodeName := i.code.map (·.name)

def samePlaceCode (a b : Info) : Bool :=
  decide (a.line = b.line ∧ a.column = b.column ∧ a.endLine = b.endLine ∧ a.endColumn = b.endColumn
          ∧ codeName a = codeName b)

def sortWithinContext (l : List Info) : List Info :=
  ((runs samePlaceCode l).map (sortBy fun a b => decide (a.priority ≤ b.priority))).flatten

def sortMessages (l : List Info) : List Info :=
  ((runs (fun a b => decide (a.importCtx = b.importCtx)) l).map fun r => sortWithinContext (sortBy posLe r)).flatten

/-- first loop of `remove_duplicates`: (kept in order, seen keys, uids removed) -/
def dedupScan : List Info → List (Int × Sev × Msg) → List Info × List Nat
  | [], _ => ([], [])
  | e :: es, seen =>
    if e.parent.isSome then
      let r := dedupScan es seen
      (e :: r.1, r.2)
    else if (e.line, e.sev, e.msg) ∈ seen then
      let r := dedupScan es seen
      (r.1, e.uid :: r.2)
    else
      let r := dedupScan es ((e.line, e.sev, e.msg) :: seen)
      (e :: r.1, r.2)

def parentRemoved (removed : List Nat) (e : Info) : Bool :=
  match e.parent with
  | some p => decide (p ∈ removed)
  | none => false

def removeDuplicates (l : List Info) : List Info :=
  let r := dedupScan l []
  r.1.filter fun e => !parentRemoved r.2 e

/-- an `ErrorTuple` without the path: (line, column, end_line, end_column, severity, message, code) -/
structure Tuple where
  line : Int
  column : Int
  endLine : Int
  endColumn : Int
  sev : Sev
  msg : Msg
  code : Option CodeName
deriving Repr, DecidableEq

def render (i : Info) : Tuple :=
  { line := i.line, column := i.column, endLine := i.endLine, endColumn := i.endColumn, sev := i.sev,
    msg := i.msg, code := codeName i }

def fileInfos (d : Dyn) (path : FileId) : List Info :=
  (d.infos.filter (fun p => p.1 = path)).map (·.2)

def fileMessages (d : Dyn) (path : FileId) : List Tuple :=
  (removeDuplicates (sortMessages ((fileInfos d path).filter fun i => !i.hidden))).map render

/-! ### the sink as a state machine over events -/

inductive Ev
  /-- `set_file(file, module, options)` -/
  | setFile (file : FileId) (opts : Opts)
  /-- `set_import_context(ctx)` -/
  | setImportCtx (ctx : Nat)
  /-- `set_file_ignored_lines(file, ignored_lines, ignore_all)` -/
  | setIgnored (file : FileId) (ign : List (Int × List CodeName)) (ignoreAll : Bool)
  /-- `set_skipped_lines(file, lines)` -/
  | setSkipped (file : FileId) (lines : List Int)
  /-- `ignored_files.add(file)` (mypy/build.py does this directly) -/
  | ignoreFile (file : FileId)
  /-- `report(...)` -/
  | report (a : ReportArgs)
  /-- `add_error_info(info, file=...)` with a ready-made ErrorInfo -/
  | add (i : Info) (file : Option FileId)
  /-- `generate_unused_ignore_errors(file, is_typeshed)` -/
  | genUnused (file : FileId) (isTypeshed : Bool)
  /-- `generate_ignore_without_code_errors(file, is_warning_unused_ignores, is_typeshed)` -/
  | genNoCode (file : FileId) (warnUnused isTypeshed : Bool)
deriving Repr

structure St where
  cfg : Cfg
  dyn : Dyn
deriving Repr

def St.init : St := { cfg := Cfg.init, dyn := Dyn.init }

def stepCfg (c : Cfg) : Ev → Cfg
  | .setFile f o => { c with file := f, opts := o }
  | .setImportCtx x => { c with importCtx := x }
  | .setIgnored f ign all =>
    { c with ignoredLines := (f, ign) :: c.ignoredLines,
             ignoredFiles := if all then f :: c.ignoredFiles else c.ignoredFiles }
  | .setSkipped f ls => { c with skippedLines := (f, ls) :: c.skippedLines }
  | .ignoreFile f => { c with ignoredFiles := f :: c.ignoredFiles }
  | _ => c

def stepDyn (env : Env) (c : Cfg) (d : Dyn) : Ev → Dyn
  | .report a => addErrorInfo env c d (mkInfo env c a) none
  | .add i f => addErrorInfo env c d i f
  | .genUnused f ts => genUnused env c d f ts
  | .genNoCode f w ts => genNoCode env c d f w ts
  | _ => d

def step (env : Env) (s : St) (e : Ev) : St :=
  { cfg := stepCfg s.cfg e, dyn := stepDyn env s.cfg s.dyn e }

def run (env : Env) (s : St) (evs : List Ev) : St := evs.foldl (step env) s

end Errors
