/-
Model of mypy/fswatcher.py `FileSystemWatcher._find_changed` (stat, then hash) and of
mypy/dmypy_server.py `Server._find_changed` (changed paths ↦ changed / removed modules) — hand-written,
import-free, executable.

  FileData(st_mtime, st_size, hash)      ↦ `FileData`   (mtime in milliseconds; `int(st_mtime)` ↦ `sec`)
  fs.stat_or_none(path) / hash_digest    ↦ `Fs`, parameter `H` (the digest of a content)
  _find_changed(paths)                   ↦ `findChanged`
  Server._find_changed(sources, changed) ↦ `changedModules`
-/
namespace FsWatch

abbrev Path := Nat
abbrev Mod := Nat

/-- what `stat` and `read` return for an existing file; `content` identifies the bytes -/
structure File where
  mtime : Nat
  size : Nat
  content : Nat
deriving DecidableEq, Repr

structure FileData where
  mtime : Nat
  size : Nat
  hash : Nat
deriving DecidableEq, Repr

abbrev Fs := Path → Option File
/-- `_file_data`; a watched path that was never seen (or was seen deleted) maps to `none` -/
abbrev Data := Path → Option FileData

/-- `int(st_mtime)` -/
def sec (mtime : Nat) : Nat := mtime / 1000

/-- the body of the `for path in paths:` loop: (reported as changed, new `_file_data[path]`) -/
def stepPath (H : Nat → Nat) (old : Option FileData) (cur : Option File) : Bool × Option FileData :=
  match cur, old with
  | none, none => (false, none)
  | none, some _ => (true, none)                                   -- file was deleted
  | some f, none => (true, some ⟨f.mtime, f.size, H f.content⟩)     -- file is new
  | some f, some o =>
    if f.size ≠ o.size ∨ sec f.mtime ≠ sec o.mtime then
      -- only now is the content read
      (decide (f.size ≠ o.size ∨ H f.content ≠ o.hash), some ⟨f.mtime, f.size, H f.content⟩)
    else (false, some o)

/-- `_find_changed(paths)` over the set `paths` -/
def findChanged (H : Nat → Nat) (paths : List Path) (fs : Fs) (data : Data) : List Path × Data :=
  (paths.filter (fun p => (stepPath H (data p) (fs p)).1),
   fun p => if p ∈ paths then (stepPath H (data p) (fs p)).2 else data p)

/-- `Server._find_changed(sources, changed_paths)` with `previous_sources = prev`:
    (changed, removed) as lists of (module, path).  `pathRule` selects the version of the code: `true` = with
    the block "anything whose file changed while the module name stayed (stub added or removed)" (/repo since
    a1da927), `false` = without it (the harness probes the real function and passes the flag). -/
def changedModules (pathRule : Bool) (sources prev : List (Mod × Path)) (changedPaths : List Path) :
    List (Mod × Path) × List (Mod × Path) :=
  let changed := sources.filter (fun s => changedPaths.contains s.2)
  let removed := prev.filter (fun s => !(sources.map (·.1)).contains s.1)
  -- add_explicitly_new
  let changed := changed ++ sources.filter (fun s => !(prev.map (·.1)).contains s.1 && !changed.contains s)
  -- same module, other file (modules of `prev` are distinct, so `last_path[s.module]` is the one entry)
  let changed := if pathRule then
      changed ++ sources.filter (fun s => prev.any (fun q => q.1 == s.1 && q.2 != s.2) && !changed.contains s)
    else changed
  -- "anything that has had its module path change because of added or removed __init__s":
  -- same path, different module name
  let moved := sources.filter (fun s => prev.any (fun q => q.2 == s.2 && q.1 != s.1))
  let removed := removed ++ moved.flatMap (fun s => (prev.filter (fun q => q.2 == s.2 && q.1 != s.1)))
  (changed ++ moved, removed)

end FsWatch
