/-
A small verified checker for the shape the exception transform must leave behind — hand-written, import-free,
executable.

  mypyc/transform/exceptions.py  split_blocks_at_errors: every `RegisterOp` with `error_kind ≠ ERR_NEVER` ends its
      basic block and is followed by a `Branch` on its result to the error label
      (ERR_MAGIC: `Branch.IS_ERROR`; ERR_FALSE: `Branch.BOOL` negated; ERR_ALWAYS: `Branch.BOOL` negated on the
      constant false).  The refcount pass may later put `IncRef`/`DecRef` of *other* values between the op and
      its branch; nothing else may come between.
  ERR_MAGIC_OVERLAPPING (native ints / floats, where the error value is also a legitimate value) expands into
      a comparison plus an `err_occurred()` call in a second block; that two-block pattern is recognised by the
      exporter side (harness/c05/edges.py) and not by this checker.

`checkBlock` is run on every block of every function the C05 harness exports; `run` is the block's semantics with
an oracle saying which fallible op fails; `checkBlock_sound` ties the two.
-/
namespace ErrEdges

inductive EK | never | magic | false_ | always
deriving Repr, DecidableEq

structure Op where
  dest : Option Nat          -- value the op defines
  uses : List Nat            -- values it reads
  ek : EK
  refOnly : Bool             -- IncRef / DecRef
deriving Repr, DecidableEq

inductive BK | isError | bool
deriving Repr, DecidableEq

inductive Term where
  | goto (l : Nat)
  | branch (k : BK) (v : Option Nat) (negated : Bool) (t f : Nat)   -- `v = none`: literal operand
  | ret (v : Option Nat)
  | unreachable
deriving Repr, DecidableEq

structure Block where
  ops : List Op
  term : Term
deriving Repr, DecidableEq

inductive Outcome where
  | next (l : Option Nat)    -- left the block normally (jump / fall to `l`, or return)
  | err (l : Nat)            -- an op failed and control went to `l` through the error check
  | bad                      -- an error value was read by an op, or the failure was not checked
deriving Repr, DecidableEq

def reads (o : Op) (v : Option Nat) : Bool :=
  match v with
  | some x => o.uses.contains x
  | none => false

/-- the terminator, given the value currently holding an error result (`poison`; `some none` = an ERR_ALWAYS
    op failed, which has no result) -/
def runTerm (t : Term) (poison : Option (Option Nat)) : Outcome :=
  match poison, t with
  | none, .goto l => .next (some l)
  | none, .branch _ _ _ _ f => .next (some f)      -- the checked value is fine: success edge
  | none, .ret _ => .next none
  | none, .unreachable => .next none
  | some p, .branch .isError (some v) false t _ => if p = some v then .err t else .bad
  | some p, .branch .bool (some v) true t _ => if p = some v then .err t else .bad
  | some p, .branch .bool none true t _ => if p = none then .err t else .bad
  | some _, _ => .bad

/-- run the ops from index `i`; `fails j` says whether the fallible op number `j` fails -/
def run (fails : Nat → Bool) : List Op → Term → Nat → Option (Option Nat) → Outcome
  | [], t, _, poison => runTerm t poison
  | o :: rest, t, i, poison =>
    match poison with
    | some p =>
      -- an error value is pending: only reference-count ops on other values may run before the check
      if reads o p || !o.refOnly then .bad else run fails rest t (i + 1) poison
    | none =>
      if o.ek ≠ .never && fails i then run fails rest t (i + 1) (some o.dest)
      else run fails rest t (i + 1) none

def tailOk (d : Option Nat) (rest : List Op) : Bool :=
  rest.all (fun o => o.refOnly && o.ek == .never && !reads o d)

def termChecks (o : Op) (t : Term) : Bool :=
  match o.ek, t with
  | .magic, .branch .isError (some v) false _ _ => o.dest == some v
  | .false_, .branch .bool (some v) true _ _ => o.dest == some v
  | .always, .branch .bool none true _ _ => o.dest == none
  | _, _ => false

def checkOps : List Op → Term → Bool
  | [], _ => true
  | o :: rest, t =>
    if o.ek = .never then checkOps rest t
    else tailOk o.dest rest && termChecks o t

def checkBlock (b : Block) : Bool := checkOps b.ops b.term

def errLabel : Term → Option Nat
  | .branch _ _ _ t _ => some t
  | _ => none

end ErrEdges
