/-
Model of mypy/graph_utils.py as used by build.sorted_components: strongly connected components and
the layered topological sort (Kahn), with the iteration order of the vertex set / dict as an explicit
parameter (the list `items`; Python iterates a `set`/`dict`, whose order depends on insertion history
and, for strings, on the hash seed).

`edge v w` = v depends on w.  Only membership questions are asked of `items`, never positions — the
theorems in Props/C10 show that the results are therefore the same for every iteration order.
-/
namespace Graph

/-- w is reachable from v in at most `fuel` steps (fuel = number of vertices suffices) -/
def reachB (edge : Nat → Nat → Bool) (items : List Nat) : Nat → Nat → Nat → Bool
  | 0, v, w => v == w
  | fuel + 1, v, w => v == w || items.any (fun u => edge v u && reachB edge items fuel u w)

/-- the strongly connected component of v: vertices mutually reachable with it -/
def sccOf (edge : Nat → Nat → Bool) (items : List Nat) (v : Nat) : List Nat :=
  items.filter (fun w => reachB edge items items.length v w && reachB edge items items.length w v)

/-- Kahn's algorithm by layers: the ready set of one round = vertices not yet output all of whose
    dependencies (other than themselves) have been output -/
def layer (edge : Nat → Nat → Bool) (items removed : List Nat) : List Nat :=
  items.filter (fun v => !removed.contains v &&
    items.all (fun d => !(edge v d) || d == v || removed.contains d))

def topsort (edge : Nat → Nat → Bool) (items : List Nat) : Nat → List Nat → List (List Nat)
  | 0, _ => []
  | fuel + 1, removed =>
    let l := layer edge items removed
    if l.isEmpty then [] else l :: topsort edge items fuel (removed ++ l)

/-- `sorted(ready, key=…)`: the tie-break inside a layer by a key (−min State.order); insertion sort -/
def insertBy (key : Nat → Nat) (x : Nat) : List Nat → List Nat
  | [] => [x]
  | y :: ys => if key x ≤ key y then x :: y :: ys else y :: insertBy key x ys

def sortBy (key : Nat → Nat) : List Nat → List Nat
  | [] => []
  | x :: xs => insertBy key x (sortBy key xs)

end Graph
