/-
Model of the lowering of `try: B except <match>: H else: E finally: F` — hand-written, import-free, executable.

  mypyc/irbuild/statement.py  transform_try_except_stmt / transform_try_except: the handler is pushed
      (`builder.builder.push_error_handler`) for the try *body* only; the `else:` body is generated after the
      handler has been popped, the handler bodies under the enclosing handler; transform_try_finally_stmt wraps the
      whole try/except/else and runs the `finally:` body on every exit.
      ↦ `irTry scope`, where `scope c` says whether exceptions raised in clause `c` are routed to the statement's
        own handler block.  The real lowering's scope is read off the final IR on every run (harness/c05/flow.py:
        which clauses' error branches reach the block holding `CPy_CatchError`) and must be `bodyOnly`.
  CPython's semantics of the try statement (one handler)  ↦ `pyTry`.

A clause either completes or raises an exception (a number standing for its class); `isMatch` is the handler's
`except` test.
-/
namespace TryScope

inductive Clause | body | handler | else_ | fin
deriving Repr, DecidableEq

/-- what happens when each clause runs: `none` = completes, `some e` = raises `e` -/
structure Fires where
  body : Option Nat
  handler : Option Nat
  else_ : Option Nat
  fin : Option Nat
deriving Repr, DecidableEq

structure Shape where
  hasElse : Bool
  hasFinally : Bool
deriving Repr, DecidableEq

/-- (clauses executed in order, exception propagating out of the statement) -/
abbrev Outcome := List Clause × Option Nat

def runFinally (sh : Shape) (f : Fires) (o : Outcome) : Outcome :=
  if sh.hasFinally then
    match f.fin with
    | some e => (o.1 ++ [.fin], some e)          -- an exception in `finally` replaces the pending one
    | none => (o.1 ++ [.fin], o.2)
  else o

/-- CPython: the handlers guard the try body only; `else` runs when the body completed; `finally` always -/
def pyTry (sh : Shape) (isMatch : Nat → Bool) (f : Fires) : Outcome :=
  let core : Outcome :=
    match f.body with
    | some e =>
      if isMatch e then ([.body, .handler], f.handler)
      else ([.body], some e)
    | none =>
      if sh.hasElse then ([.body, .else_], f.else_) else ([.body], none)
  runFinally sh f core

/-- the emitted blocks: an exception raised in clause `c` goes to the statement's handler block iff `scope c` -/
def irTry (scope : Clause → Bool) (sh : Shape) (isMatch : Nat → Bool) (f : Fires) : Outcome :=
  let handle (pre : List Clause) (e : Nat) : Outcome :=
    if isMatch e then (pre ++ [.handler], f.handler) else (pre, some e)
  let core : Outcome :=
    match f.body with
    | some e => if scope .body then handle [.body] e else ([.body], some e)
    | none =>
      if sh.hasElse then
        match f.else_ with
        | some e => if scope .else_ then handle [.body, .else_] e else ([.body, .else_], some e)
        | none => ([.body, .else_], none)
      else ([.body], none)
  runFinally sh f core

/-- the scope `transform_try_except` establishes -/
def bodyOnly : Clause → Bool
  | .body => true
  | _ => false

end TryScope
