/-
Model of mypy's *driver*: the bounded fix-point loops and the exit funnel — hand-written, import-free,
executable.  It mirrors the code that exists in /repo (cited per definition); the numeric caps and the shape
of each cap check are *not* written here: they come from `Gen/DriverCaps.lean`, regenerated from the source
by `translate/driver_caps.py` on every check.

What is and is not modelled.  "mypy never crashes on any text" is a statement about the whole checker; this
file models only the mechanism that is supposed to guarantee termination and a clean exit:

  * `mypy/semanal_main.py : process_top_levels`           — `semLoop` with `sticky := false`
  * `mypy/semanal_main.py : process_top_level_function`   — `semLoop` with `sticky := true`
  * `mypy/checker.py : check_first_pass / check_second_pass / handle_cannot_determine_type`
    and `mypy/build.py : process_stale_scc` (`while unfinished_modules`)     — `firstPass`, `secondPass`, `sccLoop`
  * `mypy/server/update.py : propagate_changes_using_dependencies` (`MAX_ITER`) — `fgLoop`
  * `mypy/server/update.py : reprocess_nodes` (`checker.last_pass = 3; while more`) — `reprocessLoop`
  * the exits: `main.fail` / argparse (status 2), `CompileError` (blockers → status 2),
    `errors.report_internal_error` (`SystemExit(2)` + "INTERNAL ERROR": a *bad* terminal state),
    `__main__.console_entry` (any other exception → `report_internal_error`), the status computation at the
    end of `main.main` — `runBatch`; one daemon request — `daemonCheck`.

Everything the analyser and the checker *compute* is an oracle: a function giving, per iteration, whether
something was deferred and whether progress was made.  The theorems quantify over all oracles.
-/
namespace Driver

/-! ## cap checks -/

/-- the comparison a loop uses to test its counter against the cap (`none`: no test found in the source) -/
inductive CapOp | gt | ge | eq | none
deriving DecidableEq, Repr

/-- does `if counter <op> CAP:` fire? -/
def CapOp.fires : CapOp → Nat → Nat → Bool
  | .gt, it, cap => decide (cap < it)
  | .ge, it, cap => decide (cap ≤ it)
  | .eq, it, cap => it == cap
  | .none, _, _ => false

/-- the first value of a counter that starts at 0 and is incremented *before* the test at which the test
    fires (`none`: never — the loop is uncapped) -/
def CapOp.limit : CapOp → Nat → Option Nat
  | .gt, cap => some (cap + 1)
  | .ge, cap => some (if cap = 0 then 1 else cap)
  | .eq, cap => if cap = 0 then Option.none else some cap
  | .none, _ => Option.none

/-- everything `translate/driver_caps.py` reads from the source -/
structure Caps where
  /-- `semanal_main.MAX_ITERATIONS` -/
  maxIterations : Nat
  /-- `process_top_levels`: `if iteration > MAX_ITERATIONS:` -/
  topOp : CapOp
  /-- `process_top_level_function`: `if iteration == MAX_ITERATIONS:` -/
  funcOp : CapOp
  /-- `semanal_main.CORE_WARMUP`, `len(core_modules)` (extra work-list entries of the builtins SCC; they
      lengthen the first sweep, not the number of sweeps) -/
  coreWarmup : Nat
  nCore : Nat
  /-- `checker.DEFAULT_LAST_PASS` (class attribute `TypeChecker.last_pass`) -/
  defaultLastPass : Nat
  /-- `update.reprocess_nodes`: `checker.last_pass = 3` -/
  fgLastPass : Nat
  /-- every `self.defer_node(...)` call of checker.py sits under `if self.pass_num < self.last_pass` -/
  deferGuarded : Bool
  /-- `update.MAX_ITER` and its test `if num_iter > MAX_ITER: raise RuntimeError` -/
  maxIter : Nat
  fgOp : CapOp
deriving Repr, DecidableEq

/-- what the termination argument needs of the source: every modelled loop has a recognised cap test, every
    defer site of the checker is guarded by `pass_num < last_pass`, and the fine-grained `last_pass` is
    positive.  Decidable; checked by `decide` on the generated `Gen.caps`. -/
def Caps.WF (c : Caps) : Prop :=
  (c.topOp.limit c.maxIterations).isSome = true ∧ (c.funcOp.limit c.maxIterations).isSome = true ∧
  (c.fgOp.limit c.maxIter).isSome = true ∧ c.deferGuarded = true ∧ 0 < c.fgLastPass

instance (c : Caps) : Decidable c.WF := by unfold Caps.WF; infer_instance

/-! ## semantic analysis: `process_top_levels` / `process_top_level_function` -/

/-- what one sweep over the work list (top levels) / one `semantic_analyze_target` call (function) returns:
    `deferred` — the new work list is non-empty; `progress` — `analyzer.progress` -/
structure SweepOut where
  deferred : Bool
  progress : Bool
deriving Repr, DecidableEq

inductive SemExit
  /-- the work list became empty -/
  | converged
  /-- the cap test fired: `analyzer.report_hang()` (a blocker whose text is "INTERNAL ERROR: maximum semantic
      analysis iteration count reached") and `break` -/
  | capHit
  /-- something was deferred during the final iteration: `SemanticAnalyzer.defer` asserts
      `not self.final_iteration` inside `State.wrap_context` → `report_internal_error` -/
  | deferInFinal
  /-- the model's fuel ran out (the loop did not exit) -/
  | fuelOut
deriving DecidableEq, Repr

structure SemRes where
  exit : SemExit
  /-- value of the local `iteration` when the loop was left -/
  iterations : Nat
deriving Repr, DecidableEq

/-- `final_iteration` for the next round: top levels `final_iteration = not any_progress`;
    function `if not progress: final_iteration = True` -/
def nextFinal (sticky final progress : Bool) : Bool :=
  if sticky then final || !progress else !progress

/--
    while worklist:                      |   while deferred:
        iteration += 1                   |       iteration += 1
        if iteration > MAX_ITERATIONS:   |       if iteration == MAX_ITERATIONS:
            report_hang(); break         |           report_hang(); break
        … one sweep (oracle) …           |       … semantic_analyze_target (oracle) …
        if final_iteration: assert not all_deferred
        worklist = all_deferred          |
        final_iteration = not any_progress   |   if not progress: final_iteration = True
  The oracle sees the iteration number and the `final_iteration` flag it is called with. -/
def semLoop (op : CapOp) (cap : Nat) (sticky : Bool) (oracle : Nat → Bool → SweepOut) :
    Nat → Nat → Bool → SemRes
  | 0, it, _ => ⟨.fuelOut, it⟩
  | fuel + 1, it, final =>
    if op.fires (it + 1) cap then ⟨.capHit, it + 1⟩
    else if final && (oracle (it + 1) final).deferred then ⟨.deferInFinal, it + 1⟩
    else if !(oracle (it + 1) final).deferred then ⟨.converged, it + 1⟩
    else semLoop op cap sticky oracle fuel (it + 1) (nextFinal sticky final (oracle (it + 1) final).progress)

/-- the analyser's contract (`SemanticAnalyzer.defer`: "this must *not* be called during the final
    iteration"): an oracle that never defers when told the iteration is final -/
def RespectsFinal (oracle : Nat → Bool → SweepOut) : Prop :=
  ∀ it, (oracle it true).deferred = false

/-! ## type checking passes -/

/-- the part of a `TypeChecker` the pass loops look at -/
structure Chk where
  passNum : Nat
  /-- `deferred_nodes` is non-empty -/
  deferred : Bool
deriving Repr, DecidableEq

/-- `handle_cannot_determine_type` / `check_method_override…`: a node is deferred only
    `if self.pass_num < self.last_pass`; `guarded = false` models a defer site without that test -/
def deferAllowed (guarded : Bool) (passNum lastPass : Nat) : Bool :=
  !guarded || decide (passNum < lastPass)

/-- `check_first_pass` (after `TypeChecker.reset`: `pass_num = 0`); `wants p` — during pass `p` some function
    refers to a variable whose type is not ready -/
def firstPass (guarded : Bool) (lastPass : Nat) (wants : Nat → Bool) : Chk :=
  ⟨0, wants 0 && deferAllowed guarded 0 lastPass⟩

/-- `check_second_pass`: `if not todo and not self.deferred_nodes: return False`; `self.pass_num += 1`;
    re-check the deferred nodes (which may defer again); `return True` -/
def secondPass (guarded : Bool) (lastPass : Nat) (wants : Nat → Bool) (c : Chk) : Chk × Bool :=
  if c.deferred then
    (⟨c.passNum + 1, wants (c.passNum + 1) && deferAllowed guarded (c.passNum + 1) lastPass⟩, true)
  else (c, false)

/-- one module of an SCC inside `process_stale_scc` -/
structure Mod where
  wants : Nat → Bool
  chk : Chk
  /-- `id in unfinished_modules` -/
  unfinished : Bool
  /-- number of `type_check_second_pass` calls made for this module -/
  calls : Nat

/-- `for id in stale: graph[id].type_check_first_pass(); if not deferred_nodes: unfinished.discard(id)` -/
def Mod.start (guarded : Bool) (lastPass : Nat) (wants : Nat → Bool) : Mod :=
  let c := firstPass guarded lastPass wants
  ⟨wants, c, c.deferred, 0⟩

/-- body of `while unfinished_modules:` for one module:
    `if id not in unfinished_modules: continue`;
    `if not graph[id].type_check_second_pass(): unfinished_modules.discard(id)` -/
def Mod.sweep (guarded : Bool) (lastPass : Nat) (m : Mod) : Mod :=
  if m.unfinished then
    let r := secondPass guarded lastPass m.wants m.chk
    ⟨m.wants, r.1, r.2, m.calls + 1⟩
  else m

def allFinished (mods : List Mod) : Bool := mods.all (fun m => !m.unfinished)

structure SccRes where
  /-- the `while unfinished_modules` loop was left -/
  done : Bool
  /-- number of times its body ran -/
  sweeps : Nat
  mods : List Mod

/-- `while unfinished_modules: for id in stale: …` -/
def sccLoop (guarded : Bool) (lastPass : Nat) : Nat → List Mod → Nat → SccRes
  | 0, mods, n => ⟨allFinished mods, n, mods⟩
  | fuel + 1, mods, n =>
    if allFinished mods then ⟨true, n, mods⟩
    else sccLoop guarded lastPass fuel (mods.map (Mod.sweep guarded lastPass)) (n + 1)

/-! ## fine-grained propagation (daemon) -/

inductive FgExit
  | done
  /-- `raise RuntimeError("Max number of iterations (%d) reached (endless loop?)")` — the daemon answers
      "Daemon crashed!" and exits -/
  | runtimeError
  | fuelOut
deriving DecidableEq, Repr

structure FgRes where
  exit : FgExit
  /-- value of `num_iter` -/
  iterations : Nat
deriving Repr, DecidableEq

/-- `propagate_changes_using_dependencies`:
      while triggered or targets_with_errors:
          num_iter += 1
          if num_iter > MAX_ITER: raise RuntimeError(...)
          … reprocess (oracle: is anything triggered afterwards?) …
    `pending k` — after `k` rounds `triggered or targets_with_errors` is non-empty -/
def fgLoop (op : CapOp) (cap : Nat) (pending : Nat → Bool) : Nat → Nat → FgRes
  | 0, it => ⟨.fuelOut, it⟩
  | fuel + 1, it =>
    if !pending it then ⟨.done, it⟩
    else if op.fires (it + 1) cap then ⟨.runtimeError, it + 1⟩
    else fgLoop op cap pending fuel (it + 1)

/-- `reprocess_nodes`: `checker.reset(); checker.pass_num = 0; checker.last_pass = 3`
    `more = checker.check_second_pass(nodes)`; `while more: more = checker.check_second_pass()`.
    The first call has `todo = nodes` (non-empty), so it always runs a pass. Returns (done, number of
    `check_second_pass` calls, final checker state). -/
def reprocessLoop (guarded : Bool) (lastPass : Nat) (wants : Nat → Bool) : Nat → Chk → Nat → Bool × Nat × Chk
  | 0, c, n => (false, n, c)
  | fuel + 1, c, n =>
    let r := secondPass guarded lastPass wants c
    if r.2 then reprocessLoop guarded lastPass wants fuel r.1 (n + 1) else (true, n + 1, r.1)

/-- the checker state `reprocess_nodes` starts its loop from: `todo` is given, so the first
    `check_second_pass` behaves as if something were deferred -/
def reprocessStart : Chk := ⟨0, true⟩

/-! ## the batch driver and its exits -/

/-- the ways a run can end that the property forbids -/
inductive Bad
  /-- `report_internal_error`: "INTERNAL ERROR" on stderr, `SystemExit(2)` -/
  | internalError
  /-- `report_hang`: blocker "INTERNAL ERROR: maximum semantic analysis iteration count reached" -/
  | semanalHang
  /-- the model ran out of fuel: a loop that does not exit (observed from outside as a time-out) -/
  | hang
  /-- daemon: an exception escapes `run_command`: "Daemon crashed!" and the daemon exits -/
  | daemonCrashed
deriving DecidableEq, Repr

structure Terminal where
  status : Nat
  bad : Option Bad
deriving Repr, DecidableEq

/-- what the environment (the input, through everything that is not modelled) decides for one SCC -/
structure SccEnv where
  top : Nat → Bool → SweepOut
  funcs : List (Nat → Bool → SweepOut)
  mods : List (Nat → Bool)
  /-- an unexpected exception is raised while this SCC is analysed / checked -/
  raises : Bool
  /-- `check_blockers` finds a blocking error after semantic analysis -/
  blocker : Bool

/-- what the environment decides for a whole batch run -/
structure Env where
  /-- `process_options` rejects the command line / config (`parser.error`, `fail`): `sys.exit(2)` -/
  usageError : Bool
  /-- an unexpected exception outside any `wrap_context` (option processing, `BuildManager.__init__`,
      `load_graph` plumbing): caught by `console_entry`, which calls `report_internal_error` -/
  raisesEarly : Bool
  /-- `load_graph` meets a blocking error (syntax error, missing source): `CompileError` -/
  loadBlocker : Bool
  sccs : List SccEnv
  /-- formatted messages that reach `main`: total and how many of them are notes -/
  nMessages : Nat
  nNotes : Nat

/-- the end of `main.main`: `code = 0; if messages and n_notes < len(messages): code = 2 if blockers else 1` -/
def exitCode (nMessages nNotes : Nat) (blockers : Bool) : Nat :=
  if nMessages ≠ 0 ∧ nNotes < nMessages then (if blockers then 2 else 1) else 0

inductive SccOut
  | ok
  /-- `CompileError` -/
  | blocked
  | bad (b : Bad)
deriving DecidableEq, Repr

def semBad : SemExit → Option Bad
  | .converged => none
  | .capHit => some .semanalHang
  | .deferInFinal => some .internalError
  | .fuelOut => some .hang

/-- fuel that suffices for a capped loop (`0` for an uncapped one: the model then reports `hang` as soon
    as the oracle keeps deferring) -/
def fuelOf (op : CapOp) (cap : Nat) : Nat := (op.limit cap).getD 0

/-- the counters an outside observer reads off a run (maxima over everything that ran) -/
structure Counters where
  topIters : Nat
  funcIters : Nat
  passNum : Nat
  secondCalls : Nat
  sweeps : Nat
deriving Repr, DecidableEq

def Counters.zero : Counters := ⟨0, 0, 0, 0, 0⟩

def Counters.join (a b : Counters) : Counters :=
  ⟨max a.topIters b.topIters, max a.funcIters b.funcIters, max a.passNum b.passNum,
   max a.secondCalls b.secondCalls, max a.sweeps b.sweeps⟩

def maxOf : List Nat → Nat
  | [] => 0
  | x :: xs => max x (maxOf xs)

def funcsStep (r : SemRes) (rest : Option Bad × Nat) : Option Bad × Nat :=
  match semBad r.exit with
  | some b => (some b, r.iterations)
  | none => (rest.1, max r.iterations rest.2)

/-- functions of an SCC, one after the other (`process_functions`); second component: largest `iteration` -/
def runFuncs (c : Caps) : List (Nat → Bool → SweepOut) → Option Bad × Nat
  | [] => (none, 0)
  | f :: fs =>
    funcsStep (semLoop c.funcOp c.maxIterations true f (fuelOf c.funcOp c.maxIterations) 0 false) (runFuncs c fs)

/-- the type-checking part of `process_stale_scc` -/
def runPasses (c : Caps) (mods : List (Nat → Bool)) : SccRes :=
  sccLoop c.deferGuarded c.defaultLastPass (c.defaultLastPass + 1)
    (mods.map (Mod.start c.deferGuarded c.defaultLastPass)) 0

def passCounters (r : SccRes) : Counters :=
  ⟨0, 0, maxOf (r.mods.map (fun m => m.chk.passNum)), maxOf (r.mods.map (fun m => m.calls)), r.sweeps⟩

def sccPasses (base : Counters) (r : SccRes) : SccOut × Counters :=
  (if r.done then .ok else .bad .hang, base.join (passCounters r))

def sccFuncs (blocker : Bool) (topIters : Nat) (fr : Option Bad × Nat) (passes : SccRes) : SccOut × Counters :=
  match fr.1 with
  | some b => (.bad b, ⟨topIters, fr.2, 0, 0, 0⟩)
  | none => if blocker then (.blocked, ⟨topIters, fr.2, 0, 0, 0⟩) else sccPasses ⟨topIters, fr.2, 0, 0, 0⟩ passes

def sccTop (blocker : Bool) (t : SemRes) (fr : Option Bad × Nat) (passes : SccRes) : SccOut × Counters :=
  match semBad t.exit with
  | some b => (.bad b, ⟨t.iterations, 0, 0, 0, 0⟩)
  | none => sccFuncs blocker t.iterations fr passes

/-- `process_stale_scc`: `semantic_analysis_for_scc` (top levels, then functions, then `check_blockers`),
    first passes, `while unfinished_modules`.  An unexpected exception anywhere in there is raised inside
    `State.wrap_context` / `TypeChecker.accept` → `report_internal_error`.  (`capHit`: the blocker that
    `report_hang` reports ends the run at `check_blockers`.)  The model is a pure function, so the later
    stages are written as arguments; they are only *used* when the earlier ones went through. -/
def runScc (c : Caps) (e : SccEnv) : SccOut × Counters :=
  if e.raises then (.bad .internalError, Counters.zero) else
  sccTop e.blocker (semLoop c.topOp c.maxIterations false e.top (fuelOf c.topOp c.maxIterations) 0 false)
    (runFuncs c e.funcs) (runPasses c e.mods)

def sccsStep (r rest : SccOut × Counters) : SccOut × Counters :=
  match r.1 with
  | .ok => (rest.1, r.2.join rest.2)
  | o => (o, r.2)

def runSccs (c : Caps) : List SccEnv → SccOut × Counters
  | [] => (.ok, Counters.zero)
  | e :: es => sccsStep (runScc c e) (runSccs c es)

def batchEnd (env : Env) (r : SccOut × Counters) : Terminal × Counters :=
  match r.1 with
  | .ok => (⟨exitCode env.nMessages env.nNotes false, none⟩, r.2)
  | .blocked => (⟨exitCode env.nMessages env.nNotes true, none⟩, r.2)
  | .bad b => (⟨2, some b⟩, r.2)

/-- `python -m mypy …` from `console_entry` to the process exit status -/
def runBatch (c : Caps) (env : Env) : Terminal × Counters :=
  if env.usageError then (⟨2, none⟩, Counters.zero) else
  if env.raisesEarly then (⟨2, some .internalError⟩, Counters.zero) else
  if env.loadBlocker then (⟨exitCode env.nMessages env.nNotes true, none⟩, Counters.zero) else
  batchEnd env (runSccs c env.sccs)

/-! ## one daemon request -/

structure DaemonEnv where
  /-- the changed module: semantic analysis + one first and one second pass (`update_module_isolated`) -/
  changed : SccEnv
  /-- `propagate_changes_using_dependencies` -/
  pending : Nat → Bool
  /-- targets reprocessed by `reprocess_nodes`, one oracle each -/
  reprocessed : List (Nat → Bool)
  /-- an exception outside `wrap_context` (graph bookkeeping in dmypy_server / update) -/
  raisesOutside : Bool

def runReprocess (c : Caps) : List (Nat → Bool) → Bool
  | [] => true
  | w :: ws => (reprocessLoop c.deferGuarded c.fgLastPass w (c.fgLastPass + 1) reprocessStart 0).1 && runReprocess c ws

/-- `Server.check` for one edit: `none` — answered with diagnostics (response status 0/1/2); `some b` — the
    daemon is gone -/
def daemonCheck (c : Caps) (e : DaemonEnv) : Option Bad :=
  if e.raisesOutside then some .daemonCrashed else
  match (runScc c { e.changed with mods := [] }).1 with
  | .bad b => some b
  | _ =>
    match (fgLoop c.fgOp c.maxIter e.pending (fuelOf c.fgOp c.maxIter) 0).exit with
    | .runtimeError => some .daemonCrashed
    | .fuelOut => some .hang
    | .done => if runReprocess c e.reprocessed then none else some .hang

/-! ## what is observed of a real run, and when the model accepts it -/

/-- counters read from outside (line events on the loop heads, wrappers around `check_second_pass`,
    `report_hang`, `report_internal_error`) plus what the process shows -/
structure Obs where
  /-- exit status of the process (`none`: killed after the time limit) -/
  status : Option Nat
  internalError : Bool
  traceback : Bool
  /-- `report_hang` was called -/
  hangReported : Bool
  /-- largest `iteration` seen in any `process_top_levels` / `process_top_level_function` call -/
  topIters : Nat
  funcIters : Nat
  /-- largest `pass_num` of any checker, largest number of `check_second_pass` calls for one checker in
      one SCC, largest number of `while unfinished_modules` rounds -/
  passNum : Nat
  secondCalls : Nat
  sweeps : Nat
  /-- daemon: largest `num_iter`; largest `pass_num` / `check_second_pass` calls in `reprocess_nodes` -/
  fgIters : Nat
  fgPassNum : Nat
  fgCalls : Nat
  /-- what reached `main`: whether `build` raised `CompileError`, message counts (only for batch runs that
      came through `main`; `viaMain = false` for daemon observations) -/
  viaMain : Bool
  blockers : Bool
  nMessages : Nat
  nNotes : Nat
deriving Repr, DecidableEq

def withinLimit (op : CapOp) (cap n : Nat) : Bool :=
  match op.limit cap with
  | some l => decide (n < l)
  | none => false

/-- the model accepts an observation: a clean exit through the funnel with every counter under its cap -/
def accepts (c : Caps) (o : Obs) : Bool :=
  (o.status == some 0 || o.status == some 1 || o.status == some 2)
  && !o.internalError && !o.traceback && !o.hangReported
  && withinLimit c.topOp c.maxIterations o.topIters
  && withinLimit c.funcOp c.maxIterations o.funcIters
  && decide (o.passNum ≤ c.defaultLastPass)
  && decide (o.secondCalls ≤ c.defaultLastPass + 1)
  && decide (o.sweeps ≤ c.defaultLastPass + 1)
  && withinLimit c.fgOp c.maxIter o.fgIters
  && decide (o.fgPassNum ≤ c.fgLastPass)
  && decide (o.fgCalls ≤ c.fgLastPass + 1)
  && (!o.viaMain || o.status == some (exitCode o.nMessages o.nNotes o.blockers))

/-- first reason for rejection (for the driver's output) -/
def rejectReason (c : Caps) (o : Obs) : String :=
  if o.status == none then "timeout"
  else if !(o.status == some 0 || o.status == some 1 || o.status == some 2) then "status-out-of-range"
  else if o.internalError then "internal-error"
  else if o.traceback then "traceback"
  else if o.hangReported then "semanal-hang-reported"
  else if !withinLimit c.topOp c.maxIterations o.topIters then "top-level-iterations-over-cap"
  else if !withinLimit c.funcOp c.maxIterations o.funcIters then "function-iterations-over-cap"
  else if !decide (o.passNum ≤ c.defaultLastPass) then "pass-num-over-last-pass"
  else if !decide (o.secondCalls ≤ c.defaultLastPass + 1) then "second-pass-calls-over-cap"
  else if !decide (o.sweeps ≤ c.defaultLastPass + 1) then "unfinished-rounds-over-cap"
  else if !withinLimit c.fgOp c.maxIter o.fgIters then "fine-grained-iterations-over-cap"
  else if !decide (o.fgPassNum ≤ c.fgLastPass) then "fine-grained-pass-num-over-last-pass"
  else if !decide (o.fgCalls ≤ c.fgLastPass + 1) then "fine-grained-second-pass-calls-over-cap"
  else if !(!o.viaMain || o.status == some (exitCode o.nMessages o.nNotes o.blockers)) then "status-not-from-funnel"
  else "accepted"

/-- what an outside observer sees of a batch run of the model -/
def observe (c : Caps) (env : Env) : Obs :=
  let r := runBatch c env
  { status := if r.1.bad = some .hang then none else some r.1.status
    internalError := r.1.bad = some .internalError || r.1.bad = some .semanalHang || r.1.bad = some .daemonCrashed
    traceback := false
    hangReported := r.1.bad = some .semanalHang
    topIters := r.2.topIters, funcIters := r.2.funcIters
    passNum := r.2.passNum, secondCalls := r.2.secondCalls, sweeps := r.2.sweeps
    fgIters := 0, fgPassNum := 0, fgCalls := 0
    viaMain := !env.usageError && r.1.bad = none
    blockers := env.loadBlocker || (runSccs c env.sccs).1 = .blocked
    nMessages := env.nMessages, nNotes := env.nNotes }

/-! ## constant folding cost (finding F6) -/

/-- the integer expressions `constant_fold_binary_int_op` evaluates eagerly -/
inductive CExpr
  | lit (n : Nat)
  | pow (a b : CExpr)
deriving Repr

/-- number of source characters (decimal digits of literals, 2 for `**`) — the input size -/
def digits : Nat → Nat → Nat
  | 0, _ => 1
  | fuel + 1, n => if n < 10 then 1 else digits fuel (n / 10) + 1

def CExpr.size : CExpr → Nat
  | .lit n => digits n n
  | .pow a b => a.size + b.size + 2

def CExpr.eval : CExpr → Nat
  | .lit n => n
  | .pow a b => a.eval ^ b.eval

/-- Python's `int.bit_length` -/
def bitLength (a : Nat) : Nat := if a = 0 then 0 else Nat.log2 a + 1

/-- `guard = none`: the folder as found (`left ** right` for every non-negative `right`);
    `guard = some t`: fold `a ** b` only when the cheap bound `a.bit_length() * b ≤ t` holds (the proposed fix);
    result `none` = "not folded" (the expression is type-checked as an ordinary `int` expression) -/
def foldPow (guard : Option Nat) (a b : Nat) : Option Nat :=
  match guard with
  | none => some (a ^ b)
  | some t => if bitLength a * b ≤ t then some (a ^ b) else none

def CExpr.fold (guard : Option Nat) : CExpr → Option Nat
  | .lit n => some n
  | .pow a b =>
    match a.fold guard, b.fold guard with
    | some x, some y => foldPow guard x y
    | _, _ => none

end Driver
