/-
Model of stubgen's default-value rendering — hand-written, import-free, executable.

  mypy/stubgen.py  ASTStubGenerator.get_str_default_of_node   ↦ `render`
                   ASTStubGenerator._get_func_args (`valid and len(potential_default) <= 200`) ↦ `defaultToks`
                   ASTStubGenerator.get_str_type_of_node(can_be_incomplete=False)       ↦ `inferType`
                   ASTStubGenerator.maybe_unwrap_unary_expr                              ↦ `maybeUnwrap`

The initializer is a `DExpr` (the node classes the code distinguishes).  The rendered default is a list of
*lexemes* (`DTok`) — what Python's tokenizer makes of the emitted text — plus the text itself
(`renderText`).  Two places need care because the code builds the text by string concatenation:
  * `f"{op}{value}"` for a unary operator: with `op = "not"` the text is `not1`, which is ONE name token;
  * `f"{value}"` for a float: `1e999` is the value `inf`, whose text is the NAME `inf`;
  * `"b" + repr(value).replace("\\\\", "\\")` for bytes: modelled on characters (`renderBytes`).
String literals are `repr(value)` of the host interpreter: one opaque, well-formed literal token.
-/
namespace StubDefault

inductive Const | none | true | false
deriving DecidableEq, Repr

inductive UOp | neg | pos | inv | not
deriving DecidableEq, Repr

def UOp.text : UOp → String
  | .neg => "-" | .pos => "+" | .inv => "~" | .not => "not"

def UOp.isMath : UOp → Bool
  | .neg | .pos => true | _ => false

mutual
/-- The initializer expression, as far as `get_str_default_of_node` / `get_str_type_of_node` look at it. -/
inductive DExpr where
  | const (c : Const)                       -- NameExpr None / True / False
  | name (s : String)                       -- any other NameExpr
  | int (n : Nat)                           -- IntExpr (value ≥ 0)
  | float (text : String) (finite : Bool)   -- FloatExpr; text = f"{value}"; finite = value is not inf/nan
  | complex                                 -- ComplexExpr
  | complexSum                              -- OpExpr +/- with a complex operand (`1 + 2j`)
  | str (id : Nat)                          -- StrExpr; the literal text is repr(value)
  | bytes (body : List Char)                -- BytesExpr; body = BytesExpr.value (a bytes-repr body)
  | unary (op : UOp) (e : DExpr)            -- UnaryExpr
  | tuple (xs : DList)
  | list (xs : DList)
  | set (xs : DList)                        -- SetExpr (a set display is never empty; the code checks anyway)
  | dict (kvs : DPairs)
  | other                                   -- anything else (calls, lambdas, attribute access, …)
inductive DList where
  | nil
  | cons (x : DExpr) (xs : DList)
inductive DPairs where
  | nil
  | cons (k : DExpr) (v : DExpr) (rest : DPairs)
  | spread (v : DExpr) (rest : DPairs)      -- `**v` inside a dict display: key is None
end

inductive DTok where
  | kw (c : Const)
  | num (text : String)
  | name (text : String)
  | str (id : Nat)
  | bytes (text : List Char)     -- the characters after the `b` prefix
  | op (o : UOp)                 -- only the symbolic ones reach here: - + ~
  | raw (text : String)          -- text that is not one well-formed lexeme sequence (e.g. `not1.5`)
  | lpar | rpar | lbrk | rbrk | lbrc | rbrc
  | comma                        -- ", "
  | tcomma                       -- "," (the 1-tuple's trailing comma)
  | colon                        -- ": "
  | ellipsis
deriving DecidableEq, Repr

/-! ### bytes: `"b" + repr(value).replace("\\\\", "\\")`, on characters (printable ASCII) -/

/-- CPython `repr` of a str of printable ASCII characters -/
def escapeFor (q : Char) : List Char → List Char
  | [] => []
  | c :: r => if c == '\\' then '\\' :: '\\' :: escapeFor q r
              else if c == q then '\\' :: q :: escapeFor q r
              else c :: escapeFor q r

def reprQuote (v : List Char) : Char :=
  if v.contains '\'' && !v.contains '"' then '"' else '\''

def pyReprStr (v : List Char) : List Char :=
  reprQuote v :: escapeFor (reprQuote v) v ++ [reprQuote v]

/-- `str.replace("\\\\", "\\")`: leftmost, non-overlapping -/
def dedouble : List Char → List Char
  | [] => []
  | [c] => [c]
  | c :: d :: r => if c == '\\' && d == '\\' then '\\' :: dedouble r else c :: dedouble (d :: r)

def renderBytes (body : List Char) : List Char := dedouble (pyReprStr body)

/-- after the opening quote `q`: is the rest exactly the remainder of ONE string literal?
    (backslash escapes the next character; the first unescaped `q` must be the last character) -/
def scanLit (q : Char) : List Char → Bool
  | [] => false
  | [c] => c == q
  | c :: d :: r => if c == '\\' then scanLit q r
                   else if c == q then false
                   else scanLit q (d :: r)

/-- Python's tokenizer reads `b` ++ text as exactly one bytes literal -/
def lexOk : List Char → Bool
  | [] => false
  | q :: r => (q == '\'' || q == '"') && scanLit q r

/-! ### which of the rules the checked tree implements (observed by translate/c19cfg.py → Gen/StubCfg.lean) -/

structure DCfg where
  /-- a unary operator spelled with letters is followed by a space: `not 1` (as found: `not1`) -/
  notSpaced : Bool
  /-- a float that is not finite is not rendered: `...` (as found: `inf`) -/
  nonFiniteEllipsis : Bool
  /-- bytes are `b` + quote + BytesExpr.value + quote with the quote `repr` chose
      (as found: `"b" + repr(value).replace("\\\\", "\\")`) -/
  bytesQuote : Bool
deriving DecidableEq, Repr

def DCfg.asFound : DCfg := ⟨false, false, false⟩
def DCfg.repaired : DCfg := ⟨true, true, true⟩

/-- the bytes literal's text after the `b` -/
def renderBytesC (c : DCfg) (body : List Char) : List Char :=
  if c.bytesQuote then reprQuote body :: body ++ [reprQuote body] else renderBytes body

/-- BytesExpr.value is the body of a bytes `repr`: escapes are complete and the quote `repr` chose
    (`reprQuote`) does not occur unescaped — the domain of bytes initializers -/
def scanBody (q : Char) : List Char → Bool
  | [] => true
  | [c] => c != '\\' && c != q
  | c :: d :: r => if c == '\\' then scanBody q r
                   else if c == q then false
                   else scanBody q (d :: r)

/-! ### get_str_default_of_node -/

def floatTok (text : String) (finite : Bool) : DTok := if finite then .num text else .name text

/-- is a float literal rendered at all? -/
def floatOk (c : DCfg) (finite : Bool) : Bool := !(c.nonFiniteEllipsis && !finite)

/-- lexemes of `f"{op}{value}"` (as found) / `f"{op}{sep}{value}"` (repaired) -/
def unaryToks (c : DCfg) (o : UOp) (text : String) (finite : Bool) : List DTok :=
  match o with
  | .not =>
    if c.notSpaced then [.op .not, floatTok text finite]
    else if text.toList.all Char.isAlphanum then [.name ("not" ++ text)] else [.raw ("not" ++ text)]
  | o => [.op o, floatTok text finite]

mutual
/-- `(text, valid)`: `none` = `("...", False)` -/
def render (c : DCfg) : DExpr → Option (List DTok)
  | .const c => some [.kw c]
  | .name _ => none
  | .int n => some [.num (toString n)]
  | .float t f => if floatOk c f then some [floatTok t f] else none
  | .complex => none
  | .complexSum => none
  | .str i => some [.str i]
  | .bytes b => some [.bytes (renderBytesC c b)]
  | .unary o e =>
    match e with
    | .int n => some (unaryToks c o (toString n) true)
    | .float t f => if floatOk c f then some (unaryToks c o t f) else none
    | _ => none
  | .tuple xs =>
    match xs with
    | .nil => some [.lpar, .rpar]
    | .cons x .nil => (render c x).map fun t => .lpar :: t ++ [.tcomma, .rpar]
    | xs => (renderList c xs).map fun t => .lpar :: t ++ [.rpar]
  | .list xs =>
    match xs with
    | .nil => some [.lbrk, .rbrk]
    | xs => (renderList c xs).map fun t => .lbrk :: t ++ [.rbrk]
  | .set xs =>
    match xs with
    | .nil => none
    | xs => (renderList c xs).map fun t => .lbrc :: t ++ [.rbrc]
  | .dict kvs =>
    match kvs with
    | .nil => some [.lbrc, .rbrc]
    | kvs => (renderPairs c kvs).map fun t => .lbrc :: t ++ [.rbrc]
  | .other => none
/-- items joined by ", " (all must be valid) -/
def renderList (c : DCfg) : DList → Option (List DTok)
  | .nil => some []
  | .cons x .nil => render c x
  | .cons x xs => (render c x).bind fun t => (renderList c xs).map fun ts => t ++ .comma :: ts
def renderPairs (c : DCfg) : DPairs → Option (List DTok)
  | .nil => some []
  | .spread _ _ => none
  | .cons k v .nil => (render c k).bind fun tk => (render c v).map fun tv => tk ++ .colon :: tv
  | .cons k v rest =>
    (render c k).bind fun tk => (render c v).bind fun tv => (renderPairs c rest).map fun ts =>
      tk ++ .colon :: tv ++ .comma :: ts
end
def DTok.text : DTok → String
  | .kw .none => "None" | .kw .true => "True" | .kw .false => "False"
  | .num t => t | .name t => t | .raw t => t
  | .str i => "'s" ++ toString i ++ "'"
  | .bytes t => "b" ++ String.ofList t
  | .op o => if o == .not then "not " else o.text
  | .lpar => "(" | .rpar => ")" | .lbrk => "[" | .rbrk => "]" | .lbrc => "{" | .rbrc => "}"
  | .comma => ", " | .tcomma => "," | .colon => ": " | .ellipsis => "..."

def renderText (ts : List DTok) : String := String.join (ts.map DTok.text)

/-- length of the emitted text when string literal `i` has a repr of `strLen i` characters -/
def textLen (strLen : Nat → Nat) (ts : List DTok) : Nat :=
  (ts.map fun t => match t with | .str i => strLen i | t => t.text.length).sum

/-- `_get_func_args`: `default = potential_default if valid and len(potential_default) <= 200 else "..."` -/
def defaultToks (c : DCfg) (strLen : Nat → Nat) (e : DExpr) : List DTok :=
  match render c e with
  | some t => if textLen strLen t ≤ 200 then t else [.ellipsis]
  | none => [.ellipsis]

/-! ### get_str_type_of_node(…, can_be_incomplete=False) -/

def isNumOrUnary : DExpr → Bool
  | .int _ | .float _ _ | .complex | .unary _ _ => true
  | _ => false

def unwrapMath : DExpr → DExpr
  | .unary o e => if o.isMath && isNumOrUnary e then unwrapMath e else .unary o e
  | e => e

def isBoolOrUnary : DExpr → Bool
  | .const .true | .const .false | .unary _ _ => true
  | _ => false

def unwrapNot : DExpr → DExpr
  | .unary o e => if o == .not && isBoolOrUnary e then unwrapNot e else .unary o e
  | e => e

def maybeUnwrap : DExpr → DExpr
  | .unary o e => if o.isMath then unwrapMath (.unary o e) else if o == .not then unwrapNot (.unary o e) else .unary o e
  | e => e

/-- `none` = the empty string (no type can be read off the literal) -/
def inferType (e : DExpr) : Option String :=
  match maybeUnwrap e with
  | .int _ => some "int"
  | .str _ => some "str"
  | .bytes _ => some "bytes"
  | .float _ _ => some "float"
  | .complex => some "complex"
  | .complexSum => some "complex"
  | .const .true | .const .false => some "bool"
  | _ => none

/-- the run-time type of a literal expression, as Python evaluates it (only the types `inferType` can
    name; `none` = something else) -/
def typeOf : DExpr → Option String
  | .const .true | .const .false => some "bool"
  | .int _ => some "int"
  | .float _ _ => some "float"
  | .complex | .complexSum => some "complex"
  | .str _ => some "str"
  | .bytes _ => some "bytes"
  | .unary o e =>
    match o with
    | .not => some "bool"
    | .inv => if typeOf e = some "int" ∨ typeOf e = some "bool" then some "int" else none
    | _ =>   -- unary minus / plus
      if typeOf e = some "bool" then some "int"
      else if typeOf e = some "int" ∨ typeOf e = some "float" ∨ typeOf e = some "complex" then typeOf e
      else none
  | _ => none

/-! ### a model of Python's expression grammar for literal displays (declarative) -/

mutual
inductive IsExpr : List DTok → Prop
  | kw (c) : IsExpr [.kw c]
  | num (t) : IsExpr [.num t]
  | name (t) : IsExpr [.name t]
  | str (i) : IsExpr [.str i]
  | ellipsis : IsExpr [.ellipsis]
  | bytes (t) : lexOk t = true → IsExpr [.bytes t]
  | unary (o) (e) : IsExpr e → IsExpr (.op o :: e)
  | tuple0 : IsExpr [.lpar, .rpar]
  | tuple1 (e) : IsExpr e → IsExpr (.lpar :: e ++ [.tcomma, .rpar])
  | paren (es) : IsSeq es → IsExpr (.lpar :: es ++ [.rpar])
  | list0 : IsExpr [.lbrk, .rbrk]
  | list (es) : IsSeq es → IsExpr (.lbrk :: es ++ [.rbrk])
  | set (es) : IsSeq es → IsExpr (.lbrc :: es ++ [.rbrc])
  | dict0 : IsExpr [.lbrc, .rbrc]
  | dict (kvs) : IsKVs kvs → IsExpr (.lbrc :: kvs ++ [.rbrc])
/-- one or more expressions separated by commas -/
inductive IsSeq : List DTok → Prop
  | one (e) : IsExpr e → IsSeq e
  | cons (e es) : IsExpr e → IsSeq es → IsSeq (e ++ .comma :: es)
/-- one or more `key: value` pairs separated by commas -/
inductive IsKVs : List DTok → Prop
  | one (k v) : IsExpr k → IsExpr v → IsKVs (k ++ .colon :: v)
  | cons (k v rest) : IsExpr k → IsExpr v → IsKVs rest → IsKVs (k ++ .colon :: v ++ .comma :: rest)
end

/-- no free name, no mis-lexed text: the default means the same in the stub as in the source -/
def Closed (ts : List DTok) : Bool :=
  ts.all fun t => match t with | .name _ | .raw _ => false | _ => true

/-! ### hypotheses of the provable parts, as decidable predicates on the initializer -/

mutual
/-- hypotheses of the provable part: no `not` operator unless the tree spaces it; every bytes literal renders
    to one well-formed lexeme -/
def DExpr.good (c : DCfg) : DExpr → Bool
  | .bytes b => lexOk (renderBytesC c b)
  | .unary o e => (c.notSpaced || o != .not) && e.good c
  | .tuple xs | .list xs | .set xs => xs.good c
  | .dict kvs => kvs.good c
  | _ => true
def DList.good (c : DCfg) : DList → Bool
  | .nil => true
  | .cons x xs => x.good c && xs.good c
def DPairs.good (c : DCfg) : DPairs → Bool
  | .nil => true
  | .cons k v rest => k.good c && v.good c && rest.good c
  | .spread v rest => v.good c && rest.good c
end

mutual
/-- every float literal denotes a finite value, unless the tree does not render the others -/
def DExpr.finite (c : DCfg) : DExpr → Bool
  | .float _ f => c.nonFiniteEllipsis || f
  | .unary _ e => e.finite c
  | .tuple xs | .list xs | .set xs => xs.finite c
  | .dict kvs => kvs.finite c
  | _ => true
def DList.finite (c : DCfg) : DList → Bool
  | .nil => true
  | .cons x xs => x.finite c && xs.finite c
def DPairs.finite (c : DCfg) : DPairs → Bool
  | .nil => true
  | .cons k v rest => k.finite c && v.finite c && rest.finite c
  | .spread v rest => v.finite c && rest.finite c
end

mutual
/-- the input domain: every bytes initializer carries the body of a bytes `repr` (what mypy's parser stores) -/
def DExpr.wf : DExpr → Bool
  | .bytes b => scanBody (reprQuote b) b
  | .unary _ e => e.wf
  | .tuple xs | .list xs | .set xs => xs.wf
  | .dict kvs => kvs.wf
  | _ => true
def DList.wf : DList → Bool
  | .nil => true
  | .cons x xs => x.wf && xs.wf
def DPairs.wf : DPairs → Bool
  | .nil => true
  | .cons k v rest => k.wf && v.wf && rest.wf
  | .spread v rest => v.wf && rest.wf
end

/-- a lexeme CPython's tokenizer accepts as such -/
def tokOk : DTok → Bool
  | .raw _ => false
  | .bytes t => lexOk t
  | _ => true

def LexOk (ts : List DTok) : Bool := ts.all tokOk

end StubDefault
