import MypyVerif.Model.Lang
/-
The static side of C01: `tc`, an *algorithmic* checker that transcribes what mypy does on the MiniPy fragment
(`Model/Lang.lean`).  Hand-written, import-free, executable; compared with the real checker on every run
(harness/c01: accept/reject and the type of every probe argument).

  mypy/subtypes.py   is_subtype on {int, str, bool, None, object, classes, unions}          ↦ `subAtom`, `subTy`
  mypy/typeops.py    make_simplified_union                                                   ↦ `insAtom`, `simpUnion`, `unionTys`
  mypy/binder.py     ConditionalTypeBinder: frames flattened to one map local ↦ (narrowed type, from_assignment);
                     put / assign_type ↦ `bind`; update_from_options ↦ `mergeVar`, `mergeEnvs`
  mypy/checker.py    visit_if_stmt ↦ `Stmt.ite`; visit_break_stmt / visit_continue_stmt (binder.handle_break / handle_continue) ↦ `SRes.brks/conts`; accept_loop/visit_while_stmt (≤ 4 passes, last_pop_changed) ↦ `loopIter`;
                     find_isinstance_check_helper / conditional_types / narrow_type_by_identity_equality
                     ↦ `instMaps`, `noneMaps`; and_conditional_maps / or_conditional_maps ↦ `andMaps`, `orMaps`;
                     check_assignment, check_return_stmt, check_method_override, check_func_def (missing return)
  mypy/checkexpr.py  check_call (arity, argument subtyping, "does not return a value"), analyze member access on
                     unions, check_boolean_op, check_op for int/str `+`

Results other than `ok`:
  `type k`        a diagnostic mypy reports (k only tells the rules apart)
  `unsupported k` the program leaves the fragment whose rules are transcribed here (ad-hoc intersections,
                  truthiness/`==`/literal narrowing, repeated truthiness tests of one local, unreachable right operands, implicit
                  attribute definitions);
                  the generator never emits such programs
  `hole k`        mypy accepts, but by a rule that is known to be unsound — `tc` refuses so that `soundness`
                  is a theorem: 1 = assignment to an attribute through a union receiver is checked against the
                  *union* of the declared attribute types; 2 = a loop body is re-checked at most 4 times, the
                  binder state after the 4th pass is used whether or not it is a fixpoint; 3 = isinstance on a
                  union drops an item unrelated to the tested class although the program has a common subclass; 4 = a frame
                  merge keeps the enclosing type because no option is flagged `from_assignment`, although one of them
                  carries a type outside it (a narrowing after an assignment, captured at a break/continue);
                  5 = the state of an `except` / `finally` clause (built from the states after assignments) does
                  not cover a state an exception / return / jump really occurs in (not observed on the unchanged
                  rules); 6 = a `break` / `continue` passes through a `finally` clause that changes a local: the
                  loop exit keeps the state recorded at the jump; 7 = the signature of `__bool__` is not checked
                  (a truth test of an instance whose `__bool__` takes an argument or returns a non-bool raises TypeError)
  `stuck k`       a defensive check failed (a merged type is not above a branch type, a declaration meets an
                  already narrowed local); never observed — it keeps the proof independent of binder invariants
  `fuel`          recursion budget exhausted
-/
namespace Lang

inductive TcErr where
  | type (k : Nat)
  | unsupported (k : Nat)
  | hole (k : Nat)
  | stuck (k : Nat)
  | fuel
deriving DecidableEq, Repr, Inhabited

abbrev TC := Except TcErr

def req (b : Bool) (e : TcErr) : TC Unit := if b then .ok () else .error e

/-! ## Subtyping and simplified unions -/

def subAtom (P : Prog) (a b : Atom) : Bool :=
  match a, b with
  | _, .object => true
  | .bool, .int => true
  | .cls c, .cls d => isSub P c d
  | a, b => a == b

def subTy (P : Prog) (T U : Ty) : Bool := T.all fun a => U.any fun b => subAtom P a b

def sameTy (P : Prog) (T U : Ty) : Bool := subTy P T U && subTy P U T

/-- add one item to a simplified union (`_remove_redundant_union_items`, one item at a time) -/
def insAtom (P : Prog) (a : Atom) (acc : Ty) : Ty :=
  if acc.any (fun b => subAtom P a b) then acc
  else acc.filter (fun b => !subAtom P b a) ++ [a]

def simpUnion (P : Prog) (T : Ty) : Ty := T.foldl (fun acc a => insAtom P a acc) []

/-- `make_simplified_union(Ts)` -/
def unionTys (P : Prog) (Ts : List Ty) : Ty := simpUnion P Ts.flatten

/-! ## Binder state -/

/-- narrowed entries: local ↦ (type, from_assignment); the first binding of a local wins -/
abbrev Env := List (Nat × (Ty × Bool))

def declTy (decl : List Ty) (x : Nat) : Ty :=
  match decl[x]? with
  | some T => T
  | none => []

/-- the type the checker gives to local `x` here: narrowed if there is an entry, declared otherwise -/
def effTy (decl : List Ty) (Γ : Env) (x : Nat) : Ty :=
  match lookup x Γ with
  | some (T, _) => T
  | none => declTy decl x

def bind (Γ : Env) (x : Nat) (T : Ty) (fromAssign : Bool) : Env := (x, (T, fromAssign)) :: Γ

/-- a conditional type map (`TypeMap`): `none` = that outcome is impossible -/
abbrev CMap := Option (List (Nat × Ty))

def noInfo : CMap := some []

def applyMap (Γ : Env) (flag : Bool) (m : List (Nat × Ty)) : Env :=
  m.map (fun p => (p.1, (p.2, flag))) ++ Γ

/-- `push_type_map` -/
def pushMap (Γ : Env) (flag : Bool) (m : CMap) : Option Env :=
  match m with
  | none => none
  | some l => if l.any (fun p => p.2.isEmpty) then none else some (applyMap Γ flag l)

def hasKey (x : Nat) (l : List (Nat × Ty)) : Bool := l.any fun p => p.1 == x

def andMaps (m1 m2 : CMap) : CMap :=
  match m1, m2 with
  | some a, some b => some (b ++ a.filter fun p => !hasKey p.1 b)
  | _, _ => none

def orList (P : Prog) (a b : List (Nat × Ty)) : List (Nat × Ty) :=
  match a with
  | [] => []
  | (x, T) :: r =>
    match lookup x b with
    | some U => (x, unionTys P [T, U]) :: orList P r b
    | none => orList P r b

def orMaps (P : Prog) (m1 m2 : CMap) : CMap :=
  match m1, m2 with
  | none, m => m
  | m, none => m
  | some a, some b => some (orList P a b)

/-! ### isinstance / None narrowing -/

/-- `conditional_types(item, [C], default=item)` for one union item: (yes, no) -/
def instAtom (P : Prog) (c : Nat) (a : Atom) : Ty × Ty :=
  if subAtom P a (.cls c) then ([a], [])
  else match a with
    | .object => ([.cls c], [a])
    | .cls d => if isSub P c d then ([.cls c], [a]) else ([], [a])
    | _ => ([], [a])

def isInstanceAtom : Atom → Bool
  | .none => false
  | _ => true

/-- the two maps from the narrowed types of a union: an empty side is an impossible outcome -/
def narrowResult (x : Nat) (yes no : Ty) (intersect : Bool) : TC (CMap × CMap) :=
  if yes.isEmpty then
    if intersect then .error (.unsupported 1) else .ok (none, some [(x, no)])
  else if no.isEmpty then .ok (some [(x, yes)], none)
  else .ok (some [(x, yes)], some [(x, no)])

/-- some class of the program is a subclass of both `c` and `d` -/
def commonSub (P : Prog) (c d : Nat) : Bool :=
  (List.range P.classes.length).any fun k => isSub P k c && isSub P k d

/-- a union item that `conditional_types` drops as "not overlapping" `C` although a common subclass exists -/
def dropsInhabited (P : Prog) (c : Nat) (a : Atom) : Bool :=
  match a with
  | .cls d => !isSub P d c && !isSub P c d && commonSub P c d
  | _ => false

/-- maps for `isinstance(x, C)` where `x : T` -/
def instMaps (P : Prog) (x c : Nat) (T : Ty) : TC (CMap × CMap) :=
  match T with
  | [] => .error (.stuck 10)
  | [a] =>
    if subAtom P a (.cls c) then .ok (noInfo, none)
    else if (instAtom P c a).1.isEmpty then
      if isInstanceAtom a then .error (.unsupported 1) else .ok (none, noInfo)
    else .ok (some [(x, (instAtom P c a).1)], some [(x, (instAtom P c a).2)])
  | _ =>
    if T.any (dropsInhabited P c) then .error (.hole 3)
    else
    -- no item can be an instance of C: mypy tries ad-hoc intersections if every item is an Instance
    narrowResult x (unionTys P (T.map fun a => (instAtom P c a).1)) (unionTys P (T.map fun a => (instAtom P c a).2))
      (T.all isInstanceAtom)

/-- maps for `x is None` where `x : T` -/
def noneMaps (x : Nat) (T : Ty) : TC (CMap × CMap) :=
  match T with
  | [] => .error (.stuck 11)
  | [a] =>
    match a with
    | .none => .ok (noInfo, none)
    | .object => .ok (some [(x, [.none])], some [(x, [.object])])
    | _ => .ok (none, noInfo)
  | _ =>
    narrowResult x (if T.any (fun a => a == .none || a == .object) then [.none] else []) (T.filter fun a => a != .none) false

/-! ### update_from_options -/

/-- one key of `update_from_options`: `cur` = the enclosing state, `bs` = the reachable option frames.
    Returns the new entry and whether the binder calls this a change. -/
def mergeVar (P : Prog) (decl : List Ty) (cur : Env) (bs : List Env) (allReach : Bool) (x : Nat) :
    TC (Option (Ty × Bool) × Bool) :=
  let curV := lookup x cur
  let curT := effTy decl cur x
  let below := bs.all fun b => subTy P (effTy decl b x) curT
  if bs.any (fun b => (lookup x b).isNone) then
    do req below (.stuck 1); pure (curV, false)
  else if allReach && bs.all (fun b => match lookup x b with | some (_, fl) => !fl | none => true) then
    -- `update_from_options` keeps the enclosing type when no option records an assignment; a narrowing put on top
    -- of an assignment in the snapshot taken at a break/continue hides the assignment (F-C01-4)
    do req below (.hole 4); pure (curV, false)
  else
    let U := unionTys P (bs.map fun b => effTy decl b x)
    match curV with
    | none => pure (some (U, true), !sameTy P U curT)
    | some (Tc, _) => if sameTy P U Tc then pure (curV, false) else pure (some (U, true), true)

def mergeVars (P : Prog) (decl : List Ty) (cur : Env) (bs : List Env) (allReach : Bool) :
    List Nat → TC (Env × Bool)
  | [] => pure ([], false)
  | x :: xs => do
    let r ← mergeVar P decl cur bs allReach x
    let rest ← mergeVars P decl cur bs allReach xs
    pure (match r.1 with
          | some v => (x, v) :: rest.1
          | none => rest.1, r.2 || rest.2)

def reachable : List (Option Env) → List Env
  | [] => []
  | none :: r => reachable r
  | some b :: r => b :: reachable r

/-- `update_from_options(opts)` on top of the state `cur` -/
def mergeEnvs (P : Prog) (decl : List Ty) (cur : Env) (opts : List (Option Env)) : TC (Option Env × Bool) :=
  match reachable opts with
  | [] => pure (none, false)
  | b :: bs => do
    let r ← mergeVars P decl cur (b :: bs) (opts.all Option.isSome) (List.range decl.length)
    pure (some r.1, r.2)

/-- every local's type in `Γ` is below its type in `L` (the defensive fixpoint test) -/
def envLe (P : Prog) (decl : List Ty) (Γ L : Env) : Bool :=
  (List.range decl.length).all fun x => subTy P (effTy decl Γ x) (effTy decl L x)

/-! ## Expressions -/

structure Ctx where
  P : Prog
  decl : List Ty
  ret : Ty
  self : Option Nat := none      -- the class whose method is being checked (local 0 is `self`)

/-- `self.f = …` inside a method *defines* `f` on the class unless it is already declared there
    (semanal's implicit attribute definition) — outside the fragment -/
def implicitAttrDef (C : Ctx) (o : Expr) (f : Nat) : Bool :=
  match o, C.self with
  | .var 0, some c => (lookupAttr C.P c f).isNone
  | _, _ => false

abbrev Recs := List (Nat × Ty)

structure ERes where
  ty : Ty
  yes : CMap
  no : CMap
  recs : Recs

def plain (T : Ty) (r : Recs) : ERes := { ty := T, yes := noInfo, no := noInfo, recs := r }

/-- declared attribute types of `f` on every item of a receiver type -/
def attrTys (P : Prog) (f : Nat) : Ty → TC (List Ty)
  | [] => pure []
  | .cls d :: r =>
    match lookupAttr P d f with
    | some T => do let rest ← attrTys P f r; pure (T :: rest)
    | none => .error (.type 2)
  | _ :: _ => .error (.type 2)

def methSigs (P : Prog) (m : Nat) : Ty → TC (List FuncDef)
  | [] => pure []
  | .cls d :: r =>
    match lookupMeth P d m with
    | some (_, fd) => do let rest ← methSigs P m r; pure (fd :: rest)
    | none => .error (.type 3)
  | _ :: _ => .error (.type 3)

def argsFit (P : Prog) : List Ty → List Ty → Bool
  | [], [] => true
  | T :: ts, U :: us => subTy P T U && argsFit P ts us
  | _, _ => false

def joinResults (P : Prog) (Ts : List Ty) : Ty :=
  match Ts with
  | [T] => T
  | _ => unionTys P Ts

def isIntLike (T : Ty) : Bool := T == [.int] || T == [.bool]

def classOrNone : Atom → Bool
  | .cls _ => true
  | .none => true
  | _ => false

/-- `if x:` on a local of type `Optional[class…]`: mypy removes None in the true branch (an instance of a class
    without `__bool__`/`__len__` is always true at run time; a subclass could define them, so the false branch
    keeps the whole type) -/
def isTruthVar : Expr → Bool
  | .var _ => true
  | _ => false

def isLitExpr : Expr → Bool
  | .intLit _ => true | .strLit _ => true | .boolLit _ => true | .noneLit => true
  | _ => false

mutual
/-- `allowNone`: a call of a function that only returns None is fine here (expression statement, `return`
    in a `-> None` function); `cond`: the expression is analysed by `find_isinstance_check`. -/
def tcE : Nat → Ctx → Env → Bool → Bool → Expr → TC ERes
  | 0, _, _, _, _, _ => .error .fuel
  | n+1, C, Γ, allowNone, cond, e =>
    match e with
    | .intLit _ => pure (plain [.int] [])
    | .strLit _ => pure (plain [.str] [])
    | .boolLit b => pure { ty := [.bool], yes := if b then noInfo else none, no := if b then none else noInfo, recs := [] }
    | .noneLit => pure (plain [.none] [])
    | .var x =>
      match C.decl[x]? with
      | none => .error (.type 1)
      | some _ =>
        let T := effTy C.decl Γ x
        if cond then
          if T.all classOrNone then
            pure { ty := T, yes := if (T.filter fun a => a != .none).isEmpty then none else some [(x, T.filter fun a => a != .none)],
                   no := some [(x, T)], recs := [] }
          else .error (.unsupported 2)
        else pure (plain T [])
    | .attr e f => do
      req (!cond) (.unsupported 2)
      let r ← tcE n C Γ false false e
      req (!r.ty.isEmpty) (.stuck 12)
      let ts ← attrTys C.P f r.ty
      pure (plain (joinResults C.P ts) r.recs)
    | .callM e m args => do
      let r ← tcE n C Γ false false e
      req (!r.ty.isEmpty) (.stuck 12)
      let sigs ← methSigs C.P m r.ty
      let as ← tcArgs n C Γ args
      req (sigs.all fun fd => argsFit C.P as.1 fd.params) (.type 4)
      let T := joinResults C.P (sigs.map (·.ret))
      req (allowNone || !(r.ty.length == 1 && T == [.none])) (.type 5)
      pure (plain T (r.recs ++ as.2))
    | .callF f args =>
      match C.P.funcs[f]? with
      | none => .error (.type 6)
      | some fd => do
        let as ← tcArgs n C Γ args
        req (argsFit C.P as.1 fd.params) (.type 4)
        req (allowNone || !(fd.ret == [.none])) (.type 5)
        pure (plain fd.ret as.2)
    | .new c args =>
      match C.P.classes[c]? with
      | none => .error (.type 6)
      | some cd => do
        let as ← tcArgs n C Γ args
        req (argsFit C.P as.1 cd.init.params) (.type 4)
        pure (plain [.cls c] as.2)
    | .isinst x c =>
      match C.decl[x]?, C.P.classes[c]? with
      | some _, some _ => do
        let ms ← instMaps C.P x c (effTy C.decl Γ x)
        pure { ty := [.bool], yes := ms.1, no := ms.2, recs := [] }
      | _, _ => .error (.type 1)
    | .isNone x neg =>
      match C.decl[x]? with
      | none => .error (.type 1)
      | some _ => do
        let ms ← noneMaps x (effTy C.decl Γ x)
        pure { ty := [.bool], yes := if neg then ms.2 else ms.1, no := if neg then ms.1 else ms.2, recs := [] }
    | .not e => do
      let r ← tcE n C Γ false cond e
      req (r.ty == [.bool] || isTruthVar e) (.unsupported 3)
      pure { ty := [.bool], yes := r.no, no := r.yes, recs := r.recs }
    | .and a b => do
      let ra ← tcE n C Γ false true a
      req (ra.ty == [.bool]) (.unsupported 3)
      match pushMap Γ false ra.yes with
      | none => .error (.unsupported 4)
      | some Γa => do
        let rb ← tcE n C Γa false cond b
        req (rb.ty == [.bool]) (.unsupported 3)
        pure { ty := [.bool], yes := andMaps ra.yes rb.yes, no := orMaps C.P ra.no rb.no, recs := ra.recs ++ rb.recs }
    | .or a b => do
      let ra ← tcE n C Γ false true a
      req (ra.ty == [.bool]) (.unsupported 3)
      match pushMap Γ false ra.no with
      | none => .error (.unsupported 4)
      | some Γa => do
        let rb ← tcE n C Γa false cond b
        req (rb.ty == [.bool]) (.unsupported 3)
        pure { ty := [.bool], yes := orMaps C.P ra.yes rb.yes, no := andMaps ra.no rb.no, recs := ra.recs ++ rb.recs }
    | .eq a b => do
      req (!isLitExpr a && !isLitExpr b) (.unsupported 5)
      let ra ← tcE n C Γ false false a
      let rb ← tcE n C Γ false false b
      req ((ra.ty == [.int] || ra.ty == [.str]) && (rb.ty == [.int] || rb.ty == [.str])) (.unsupported 5)
      pure (plain [.bool] (ra.recs ++ rb.recs))
    | .add a b => do
      let ra ← tcE n C Γ false false a
      let rb ← tcE n C Γ false false b
      if isIntLike ra.ty && isIntLike rb.ty then pure (plain [.int] (ra.recs ++ rb.recs))
      else if ra.ty == [.str] && rb.ty == [.str] then pure (plain [.str] (ra.recs ++ rb.recs))
      else .error (.type 7)
    | .sub a b => do
      let ra ← tcE n C Γ false false a
      let rb ← tcE n C Γ false false b
      if isIntLike ra.ty && isIntLike rb.ty then pure (plain [.int] (ra.recs ++ rb.recs))
      else .error (.type 7)
    | .lt a b => do
      let ra ← tcE n C Γ false false a
      let rb ← tcE n C Γ false false b
      if isIntLike ra.ty && isIntLike rb.ty then pure (plain [.bool] (ra.recs ++ rb.recs))
      else if ra.ty == [.str] && rb.ty == [.str] then pure (plain [.bool] (ra.recs ++ rb.recs))
      else .error (.type 7)
    | .probe k e => do
      req allowNone (.type 5)
      let r ← tcE n C Γ false false e
      pure (plain [.none] (r.recs ++ [(k, r.ty)]))

def tcArgs : Nat → Ctx → Env → List Expr → TC (List Ty × Recs)
  | 0, _, _, _ => .error .fuel
  | n+1, C, Γ, es =>
    match es with
    | [] => pure ([], [])
    | e :: r => do
      let a ← tcE n C Γ false false e
      let rest ← tcArgs n C Γ r
      pure (a.ty :: rest.1, a.recs ++ rest.2)
end

/-! ## Statements -/

/-- result of checking a statement: the state when control falls through (`none` = it cannot), the probe
    records, the states at the `break` / `continue` statements not yet consumed by a loop
    (`binder.allow_jump` to `break_frames[-1]` / `continue_frames[-1]`), and for try statements:
    `snaps` — the states right after every assignment (`assign_type` → `allow_jump` to every enclosing try frame),
    from which mypy builds the state of `except` / `finally` clauses;
    `excs`, `rets` — the states at every point that may raise / at every `return` (what a handler / a finally
    clause can really meet; only used by defensive checks, mypy does not compute them) -/
structure SRes where
  out : Option Env
  recs : Recs
  brks : List Env := []
  conts : List Env := []
  excs : List Env := []
  rets : List Env := []
  snaps : List Env := []

/-- the second of two statements run in sequence / side by side: collect everything -/
def SRes.join (a b : SRes) (out : Option Env) : SRes :=
  { out := out, recs := a.recs ++ b.recs, brks := a.brks ++ b.brks, conts := a.conts ++ b.conts,
    excs := a.excs ++ b.excs, rets := a.rets ++ b.rets, snaps := a.snaps ++ b.snaps }

/-- result of one pass over a loop body -/
structure Pass where
  next : Env            -- the loop frame after the pass
  changed : Bool        -- `binder.last_pop_changed`
  exit : Option Env     -- the loop frame narrowed by the negated condition
  body : SRes           -- the body's result (its `brks` leave the loop; `excs`/`rets`/`snaps` pass through)
  recs : Recs
  head : Env            -- the loop frame the pass started from (where the condition is evaluated)

/-- `accept_loop`: at most `i` passes; `pass L` checks condition and body from the loop frame `L`;
    the result is the last pass -/
def loopIter (P : Prog) (decl : List Ty) (pass : Env → TC Pass) : Nat → Env → TC Pass
  | 0, _ => .error (.hole 2)
  | i+1, L => do
    let p ← pass L
    if p.changed then loopIter P decl pass i p.next
    else do
      req (envLe P decl p.next L) (.stuck 3)
      pure p

/-- the statement assigns some local (then a `finally` clause made of it changes the state a pending jump saw) -/
def assignsLocals : Stmt → Bool
  | .decl _ _ => true
  | .assign _ _ => true
  | .infer _ _ => true
  | .ite _ t e => assignsLocals t || assignsLocals e
  | .while _ b => assignsLocals b
  | .seq a b => assignsLocals a || assignsLocals b
  | .tryS b _ h els fin _ => assignsLocals b || assignsLocals h || assignsLocals els || assignsLocals fin
  | _ => false

def envsLe (P : Prog) (decl : List Ty) (l : List Env) (H : Env) : Bool := l.all fun Γ => envLe P decl Γ H

def optList (o : Option Env) : List Env :=
  match o with
  | some Γ => [Γ]
  | none => []

def tcS : Nat → Ctx → Option Env → Stmt → TC SRes
  | 0, _, _, _ => .error .fuel
  | _+1, _, none, _ => pure { out := none, recs := [] }
  | n+1, C, some Γ, s =>
    match s with
    | .pass => pure { out := some Γ, recs := [] }
    | .decl x e =>
      match C.decl[x]? with
      | none => .error (.type 1)
      | some Tx => do
        req (lookup x Γ).isNone (.stuck 4)
        let r ← tcE n C Γ false false e
        req (subTy C.P r.ty Tx) (.type 8)
        pure { out := some Γ, recs := r.recs, excs := [Γ] }
    | .assign x e =>
      match C.decl[x]? with
      | none => .error (.type 1)
      | some Tx => do
        let r ← tcE n C Γ false false e
        req (subTy C.P r.ty Tx) (.type 8)
        pure { out := some (bind Γ x r.ty true), recs := r.recs, excs := [Γ], snaps := [bind Γ x r.ty true] }
    | .infer x e =>
      -- `infer_variable_type`: the variable gets the type of the initialiser; the term carries that type in the
      -- declaration table and the checker verifies it (a mismatch, or a `None` initialiser — a partial type —
      -- leaves the fragment); like an annotated declaration it does not touch the binder
      match C.decl[x]? with
      | none => .error (.type 1)
      | some Tx => do
        req (lookup x Γ).isNone (.stuck 4)
        let r ← tcE n C Γ false false e
        req (!(r.ty == [.none]) && subTy C.P r.ty Tx && subTy C.P Tx r.ty) (.unsupported 7)
        pure { out := some Γ, recs := r.recs, excs := [Γ] }
    | .setAttr o f e => do
      req (!implicitAttrDef C o f) (.unsupported 6)
      let ro ← tcE n C Γ false false o
      let re ← tcE n C Γ false false e
      req (!ro.ty.isEmpty) (.stuck 12)
      let ts ← attrTys C.P f ro.ty
      if ts.all (fun T => subTy C.P re.ty T) then pure { out := some Γ, recs := ro.recs ++ re.recs, excs := [Γ] }
      else if subTy C.P re.ty (joinResults C.P ts) then .error (.hole 1)
      else .error (.type 8)
    | .expr e => do
      let r ← tcE n C Γ true false e
      pure { out := some Γ, recs := r.recs, excs := [Γ] }
    | .ret e => do
      let r ← tcE n C Γ (C.ret == [.none]) false e
      req (subTy C.P r.ty C.ret) (.type 9)
      pure { out := none, recs := r.recs, excs := [Γ], rets := [Γ] }
    | .brk => pure { out := none, recs := [], brks := [Γ] }
    | .cont => pure { out := none, recs := [], conts := [Γ] }
    | .raise _ => pure { out := none, recs := [], excs := [Γ] }
    | .ite c t e => do
      let rc ← tcE n C Γ false true c
      req (rc.ty == [.bool] || isTruthVar c) (.unsupported 3)
      let rt ← tcS n C (pushMap Γ false rc.yes) t
      let re ← tcS n C (pushMap Γ false rc.no) e
      let m ← mergeEnvs C.P C.decl Γ [rt.out, re.out]
      let j := rt.join re m.1
      pure { j with recs := rc.recs ++ j.recs, excs := Γ :: j.excs }
    | .while c b => do
      let p ← loopIter C.P C.decl (fun L => do
          let rc ← tcE n C L false true c
          req (rc.ty == [.bool] || isTruthVar c) (.unsupported 3)
          let rb ← tcS n C (pushMap L false rc.yes) b
          -- the body is `if c: b` (no else): the if statement's own merge, then the pass frame's, which
          -- `continue` jumps to as well
          let m1 ← mergeEnvs C.P C.decl L [rb.out, pushMap L false rc.no]
          let m2 ← mergeEnvs C.P C.decl L (some L :: m1.1 :: rb.conts.map some)
          match m2.1 with
          | none => .error (.stuck 5)
          | some L' => pure { next := L', changed := m2.2, exit := pushMap L' true rc.no, body := rb,
                              recs := rc.recs ++ rb.recs, head := L })
        4 Γ
      -- leaving the loop frame: the negated condition or a `break`
      let m ← mergeEnvs C.P C.decl Γ (p.exit :: p.body.brks.map some)
      pure { out := m.1, recs := p.recs, excs := p.head :: p.body.excs, rets := p.body.rets, snaps := p.body.snaps }
    | .seq a b => do
      let ra ← tcS n C (some Γ) a
      let rb ← tcS n C ra.out b
      pure (ra.join rb rb.out)
    | .tryS b kinds h els fin hasFin => do
      req (!kinds.isEmpty) (.unsupported 9)
      let rb ← tcS n C (some Γ) b
      -- the handler frame: update_from_options over the state at try entry and the state after every assignment
      -- of the body (nested statements included)
      let mh ← mergeEnvs C.P C.decl Γ (some Γ :: rb.snaps.map some)
      match mh.1 with
      | none => .error (.stuck 6)
      | some H => do
        -- whatever state an exception can really be raised in must be covered by it
        req (envsLe C.P C.decl rb.excs H) (.hole 5)
        let rh ← tcS n C (some H) h
        let re ← tcS n C rb.out els
        -- normal exits: the end of the else clause (or of the body), the end of the handler
        let mN ← mergeEnvs C.P C.decl Γ [re.out, rh.out]
        let j := (rb.join rh none).join re none
        if !hasFin then pure { j with out := mN.1 }
        else do
          -- the finally clause is checked twice.  First for every abnormal exit: try entry, unhandled exception,
          -- and the state after every assignment of body, handler and else clause …
          let mA ← mergeEnvs C.P C.decl Γ (some Γ :: some H :: j.snaps.map some)
          match mA.1 with
          | none => .error (.stuck 6)
          | some A => do
            req (envsLe C.P C.decl (j.excs ++ j.rets ++ j.brks ++ j.conts) A) (.hole 5)
            let fA ← tcS n C (some A) fin
            -- … a `break` / `continue` that passes through the clause keeps the state recorded at the jump:
            -- sound only if the clause leaves every such state as it found it
            req ((j.brks.isEmpty && j.conts.isEmpty) || !assignsLocals fin) (.hole 6)
            -- … then for the exits that fall through; only this pass determines the state afterwards
            let fN ← tcS n C mN.1 fin
            pure { out := fN.out, recs := j.recs ++ fA.recs ++ fN.recs,
                   brks := j.brks ++ fA.brks ++ fN.brks, conts := j.conts ++ fA.conts ++ fN.conts,
                   excs := optList fA.out ++ fA.excs ++ fN.excs, rets := optList fA.out ++ fA.rets ++ fN.rets,
                   snaps := j.snaps ++ fA.snaps ++ fN.snaps }

/-! ## Definitions -/

/-- locals whose truthiness a condition tests (`x`, `not x`, operands of and/or) -/
def truthVarsE : Expr → List Nat
  | .var x => [x]
  | .not e => truthVarsE e
  | .and a b => truthVarsE a ++ truthVarsE b
  | .or a b => truthVarsE a ++ truthVarsE b
  | _ => []

/-- (local, inside a loop?) for every truthiness test of a statement -/
def truthVarsS : Bool → Stmt → List (Nat × Bool)
  | l, .ite c t e => (truthVarsE c).map (·, l) ++ truthVarsS l t ++ truthVarsS l e
  | _, .while c b => (truthVarsE c).map (·, true) ++ truthVarsS true b
  | l, .seq a b => truthVarsS l a ++ truthVarsS l b
  | l, .tryS b _ h els fin _ =>
    -- a finally clause is checked twice: a test in it counts as repeated
    truthVarsS l b ++ truthVarsS l h ++ truthVarsS l els ++ truthVarsS true fin
  | _, _ => []

def nodupNat : List Nat → Bool
  | [] => true
  | x :: r => !r.contains x && nodupNat r

/-- mypy remembers the outcome of a truthiness test in `can_be_true` / `can_be_false` flags of the narrowed type,
    which the displayed type does not show and which decide the reachability of a *later* truthiness test of the
    same local.  The fragment therefore allows one truthiness test per local and function, outside loops. -/
def truthTestsOk (s : Stmt) : Bool :=
  let l := truthVarsS false s
  nodupNat (l.map (·.1)) && l.all fun p => !p.2

def tcFuel : Nat := 4096

/-- a function or method body: parameters typed as declared, falling off the end only in `-> None` -/
def selfTys : Option Nat → List Ty
  | some c => [[.cls c]]
  | none => []

def tcFunc (P : Prog) (self : Option Nat) (fd : FuncDef) : TC Recs := do
  let r ← tcS tcFuel { P := P, decl := selfTys self ++ fd.params ++ fd.locals, ret := fd.ret, self := self } (some []) fd.body
  req (truthTestsOk fd.body) (.unsupported 8)
  req (r.brks.isEmpty && r.conts.isEmpty) (.type 13)          -- 'break' / 'continue' outside loop
  match r.out with
  | none => pure r.recs
  | some _ => do req (fd.ret == [.none]) (.type 10); pure r.recs

/-- the body of `__init__` of class `c` -/
def tcInit (P : Prog) (c : Nat) (params : List Ty) : List (Nat × Expr) → TC Recs
  | [] => pure []
  | (f, e) :: r => do
    let re ← tcE tcFuel { P := P, decl := params, ret := [.none] } [] false false e
    match lookupAttr P c f with
    | none => .error (.unsupported 6)
    | some T => do
      req (subTy P re.ty T) (.type 8)
      let rest ← tcInit P c params r
      pure (re.recs ++ rest)

/-- `check_method_override` (positional parameters: same count, contravariant; covariant return) -/
def overrideOk (P : Prog) (sub sup : FuncDef) : Bool :=
  argsFit P sup.params sub.params && subTy P sub.ret sup.ret

/-- the definitions of method `m` in the classes of a list, in order -/
def definers (P : Prog) (m : Nat) : List Nat → List (Nat × FuncDef)
  | [] => []
  | k :: ks =>
    match ownMeth P k m with
    | some fd => (k, fd) :: definers P m ks
    | none => definers P m ks

def declarers (P : Prog) (f : Nat) : List Nat → List (Nat × Ty)
  | [] => []
  | k :: ks =>
    match ownAttr P k f with
    | some T => (k, T) :: declarers P f ks
    | none => declarers P f ks

/-- `check_method_override`: a method is checked against its definition in *every* class of `mro[1:]` -/
def overrideCheck (P : Prog) (tail : List Nat) (m : Nat) (fd : FuncDef) : Bool :=
  (definers P m tail).all fun p => overrideOk P fd p.2

def tcMethods (P : Prog) (c : Nat) (tail : List Nat) : List (Nat × FuncDef) → TC Recs
  | [] => pure []
  | (m, fd) :: r => do
    let rs ← tcFunc P (some c) fd
    req (overrideCheck P tail m fd) (.type 11)
    let rest ← tcMethods P c tail r
    pure (rs ++ rest)

/-- attribute redeclaration in a subclass: mypy accepts any *subtype* of each inherited declaration -/
def tcAttrs (P : Prog) (tail : List Nat) : List (Nat × Ty) → TC Unit
  | [] => pure ()
  | (f, T) :: r => do
    req ((declarers P f tail).all fun p => subTy P T p.2) (.type 12)
    tcAttrs P tail r

/-- `check_multiple_inheritance` / `check_compatibility` for a method name the class does not define itself:
    the first base defining it (the definition that is used) against every later base defining it that is
    not among the first one's ancestors -/
def miMethOk (P : Prog) (own : List (Nat × FuncDef)) (tail : List Nat) (m : Nat) : Bool :=
  (lookup m own).isSome ||
  match definers P m tail with
  | [] => true
  | (k, fd) :: rest => rest.all fun p => isSub P k p.1 || overrideOk P fd p.2

/-- the same for (writable) attributes: the two declarations must be equivalent -/
def miAttrOk (P : Prog) (own : List (Nat × Ty)) (tail : List Nat) (f : Nat) : Bool :=
  (lookup f own).isSome ||
  match declarers P f tail with
  | [] => true
  | (k, T) :: rest => rest.all fun p => isSub P k p.1 || sameTy P T p.2

def methNames (P : Prog) (ks : List Nat) : List Nat :=
  (ks.map fun k => match P.classes[k]? with
    | some kd => kd.methods.map (·.1)
    | none => []).flatten

def attrNames (P : Prog) (ks : List Nat) : List Nat :=
  (ks.map fun k => match P.classes[k]? with
    | some kd => kd.attrs.map (·.1)
    | none => []).flatten

/-- a `__bool__` method takes no argument and returns bool.  mypy does not check this (F-C01-8): it accepts
    `def __bool__(self) -> int` and `def __bool__(self, x: int) -> bool`, and a truth test of such an instance
    raises TypeError — `hole 7` -/
def boolSigOk (ms : List (Nat × FuncDef)) : Bool :=
  ms.all fun p => p.1 != boolMeth || (p.2.params.isEmpty && p.2.ret == [.bool])

def tcClass (P : Prog) (c : Nat) (cd : ClassDef) : TC Recs := do
  req (boolSigOk cd.methods) (.hole 7)
  let tail := cd.mro.drop 1
  tcAttrs P tail cd.attrs
  req ((methNames P tail).all (miMethOk P cd.methods tail)) (.type 14)
  req ((attrNames P tail).all (miAttrOk P cd.attrs tail)) (.type 14)
  let r1 ← tcInit P c cd.init.params cd.init.assigns
  let r2 ← tcMethods P c tail cd.methods
  pure (r1 ++ r2)

def tcClasses (P : Prog) : Nat → List ClassDef → TC Recs
  | _, [] => pure []
  | c, cd :: r => do
    let a ← tcClass P c cd
    let rest ← tcClasses P (c + 1) r
    pure (a ++ rest)

def tcFuncs (P : Prog) : List FuncDef → TC Recs
  | [] => pure []
  | fd :: r => do
    let a ← tcFunc P none fd
    let rest ← tcFuncs P r
    pure (a ++ rest)

/-- the checker: `ok tm` = mypy reports nothing; `tm` = the type of every probe argument -/
def tc (P : Prog) : TC Recs := do
  let a ← tcClasses P 0 P.classes
  let b ← tcFuncs P P.funcs
  pure (a ++ b)

/-! ## Well-formedness: the program shapes excluded because of F18 / F19 (DESIGN §3) -/

/-- the recorded `__mro__` starts with the class, mentions existing classes only, and contains the `__mro__` of
    each of its members (what C3 linearisation guarantees; `soundness` needs nothing else about it) -/
def mroCoherent (P : Prog) (c : Nat) (cd : ClassDef) : Bool :=
  cd.mro.head? == some c &&
  cd.mro.all fun d => (P.classes[d]?).isSome && (mroOf P d).all fun e => cd.mro.contains e

/-- F18: every declaration of an attribute along the MRO has the type the class sees for it -/
def attrsInvariant (P : Prog) (c : Nat) (cd : ClassDef) : Bool :=
  cd.mro.all fun k =>
    match P.classes[k]? with
    | some kd => kd.attrs.all fun p => lookupAttr P c p.1 == some p.2
    | none => true

def allAttrNames (P : Prog) (cd : ClassDef) : List Nat := attrNames P cd.mro

/-- F19: every attribute declared for the class (own or inherited) is assigned by its `__init__` -/
def initComplete (P : Prog) (cd : ClassDef) : Bool :=
  (allAttrNames P cd).all fun f => cd.init.assigns.any fun p => p.1 == f

def wfClasses (P : Prog) : Nat → List ClassDef → Bool
  | _, [] => true
  | c, cd :: r => mroCoherent P c cd && attrsInvariant P c cd && initComplete P cd && wfClasses P (c + 1) r

def WF (P : Prog) : Prop := wfClasses P 0 P.classes = true

instance (P : Prog) : Decidable (WF P) := by unfold WF; infer_instance

end Lang
