/-!
# Model of mypy's configuration resolution (property C17)

Transcribes, as small total functions over `List Char` strings and component lists:

* §1  dotted names / section patterns (`foo.bar`, `foo.*`, `foo.*.bar`, `*.bar`) and their string form;
* §2  `Options.compile_glob` — the regular expression it builds, a matcher for that fragment of `re`
      (`.*`, `(\..*)?`, escaped literals, `\Z`), and the component-wise matcher of the documentation
      ("stars match zero or more module components");
* §3  `Options.apply_changes` (plain overwrite; the accumulate/override rule for the error-code sets);
* §4  `Options.build_per_module_cache` / `clone_for_module` (sorted structured wildcards, then concrete
      sections; nearest structured ancestor; unstructured globs in file order), how `parse_config_file`
      fills the section table from ini sections / toml override tables (`iniSections`, `tomlSections`), and
      the declarative *documented precedence* (`specResolve`);
* §5  `config_parser.parse_section` key resolution (`no_`, `allow`/`disallow`, `show_`→`hide_`, the
      deprecated alias, reports, `x_`, invalid aliases, boolean parsing) and `main.invert_flag_name`;
* §6  `config_parser.parse_mypy_comments` merging of several inline comments, and the whole chain
      defaults → config-file `[mypy]` → command line → per-module sections → inline comments.

Everything is executable (the driver `Driver/C17.lean` runs it against the real code on every check).
No imports: core Lean only.
-/
namespace Config

abbrev Str := List Char

/-! ## §1 names and patterns -/

/-- one dot-separated component of a section pattern -/
inductive Part where
  | lit (c : Str)
  | star
  deriving DecidableEq, Repr

abbrev Pat := List Part

def Part.isStar : Part → Bool
  | .star => true
  | .lit _ => false

def Part.str : Part → Str
  | .lit c => c
  | .star => ['*']

/-- `".".join(parts)` -/
def joinDots : List Str → Str
  | [] => []
  | [a] => a
  | a :: b :: r => a ++ '.' :: joinDots (b :: r)

/-- the section name as written in the file -/
def Pat.str (p : Pat) : Str := joinDots (p.map Part.str)

/-- a module name as a pattern without stars -/
def modPat (m : List Str) : Pat := m.map Part.lit

/-- `"*" in k[:-1]` (options.py, build_per_module_cache): a star anywhere but in the last component -/
def Pat.unstructured (p : Pat) : Bool := p.dropLast.any Part.isStar

/-- `k.endswith(".*")` -/
def Pat.endsDotStar (p : Pat) : Bool := decide (2 ≤ p.length) && p.getLast? == some Part.star

/-- Python's `str` order (by code point), on `List Char` -/
def strLe : Str → Str → Bool
  | [], _ => true
  | _ :: _, [] => false
  | a :: s, b :: t => if a.toNat < b.toNat then true else if b.toNat < a.toNat then false else strLe s t

def insertSorted (le : α → α → Bool) (x : α) : List α → List α
  | [] => [x]
  | y :: ys => if le x y then x :: y :: ys else y :: insertSorted le x ys

/-- `sorted(...)` (insertion sort: structurally recursive, so `decide` can run it) -/
def isort (le : α → α → Bool) : List α → List α
  | [] => []
  | x :: xs => insertSorted le x (isort le xs)

def sortPats (ps : List Pat) : List Pat := isort (fun a b => strLe a.str b.str) ps

/-! ## §2 `compile_glob` -/

/-- the fragment of `re` syntax `compile_glob` emits -/
inductive RItem where
  | chr (c : Char)    -- an escaped literal character
  | anyStar           -- `.*`
  | optDotAny         -- `(\..*)?`
  deriving DecidableEq, Repr

/-- a regex is a sequence of items followed by `\Z`; it is applied with `re.match` (anchored at 0) -/
abbrev Regex := List RItem

def lits (s : Str) : Regex := s.map RItem.chr

/-- `for part in parts[1:]: expr += re.escape("." + part) if part != "*" else r"(\..*)?"` -/
def compileTail : List Part → Regex
  | [] => []
  | .star :: ps => .optDotAny :: compileTail ps
  | .lit c :: ps => .chr '.' :: (lits c ++ compileTail ps)

/-- `Options.compile_glob` -/
def compileGlob : Pat → Regex
  | [] => []
  | .star :: ps => .anyStar :: compileTail ps
  | .lit c :: ps => lits c ++ compileTail ps

/-- ∃ split `s = pre ++ rest` with `pre` free of newlines (what `.*` may consume) and `f rest` -/
def splitAny (f : Str → Bool) : Str → Bool
  | [] => f []
  | c :: s => f (c :: s) || (c != '\n' && splitAny f s)

/-- does `re.compile(r + "\\Z").match(s)` succeed? -/
def rmatch : Regex → Str → Bool
  | [], s => s.isEmpty
  | .chr c :: r, s =>
    match s with
    | [] => false
    | d :: s' => d == c && rmatch r s'
  | .anyStar :: r, s => splitAny (rmatch r) s
  | .optDotAny :: r, s =>
    rmatch r s ||
      (match s with
       | [] => false
       | d :: s' => d == '.' && splitAny (rmatch r) s')

/-- `pattern.match(module)` for the pattern `compile_glob(glob)` -/
def globMatches (glob : Pat) (module : Pat) : Bool := rmatch (compileGlob glob) module.str

/-- ∃ suffix (drop zero or more leading components) -/
def anySuffix (f : List Str → Bool) : List Str → Bool
  | [] => f []
  | d :: m => f (d :: m) || anySuffix f m

/-- the documented reading of the parts after the first: a literal matches one component, a star
    matches zero or more components -/
def matchTail : List Part → List Str → Bool
  | [], m => m.isEmpty
  | .lit c :: ps, m =>
    match m with
    | [] => false
    | d :: m' => d == c && matchTail ps m'
  | .star :: ps, m => anySuffix (matchTail ps) m

/-- component-wise matcher: a leading star stands for one or more components -/
def compMatch : Pat → List Str → Bool
  | [], m => m.isEmpty
  | _ :: _, [] => false
  | .lit c :: ps, d :: m => d == c && matchTail ps m
  | .star :: ps, _ :: m => anySuffix (matchTail ps) m

/-- the text of the regex (`Pattern.pattern`), for identifier components (`re.escape` is the identity on
    letters, digits and `_`; a dot is escaped) -/
def RItem.text : RItem → Str
  | .chr c => if c == '.' then ['\\', '.'] else [c]
  | .anyStar => ['.', '*']
  | .optDotAny => "(\\..*)?".toList

def Regex.text (r : Regex) : Str := (r.map RItem.text).flatten ++ ['\\', 'Z']

/-! ## §3 option values and `apply_changes` -/

inductive Val where
  | none
  | bool (b : Bool)
  | str (s : Str)
  | list (l : List Str)
  deriving DecidableEq, Repr

/-- Python truthiness -/
def Val.truthy : Val → Bool
  | .none => false
  | .bool b => b
  | .str s => !s.isEmpty
  | .list l => !l.isEmpty

def Val.asList : Val → List Str
  | .list l => l
  | _ => []

/-- a dict of option values (one config section, one set of inline comments, …); `lookup` takes the
    first binding, the keys are unique in everything the real code builds -/
abbrev Changes := List (Str × Val)

def kDisable : Str := "disable_error_code".toList
def kEnable : Str := "enable_error_code".toList
def kImi : Str := "ignore_missing_imports".toList

/-- an `Options` object, as far as configuration resolution is concerned -/
structure Opts where
  /-- ordinary attributes, incl. the lists `disable_error_code` / `enable_error_code` -/
  get : Str → Val
  /-- `disabled_error_codes` / `enabled_error_codes` (sets of error codes, by name) -/
  disabled : Str → Bool
  enabled : Str → Bool
  /-- `ignore_missing_imports_per_module` -/
  imiPerModule : Bool

/-- `Options.apply_changes` -/
def Opts.applyChanges (o : Opts) (ch : Changes) : Opts :=
  let get' : Str → Val := fun k => match ch.lookup k with | some v => v | none => o.get k
  let dl := (get' kDisable).asList
  let el := (get' kEnable).asList
  { get := get'
    -- for code in disable_error_code: disabled.add(code); enabled.discard(code)
    -- for code in enable_error_code:  enabled.add(code);  disabled.discard(code)
    disabled := fun c => (o.disabled c || dl.contains c) && !el.contains c
    enabled := fun c => (o.enabled c && !dl.contains c) || el.contains c
    imiPerModule := o.imiPerModule || (match ch.lookup kImi with | some v => v.truthy | none => false) }

def applyAll (g : Opts) (chain : List Changes) : Opts := chain.foldl Opts.applyChanges g

/-! ## §4 per-module resolution -/

/-- `per_module_options`: pattern ↦ changes, in dict (= file) order -/
abbrev Sections := List (Pat × Changes)

def changesOf (secs : Sections) (k : Pat) : Changes := (secs.lookup k).getD []

/-- `_per_module_cache` -/
abbrev Cache := List (Pat × Opts)

/-- the loop `for i in range(len(path), 0, -1): key = ".".join(path[:i] + ["*"]); if key in cache: …` -/
def nearest (cache : Cache) (path : Pat) : Nat → Option Opts
  | 0 => none
  | i + 1 =>
    match cache.lookup (path.take (i + 1) ++ [Part.star]) with
    | some o => some o
    | none => nearest cache path i

/-- keys of `_glob_options`, in file order -/
def unstructuredKeys (secs : Sections) : List Pat := (secs.map Prod.fst).filter Pat.unstructured

/-- `for key, pattern in self._glob_options: if pattern.match(module): options = options.apply_changes(…)` -/
def applyGlobs (secs : Sections) (m : Pat) (o : Opts) : Opts :=
  (unstructuredKeys secs).foldl
    (fun o k => if globMatches k m then o.applyChanges (changesOf secs k) else o) o

/-- the body of `clone_for_module` once the cache exists (also used while the cache is being built) -/
def cloneWith (g : Opts) (secs : Sections) (cache : Cache) (m : Pat) : Opts :=
  match cache.lookup m with
  | some o => o
  | none =>
    let base := (nearest cache m m.length).getD g
    if m.endsDotStar then base else applyGlobs secs m base

def structuredKeys (secs : Sections) : List Pat := (secs.map Prod.fst).filter (fun k => !k.unstructured)
def wildcardKeys (secs : Sections) : List Pat := sortPats ((structuredKeys secs).filter Pat.endsDotStar)
def concreteKeys (secs : Sections) : List Pat := (structuredKeys secs).filter (fun k => !k.endsDotStar)

def cacheStep (g : Opts) (secs : Sections) (cache : Cache) (k : Pat) : Cache :=
  cache ++ [(k, (cloneWith g secs cache k).applyChanges (changesOf secs k))]

/-- `build_per_module_cache`: `for key in wildcards + concrete: cache[key] = clone(key).apply_changes(…)` -/
def buildCache (g : Opts) (secs : Sections) : Cache :=
  (wildcardKeys secs ++ concreteKeys secs).foldl (cacheStep g secs) []

/-- `Options.clone_for_module` -/
def cloneForModule (g : Opts) (secs : Sections) (m : Pat) : Opts :=
  cloneWith g secs (buildCache g secs) m

/-! ### how `parse_config_file` fills `per_module_options` -/

/-- `dict.update`: keys of `new` override, new keys are added -/
def dictUpdate (old new : Changes) : Changes :=
  old.filter (fun kv => (new.lookup kv.1).isNone) ++ new


/-- a config-file section `[mypy-p1,p2,…]` (or one `[[tool.mypy.overrides]]` table with `module = [p1, p2, …]`)
    with its parsed body -/
abbrev FileSection := List Pat × Changes

/-- `d[k] = v` on an insertion-ordered dict: an existing key keeps its position and gets the new value -/
def dictAssign (d : Sections) (k : Pat) (v : Changes) : Sections :=
  if (d.lookup k).isSome then d.map (fun kv => if kv.1 == k then (k, v) else kv) else d ++ [(k, v)]

/-- `parse_config_file` on an ini file: `for glob in globs.split(","): options.per_module_options[glob] = updates` -/
def iniSections (fs : List FileSection) : Sections :=
  fs.foldl (fun d s => s.1.foldl (fun d g => dictAssign d g s.2) d) []

/-- `destructure_overrides` + `parse_config_file` on pyproject.toml: the tables of one module are merged key by
    key (later tables override; the real code raises on conflicting values) -/
def dictMerge (d : Sections) (k : Pat) (v : Changes) : Sections :=
  match d.lookup k with
  | some old => d.map (fun kv => if kv.1 == k then (k, dictUpdate old v) else kv)
  | none => d ++ [(k, v)]

def tomlSections (fs : List FileSection) : Sections :=
  fs.foldl (fun d s => s.1.foldl (fun d g => dictMerge d g s.2) d) []

/-- the documented meaning: a section applies to each of its patterns -/
def flatSections (fs : List FileSection) : Sections := fs.flatMap (fun s => s.1.map (fun g => (g, s.2)))

/-! ### the documented precedence (docs/source/config_file.rst, "config-precedence") -/

/-- `foo.*`, `foo.bar.*`, … for the module `foo.bar.…`, most general first -/
def ancestors (m : Pat) : List Pat :=
  (List.range m.length).map (fun i => m.take (i + 1) ++ [Part.star])

/-- well-structured wildcard sections that cover `m`, most general first -/
def structChain (secs : Sections) (m : Pat) : List Changes := (ancestors m).filterMap (fun k => secs.lookup k)

/-- unstructured wildcard sections that match `m`, in file order -/
def unstructChain (secs : Sections) (m : List Str) : List Changes :=
  (secs.filter (fun s => s.1.unstructured && compMatch s.1 m)).map Prod.snd

/-- the section named exactly like the module -/
def concreteChain (secs : Sections) (m : Pat) : List Changes := (secs.lookup m).toList

/-- lowest precedence first: structured wildcards by specificity, then unstructured wildcards in file
    order, then the concrete section; each applied over the previous ones, all over the global options -/
def precedenceChain (secs : Sections) (m : List Str) : List Changes :=
  structChain secs (modPat m) ++ unstructChain secs m ++ concreteChain secs (modPat m)

def specResolve (g : Opts) (secs : Sections) (m : List Str) : Opts :=
  applyAll g (precedenceChain secs m)

/-- "first defined among …": the value of an ordinary option, reading the chain from the highest
    precedence down -/
def firstDefined (k : Str) : List Changes → Option Val
  | [] => none
  | ch :: rest => match ch.lookup k with | some v => some v | none => firstDefined k rest

/-! ## §5 `parse_section` key resolution and `invert_flag_name` -/

/-- the type of a template attribute's (non-`None`) default, as far as `parse_section` distinguishes -/
inductive Ty | bool | int | str | list | other
  deriving DecidableEq, Repr

/-- what `parse_section` consults: the template `Options()` object and the converter table -/
structure Template where
  /-- `none`: no such attribute; `some none`: the attribute exists with value `None` (or is not a plain
      value); `some (some t)`: default of type `t` -/
  attr : Str → Option (Option Ty)
  /-- `config_types`: key ↦ "the converter is `bool`" -/
  configTypes : List (Str × Bool)
  reporters : List Str

def Template.hasattr (T : Template) (k : Str) : Bool := (T.attr k).isSome
/-- `getattr(template, k, None)` reduced to the type of a non-None result -/
def Template.dv (T : Template) (k : Str) : Option Ty := (T.attr k).join

inductive KeyRes where
  /-- `results[optKey] = v`; `isBool`: the value is read with `getboolean` (and inverted if `invert`) -/
  | sets (optKey : Str) (isBool : Bool) (invert : Bool)
  /-- `strict`: calls `set_strict_flags()` when true; nothing stored -/
  | strict
  | report (kind : Str)
  /-- silently skipped (`x_…`) -/
  | ignored
  /-- an error is printed, nothing stored -/
  | rejected
  deriving DecidableEq, Repr

def pfx (p : String) (s : Str) : Bool := p.toList.isPrefixOf s
def sfx (p : String) (s : Str) : Bool := p.toList.isSuffixOf s

def kStrict : Str := "strict".toList
def invalidOptions : List Str := ["enabled_error_codes".toList, "disabled_error_codes".toList]

/-- `key[:-7].replace("_", "-")` -/
def reportKind (key : Str) : Str := (key.take (key.length - 7)).map (fun c => if c == '_' then '-' else c)

/-- the key-resolution part of `parse_section` (everything before the value is converted) -/
def resolveKey (T : Template) (key : Str) : KeyRes :=
  let optKey := if key == "allow_redefinition_new".toList then "allow_redefinition".toList else key
  match T.configTypes.lookup key with
  | some isBool => if key == kStrict then .strict else .sets optKey isBool false
  | none =>
    if invalidOptions.contains key then .rejected
    else
      match T.dv optKey with
      | some t =>
        -- ct = type(dv); bool → getboolean, any other type is called on the string
        .sets optKey (t == .bool) false
      | none =>
        if sfx "_report" key then
          (if T.reporters.contains (reportKind key) then .report (reportKind key) else .rejected)
        else if pfx "x_" key then .ignored
        else
          let inv : Option Str :=
            if pfx "no_" key && T.hasattr (optKey.drop 3) then some (optKey.drop 3)
            else if pfx "allow" key && T.hasattr ("dis".toList ++ optKey) then some ("dis".toList ++ optKey)
            else if pfx "disallow" key && T.hasattr (optKey.drop 3) then some (optKey.drop 3)
            else if pfx "show_" key && T.hasattr ("hide_".toList ++ optKey.drop 5) then
              some ("hide_".toList ++ optKey.drop 5)
            else none
          match inv with
          | none => if key == kStrict then .ignored else .rejected   -- `elif key == "strict": pass`
          | some k' =>
            match T.dv k' with
            | some .bool => .sets k' true true
            | some _ => .rejected    -- "Can not invert non-boolean key"
            | none => .rejected      -- "Don't know what type … should have"

def lower (s : Str) : Str := s.map Char.toLower

/-- `configparser.RawConfigParser.BOOLEAN_STATES` (`getboolean` raises `ValueError` otherwise) -/
def parseBool (v : Str) : Option Bool :=
  let l := lower v
  if ["1".toList, "yes".toList, "true".toList, "on".toList].contains l then some true
  else if ["0".toList, "no".toList, "false".toList, "off".toList].contains l then some false
  else none

/-- outcome of one boolean `key = value` line: the attribute that is set and its value -/
def resolveBool (T : Template) (key value : Str) : Option (Str × Bool) :=
  match resolveKey T key with
  | .sets k true inv => (parseBool value).map (fun b => (k, if inv then !b else b))
  | _ => none

/-- `flag.split("-", 1)` on the text after `--` -/
def splitDash : Str → Str × Option Str
  | [] => ([], none)
  | c :: s => if c == '-' then ([], some s) else
    match splitDash s with
    | (a, r) => (c :: a, r)

/-- `mypy.main.invert_flag_name` (flag text including the leading `--`) -/
def invertFlagName (pairs : List (Str × Str)) (flag : Str) : Str :=
  let body := flag.drop 2
  let dflt := "--no-".toList ++ body
  match splitDash body with
  | (_, none) => dflt
  | (prefix_, some rest) =>
    -- flag_prefix_map: both directions of every pair
    match (pairs ++ pairs.map (fun p => (p.2, p.1))).lookup prefix_ with
    | some other => "--".toList ++ other ++ ['-'] ++ rest
    | none => if prefix_ == "no".toList then "--".toList ++ rest else dflt

/-- `--foo-bar` ↦ `foo_bar`: the config-file spelling of a command-line flag -/
def iniSpelling (flag : Str) : Str := (flag.drop 2).map (fun c => if c == '-' then '_' else c)

/-! ## §5b value conversion of multi-entry path options -/

/-- `re.split("[,:]", s)` / `s.split(",")`: cut at every separator character (empty pieces are kept) -/
def splitOnAny (seps : List Char) : Str → List Str
  | [] => [[]]
  | c :: s =>
    if seps.contains c then [] :: splitOnAny seps s
    else match splitOnAny seps s with
      | [] => [[c]]
      | p :: ps => (c :: p) :: ps

def isWs (c : Char) : Bool := c == ' ' || c == '\n' || c == '\t' || c == '\r'
/-- `str.strip()` -/
def strip (s : Str) : Str := ((s.dropWhile isWs).reverse.dropWhile isWs).reverse

/-- `os.path.expanduser` as far as config values use it: `~` alone or `~/…` at the very beginning of the text -/
def expandUser (home : Str) : Str → Str
  | ['~'] => home
  | '~' :: '/' :: r => home ++ '/' :: r
  | e => e

/-- the converter of a multi-entry path option (`mypy_path`): split first, then strip and expand every entry
    on its own — `[expand_path(p.strip()) for p in re.split("[,:]", s)]` -/
def convPathList (expand : Str → Str) (seps : List Char) (s : Str) : List Str :=
  (splitOnAny seps s).map (fun e => expand (strip e))

/-- `sep.join(entries)` -/
def joinWith (sep : Char) : List Str → Str
  | [] => []
  | [a] => a
  | a :: b :: r => a ++ sep :: joinWith sep (b :: r)

/-! ## §6 inline comments and the whole chain -/

def dedupSorted : List Str → List Str
  | [] => []
  | [a] => [a]
  | a :: b :: r => if a == b then dedupSorted (b :: r) else a :: dedupSorted (b :: r)

/-- `sorted(set(xs))` -/
def sortedSet (xs : List Str) : List Str := dedupSorted (isort strLe xs)

/-- `new_sections[k] = sorted(set(new_sections[k] + sections.get(k, [])))` when both are lists -/
def mergeListKey (sections : Changes) (k : Str) (n : Changes) : Changes :=
  match n.lookup k with
  | some (.list l) =>
    n.map (fun kv => if kv.1 == k then
      (k, Val.list (sortedSet (l ++ ((sections.lookup k).getD (.list [])).asList))) else kv)
  | _ => n

/-- one round of the loop in `parse_mypy_comments`: `new` is what `parse_section` returned for one comment
    line (it always carries both error-code lists) -/
def mergeInlineStep (sections new : Changes) : Changes :=
  dictUpdate sections (mergeListKey sections kDisable (mergeListKey sections kEnable new))

/-- `parse_mypy_comments` over the already parsed comment lines, first line first -/
def mergeInline (lines : List Changes) : Changes :=
  lines.foldl mergeInlineStep [(kEnable, .list []), (kDisable, .list [])]

/-- one command-line argument as argparse applies it to the `Options` object -/
inductive CliArg where
  | store (k : Str) (v : Val)        -- store / store_true / store_false: overwrite
  | append (k : Str) (item : Str)    -- append: extend the list already on the object (config file's!)

def setKey (get : Str → Val) (k : Str) (v : Val) : Str → Val := fun x => if x == k then v else get x

def applyCli (get : Str → Val) : List CliArg → (Str → Val)
  | [] => get
  | .store k v :: rest => applyCli (setKey get k v) rest
  | .append k item :: rest => applyCli (setKey get k (.list ((get k).asList ++ [item]))) rest

/-- `parse_config_file`: `for k, v in updates.items(): setattr(options, k, v)` for the `[mypy]` section -/
def setAll (get : Str → Val) (ch : Changes) : Str → Val :=
  fun k => match ch.lookup k with | some v => v | none => get k

/-- `Options.process_error_codes` (build.py, once, on the global options): both lists are added to the
    sets, then "enabling an error code always overrides disabling" -/
def Opts.processErrorCodes (o : Opts) : Opts :=
  let dl := (o.get kDisable).asList
  let el := (o.get kEnable).asList
  { o with
    enabled := fun c => o.enabled c || el.contains c
    disabled := fun c => (o.disabled c || dl.contains c) && !(o.enabled c || el.contains c) }

/-- `process_options` + `build`: config-file `[mypy]` values are set on the fresh `Options()`, then
    argparse writes the command-line values over them, then the error-code lists are processed -/
def globalOptions (defaults : Opts) (iniGlobal : Changes) (cli : List CliArg) : Opts :=
  Opts.processErrorCodes { defaults with get := applyCli (setAll defaults.get iniGlobal) cli }

/-- `strict` inside one source.  Config file: `parse_section` calls `set_strict_flags()` the moment it meets
    `strict = True` — the strict assignments land on the options object at once — while the other keys of
    the `[mypy]` section are collected in `results` and assigned only after the section has been read; so an
    explicit key for a strict flag wins whether it stands before or after `strict`.  Command line:
    `--strict` is noticed in the dummy parse and `set_strict_flags()` runs before the real argparse pass, so
    every explicit flag wins, again in either order — and `--strict` runs after the config file, so it
    overwrites the config file's explicit keys. -/
def globalOptionsStrict (defaults : Opts) (strictAssign : Changes) (iniStrict : Bool) (iniGlobal : Changes)
    (cliStrict : Bool) (cli : List CliArg) : Opts :=
  let g0 := if iniStrict then setAll defaults.get strictAssign else defaults.get
  let g1 := setAll g0 iniGlobal
  let g2 := if cliStrict then setAll g1 strictAssign else g1
  Opts.processErrorCodes { defaults with get := applyCli g2 cli }

/-- `strict = True` in a config file: `parse_section` calls `set_strict_flags()`, the closure that
    `process_options` built over the *global* `Options` object — whichever section the key stands in.
    `sectionHasStrict`: one entry per section of the file (`[mypy]` first), true when it says `strict = True`. -/
def strictApplied (g : Opts) (strictAssign : Changes) (sectionHasStrict : List Bool) : Opts :=
  if sectionHasStrict.any id then { g with get := setAll g.get strictAssign } else g

/-- the options a file is checked with: `State.__init__` takes `clone_for_module(id)`, then
    `apply_inline_configuration` applies the merged inline comments (if any) -/
def fileOptions (g : Opts) (secs : Sections) (m : List Str) (inline : List Changes) : Opts :=
  let o := cloneForModule g secs (modPat m)
  if inline.isEmpty then o else o.applyChanges (mergeInline inline)

end Config
