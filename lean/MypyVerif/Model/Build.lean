/-
Model of mypy's incremental build protocol (mypy/build.py), core Lean only, executable.

Unit of analysis = one import-cycle group (SCC); a singleton for acyclic imports.  `Mod` names a unit.
The type checker is a PARAMETER (`analyze`); the only assumptions on it are the ones mypy's design makes:
it is a function, its result depends on other units only through the interfaces of the units it reports
having read (`Local`), and on the options only through their semantic projection (`sem`).

Concrete protocol modelled (per unit, mirroring `find_cache_meta` / `validate_meta` / `State.is_fresh` /
`find_stale_sccs` / `process_stale_scc`):
  * source validation: options key equal, then (mtime, size) fast path, otherwise size equal and content
    hash equal                                                            (`validate_meta`)
  * dependency validation: every recorded dependency (direct ones from `meta.dep_hashes`, indirect ones
    from `meta_ex.dep_hashes`) still has the recorded interface *hash*     (`find_stale_sccs`)
  * a trusted record replays its stored interface and `error_lines`; otherwise the unit is re-analysed in
    the current environment and a new record is written                  (`process_stale_scc`)
-/
namespace Build

abbrev Mod := Nat
abbrev Src := Nat
abbrev Iface := Nat
abbrev Err := Nat
abbrev Sem := Nat          -- semantic projection of the options (everything the analysis may read)
abbrev Key := Nat          -- the cache validity key written into / compared with `meta.options`
abbrev Env := Mod → Option Iface

structure Res where
  iface : Iface
  errs : List Err
  reads : List Mod         -- units whose interface was consulted (direct ∪ indirect dependencies)
deriving Repr, DecidableEq

/-- what a run sees of one unit -/
structure File where
  src : Src
  mtime : Nat              -- int(st_mtime)
  size : Nat
deriving Repr, DecidableEq

structure Opts where
  sem : Sem
  key : Key
deriving Repr, DecidableEq

/-- a cache record: meta + meta_ex + data of one unit -/
structure Rec where
  mtime : Nat
  size : Nat
  hash : Nat                                -- hash of the source it was computed from
  key : Key                                 -- options snapshot
  reads : List (Mod × Option Nat)           -- dependency ↦ interface hash at that time (none = absent)
  iface : Iface                             -- the data file
  errs : List Err                           -- meta_ex.error_lines
deriving Repr, DecidableEq

abbrev Cache := Mod → Option Rec

structure World where
  opts : Opts
  order : List (Mod × File)                 -- processing order, dependencies first

/-- hashing: `H` for sources (`compute_hash`), `HI` for interfaces (`interface_hash`) -/
structure Hashes where
  H : Src → Nat
  HI : Iface → Nat

def Env.set (e : Env) (m : Mod) (i : Iface) : Env := fun x => if x = m then some i else e x
def Cache.set (c : Cache) (m : Mod) (r : Rec) : Cache := fun x => if x = m then some r else c x

section
variable (hs : Hashes) (analyze : Mod → Src → Sem → Env → Res)

def envHash (e : Env) (d : Mod) : Option Nat := (e d).map hs.HI

def mkRec (f : File) (o : Opts) (e : Env) (r : Res) : Rec :=
  { mtime := f.mtime, size := f.size, hash := hs.H f.src, key := o.key,
    reads := r.reads.map (fun d => (d, envHash hs e d)), iface := r.iface, errs := r.errs }

/-- `validate_meta`: stat fast path, otherwise same size and same content hash -/
def sourceOk (r : Rec) (f : File) : Bool :=
  (r.mtime == f.mtime && r.size == f.size) || (r.size == f.size && r.hash == hs.H f.src)

/-- the record is trusted in the current run -/
def fresh (r : Rec) (f : File) (o : Opts) (e : Env) : Bool :=
  r.key == o.key && sourceOk hs r f && r.reads.all (fun p => envHash hs e p.1 == p.2)

structure Out where
  env : Env
  msgs : List (Mod × List Err)              -- per unit, in processing order
  rechecked : List Mod                      -- units that were re-analysed (`manager.rechecked_modules`)

def coldStep (o : Opts) (st : Env × List (Mod × List Err)) (mf : Mod × File) : Env × List (Mod × List Err) :=
  let r := analyze mf.1 mf.2.src o.sem st.1
  (st.1.set mf.1 r.iface, st.2 ++ [(mf.1, r.errs)])

/-- a run with an empty cache -/
def cold (w : World) : Env × List (Mod × List Err) :=
  w.order.foldl (coldStep analyze w.opts) (fun _ => none, [])

structure WSt where
  env : Env
  msgs : List (Mod × List Err)
  rechecked : List Mod
  cache : Cache

def warmStep (o : Opts) (st : WSt) (mf : Mod × File) : WSt :=
  let reanalyse : WSt :=
    let res := analyze mf.1 mf.2.src o.sem st.env
    { env := st.env.set mf.1 res.iface, msgs := st.msgs ++ [(mf.1, res.errs)],
      rechecked := st.rechecked ++ [mf.1],
      cache := st.cache.set mf.1 (mkRec hs mf.2 o st.env res) }
  match st.cache mf.1 with
  | some r =>
    if fresh hs r mf.2 o st.env
    then { st with env := st.env.set mf.1 r.iface, msgs := st.msgs ++ [(mf.1, r.errs)] }
    else reanalyse
  | none => reanalyse

/-- a run that starts from cache `c` -/
def warm (c : Cache) (w : World) : WSt :=
  w.order.foldl (warmStep hs analyze w.opts) { env := fun _ => none, msgs := [], rechecked := [], cache := c }

/-- the cache left behind by a history of runs -/
def runHistory (c : Cache) : List World → Cache
  | [] => c
  | w :: ws => runHistory (warm hs analyze c w).cache ws

end
end Build
