/-
Model of the coordinator of a parallel build (mypy/build.py: process_graph, find_stale_sccs, submit_to_workers,
get_scc_batch, wait_for_done_workers) as a nondeterministic state machine over the SCC graph.

  * an SCC becomes *ready* when every SCC in `deps` has reported interface-done (not_ready_count = 0);
  * a ready SCC is either fresh (walked by the coordinator at once) or stale: queued, then sent in a
    batch to a free worker; the worker answers twice — interface-done (data + meta committed; the SCC's
    dependents may become ready) and implementation-done (the worker is free again).
Batching (`get_scc_batch`, `max_batch_size`) and the choice of the free worker are arbitrary here: any
non-empty batch of ready, not yet submitted SCCs may go to any free worker.  This over-approximates every
batching policy and every timing.

`F s env` is what processing SCC `s` yields (its interfaces and diagnostics, as one value) when the
interfaces visible for other SCCs are `env` — "replay the cache if fresh, analyse otherwise"; by C02 both
give the same value.  It is a parameter; the only assumption is that it looks at `env` on `deps s` only.
-/
namespace Sched

abbrev Val := Nat
abbrev Env := Nat → Option Val

structure Graph where
  size : Nat                      -- SCC ids are 0 … size-1
  deps : Nat → List Nat           -- SCC id ↦ ids of the SCCs it depends on

inductive Event
  | fresh (s : Nat)                       -- coordinator walks a fresh SCC
  | submit (batch : List Nat) (w : Nat)   -- SccRequestMessage to worker w
  | ifaceDone (w : Nat)                   -- interface response from worker w
  | implDone (w : Nat)                    -- implementation response from worker w
deriving Repr, DecidableEq

structure St where
  res : Env                       -- value of every SCC whose interface phase is complete
  started : List Nat              -- SCCs walked or submitted so far
  inflight : List (Nat × List (Nat × Val))   -- worker ↦ batch with the values being computed
  busy : List Nat                 -- workers between submit and implementation-done

def St.init : St := { res := fun _ => none, started := [], inflight := [], busy := [] }

def Env.set (e : Env) (s : Nat) (v : Val) : Env := fun x => if x = s then some v else e x

def setAll (e : Env) : List (Nat × Val) → Env
  | [] => e
  | (s, v) :: r => setAll (e.set s v) r

/-- an SCC may be processed: all its dependencies have a value, it has not been started -/
def ready (g : Graph) (st : St) (s : Nat) : Bool :=
  decide (s < g.size) && (g.deps s).all (fun d => (st.res d).isSome) && !(st.started.contains s)

variable (g : Graph) (F : Nat → Env → Val)

def step (st : St) : Event → Option St
  | .fresh s =>
    if ready g st s then
      some { st with res := st.res.set s (F s st.res), started := s :: st.started }
    else none
  | .submit batch w =>
    if !batch.isEmpty && batch.all (ready g st) && batch.Nodup && !(st.busy.contains w) then
      some { st with started := batch ++ st.started,
                     inflight := (w, batch.map (fun s => (s, F s st.res))) :: st.inflight,
                     busy := w :: st.busy }
    else none
  | .ifaceDone w =>
    match st.inflight.find? (fun p => p.1 == w) with
    | some (_, vals) =>
      some { st with res := setAll st.res vals, inflight := st.inflight.filter (fun p => p.1 != w) }
    | none => none
  | .implDone w =>
    if st.busy.contains w && !(st.inflight.any (fun p => p.1 == w)) then
      some { st with busy := st.busy.filter (· != w) }
    else none

/-- run a trace; `none` = some event was not enabled (the trace is not a behaviour of the model) -/
def run (st : St) : List Event → Option St
  | [] => some st
  | e :: es => match step g F st e with
    | some st' => run st' es
    | none => none

/-- index of the first event the model rejects -/
def firstRejected (st : St) : List Event → Nat → Option Nat
  | [], _ => none
  | e :: es, k => match step g F st e with
    | some st' => firstRejected st' es (k + 1)
    | none => some k

end Sched
