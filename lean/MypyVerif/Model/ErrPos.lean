/-
Model of the position normalisation at the top of `mypy/errors.py : Errors.report` — hand-written,
import-free, executable.  Shared by C13 (the sink) and C14 (reported positions are valid).

    if end_line is None or end_line < line:  end_line = line
    if column is None:                       column = -1
    if end_column is None:
        if column == -1:                     end_column = -1
        else:                                end_column = column + 1
    if line == end_line and end_column <= column:
        end_column = column + 1

`None` is `Option.none`; line numbers and columns are `Int` (-1 = unknown).
-/
namespace ErrPos

structure Pos where
  line : Int
  column : Int
  endLine : Int
  endColumn : Int
deriving Repr, DecidableEq

/-- `end_line` after the first `if` -/
def clampEndLine (line : Int) (endLine : Option Int) : Int :=
  match endLine with
  | none => line
  | some e => if e < line then line else e

/-- `column` after `if column is None` -/
def clampColumn (column : Option Int) : Int :=
  match column with
  | none => -1
  | some c => c

/-- `end_column` after `if end_column is None` -/
def defaultEndColumn (column : Int) (endColumn : Option Int) : Int :=
  match endColumn with
  | none => if column = -1 then -1 else column + 1
  | some e => e

/-- `end_column` after the last (defensive) `if` -/
def clampEndColumn (line endLine column endColumn : Int) : Int :=
  if line = endLine ∧ endColumn ≤ column then column + 1 else endColumn

/-- the four position fields `Errors.report` stores in the `ErrorInfo` -/
def clamp (line : Int) (column endLine endColumn : Option Int) : Pos :=
  let el := clampEndLine line endLine
  let c := clampColumn column
  let ec := defaultEndColumn c endColumn
  { line := line, column := c, endLine := el, endColumn := clampEndColumn line el c ec }

end ErrPos
