import MypyVerif.Gen.FoldCfg
/-
Model of constant folding — hand-written, executable; imports only the generated constants of
`Gen/FoldCfg.lean` (translate/c12fold.py: observed dispatch facts of the folder under check).

  mypy/constant_fold.py          constant_fold_binary_op      ↦ `foldBinOp`
                                 constant_fold_binary_int_op  ↦ `foldBinInt`
                                 constant_fold_unary_op       ↦ `foldUnary`
                                 constant_fold_expr           ↦ `foldExpr false`
  mypyc/irbuild/constant_fold.py constant_fold_binary_op_extended ↦ `foldBin true`
                                 constant_fold_expr               ↦ `foldExpr true`

and of what CPython does for the same operators on `int`/`bool`/`str`/`bytes` (`pyBin`, `pyUnary`,
`pyEval`), with Python's integer semantics defined on Lean's `Int`:
`//` = `Int.fdiv`, `%` = `Int.fmod`, `<<`/`>>` = multiplication / floor division by 2ⁿ, `& | ^ ~` on the
infinite two's-complement representation (`land`/`lor`/`lxor`/`bnot`, own definitions — core has none),
`**` = `Int.pow` for exponents ≥ 0.

Floats are not modelled as numbers: true division of ints yields the symbolic `Res.quot a b` (CPython's
correctly rounded quotient of exactly these two integers — an oracle), other float results are `Res.float` (
negative powers); float *operands* are outside the model (correspondence only).
-/
namespace Fold

/-! ## values -/

inductive Val where
  | int (i : Int)
  | bool (b : Bool)
  | str (s : List Nat)      -- code points
  | bytes (s : List Nat)
deriving Repr, DecidableEq

/-- result of an evaluation: a modelled value; `quot a b` = *the float that CPython's `int.__truediv__`
    yields for the integers `a / b`* (the correctly rounded — one rounding, half to even — quotient of the
    exact rational; an oracle, kept symbolic because Lean's `Float` cannot express it: the harness evaluates
    it with the running interpreter, `a / b`, and compares the real folder's float bit for bit on every
    generated pair); `float` = some other float (a negative power), never produced by a folder -/
inductive Res where
  | val (v : Val)
  | quot (a b : Int)
  | float
deriving Repr, DecidableEq

inductive Op where
  | add | sub | mul | truediv | floordiv | mod | band | bor | bxor | lshift | rshift | pow | matmul
deriving Repr, DecidableEq

inductive UOp where
  | neg | inv | pos
deriving Repr, DecidableEq

inductive Exc where
  | zeroDivision | valueError | typeError | overflowError
deriving Repr, DecidableEq

inductive PyRes where
  | ok (r : Res)
  | raises (e : Exc)
  | notModelled            -- `str % x` / `bytes % x` (printf-style formatting)
deriving Repr, DecidableEq

/-! ## Python's integer operations on `Int` -/

def b2i (b : Bool) : Int := if b then 1 else 0

/-- `isinstance(v, int)` (bool is a subclass of int) and the integer value -/
def Val.asInt : Val → Option Int
  | .int i => some i
  | .bool b => some (b2i b)
  | _ => none

def Val.isBytes : Val → Bool
  | .bytes _ => true
  | _ => false

/-- `~a` -/
def bnot (a : Int) : Int := -a - 1

/-- bit `i` of the infinite two's-complement representation -/
def testBit : Int → Nat → Bool
  | .ofNat m, i => m.testBit i
  | .negSucc m, i => !m.testBit i

/-- `m & ~n` on naturals -/
def natAndNot (m n : Nat) : Nat := m ^^^ (m &&& n)

def land : Int → Int → Int
  | .ofNat m, .ofNat n => .ofNat (m &&& n)
  | .ofNat m, .negSucc n => .ofNat (natAndNot m n)
  | .negSucc m, .ofNat n => .ofNat (natAndNot n m)
  | .negSucc m, .negSucc n => .negSucc (m ||| n)

def lor : Int → Int → Int
  | .ofNat m, .ofNat n => .ofNat (m ||| n)
  | .ofNat m, .negSucc n => .negSucc (natAndNot n m)
  | .negSucc m, .ofNat n => .negSucc (natAndNot m n)
  | .negSucc m, .negSucc n => .negSucc (m &&& n)

def lxor : Int → Int → Int
  | .ofNat m, .ofNat n => .ofNat (m ^^^ n)
  | .ofNat m, .negSucc n => .negSucc (m ^^^ n)
  | .negSucc m, .ofNat n => .negSucc (m ^^^ n)
  | .negSucc m, .negSucc n => .ofNat (m ^^^ n)

/-- `a << n` for `n ≥ 0` -/
def shl (a : Int) (n : Nat) : Int := a * (2 : Int) ^ n

/-- `a >> n` for `n ≥ 0` (arithmetic shift = floor division by 2ⁿ) -/
def shr (a : Int) (n : Nat) : Int := Int.fdiv a ((2 : Int) ^ n)

/-- `s * n` for a sequence: empty when `n ≤ 0` -/
def repeatSeq (s : List Nat) : Nat → List Nat
  | 0 => []
  | n + 1 => s ++ repeatSeq s n

def pyRepeat (s : List Nat) (n : Int) : List Nat := repeatSeq s n.toNat

/-- the repeat count of `seq * n` must fit a C `ssize_t` (64-bit), else `OverflowError` — also for
    negative counts -/
def inSsize (n : Int) : Bool := decide (-9223372036854775808 ≤ n ∧ n < 9223372036854775808)

/-- CPython: `seq * n` / `n * seq` -/
def seqMul (mk : List Nat → Val) (s : List Nat) (n : Int) : PyRes :=
  if inSsize n then .ok (.val (mk (pyRepeat s n))) else .raises .overflowError

/-- `a / b` on ints raises `OverflowError` ("integer division result too large for a float") exactly when
    the rounded quotient exceeds the largest double, i.e. |a/b| ≥ 2¹⁰²⁴ − 2⁹⁷⁰ (the midpoint above DBL_MAX
    rounds up to 2¹⁰²⁴); the constant is written out so that `decide` can evaluate small examples -/
def trueDivBound : Nat := 179769313486231580793728971405303415079934132710037826936173778980444968292764750946649017977587207096330286416692887910946555547851940402630657488671505820681908902000708383676273854845817711531764475730270069855571366959622842914819860834936475292719074168444365510704342711559699508093042880177904174497792

def divOverflows (a b : Int) : Bool := decide (a.natAbs ≥ trueDivBound * b.natAbs)

/-- `int.bit_length()` -/
def bitLength (a : Int) : Nat := if a = 0 then 0 else a.natAbs.log2 + 1

/-! ## the folders' size guards (commit f18fd55: "constant folding refuses to build huge values")

Each guard tests the *operands* before the operation is evaluated; which operator branches carry one, and
the two bounds, are read from the source by translate/c12fold.py (`Cfg.guard…`, `Cfg.maxFolded…`; all
`false` / 0 on a tree without the guards).  `true` = the folder goes on to evaluate. -/

/-- `constant_fold_binary_int_op`: `left.bit_length() + right.bit_length() > MAX_FOLDED_INT_BITS` for `*`,
    `left.bit_length() + right > …` for `<<`, `left.bit_length() * right > …` for `**` → `return None` -/
def intGuardOk (op : Op) (l r : Int) : Bool :=
  match op with
  | .mul => !Cfg.guardIntMul || decide (bitLength l + bitLength r ≤ Cfg.maxFoldedIntBits)
  | .lshift => !Cfg.guardIntShl || decide ((bitLength l : Int) + r ≤ (Cfg.maxFoldedIntBits : Int))
  | .pow => !Cfg.guardIntPow || decide ((bitLength l : Int) * r ≤ (Cfg.maxFoldedIntBits : Int))
  | _ => true

/-- `len(left) + len(right) > MAX_FOLDED_STR_LENGTH → None` -/
def catGuardOk (flag : Bool) (m n : Nat) : Bool := !flag || decide (m + n ≤ Cfg.maxFoldedStrLength)

/-- `len(seq) * count > MAX_FOLDED_STR_LENGTH → None` -/
def seqGuardOk (flag : Bool) (len : Nat) (n : Int) : Bool :=
  !flag || decide ((len : Int) * n ≤ (Cfg.maxFoldedStrLength : Int))

/-! ## CPython: `a op b` -/

/-- int ∘ int (operands already known to be `int` instances; `bb` = both are `bool`) -/
def pyBinInt (op : Op) (bb : Option (Bool × Bool)) (a b : Int) : PyRes :=
  match op with
  | .add => .ok (.val (.int (a + b)))
  | .sub => .ok (.val (.int (a - b)))
  | .mul => .ok (.val (.int (a * b)))
  | .truediv =>
    if b = 0 then .raises .zeroDivision else if divOverflows a b then .raises .overflowError else .ok (.quot a b)
  | .floordiv => if b = 0 then .raises .zeroDivision else .ok (.val (.int (Int.fdiv a b)))
  | .mod => if b = 0 then .raises .zeroDivision else .ok (.val (.int (Int.fmod a b)))
  | .band =>
    match bb with
    | some (x, y) => .ok (.val (.bool (x && y)))      -- bool.__and__ keeps bool
    | none => .ok (.val (.int (land a b)))
  | .bor =>
    match bb with
    | some (x, y) => .ok (.val (.bool (x || y)))
    | none => .ok (.val (.int (lor a b)))
  | .bxor =>
    match bb with
    | some (x, y) => .ok (.val (.bool (x != y)))
    | none => .ok (.val (.int (lxor a b)))
  | .lshift => if b < 0 then .raises .valueError else .ok (.val (.int (shl a b.toNat)))
  | .rshift => if b < 0 then .raises .valueError else .ok (.val (.int (shr a b.toNat)))
  | .pow =>
    if b < 0 then (if a = 0 then .raises .zeroDivision else .ok .float)
    else .ok (.val (.int (a ^ b.toNat)))
  | .matmul => .raises .typeError

def bothBool : Val → Val → Option (Bool × Bool)
  | .bool x, .bool y => some (x, y)
  | _, _ => none

def pyBin (op : Op) (a b : Val) : PyRes :=
  match a.asInt, b.asInt with
  | some x, some y => pyBinInt op (bothBool a b) x y
  | _, _ =>
    match a, b with
    | .str s, .str t =>
      match op with
      | .add => .ok (.val (.str (s ++ t)))
      | .mod => .notModelled
      | _ => .raises .typeError
    | .bytes s, .bytes t =>
      match op with
      | .add => .ok (.val (.bytes (s ++ t)))
      | .mod => .notModelled
      | _ => .raises .typeError
    | .str s, other =>
      match op, other.asInt with
      | .mul, some n => seqMul .str s n
      | .mod, _ => .notModelled
      | _, _ => .raises .typeError
    | .bytes s, other =>
      match op, other.asInt with
      | .mul, some n => seqMul .bytes s n
      | .mod, _ => .notModelled
      | _, _ => .raises .typeError
    | other, .str s =>
      match op, other.asInt with
      | .mul, some n => seqMul .str s n
      | _, _ => .raises .typeError
    | other, .bytes s =>
      match op, other.asInt with
      | .mul, some n => seqMul .bytes s n
      | _, _ => .raises .typeError
    | _, _ => .raises .typeError     -- unreachable: both int-like is handled above

def pyUnary (op : UOp) (a : Val) : PyRes :=
  match a.asInt with
  | some x =>
    match op with
    | .neg => .ok (.val (.int (-x)))
    | .inv => .ok (.val (.int (bnot x)))
    | .pos => .ok (.val (.int x))          -- `+True` is the int 1
  | none => .raises .typeError

/-- the count `n` when `a op b` is a sequence repetition -/
def repeatCount (op : Op) (a b : Val) : Option Int :=
  match op, a, b with
  | .mul, .str _, x => x.asInt
  | .mul, .bytes _, x => x.asInt
  | .mul, x, .str _ => x.asInt
  | .mul, x, .bytes _ => x.asInt
  | _, _, _ => none

/-! ## mypy / mypyc: the folders, guards exactly as written

`left * right` on a sequence raises `OverflowError` when the count does not fit `ssize_t`; since commit
8e803c7 `constant_fold_binary_op` / `constant_fold_binary_op_extended` catch it and return `None`
(`foldRepeat`; on an older tree the folder raises there — finding F26 — which the harness reports). -/

/-- `seq * count` inside a folder: size guard, then the operation under the `OverflowError` handler -/
def foldRepeat (flag : Bool) (mk : List Nat → Val) (s : List Nat) (n : Int) : Option Res :=
  if seqGuardOk flag s.length n && inSsize n then some (.val (mk (pyRepeat s n))) else none

/-- `constant_fold_binary_int_op(op, left, right)`; the Python operators it applies are the `py…`
    functions above (`bb`: both operands are `bool`, for which `& | ^` return `bool`). -/
def foldBinInt (op : Op) (bb : Option (Bool × Bool)) (l r : Int) : Option Res :=
  match op with
  | .add => some (.val (.int (l + r)))
  | .sub => some (.val (.int (l - r)))
  | .mul => if intGuardOk .mul l r then some (.val (.int (l * r))) else none
  | .truediv =>      -- `left / right` on the two ints; an OverflowError is caught by constant_fold_binary_op (8e803c7)
    if r ≠ 0 then (if divOverflows l r then none else some (.quot l r)) else none
  | .floordiv => if r ≠ 0 then some (.val (.int (Int.fdiv l r))) else none
  | .mod => if r ≠ 0 then some (.val (.int (Int.fmod l r))) else none
  | .band =>
    match bb with
    | some (x, y) => some (.val (.bool (x && y)))
    | none => some (.val (.int (land l r)))
  | .bor =>
    match bb with
    | some (x, y) => some (.val (.bool (x || y)))
    | none => some (.val (.int (lor l r)))
  | .bxor =>
    match bb with
    | some (x, y) => some (.val (.bool (x != y)))
    | none => some (.val (.int (lxor l r)))
  | .lshift => if r ≥ 0 then (if intGuardOk .lshift l r then some (.val (.int (shl l r.toNat))) else none) else none
  | .rshift => if r ≥ 0 then some (.val (.int (shr l r.toNat))) else none
  | .pow => if r ≥ 0 then (if intGuardOk .pow l r then some (.val (.int (l ^ r.toNat))) else none) else none
  | .matmul => none

/-- `constant_fold_binary_op(op, left, right)` without the float / complex branches -/
def foldBinOp (op : Op) (l r : Val) : Option Res :=
  match l.asInt, r.asInt with
  | some x, some y => foldBinInt op (bothBool l r) x y
  | _, _ =>
    match op, l, r with
    | .add, .str s, .str t =>
      if catGuardOk Cfg.guardStrAdd s.length t.length then some (.val (.str (s ++ t))) else none
    | .mul, .str s, other =>
      match other.asInt with
      | some n => foldRepeat Cfg.guardStrMulR .str s n
      | none => none
    | .mul, other, .str s =>
      match other.asInt with
      | some n => foldRepeat Cfg.guardStrMulL .str s n
      | none => none
    | _, _, _ => none

/-- `ext = true`: mypyc's `constant_fold_binary_op_extended`; `ext = false`: mypy's
    `constant_fold_binary_op` (whose `ConstantValue` has no bytes). -/
def foldBin (ext : Bool) (op : Op) (l r : Val) : Option Res :=
  if ext && (l.isBytes || r.isBytes) then
    match op, l, r with
    | .add, .bytes s, .bytes t =>
      if catGuardOk Cfg.guardBytesAdd s.length t.length then some (.val (.bytes (s ++ t))) else none
    | .mul, .bytes s, other =>
      match other.asInt with
      | some n => foldRepeat Cfg.guardBytesMulR .bytes s n
      | none => none
    | .mul, other, .bytes s =>
      match other.asInt with
      | some n => foldRepeat Cfg.guardBytesMulL .bytes s n
      | none => none
    | _, _, _ => none
  else foldBinOp op l r

/-- **the guard as a predicate on the operands** (decidable): no size test of the folder `ext` fires for
    `l op r`.  Above it the folder declines (`fold_declines_above_guard`), below it the folder is complete. -/
def belowGuard (ext : Bool) (op : Op) (l r : Val) : Bool :=
  match l.asInt, r.asInt with
  | some x, some y => intGuardOk op x y
  | _, _ =>
    match op, l, r with
    | .add, .str s, .str t => catGuardOk Cfg.guardStrAdd s.length t.length
    | .mul, .str s, other => (other.asInt.map (seqGuardOk Cfg.guardStrMulR s.length)).getD true
    | .mul, other, .str s => (other.asInt.map (seqGuardOk Cfg.guardStrMulL s.length)).getD true
    | .add, .bytes s, .bytes t => !ext || catGuardOk Cfg.guardBytesAdd s.length t.length
    | .mul, .bytes s, other => !ext || (other.asInt.map (seqGuardOk Cfg.guardBytesMulR s.length)).getD true
    | .mul, other, .bytes s => !ext || (other.asInt.map (seqGuardOk Cfg.guardBytesMulL s.length)).getD true
    | _, _, _ => true

/-- `constant_fold_unary_op(op, value)`.  The `+` branch was `return value` (the bool operand itself, F25:
    `Cfg.unaryPlusOnBoolKeepsBool = true`) and is `return +value` since the repair 7f2a944 (`false`). -/
def foldUnary (op : UOp) (v : Val) : Option Res :=
  match op, v with
  | .neg, .int i => some (.val (.int (-i)))
  | .neg, .bool b => some (.val (.int (-(b2i b))))
  | .inv, .int i => some (.val (.int (bnot i)))
  | .inv, .bool b => some (.val (.int (bnot (b2i b))))
  | .pos, .int i => some (.val (.int i))
  | .pos, .bool b => if Cfg.unaryPlusOnBoolKeepsBool then some (.val (.bool b)) else some (.val (.int (b2i b)))
  | _, _ => none

/-- mypyc's `constant_fold_expr` refuses unary operators on bytes before calling `foldUnary` -/
def foldUn (ext : Bool) (op : UOp) (v : Val) : Option Res :=
  if ext && v.isBytes then none else foldUnary op v

/-! ## expression trees (`constant_fold_expr`) -/

inductive Expr where
  | lit (v : Val)                       -- IntExpr / StrExpr / BytesExpr
  | boolName (b : Bool)                 -- NameExpr `True` / `False`
  | ref (sameModule : Bool) (v : Val)   -- NameExpr bound to a `Final` with that `final_value`
  | bin (op : Op) (l r : Expr)
  | un (op : UOp) (e : Expr)
deriving Repr

/-- Folding stops (result `none`) as soon as a float appears below the root: float arithmetic is
    outside the model.  A float at the root is reported as `Res.float`. -/
def foldExpr (ext : Bool) : Expr → Option Res
  | .lit v => if !ext && v.isBytes then none else some (.val v)   -- mypy has no BytesExpr case
  | .boolName b => if ext then none else some (.val (.bool b))    -- only mypy special-cases the names
  | .ref same v => if ext || same then some (.val v) else none    -- mypy binds same-module finals only
  | .bin op l r =>
    match foldExpr ext l, foldExpr ext r with
    | some (.val a), some (.val b) => foldBin ext op a b
    | _, _ => none
  | .un op e =>
    match foldExpr ext e with
    | some (.val a) => foldUn ext op a
    | _ => none

/-- what CPython computes for the expression (names evaluate to their values) -/
def pyEval : Expr → PyRes
  | .lit v => .ok (.val v)
  | .boolName b => .ok (.val (.bool b))
  | .ref _ v => .ok (.val v)
  | .bin op l r =>
    match pyEval l, pyEval r with
    | .ok (.val a), .ok (.val b) => pyBin op a b
    | .raises e, _ => .raises e
    | .ok (.val _), .raises e => .raises e
    | _, _ => .notModelled
  | .un op e =>
    match pyEval e with
    | .ok (.val a) => pyUnary op a
    | .raises x => .raises x
    | _ => .notModelled

end Fold
