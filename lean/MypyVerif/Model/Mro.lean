/-
Model of the two C3 linearisations that property C12 compares — hand-written, import-free, executable.

mypy side (mypy/mro.py, mypy/semanal.py):
  merge                                   ↦ `merge`      (fuel-driven loop; `merge_unfold` in Proofs/Mro.lean
                                                          shows the fuel never runs out; `mergeWF` there is
                                                          the same loop with termination proved, not fuelled)
  linearize_hierarchy                     ↦ the `lin ++ [bases]` argument of `merge` in `myClass`
                                            (the recursive call returns `base.mro`, already set: semanal
                                            analyses a class only after its bases)
  SemanticAnalyzer.configure_base_classes ↦ `myClass`   (implicit `object`, verify_duplicate_base_classes →
                                            set_any_mro, calculate_class_mro → MroError → set_dummy_mro)

CPython side (Objects/typeobject.c, 3.12):
  tail_contains          ↦ `tailContains`
  pmerge                 ↦ `pmerge`   (state = the array of (to_merge[i], remain[i]) pairs)
  mro_implementation     ↦ `pyClass`  (single-base fast path, check_duplicates, pmerge)
  type_new default bases ↦ `basesOrObject`

Classes are numbered in definition order; 0 is `object`.  A hierarchy is the list of the base-class lists
of classes 1, 2, … (each written exactly as in the class statement, possibly empty).
-/
namespace Mro

abbrev Cls := Nat

def total (seqs : List (List Cls)) : Nat := (seqs.map List.length).sum

/-! ## mypy/mro.py `merge` -/

/-- `head in s[1:]` -/
def inTail (h : Cls) (s : List Cls) : Bool := s.tail.contains h

/-- `not [s for s in seqs if head in s[1:]]` -/
def goodHead (seqs : List (List Cls)) (h : Cls) : Bool := seqs.all (fun s => !inTail h s)

/-- `for seq in seqs: head = seq[0]; if <goodHead>: break  else: raise MroError()`
    (first argument: all sequences; second: the ones still to visit).  Empty sequences have been
    filtered out by the caller; the model skips one if it meets it. -/
def findHead (seqs : List (List Cls)) : List (List Cls) → Option Cls
  | [] => none
  | [] :: rest => findHead seqs rest
  | (h :: _) :: rest => if goodHead seqs h then some h else findHead seqs rest

/-- `if s[0] is head: del s[0]` -/
def dropHead (h : Cls) : List Cls → List Cls
  | [] => []
  | x :: xs => if x = h then xs else x :: xs

/-- `seqs = [s for s in seqs if s]` -/
def nonEmpty (seqs : List (List Cls)) : List (List Cls) := seqs.filter (fun s => !s.isEmpty)

/-- The `while True` loop of `merge`, at most `fuel` rounds.  `none` = MroError (or out of fuel —
    impossible with `fuel > total seqs`, see `merge_unfold`). -/
def mergeFuel : Nat → List (List Cls) → Option (List Cls)
  | 0, _ => none
  | fuel + 1, seqs =>
    let seqs' := nonEmpty seqs
    if seqs'.isEmpty then some []
    else
      match findHead seqs' seqs' with
      | none => none
      | some h => (mergeFuel fuel (seqs'.map (dropHead h))).map (h :: ·)

/-- mypy/mro.py `merge` -/
def merge (seqs : List (List Cls)) : Option (List Cls) := mergeFuel (total seqs + 1) seqs

/-! ## CPython `pmerge` -/

/-- `tail_contains(tuple, whence, o)`: `o in tuple[whence+1:]` -/
def tailContains (t : List Cls) (whence : Nat) (o : Cls) : Bool := (t.drop (whence + 1)).contains o

/-- the inner `for (j…) if (tail_contains(to_merge[j], remain[j], candidate)) goto skip;` -/
def candOk (st : List (List Cls × Nat)) (cand : Cls) : Bool :=
  st.all (fun p => !tailContains p.1 p.2 cand)

/-- One pass of the outer `for (i…)` loop: the first candidate that is in no tail, if any. -/
def pmScan (st : List (List Cls × Nat)) : List (List Cls × Nat) → Option Cls
  | [] => none
  | (t, r) :: rest =>
    if t.length ≤ r then pmScan st rest                    -- empty_cnt++; continue
    else
      let cand := t.getD r 0                                -- PyTuple_GET_ITEM(cur_tuple, remain[i])
      if candOk st cand then some cand else pmScan st rest  -- goto skip

/-- `if (remain[j] < size && to_merge[j][remain[j]] == candidate) remain[j]++` -/
def advance (cand : Cls) (p : List Cls × Nat) : List Cls × Nat :=
  if p.2 < p.1.length ∧ p.1.getD p.2 0 = cand then (p.1, p.2 + 1) else p

/-- `empty_cnt == to_merge_size` -/
def allExhausted (st : List (List Cls × Nat)) : Bool := st.all (fun p => decide (p.1.length ≤ p.2))

def pmergeFuel : Nat → List (List Cls × Nat) → Option (List Cls)
  | 0, _ => none
  | fuel + 1, st =>
    match pmScan st st with
    | some cand => (pmergeFuel fuel (st.map (advance cand))).map (cand :: ·)   -- append; goto again
    | none => if allExhausted st then some [] else none                          -- set_mro_error

def remaining (st : List (List Cls × Nat)) : Nat := (st.map (fun p => p.1.length - p.2)).sum

/-- `pmerge(acc, to_merge, n)` with all `remain[i] = 0`; the result is what is appended to `acc`. -/
def pmerge (toMerge : List (List Cls)) : Option (List Cls) :=
  pmergeFuel (total toMerge + 1) (toMerge.map (fun t => (t, 0)))

/-! ## Class statements -/

/-- no bases written ⇒ `(object,)` — semanal.configure_base_classes / type_new -/
def basesOrObject (bases : List Cls) : List Cls := if bases.isEmpty then [0] else bases

/-- `find_duplicate(...)` is not None / `check_duplicates` fails -/
def hasDup : List Cls → Bool
  | [] => false
  | x :: xs => xs.contains x || hasDup xs

inductive Err | duplicateBase | inconsistentMro
deriving DecidableEq, Repr

/-- What semantic analysis leaves on the TypeInfo, plus the diagnostic of the class statement. -/
structure Info where
  mro : List Cls
  badMro : Bool
  err : Option Err
deriving DecidableEq, Repr

def objectInfo : Info := { mro := [0], badMro := false, err := none }

/-- semanal.configure_base_classes from `info.bases = base_types` on, for class number `c` with the
    table `tbl` of the TypeInfos analysed so far (index = class number). -/
def myClass (tbl : List Info) (c : Cls) (written : List Cls) : Info :=
  let bases := basesOrObject written
  if hasDup bases then
    -- verify_duplicate_base_classes fails: set_any_mro; calculate_mro → linearize_hierarchy returns info.mro
    { mro := [c, 0], badMro := false, err := some .duplicateBase }
  else
    let lin := bases.map (fun b => (tbl.getD b objectInfo).mro)
    match merge (lin ++ [bases]) with
    | some r => { mro := c :: r, badMro := false, err := none }
    | none => { mro := [c, 0], badMro := true, err := some .inconsistentMro }   -- set_dummy_mro

def myStep (tbl : List Info) (written : List Cls) : List Info := tbl ++ [myClass tbl tbl.length written]

/-- TypeInfos after analysing the class statements of `H` in order. -/
def myTable (H : List (List Cls)) : List Info := H.foldl myStep [objectInfo]

inductive PyRes
  | ok (mro : List Cls)
  | typeErrorDup          -- TypeError: duplicate base class X
  | typeErrorMro          -- TypeError: Cannot create a consistent method resolution order (MRO) for bases …
  | nameError             -- a base class does not exist (its own class statement raised)
deriving DecidableEq, Repr

def PyRes.mro? : PyRes → Option (List Cls)
  | .ok l => some l
  | _ => none

/-- `lookup_tp_mro(base)` for every base; `none` when some base name is unbound -/
def lookupAll (tbl : List PyRes) : List Cls → Option (List (List Cls))
  | [] => some []
  | b :: bs =>
    match (tbl.getD b .nameError).mro?, lookupAll tbl bs with
    | some m, some ms => some (m :: ms)
    | _, _ => none

/-- `type_new` → `mro_implementation` for class number `c`; `tbl` = outcome of the earlier statements. -/
def pyClass (tbl : List PyRes) (c : Cls) (written : List Cls) : PyRes :=
  let bases := basesOrObject written
  match lookupAll tbl bases with
  | none => .nameError
  | some mros =>
    match mros with
    | [m] => .ok (c :: m)                                   -- n == 1 fast path
    | _ =>
      if hasDup bases then .typeErrorDup                    -- check_duplicates
      else
        match pmerge (mros ++ [bases]) with
        | some r => .ok (c :: r)
        | none => .typeErrorMro

def pyStep (tbl : List PyRes) (written : List Cls) : List PyRes := tbl ++ [pyClass tbl tbl.length written]

def pyTable (H : List (List Cls)) : List PyRes := H.foldl pyStep [.ok [0]]

end Mro
