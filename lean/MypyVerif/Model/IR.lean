/-!
# C06 — ownership micro-IR and its concrete semantics

The final mypyc IR of a function (`mypyc/ir/ops.py`, as exported by `translate/ir_export.py` and flattened by
`translate/c06_micro.py`) seen through the only thing reference counting cares about: every refcounted IR value
(register or op result) is a variable, every IR op is a short list of *micro-ops* that each look at / change one
variable (`move`: two).  What the emitted C does to a reference (`mypyc/codegen/emitfunc.py`, `CPy_INCREF`,
`CPy_DECREF`, `CPy_XDECREF`, stealing operands — `Op.stolen()` —, borrowed results — `Op.is_borrowed` —, the
error value of ops with `error_kind = ERR_MAGIC`) is the per-value transition `stepVal`; `none` means *stuck*:
the C code would touch freed / NULL / uninitialised memory, or drop the last pointer to an owned reference.

A concrete value is, from the frame's point of view,
  * `undef`            — an uninitialised C local,
  * `null`             — the error value (NULL pointer / CPY_INT_TAG / error tuple),
  * `imm`              — a tagged short int: inc/dec are no-ops,
  * `obj owned kept`   — a pointer to an object; this frame owns `owned` references through this variable;
                         `kept` = somebody else (the caller for arguments, a container for borrowed results)
                         keeps the object alive, so the pointer may be used even when `owned = 0`.
`obj 0 false` is a dangling pointer: it may only be overwritten.
-/
namespace Own

abbrev Var := Nat
abbrev Lbl := Nat

inductive CVal where
  | undef
  | null
  | imm
  | obj (owned : Nat) (kept : Bool)
deriving DecidableEq, Repr, Inhabited

/-- what a defining op can put into its destination -/
inductive DefKind where
  | owned          -- fresh reference (`is_borrowed = False`, cannot be the error value)
  | maybe          -- fresh reference or the error value (`error_kind = ERR_MAGIC`, `returns_null`, out-parameter)
  | borrowed       -- `is_borrowed = True`
  | maybeBorrowed
  | null           -- `LoadErrorValue`
  | imm            -- short int literal
deriving DecidableEq, Repr

def DefKind.vals : DefKind → List CVal
  | .owned => [.obj 1 false]
  | .maybe => [.obj 1 false, .null]
  | .borrowed => [.obj 0 true]
  | .maybeBorrowed => [.obj 0 true, .null]
  | .null => [.null]
  | .imm => [.imm]

inductive MicroOp where
  | define (d : Var) (k : DefKind)   -- result of an op; the old content of `d` must not be an owned reference
  | incref (v : Var)
  | decref (v : Var) (x : Bool)      -- `x` = `DecRef.is_xdec`
  | steal (v : Var)                  -- an operand in `Op.stolen()`: one owned reference is consumed
  | stealMaybe (v : Var)             -- the stored operand of `SetAttr` (storing the error value is legal)
  | use (v : Var)                    -- an operand that the C code dereferences: must be a live object / immediate
  | useMaybe (v : Var)               -- an operand that may be the error value (optional argument, pointer comparison)
  | move (d s : Var)                 -- `Assign d := s`: steals `s`, `d` gets the reference (or the error value)
  | assumeNull (v : Var)             -- on the error edge of `Branch IS_ERROR v`
  | assumeOk (v : Var)               -- on the other edge
  | clobber (v : Var)                -- an op that may run arbitrary code (a call) while `v` holds a reference borrowed
                                     -- from the heap (`GetAttr`/`LoadMem` … with `is_borrowed`): the owner may have
                                     -- been rebound, so nobody else is known to keep the object alive any more
deriving DecidableEq, Repr

/-- the variable a one-variable micro-op acts on (`move`: its destination) -/
def MicroOp.var : MicroOp → Var
  | .define d _ => d
  | .incref v | .decref v _ | .steal v | .stealMaybe v | .use v | .useMaybe v | .assumeNull v | .assumeOk v
  | .clobber v => v
  | .move d _ => d

structure Edge where
  ops : List MicroOp
  target : Lbl
deriving Repr

inductive Term where
  | unreachable                    -- `Unreachable` (after an op that never returns normally)
  | ret (v : Option Var)           -- `Return`: steals its operand (`none`: operand is not refcounted)
  | br (edges : List Edge)         -- `Goto` (one edge), `Branch` (two edges, each with its `assume`s)
deriving Repr

structure Block where
  ops : List MicroOp
  term : Term
deriving Repr

inductive ArgKind where
  | borrowed      -- arguments are borrowed from the caller
  | optional      -- an argument with a default: the caller may pass the error value
deriving DecidableEq, Repr

structure FuncIR where
  nvars : Nat
  args : List (Var × ArgKind)
  blocks : Array Block             -- entry = block 0
deriving Repr

/-! ## per-value semantics -/

/-- the frame owns at least one reference through this variable -/
def CVal.owns : CVal → Bool
  | .obj (_ + 1) _ => true
  | _ => false

/-- a pointer that may be dereferenced (or an immediate) -/
def CVal.usable : CVal → Bool
  | .imm => true
  | .obj n k => decide (0 < n) || k
  | _ => false

def stepSteal : CVal → Option (List CVal)
  | .imm => some [.imm]
  | .obj (n + 1) k => some [.obj n k]
  | _ => none

/-- one micro-op on the one value it concerns: the possible results, or `none` = stuck (memory-unsafe). -/
def stepVal : MicroOp → CVal → Option (List CVal)
  | .define _ k, c => if c.owns then none else some k.vals
  | .incref _, c =>
      match c with
      | .imm => some [.imm]
      | .obj n k => if decide (0 < n) || k then some [.obj (n + 1) k] else none
      | _ => none
  | .decref _ x, c =>
      match c with
      | .imm => some [.imm]
      | .obj (n + 1) k => some [.obj n k]
      | .null => if x then some [.null] else none
      | _ => none
  | .steal _, c => stepSteal c
  | .stealMaybe _, c =>
      match c with
      | .null => some [.null]
      | c => stepSteal c
  | .use _, c => if c.usable then some [c] else none
  | .useMaybe _, c => if c.usable || c == .null then some [c] else none
  | .assumeNull _, c =>
      match c with
      | .undef => none
      | .null => some [.null]
      | _ => some []
  | .assumeOk _, c =>
      match c with
      | .undef => none
      | .null => some []
      | c => some [c]
  | .clobber _, c =>
      match c with
      | .obj n _ => some [.obj n false]
      | c => some [c]
  | .move _ _, _ => none

/-- `Assign d := s` seen from `s`: `(new d, new s)` -/
def moveSrc : CVal → Option (CVal × CVal)
  | .imm => some (.imm, .imm)
  | .null => some (.null, .null)
  | .obj (n + 1) k => some (.obj 1 k, .obj n k)
  | _ => none

/-- `Return v` seen from `v` -/
def retVal : CVal → Option CVal
  | .imm => some .imm
  | .null => some .null
  | .obj (n + 1) k => some (.obj n k)
  | _ => none

/-! ## states, lifted pointwise -/

abbrev CState := Var → CVal

def CState.set (s : CState) (v : Var) (c : CVal) : CState := fun x => if x = v then c else s x

/-- all results must exist; results are concatenated -/
def bindAll {α β : Type} (f : α → Option (List β)) : List α → Option (List β)
  | [] => some []
  | x :: xs =>
    match f x, bindAll f xs with
    | some a, some b => some (a ++ b)
    | _, _ => none

def stepMove (d src : Var) (s : CState) : Option (List CState) :=
  if d = src then none
  else if (s d).owns then none
  else match moveSrc (s src) with
    | none => none
    | some (cd, cs) => some [(s.set src cs).set d cd]

def stepUnary (op : MicroOp) (s : CState) : Option (List CState) :=
  match stepVal op (s op.var) with
  | none => none
  | some cs => some (cs.map (s.set op.var))

/-- one micro-op on a state: successor states (several: `define … maybe`; none: an `assume` that does not hold),
    or `none` = stuck. -/
def stepOp (op : MicroOp) (s : CState) : Option (List CState) :=
  match op with
  | .move d src => stepMove d src s
  | op => stepUnary op s

/-- a list of micro-ops; `none` as soon as *any* nondeterministic continuation gets stuck -/
def runOps : List MicroOp → CState → Option (List CState)
  | [], s => some [s]
  | op :: rest, s =>
    match stepOp op s with
    | none => none
    | some ss => bindAll (runOps rest) ss

def retStep (v : Option Var) (s : CState) : Option CState :=
  match v with
  | none => some s
  | some x => (retVal (s x)).map (s.set x)

/-- nothing owned is left behind -/
def ExitOK (s : CState) : Prop := ∀ v, (s v).owns = false

/-- allowed initial contents of a variable: arguments are borrowed (optional ones may be the error value),
    everything else is an uninitialised C local -/
def argKindOf (args : List (Var × ArgKind)) (v : Var) : Option ArgKind :=
  match args with
  | [] => none
  | (a, k) :: rest => if a = v then some k else argKindOf rest v

def initVals (f : FuncIR) (v : Var) : List CVal :=
  match argKindOf f.args v with
  | some .borrowed => [.obj 0 true]
  | some .optional => [.obj 0 true, .null]
  | none => [.undef]

def InitOK (f : FuncIR) (s : CState) : Prop := ∀ v, s v ∈ initVals f v

/-- the terminator is safe in state `s`: `Return` can steal its operand and leaves nothing owned; every edge's
    micro-ops can run and the target exists. -/
def TermSafe (f : FuncIR) (s : CState) : Term → Prop
  | .unreachable => True
  | .ret v => ∃ s', retStep v s = some s' ∧ ExitOK s'
  | .br es => ∀ e ∈ es, e.target < f.blocks.size ∧ ∃ ss, runOps e.ops s = some ss

/-- entering block `l` in state `s` is safe: the block exists, none of its micro-ops gets stuck on any
    nondeterministic continuation, and its terminator is safe in every resulting state. -/
def BlockSafe (f : FuncIR) (l : Lbl) (s : CState) : Prop :=
  ∃ b, f.blocks[l]? = some b ∧ ∃ ss, runOps b.ops s = some ss ∧ ∀ s' ∈ ss, TermSafe f s' b.term

/-- `ReachVia f path l s`: there is an execution from an allowed initial state at the entry block, through the
    blocks `path` (most recent first), that arrives at the entry of block `l` in state `s`.  Any length, any
    number of loop iterations, every edge (including the error edges). -/
inductive ReachVia (f : FuncIR) : List Lbl → Lbl → CState → Prop where
  | entry {s : CState} : InitOK f s → ReachVia f [] 0 s
  | step {path : List Lbl} {l : Lbl} {s s' s'' : CState} {b : Block} {ss ss' : List CState} {es : List Edge} {e : Edge} :
      ReachVia f path l s →
      f.blocks[l]? = some b → runOps b.ops s = some ss → s' ∈ ss →
      b.term = .br es → e ∈ es → runOps e.ops s' = some ss' → s'' ∈ ss' →
      ReachVia f (l :: path) e.target s''

/-- The function is memory safe in the ownership semantics: on every path, every block entered is safe. -/
def Safe (f : FuncIR) : Prop := ∀ path l s, ReachVia f path l s → BlockSafe f l s

/-! ## replaying a witness path (decidable refutation of `Safe`) -/

/-- a decidable sufficient condition for `¬ BlockSafe f l s` -/
def termUnsafe (f : FuncIR) (s : CState) : Term → Bool
  | .unreachable => false
  | .ret v =>
    match retStep v s with
    | none => true
    | some s' => (List.range f.nvars).any (fun x => (s' x).owns)
  | .br es => es.any (fun e => !decide (e.target < f.blocks.size) || (runOps e.ops s).isNone)

def blockUnsafe (f : FuncIR) (l : Lbl) (s : CState) : Bool :=
  match f.blocks[l]? with
  | none => true
  | some b =>
    match runOps b.ops s with
    | none => true
    | some ss => ss.any (fun s' => termUnsafe f s' b.term)

/-- one step of a witness: which successor state after the block's ops, which edge, which successor after the
    edge's ops -/
structure Choice where
  afterOps : Nat
  edge : Nat
  afterEdge : Nat
deriving Repr

/-- replay `w` from block `l` in state `s`; `true` = the path exists and ends in an unsafe block entry -/
def replayFrom (f : FuncIR) : List Choice → Lbl → CState → Bool
  | [], l, s => blockUnsafe f l s
  | c :: rest, l, s =>
    match f.blocks[l]? with
    | none => false
    | some b =>
      match runOps b.ops s with
      | none => false
      | some ss =>
        match ss[c.afterOps]?, b.term with
        | some s', .br es =>
          match es[c.edge]? with
          | none => false
          | some e =>
            match runOps e.ops s' with
            | none => false
            | some ss' =>
              match ss'[c.afterEdge]? with
              | none => false
              | some s'' => replayFrom f rest e.target s''
        | _, _ => false

/-- an allowed initial state: arguments borrowed and non-null, except the optional arguments listed in `nulls`,
    which the caller left out (error value); every other variable uninitialised -/
def initStateWith (f : FuncIR) (nulls : List Var) : CState := fun v =>
  match argKindOf f.args v with
  | some .optional => if nulls.contains v then .null else .obj 0 true
  | some .borrowed => .obj 0 true
  | none => .undef

def initState0 (f : FuncIR) : CState := initStateWith f []

end Own
