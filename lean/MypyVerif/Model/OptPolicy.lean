/-
C09 policy: which reads of an option happen BEFORE results are cached (and therefore must be covered by the
cache validity key), hand-reviewed.  The table of options / key membership / read sites is generated
(Gen/OptReads.lean); this file is the reviewed part of the trusted base.
-/
namespace OptPolicy

structure OptRow where
  name : String
  inKey : Bool               -- member of mypy.options.OPTIONS_AFFECTING_CACHE
  readIn : List String       -- mypy modules (dotted, relative to mypy/) in which the option is read
deriving Repr

/-- Modules whose code never contributes to what is stored in the cache: command line / config parsing,
    the daemon front end, reports, stub tools, inspections.  Everything else is treated as pre-cache
    (safe direction: an unknown module is pre-cache). -/
def postOrInfraModules : List String :=
  ["__main__", "main", "config_parser", "options", "dmypy_server", "find_sources", "report", "stubgen",
   "stubtest", "stubutil", "suggestions", "inspections",
   -- mypy/errors.py is recorded per function: these run when messages are printed (after cached error
   -- tuples have been loaded) or on the crash path; every other function of errors.py is pre-cache
   "errors:format_messages", "errors:format_messages_default", "errors:report_internal_error",
   "errors:find_shadow_file_mapping"]

/-- options that select the cache directory itself (`_cache_dir_prefix`): a different value is a different cache -/
def partitionOpts : List String := ["python_version"]

/-- Reviewed exemptions: (option, why a change of it cannot make a cached result stale). -/
def exempt : List (String × String) := [
  -- where the cache lives / how it is stored or validated
  ("cache_dir", "location of the cache"), ("cache_map", "location of the cache (bazel)"),
  ("cache_fine_grained", "adds fine-grained deps files; diagnostics unaffected"),
  ("sqlite_cache", "store kind: another store is another cache"), ("sqlite_num_shards", "store layout"),
  ("incremental", "cache disabled"), ("skip_version_check", "validation knob, documented unsafe"),
  ("skip_cache_mtime_checks", "validation knob, documented unsafe"),
  ("use_fine_grained_cache", "daemon start-up mode"), ("fine_grained_incremental", "daemon mode, cache_dir is os.devnull"),
  ("quickstart_file", "validation shortcut by recorded hashes"), ("debug_cache", "format of the records, compared specially"),
  ("debug_serialize", "debugging aid"),
  -- logging, statistics, debugging, process control
  ("verbosity", "logging"), ("dump_build_stats", "statistics"), ("dump_deps", "statistics"), ("dump_graph", "dumps the graph and exits"),
  ("dump_inference_stats", "statistics"), ("line_checking_stats", "statistics"), ("timing_stats", "statistics"),
  ("pdb", "debugger on crash"), ("raise_exceptions", "crash handling"), ("show_traceback", "crash handling"),
  ("non_interactive", "install-types flow"), ("fast_exit", "how the process exits"),
  ("package_root", "changes the module-name mapping of files (bazel); validated by id/path"), ("num_workers", "scheduling only (C07)"), ("config_file", "used for error locations of config problems"),
  ("warn_unused_configs", "reported from the config, not from modules"), ("report_dirs", "reports are written by every run from fresh trees"),
  ("output", "output format selected at formatting time"), ("export_ref_info", "extra output files"),
  ("test_env", "test-suite only"), ("use_builtins_fixtures", "test-suite only"), ("transform_source", "API hook, not a setting"),
  ("per_module_options", "its effect reaches modules through the per-module clone, whose key options are compared"),
  ("disable_expression_cache", "performance only"), ("fast_module_lookup", "performance only"),
  ("preserve_asts", "API / daemon: keeps trees in memory"), ("export_types", "API / daemon: keeps type maps in memory"),
  ("inspections", "daemon inspections"), ("logical_deps", "fine-grained dependency flavour (daemon)"),
  ("semantic_analysis_only", "undocumented debugging mode that never writes type-checked results"),
  -- change WHICH files are analysed or where they are found: validated through source paths, hashes and dependency lists
  ("abs_custom_typeshed_dir", "changes the source files found; validated by path/hash"), ("custom_typeshed_dir", "changes the source files found"),
  ("mypy_path", "changes the source files found"), ("python_executable", "changes the search path"),
  ("exclude", "changes the set of sources"), ("exclude_gitignore", "changes the set of sources"),
  ("namespace_packages", "changes module resolution; validated by dependency lists and paths"),
  ("shadow_file", "changes the source text; validated by hash"),
  ("no_silence_site_packages", "changes ignore_all of a module, which validate_meta compares"),
  ("custom_typing_module", "test-only replacement of the typing module"),
  -- applied when messages are formatted, after cached error tuples are loaded
  ("many_errors_threshold", "only consulted while errors of the current run accumulate after import errors; see DESIGN (searched)"),
  -- internal, no way to set them from the command line or a config file
  ("include_docstrings", "stubgen only"),
  ("pos_only_special_methods", "stubgen/stubtest only"), ("reveal_verbose_types", "changes reveal_type text only; see DESIGN (searched)"),
  ("warn_incomplete_stub", "typeshed maintenance flag; see DESIGN (searched)")
]

def isPre (m : String) : Bool := !(postOrInfraModules.contains m)

def readPre (r : OptRow) : Bool := r.readIn.any isPre

def isExempt (n : String) : Bool := exempt.any (fun p => p.1 == n)

def rowOk (r : OptRow) : Bool :=
  !readPre r || r.inKey || partitionOpts.contains r.name || isExempt r.name

def tableOk (t : List OptRow) : Bool := t.all rowOk

def badRows (t : List OptRow) : List String := (t.filter (fun r => !rowOk r)).map (·.name)

/-- what a change of exactly the options `changed` between two runs must do to the cached modules:
    "all" = every entry is abandoned (a key or partition option differs), otherwise "none-required" -/
def predict (t : List OptRow) (changed : List String) : String :=
  if changed.any (fun n => partitionOpts.contains n || (t.any fun r => r.name == n && r.inKey)) then "all"
  else "none-required"

end OptPolicy
