/-
Model of mypyc's vtable construction — hand-written, import-free, executable.

  mypyc/irbuild/vtable.py   compute_vtable              ↦ `computeClass` (one class, ancestors already done)
                                                           `computeAll`  (classes in definition order: the
                                                           recursion "make sure all ancestors are processed
                                                           first" of the code, memoised by `cls.vtable is not None`)
                            specialize_parent_vtable    ↦ `specialize` / `specializeEntry`
  mypyc/ir/class_ir.py      ClassIR.get_method_and_class(name, prefer_method=True) ↦ `getMethod`
                            ClassIR.vtable_entry                                  ↦ `slotOf`
  mypyc/irbuild/prepare.py  prepare_class_def: `ir.base = base_mro[1 if not trait else 0]` ↦ `baseOf`
  mypyc/irbuild/function.py handle_ext_method: which glue methods exist            ↦ `hasGlue`
  mypyc/codegen/emitfunc.py emit_method_call + lib-rt/CPy.h CPY_GET_METHOD / CPY_GET_METHOD_TRAIT /
                            CPy_FindTraitVtable                                    ↦ `dispatch`
  Python's attribute lookup on the type (`type.__mro__` scan)                      ↦ `getMethod` on the
                            runtime class (ClassIR.mro is `info.mro` restricted to compiled classes)

Classes are numbered in definition order.  A `FuncIR` is identified by (defining class, method name):
every `def` creates its own FuncIR, so `fn == cls.get_method(fn.name)` for `fn ∈ t.methods` holds iff the
class the MRO scan stops at is `t`.  Signatures are opaque numbers; `is_same_method_signature` is a
parameter `same` of the model (it is not an equivalence in general).  Properties are methods here as in
the code (getter `p`, setter `__mypyc_setter__p` are entries of `ClassIR.methods`).  Shadow vtables
(`allow_interpreted_subclasses`) are not modelled.
-/
namespace VTable

abbrev Cls := Nat
abbrev Name := Nat
abbrev Sig := Nat

/-- the name `__init__` -/
def initName : Name := 0

/-- the fields of `ClassIR` that `compute_vtable` reads -/
structure ClassRec where
  isTrait : Bool
  mro : List Cls                  -- ClassIR.mro, the class itself first
  methods : List (Name × Sig)     -- ClassIR.methods in dict order (name ↦ signature of that FuncIR)
  children : List Cls := []       -- ClassIR.children: classes that list this one among their direct bases
deriving Repr, DecidableEq

abbrev Hier := List ClassRec

def emptyRec : ClassRec := { isTrait := false, mro := [], methods := [], children := [] }

def Hier.rec (H : Hier) (c : Cls) : ClassRec := H.getD c emptyRec

/-- `name in ir.methods` / `ir.methods[name]` -/
def sigOf : List (Name × Sig) → Name → Option Sig
  | [], _ => none
  | (n, s) :: rest, m => if n = m then some s else sigOf rest m

/-- the `for ir in self.mro: if name in ir.methods: return ir.methods[name], ir` scan -/
def lookupIn (H : Hier) : List Cls → Name → Option (Cls × Sig)
  | [], _ => none
  | k :: ks, m =>
    match sigOf (H.rec k).methods m with
    | some s => some (k, s)
    | none => lookupIn H ks m

/-- `ClassIR.get_method_and_class(name, prefer_method=True)`: (defining class, signature).
    On the runtime class of the receiver this is also what Python's own lookup finds. -/
def getMethod (H : Hier) (c : Cls) (m : Name) : Option (Cls × Sig) := lookupIn H (H.rec c).mro m

/-- class in which the MRO scan finds `m` -/
def definerOf (H : Hier) (c : Cls) (m : Name) : Option Cls := (getMethod H c m).map (·.1)

/-- `base_mro` of prepare_class_def: the non-trait members of the MRO -/
def baseMro (H : Hier) (c : Cls) : List Cls := (H.rec c).mro.filter (fun k => !(H.rec k).isTrait)

/-- `ir.base` -/
def baseOf (H : Hier) (c : Cls) : Option Cls :=
  if (H.rec c).isTrait then (baseMro H c)[0]? else (baseMro H c)[1]?

/-- what a vtable slot points to: the FuncIR `(definer, name)` itself, or the glue method
    `definer.glue_methods[(forCls, name)]` that adapts it to the signature `forCls` declared -/
inductive Target where
  | direct (definer : Cls)
  | glue (definer : Cls) (forCls : Cls)
deriving Repr, DecidableEq

/-- the class whose method body finally runs -/
def Target.definer : Target → Cls
  | .direct d => d
  | .glue d _ => d

/-- `VTableMethod(cls, name, method, shadow_method)` without the shadow -/
structure Entry where
  cls : Cls
  name : Name
  target : Target
deriving Repr, DecidableEq

/-- `ClassIR.vtable` (name ↦ slot), newest binding first -/
abbrev VMap := List (Name × Nat)

def VMap.find : VMap → Name → Option Nat
  | [], _ => none
  | (n, i) :: rest, m => if n = m then some i else VMap.find rest m

/-- the three results `compute_vtable` leaves on the ClassIR -/
structure ClassVT where
  vtable : VMap
  entries : List Entry                       -- ClassIR.vtable_entries
  traitVTs : List (Cls × List Entry)         -- ClassIR.trait_vtables (dict in insertion order)
deriving Repr, DecidableEq

def emptyVT : ClassVT := { vtable := [], entries := [], traitVTs := [] }

abbrev Table := List ClassVT

def Table.vt (tbl : Table) (c : Cls) : ClassVT := tbl.getD c emptyVT

section
variable (same : Sig → Sig → Bool)

/-- one iteration of the loop in `specialize_parent_vtable` -/
def specializeEntry (H : Hier) (c : Cls) (e : Entry) : Entry :=
  match getMethod H e.cls e.name with           -- orig_parent_method (the code asserts it exists)
  | none => e
  | some (_, osig) =>
    match getMethod H c e.name with              -- method_cls = cls.get_method_and_class(entry.name)
    | none => e
    | some (k, csig) =>
      if same osig csig || e.name == initName then { e with target := .direct k }
      else { e with target := .glue k e.cls }

/-- `specialize_parent_vtable(cls, parent)` applied to `parent.vtable_entries` -/
def specialize (H : Hier) (c : Cls) (parent : List Entry) : List Entry :=
  parent.map (specializeEntry same H c)

/-- `for fn in t.methods.values(): if fn == cls.get_method(fn.name): cls.vtable[fn.name] = len(entries);
    entries.append(VTableMethod(t, fn.name, fn, shadow))` -/
def addMethods (H : Hier) (c t : Cls) : List (Name × Sig) → VMap × List Entry → VMap × List Entry
  | [], acc => acc
  | (m, _) :: ms, (vt, es) =>
    if definerOf H c m = some t then
      addMethods H c t ms ((m, es.length) :: vt, es ++ [{ cls := t, name := m, target := .direct t }])
    else addMethods H c t ms (vt, es)

/-- `for t in [cls] + [t for t in all_traits if t is not cls]:` -/
def addClasses (H : Hier) (c : Cls) : List Cls → VMap × List Entry → VMap × List Entry
  | [], acc => acc
  | t :: ts, acc => addClasses H c ts (addMethods H c t (H.rec t).methods acc)

/-- `all_traits = [t for t in cls.mro if t.is_trait]` -/
def allTraits (H : Hier) (c : Cls) : List Cls := (H.rec c).mro.filter (fun k => (H.rec k).isTrait)

/-- `compute_vtable(cls)` once every ancestor has its vtable in `tbl` -/
def computeClass (H : Hier) (tbl : Table) (c : Cls) : ClassVT :=
  let start : VMap × List Entry :=
    match baseOf H c with
    | some b => ((tbl.vt b).vtable, specialize same H c (tbl.vt b).entries)
    | none => ([], [])
  let order := c :: (allTraits H c).filter (· ≠ c)
  let res := addClasses H c order start
  let tvs := if (H.rec c).isTrait then []
             else (allTraits H c).map (fun t => (t, specialize same H c (tbl.vt t).entries))
  { vtable := res.1, entries := res.2, traitVTs := tvs }

def computeStep (H : Hier) (tbl : Table) (c : Cls) : Table := tbl ++ [computeClass same H tbl c]

/-- vtables of every class, computed in definition order -/
def computeAll (H : Hier) : Table := (List.range H.length).foldl (computeStep same H) []

/-! ## dispatch as the generated C does it -/

/-- `rtype.method_index(name)` = `class_ir.vtable_entry(name)` on the *static* receiver class -/
def slotOf (tbl : Table) (d : Cls) (m : Name) : Option Nat := (tbl.vt d).vtable.find m

def findTV : List (Cls × List Entry) → Cls → Option (List Entry)
  | [], _ => none
  | (t, es) :: rest, d => if t = d then some es else findTV rest d

/-- the table the call indexes: `obj->vtable` for a class-typed receiver (`CPY_GET_METHOD`),
    `CPy_FindTraitVtable(trait, obj->vtable)` for a trait-typed one (`CPY_GET_METHOD_TRAIT`);
    `c` is the runtime class of `obj` -/
def dispatchTable (H : Hier) (tbl : Table) (c d : Cls) : Option (List Entry) :=
  if (H.rec d).isTrait then findTV (tbl.vt c).traitVTs d else some (tbl.vt c).entries

/-- the vtable entry a call `recv.m(...)` jumps through, for `recv` of static type `d` holding an
    instance of `c` -/
def dispatch (H : Hier) (tbl : Table) (c d : Cls) (m : Name) : Option Entry :=
  match slotOf tbl d m, dispatchTable H tbl c d with
  | some i, some es => es[i]?
  | _, _ => none

/-! ## glue methods that exist (handle_ext_method) -/

/-- `(base, name) in class_ir.glue_methods` for class `k`: `k` defines `name`, `base` is a proper
    ancestor declaring `name` with a different signature, and `name` is not `__init__` -/
def hasGlue (H : Hier) (k base : Cls) (m : Name) : Bool :=
  match sigOf (H.rec k).methods m, sigOf (H.rec base).methods m with
  | some ks, some bs => (H.rec k).mro.tail.contains base && m != initName && !same ks bs
  | _, _ => false

/-- the `defining_cls.glue_methods[(entry.cls, entry.name)]` subscript of `specialize_parent_vtable`
    succeeds for this entry -/
def entryGlueOk (H : Hier) (e : Entry) : Bool :=
  match e.target with
  | .direct _ => true
  | .glue k forCls => hasGlue same H k forCls e.name

/-- no `KeyError` while computing the vtables of class `c` -/
def glueOk (H : Hier) (v : ClassVT) : Bool :=
  v.entries.all (entryGlueOk same H) && v.traitVTs.all (fun p => p.2.all (entryGlueOk same H))

end

/-! ## `ClassIR.is_method_final` (decides direct C calls instead of vtable dispatch, `==` as identity,
       Optional truthiness as `is not None`) -/

/-- `ClassIR.subclasses()`: `result = set(children); for child in children: result.update(child.subclasses())`
    (fuel = number of classes; every child was defined later than its parent) -/
def subclassesFuel (H : Hier) : Nat → Cls → List Cls
  | 0, _ => []
  | n + 1, c => (H.rec c).children ++ (H.rec c).children.flatMap (subclassesFuel H n)

def subclasses (H : Hier) (c : Cls) : List Cls := subclassesFuel H H.length c

/-- `ClassIR.is_method_final(name)` (all subclasses known, no interpreted subclasses):
    the method is defined → every subclass resolves it to the same declaration;
    not defined → no subclass has it -/
def isMethodFinal (H : Hier) (c : Cls) (m : Name) : Bool :=
  match definerOf H c m with
  | some k => (subclasses H c).all (fun s => definerOf H s m == some k)
  | none => (subclasses H c).all (fun s => (definerOf H s m).isNone)

/-- `children` is consistent with the MROs: every class that has `c` in its MRO is reached from `c` through
    `children` (checked on every real ClassIR graph) -/
def subclassesComplete (H : Hier) : Bool :=
  (List.range H.length).all fun c => (List.range H.length).all fun d =>
    !((H.rec d).mro.contains c) || d == c || (subclasses H c).contains d

/-! ## well-formedness of a hierarchy (checked on every real `ClassIR` graph by the harness) -/

def namesNodup : List (Name × Sig) → Bool
  | [] => true
  | (n, _) :: rest => (sigOf rest n).isNone && namesNodup rest

/-- what prepare_class_def guarantees for class `c`:
    its MRO starts with itself, every other member was defined earlier, the MRO contains the MRO of each
    of its members, non-trait ancestors all come through the one non-trait base, method names are keys -/
def wfClass (H : Hier) (c : Cls) : Bool :=
  let r := H.rec c
  r.mro.head? == some c
  && r.mro.tail.all (fun d => decide (d < c))
  && r.mro.all (fun d => (H.rec d).mro.all (fun k => r.mro.contains k))
  && (match baseOf H c with
      | some b => r.mro.all (fun k => k == c || (H.rec k).isTrait || (H.rec b).mro.contains k)
      | none => r.mro.all (fun k => k == c || (H.rec k).isTrait))
  && namesNodup r.methods

def WF (H : Hier) : Prop := ∀ c, c < H.length → wfClass H c = true

def wfAll (H : Hier) : Bool := (List.range H.length).all (wfClass H)

end VTable
