/-!
# C15 — prelude of the C-to-Lean translation (`translate/cfast.py`) and of the IR translation

Hand-written, tiny, core only.  The generated files (`Gen/CFast.lean`, `Gen/IrOps.lean`) import this.

* `Res α`       — outcome of a translated C function that has an out-of-line slow path or raises:
                  `fast v` (returned `v` without leaving the inline code), `slow call` (returned the result
                  of the out-of-line function `call.name` applied to `call.args`, negated if `call.negated`),
                  `raise exc v` (`PyErr_SetString(PyExc_<exc>, …); return v;`).
* `ofBool w b`  — C conversion of a truth value to an integer type (`1` / `0`).

Everything else in the generated code is a core `BitVec` operation chosen by the C type of the operands:
`+ - * &&& ||| ^^^ ~~~ -` (signedness-agnostic, wrap modulo 2^w: the build uses `-fno-strict-overflow`),
`BitVec.sdiv`/`BitVec.srem` (signed `/`, `%`: truncation toward zero) vs `/`, `%` (unsigned),
`BitVec.sshiftRight` (signed `>>`: arithmetic, as gcc and clang implement it) vs `>>>`, `<<<`,
`BitVec.slt/sle` vs `BitVec.ult/ule`, `BitVec.signExtend`/`zeroExtend`/`truncate` for conversions.
-/
namespace CSem

/-- A call of an out-of-line runtime function (`CPyTagged_Add_` …); arguments widened to 64 bits. -/
structure SlowCall where
  name : String
  args : List (BitVec 64)
  negated : Bool
deriving DecidableEq, Repr

inductive Res (α : Type) where
  | fast (v : α)
  | slow (c : SlowCall)
  | raise (exc : String) (v : α)
deriving DecidableEq, Repr

def ofBool (w : Nat) (b : Bool) : BitVec w := if b then 1#w else 0#w

def Res.isFast {α} : Res α → Bool
  | .fast _ => true
  | _ => false

def Res.isSlow {α} : Res α → Bool
  | .slow _ => true
  | _ => false

/-! ### printing (for the line-protocol driver) -/

def showBV {w : Nat} (v : BitVec w) : String := toString v.toNat
def showBool (b : Bool) : String := if b then "1" else "0"

def showCall (c : SlowCall) : String :=
  s!"slow {c.name} {showBool c.negated}" ++ String.join (c.args.map fun a => " " ++ toString a.toNat)

def showResBV {w : Nat} : Res (BitVec w) → String
  | .fast v => s!"fast {v.toNat}"
  | .slow c => showCall c
  | .raise e v => s!"raise {e} {v.toNat}"

def showResBool : Res Bool → String
  | .fast v => s!"fast {showBool v}"
  | .slow c => showCall c
  | .raise e v => s!"raise {e} {showBool v}"

end CSem
