import MypyVerif.Model.IR
/-!
# C06 — the ownership verifier `checkFunc`

Forward dataflow over a small abstract domain: an abstract value is a *finite set of concrete values*
(`undef`, `null`, `imm`, `obj n kept` with `n ≤ maxOwned`), an abstract state maps every variable to such a set.
The abstract transfer of a micro-op is `stepVal` mapped over the set (`liftVals`), so one-step soundness is a
membership argument that does not depend on what `stepVal` says.

`checkFunc f = checkAnn f (infer f)`: block-entry annotations are *found* by a fuel-bounded worklist iteration
(`infer`, untrusted — nothing is proved about it) and then *checked* (`checkAnn`): the entry annotation covers the
allowed initial states, every annotated block runs without getting stuck, its `Return` leaves nothing owned, and
what flows along every edge is included in the annotation of the target.  Soundness (`Props/C06.lean`) is about
`checkAnn` only.
-/
namespace Own

abbrev AVal := List CVal
abbrev AState := Array AVal

/-- bound on owned counts in abstract values (only to keep the domain finite) -/
def maxOwned : Nat := 4

def inBound : CVal → Bool
  | .obj n _ => decide (n ≤ maxOwned)
  | _ => true

def AState.get (a : AState) (v : Var) : AVal := a.getD v [.undef]
def AState.put (a : AState) (v : Var) (x : AVal) : AState := a.setIfInBounds v x

def insertVal (c : CVal) (acc : AVal) : AVal := if acc.contains c then acc else c :: acc
def unionVals (a b : AVal) : AVal := a.foldr insertVal b

/-- map a per-value transition over a set; fails if it is stuck on some element -/
def liftVals (f : CVal → Option (List CVal)) : AVal → Option AVal
  | [] => some []
  | c :: cs =>
    match f c, liftVals f cs with
    | some r, some rest => some (unionVals r rest)
    | _, _ => none

def liftMove : AVal → Option (AVal × AVal)
  | [] => some ([], [])
  | c :: cs =>
    match moveSrc c, liftMove cs with
    | some (cd, csrc), some (nd, ns) => some (insertVal cd nd, insertVal csrc ns)
    | _, _ => none

def aStepMove (d src : Var) (a : AState) : Option AState :=
  if d = src then none
  else if decide (d < a.size) && decide (src < a.size) then
    if (a.get d).any CVal.owns then none
    else match liftMove (a.get src) with
      | none => none
      | some (nd, ns) => if nd.all inBound && ns.all inBound then some ((a.put src ns).put d nd) else none
  else none

def aStepUnary (op : MicroOp) (a : AState) : Option AState :=
  if decide (op.var < a.size) then
    match liftVals (stepVal op) (a.get op.var) with
    | none => none
    | some bs => if bs.all inBound then some (a.put op.var bs) else none
  else none

/-- abstract transfer of one micro-op; `none` = some concrete state described by `a` may get stuck (or a count
    may exceed `maxOwned`, or a variable is out of range) -/
def aStep (op : MicroOp) (a : AState) : Option AState :=
  match op with
  | .move d src => aStepMove d src a
  | op => aStepUnary op a

def aRun : List MicroOp → AState → Option AState
  | [], a => some a
  | op :: rest, a =>
    match aStep op a with
    | none => none
    | some a' => aRun rest a'

def exitAll (a : AState) : Bool := a.toList.all (fun vs => vs.all (fun c => !c.owns))

def aRet (v : Option Var) (a : AState) : Bool :=
  match v with
  | none => exitAll a
  | some x =>
    decide (x < a.size) &&
    match liftVals (fun c => (retVal c).map (fun r => [r])) (a.get x) with
    | none => false
    | some bs => exitAll (a.put x bs)

/-- `a ⊑ b` pointwise (same size) -/
def subVals (x y : AVal) : Bool := x.all (fun c => y.contains c)

def subList : List AVal → List AVal → Bool
  | [], [] => true
  | x :: xs, y :: ys => subVals x y && subList xs ys
  | _, _ => false

def subState (a b : AState) : Bool := subList a.toList b.toList

/-- after the edge's `assume`s some touched variable has no possible value left: the edge cannot be taken -/
def edgeDead (e : Edge) (a : AState) : Bool := e.ops.any (fun op => (a.get op.var).isEmpty)

abbrev Ann := Array (Option AState)

def flowsTo (a : AState) (tgt : Option AState) : Bool :=
  match tgt with
  | some b => subState a b
  | none => false

def checkEdge (nblocks : Nat) (ann : Ann) (a : AState) (e : Edge) : Bool :=
  decide (e.target < nblocks) &&
  match aRun e.ops a with
  | none => false
  | some a' => edgeDead e a' || flowsTo a' (ann.getD e.target none)

def checkTerm (nblocks : Nat) (ann : Ann) (a : AState) : Term → Bool
  | .unreachable => true
  | .ret v => aRet v a
  | .br es => es.all (checkEdge nblocks ann a)

def checkBlock (nblocks : Nat) (ann : Ann) (entry : Option AState) (b : Block) : Bool :=
  match entry with
  | none => true            -- annotated unreachable: nothing flows in (checked at every edge)
  | some a =>
    match aRun b.ops a with
    | none => false
    | some a' => checkTerm nblocks ann a' b.term

def initState (f : FuncIR) : AState := ((List.range f.nvars).map (initVals f)).toArray

def argsInRange (f : FuncIR) : Bool := f.args.all (fun p => decide (p.1 < f.nvars))

def checkEntry (f : FuncIR) (ann : Ann) : Bool :=
  argsInRange f && flowsTo (initState f) (ann.getD 0 none)

def checkBlocks (nblocks : Nat) (ann : Ann) : List (Option AState) → List Block → Bool
  | [], [] => true
  | e :: es, b :: bs => checkBlock nblocks ann e b && checkBlocks nblocks ann es bs
  | _, _ => false

/-- the annotation is consistent: a verified certificate that `f` is safe -/
def checkAnn (f : FuncIR) (ann : Ann) : Bool :=
  checkEntry f ann && checkBlocks f.blocks.size ann ann.toList f.blocks.toList

/-! ## finding the annotation (untrusted) -/

def joinList : List AVal → List AVal → List AVal
  | x :: xs, y :: ys => unionVals x y :: joinList xs ys
  | _, _ => []

def joinState (a b : AState) : AState := (joinList a.toList b.toList).toArray

/-- the worklist is kept sorted (smallest label first: close to reverse postorder for mypyc's block layout) -/
def insertLbl (l : Lbl) : List Lbl → List Lbl
  | [] => [l]
  | x :: xs => if l < x then l :: x :: xs else if l = x then x :: xs else x :: insertLbl l xs

/-- propagate `a` (state after the block's ops) along edge `e` -/
def propagate (a : AState) (acc : Ann × List Lbl) (e : Edge) : Ann × List Lbl :=
  match aRun e.ops a with
  | none => acc
  | some a' =>
    if edgeDead e a' then acc
    else
      let (ann, work) := acc
      match ann.getD e.target none with
      | none => (ann.setIfInBounds e.target (some a'), insertLbl e.target work)
      | some cur =>
        if subState a' cur then acc
        else (ann.setIfInBounds e.target (some (joinState a' cur)), insertLbl e.target work)

def inferLoop (f : FuncIR) : Nat → Ann → List Lbl → Ann
  | 0, ann, _ => ann
  | _ + 1, ann, [] => ann
  | fuel + 1, ann, l :: work =>
    match f.blocks[l]?, ann.getD l none with
    | some b, some a =>
      match aRun b.ops a with
      | none => ann
      | some a' =>
        match b.term with
        | .br es =>
          let r := es.foldl (propagate a') (ann, work)
          inferLoop f fuel r.1 r.2
        | _ => inferLoop f fuel ann work
    | _, _ => inferLoop f fuel ann work

def inferFuel (f : FuncIR) : Nat := 64 + f.blocks.size * 40

def infer (f : FuncIR) : Ann :=
  inferLoop f (inferFuel f) ((Array.replicate f.blocks.size none).setIfInBounds 0 (some (initState f))) [0]

/-- The verifier. -/
def checkFunc (f : FuncIR) : Bool := checkAnn f (infer f)

end Own
