/-
Model of the loop mypyc emits for `for i in range(start, stop, step)` — hand-written, import-free, executable.

  mypyc/irbuild/for_helpers.py  ForRange.init           ↦ `indexType`, `coerceStart`
                                ForRange.gen_condition  ↦ `Skel.cmp`  (`<` when step > 0, else `>`)
                                ForRange.gen_step       ↦ `Skel.add`, `Skel.stepLit`
                                                          (IntOp.ADD on short ints; `binary_op '+'` otherwise, which is
                                                          CPyTagged_Add for `int` and a wrapping C add for i64/i32/i16/u8)
  the emitted skeleton                                  ↦ `emit` (compared with the final IR on every run)
  what the C code computes                              ↦ `loop` (registers hold `wrap`ped values; gcc is run with
                                                          -fno-strict-overflow, so the signed add wraps)
  CPython Objects/rangeobject.c compute_range_length    ↦ `rangeLen`
                                compute_item / range_iter ↦ `pyRange`

Register types: `short` = tagged int known to be unboxed (the machine word is 2·v in 64 bits, so the value
lives in 63 bits), `int` = tagged int (arbitrary precision through CPyTagged_Add / CPyTagged_IsLt_),
i64/i32/i16/u8 native.
-/
namespace ForRange

inductive RTy | short | int | i64 | i32 | i16 | u8
deriving Repr, DecidableEq

def RTy.isFixed : RTy → Bool
  | .i64 | .i32 | .i16 | .u8 => true
  | _ => false

/-- `ForRange.init`: type of the index register -/
def indexType (startTy endTy : RTy) : RTy :=
  if startTy = .short ∧ endTy = .short then .short
  else if endTy.isFixed then endTy
  else .int

/-- smallest / largest value a register of the type can hold (`none`: unbounded) -/
def RTy.lo : RTy → Option Int
  | .short => some (-4611686018427387904)
  | .int => none
  | .i64 => some (-9223372036854775808)
  | .i32 => some (-2147483648)
  | .i16 => some (-32768)
  | .u8 => some 0

def RTy.hi : RTy → Option Int
  | .short => some 4611686018427387903
  | .int => none
  | .i64 => some 9223372036854775807
  | .i32 => some 2147483647
  | .i16 => some 32767
  | .u8 => some 255

def RTy.fits (t : RTy) (v : Int) : Bool :=
  (match t.lo with | some l => decide (l ≤ v) | none => true) &&
  (match t.hi with | some h => decide (v ≤ h) | none => true)

/-- two's-complement wrap into `[-m, m)` (`m` = half the modulus) -/
def wrapSigned (m : Int) (v : Int) : Int := (v + m) % (2 * m) - m

/-- value held by the register after a C `+` produced the mathematical value `v` -/
def RTy.wrap : RTy → Int → Int
  | .short, v => wrapSigned 4611686018427387904 v      -- the word is 2·v mod 2^64, read as signed, halved
  | .int, v => v
  | .i64, v => wrapSigned 9223372036854775808 v
  | .i32, v => wrapSigned 2147483648 v
  | .i16, v => wrapSigned 32768 v
  | .u8, v => v % 256

inductive Cmp | lt | gt
deriving Repr, DecidableEq

inductive AddKind
  | intOp        -- `IntOp.ADD`: C addition on the machine word
  | taggedAdd    -- `CPyTagged_Add`: exact
deriving Repr, DecidableEq

/-- what `ForRange` emits, as it can be read off the final IR -/
structure Skel where
  idx : RTy          -- type of the index register
  cmp : Cmp          -- comparison of the loop condition (index on the left, end on the right)
  add : AddKind
  stepLit : Int      -- literal operand of the add as it appears in the IR (tagged = doubled for short / int)
deriving Repr, DecidableEq

/-- `ForRange.init` + `gen_condition` + `gen_step` for `range(start : startTy, stop : endTy, step)` -/
def emit (startTy endTy : RTy) (step : Int) : Skel :=
  let idx := indexType startTy endTy
  { idx := idx
    cmp := if step > 0 then .lt else .gt
    add := if startTy = .short ∧ endTy = .short then .intOp
           else if idx = .int then .taggedAdd else .intOp
    stepLit := if idx.isFixed then step else 2 * step }

/-- the step literal is representable where `ForRange` puts it: in the native index type (anything else is
    rejected at compile time: "Value … is out of range"), or as a short int for the tagged index types -/
def StepLitOk (startTy endTy : RTy) (step : Int) : Bool :=
  if (indexType startTy endTy).isFixed then (indexType startTy endTy).fits step else RTy.short.fits step

/-- the step the add actually applies.  For the tagged index types the literal is emitted as a *short int*
    `Integer` whatever its size (`Integer(self.step)`): the doubled value is a 64-bit C constant, read back as
    a short int — steps outside the short-int range come back wrapped (beyond 64 bits the C does not compile). -/
def Skel.step (s : Skel) : Int := if s.idx.isFixed then s.stepLit else RTy.short.wrap (s.stepLit / 2)

def Skel.cond (s : Skel) (i stop : Int) : Bool :=
  match s.cmp with
  | .lt => decide (i < stop)
  | .gt => decide (i > stop)

def Skel.next (s : Skel) (i : Int) : Int :=
  match s.add with
  | .taggedAdd => i + s.step
  | .intOp => s.idx.wrap (i + s.step)

/-- the emitted loop: values of the index register at the start of each body execution;
    `none` = still running after `fuel` condition checks -/
def loop (s : Skel) (stop : Int) : Nat → Int → Option (List Int)
  | 0, _ => none
  | fuel + 1, i => if s.cond i stop then (loop s stop fuel (s.next i)).map (i :: ·) else some []

/-- the first `n` values the loop visits (it may go on) -/
def visitN (s : Skel) (stop : Int) : Nat → Int → List Int
  | 0, _ => []
  | n + 1, i => if s.cond i stop then i :: visitN s stop n (s.next i) else []

/-- the user-visible loop variable after the loop (`ForRange.init` assigns it from the index register — the
    start value — *before* the first comparison; `begin_body` assigns it again at the start of every body
    execution).  `none`: the loop has not ended within `fuel` comparisons. -/
def varAfter (s : Skel) (stop : Int) (fuel : Nat) (start : Int) : Option Int :=
  (loop s stop fuel start).map (fun vs => vs.getLastD start)

/-- `builder.assign(index_reg, start_reg)`: coercion of the start value into the index type;
    `none` = the coercion raises (`int too large to convert to i64` …) -/
def coerceStart (idx : RTy) (start : Int) : Option Int := if idx.fits start then some start else none

/-! ## Python's `range` -/

/-- CPython `compute_range_length` (step ≠ 0) -/
def rangeLen (start stop step : Int) : Nat :=
  if step > 0 then (if start < stop then ((stop - start - 1) / step + 1).toNat else 0)
  else if step < 0 then (if stop < start then ((start - stop - 1) / (-step) + 1).toNat else 0)
  else 0

def rangeFrom : Nat → Int → Int → List Int
  | 0, _, _ => []
  | n + 1, start, step => start :: rangeFrom n (start + step) step

/-- `list(range(start, stop, step))` -/
def pyRange (start stop step : Int) : List Int := rangeFrom (rangeLen start stop step) start step

/-- Python: the loop variable keeps its previous binding (`before`; `none` = unbound) when the range is empty -/
def pyVarAfter (start stop step : Int) (before : Option Int) : Option Int :=
  match (pyRange start stop step).getLast? with
  | some v => some v
  | none => before

/-- every addition the loop performs is exact: each visited value plus the step is representable -/
def NoStepOverflow (t : RTy) (start stop step : Int) : Prop :=
  ∀ v ∈ pyRange start stop step, t.fits (v + step) = true

instance (t : RTy) (start stop step : Int) : Decidable (NoStepOverflow t start stop step) := by
  unfold NoStepOverflow; infer_instance

end ForRange
