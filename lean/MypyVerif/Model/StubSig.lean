import MypyVerif.Model.StubDefault
/-
Model of stubgen's signature emission — hand-written, import-free, executable.

  mypy/fastparse.py  ASTConverter.transform_args / make_argument   ↦ `PySig.toMypy`   (kinds, `pos_only`,
                     mypy/sharedparse.py argument_elide_name         ↦ `elide`)
  mypy/stubgen.py    ASTStubGenerator._get_func_args               ↦ `emitArgs`   (the loop is `estep`,
                     `args.insert(pos_only_marker_position, ArgSig("/"))` is `insertAt`)
  mypy/stubdoc.py    FunctionSig.format_sig (per-argument part)     ↦ `Item` + the driver's printer
  Python's `parameters` grammar + the compiler's checks            ↦ `parseItems` (state machine `pstep`)

Not in the model: the annotation printer (annotations are opaque strings), `infer_method_arg_types`
(the `__exit__` special case), signature generators, docstrings.
-/
namespace StubSig
open StubDefault

abbrev Ident := List Char

/-- `mypy.sharedparse.argument_elide_name`: `name.startswith("__") and not name.endswith("__")` -/
def elide (n : Ident) : Bool :=
  n.take 2 == ['_', '_'] && !(n.reverse.take 2 == ['_', '_'])

/-! ### the source side: a Python signature, by the grammar's own production

    parameters ::= po* ["/"] pp* ["*" [va] kw*] ["**" ka]
-/

structure PParam where
  name : Ident
  ann : Option String      -- the annotation as AnnotationPrinter prints it (opaque)
  dflt : Option DExpr      -- the initializer
deriving Inhabited

structure VParam where      -- `*args` / `**kwargs`: no default in the grammar
  name : Ident
  ann : Option String

structure PySig where
  po : List PParam          -- before `/`
  pp : List PParam          -- positional-or-keyword
  va : Option VParam
  kw : List PParam          -- keyword-only
  ka : Option VParam

def PParam.hasD (p : PParam) : Bool := p.dflt.isSome

/-- "non-default argument follows default argument" never happens from `sd` on -/
def mono : Bool → List Bool → Bool
  | _, [] => true
  | sd, d :: r => (!sd || d) && mono (sd || d) r

/-- the compiler's check on positional parameters -/
def PySig.DefaultsOk (s : PySig) : Prop := mono false ((s.po ++ s.pp).map PParam.hasD) = true

/-- every initializer satisfies the hypotheses of the default-rendering theorems (`DExpr.good`) -/
def PySig.GoodDefaults (c : DCfg) (s : PySig) : Prop :=
  ∀ p ∈ s.po ++ s.pp ++ s.kw, ∀ d ∈ p.dflt, d.good c = true

/-- the input domain: every initializer is well-formed (bytes bodies are bytes-`repr` bodies) -/
def PySig.WfDefaults (s : PySig) : Prop :=
  ∀ p ∈ s.po ++ s.pp ++ s.kw, ∀ d ∈ p.dflt, d.wf = true

def PySig.NoElideE (el : Ident → Bool) (s : PySig) : Prop :=
  (∀ p ∈ s.pp, el p.name = false) ∧ (∀ p ∈ s.va, el p.name = false) ∧
  (∀ p ∈ s.kw, el p.name = false) ∧ (∀ p ∈ s.ka, el p.name = false)

/-- no parameter outside the `/` prefix has a name of the form `__x` -/
def PySig.NoElide (s : PySig) : Prop := s.NoElideE elide

instance (s : PySig) : Decidable s.DefaultsOk := by unfold PySig.DefaultsOk; infer_instance
instance (s : PySig) : Decidable s.NoElide := by unfold PySig.NoElide PySig.NoElideE; infer_instance
instance (c : DCfg) (s : PySig) : Decidable (s.GoodDefaults c) := by unfold PySig.GoodDefaults; infer_instance
instance (s : PySig) : Decidable s.WfDefaults := by unfold PySig.WfDefaults; infer_instance

inductive PKind | posOnly | pos | varArg | kwOnly | kwArg
deriving DecidableEq, Repr

/-- what a signature *is* for a caller: names, kinds, has-default flags -/
abbrev Summ := Ident × PKind × Bool

def PySig.summary (s : PySig) : List Summ :=
  s.po.map (fun p => (p.name, .posOnly, p.hasD)) ++ s.pp.map (fun p => (p.name, .pos, p.hasD)) ++
  s.va.toList.map (fun p => (p.name, .varArg, false)) ++ s.kw.map (fun p => (p.name, .kwOnly, p.hasD)) ++
  s.ka.toList.map (fun p => (p.name, .kwArg, false))

/-- PEP 484's convention, which mypy's parser applies: a positional parameter named `__x` is positional-only
    when every parameter before it is.  `normalize` moves the maximal run of such parameters behind the `/`. -/
def elidedPrefix : List PParam → Nat
  | [] => 0
  | p :: r => if elide p.name then elidedPrefix r + 1 else 0

def PySig.normalize (s : PySig) : PySig :=
  { s with po := s.po ++ s.pp.take (elidedPrefix s.pp), pp := s.pp.drop (elidedPrefix s.pp) }

/-! ### mypy's view: `Argument`s -/

inductive AKind | pos | star | named | star2      -- ARG_POS/ARG_OPT, ARG_STAR, ARG_NAMED/ARG_NAMED_OPT, ARG_STAR2
deriving DecidableEq, Repr

structure Arg where
  name : Ident
  kind : AKind
  posOnly : Bool
  ann : Option String
  dflt : Option DExpr

/-- `make_argument`: `pos_only` is the syntactic flag, or forced by the name rule `el` — for every kind
    (`el` = `elide` is the code; the parameter lets the proofs also cover "flag ignored", see `emit_magic`) -/
def mkArgE (el : Ident → Bool) (k : AKind) (syntacticPO : Bool) (p : PParam) : Arg :=
  { name := p.name, kind := k, posOnly := syntacticPO || el p.name, ann := p.ann, dflt := p.dflt }

def mkVArgE (el : Ident → Bool) (k : AKind) (p : VParam) : Arg :=
  { name := p.name, kind := k, posOnly := el p.name, ann := p.ann, dflt := none }

/-- `transform_args` (order: positional, `*`, keyword-only, `**`) -/
def PySig.toMypyE (el : Ident → Bool) (s : PySig) : List Arg :=
  s.po.map (mkArgE el .pos true) ++ s.pp.map (mkArgE el .pos false) ++ s.va.toList.map (mkVArgE el .star) ++
  s.kw.map (mkArgE el .named false) ++ s.ka.toList.map (mkVArgE el .star2)

/-- what mypy's parser produces: the name rule is `argument_elide_name` -/
def PySig.toMypy (s : PySig) : List Arg := s.toMypyE elide

/-! ### the emitted side: one item per comma-separated piece of the `def` line -/

inductive Item where
  | slash
  | bareStar
  | param (name : Ident) (ann : Option String) (dflt : Option (List DTok))
  | vararg (name : Ident) (ann : Option String)
  | kwarg (name : Ident) (ann : Option String)

/-- `arg.name.startswith("*")` on the ArgSigs collected so far -/
def Item.starred : Item → Bool
  | .bareStar | .vararg _ _ | .kwarg _ _ => true
  | _ => false

def selfName : Ident := ['s', 'e', 'l', 'f']
def clsName : Ident := ['c', 'l', 's']

/-- the ArgSig of one argument (`first` = `i == 0`) -/
def argItem (c : DCfg) (strLen : Nat → Nat) (first : Bool) (a : Arg) : Item :=
  let ann := if first && (a.name == selfName || a.name == clsName) then none else a.ann
  match a.dflt with
  | some d => .param a.name (match ann with | some t => some t | none => inferType d) (some (defaultToks c strLen d))
  | none =>
    match a.kind with
    | .star => .vararg a.name ann
    | .star2 => .kwarg a.name ann
    | _ => .param a.name ann none

structure ESt where
  out : List Item
  cnt : Nat        -- pos_only_marker_position
  idx : Nat        -- i of enumerate(o.arguments)

/-- one iteration of the `for i, arg_ in enumerate(o.arguments)` loop; `magic` = name ∈ MAGIC_METHODS_POS_ARGS_ONLY.
    `contig` = the rule the checked tree implements for the `/` position (Gen/StubCfg.lean):
      as found   `if actually_pos_only_args and arg_.pos_only: n += 1`
      repaired   `… and kind.is_positional() and n == i` (only a contiguous prefix of positionals counts) -/
def estep (c : DCfg) (strLen : Nat → Nat) (contig magic : Bool) (st : ESt) (a : Arg) : ESt :=
  { cnt := if !magic && a.posOnly && (!contig || (a.kind == .pos && st.cnt == st.idx)) then st.cnt + 1 else st.cnt
    out := (if a.kind == .named && !(st.out.any Item.starred) then st.out ++ [.bareStar] else st.out)
             ++ [argItem c strLen (st.idx == 0) a]
    idx := st.idx + 1 }

/-- `list.insert(n, x)` -/
def insertAt (n : Nat) (x : α) (l : List α) : List α := l.take n ++ x :: l.drop n

def emitArgs (c : DCfg) (strLen : Nat → Nat) (contig magic : Bool) (args : List Arg) : List Item :=
  let st := args.foldl (estep c strLen contig magic) { out := [], cnt := 0, idx := 0 }
  if st.cnt = 0 then st.out else insertAt st.cnt .slash st.out

/-! ### Python's `parameters` grammar as a parser of the items -/

inductive Phase | pre | post | kw | done       -- before `/`, after `/`, after `*`, after `**`
deriving DecidableEq, Repr

structure PSt where
  ph : Phase
  sd : Bool        -- a positional parameter with a default has been seen
  nk : Bool        -- a bare `*` is waiting for its first keyword-only parameter
  acc : List Summ

def toPosOnly (x : Summ) : Summ := (x.1, .posOnly, x.2.2)

/-- the default of a parameter must itself be well-formed text (no mis-lexed piece) -/
def dfltLexOk : Option (List DTok) → Bool
  | none => true
  | some ts => LexOk ts

def pstep (st : PSt) (it : Item) : Option PSt :=
  match it with
  | .slash =>
    match st.ph with
    | .pre => if st.acc.isEmpty then none else some { st with ph := .post, acc := st.acc.map toPosOnly }
    | _ => none
  | .param n _ d =>
    if !dfltLexOk d then none else
    match st.ph with
    | .pre | .post =>
      if st.sd && d.isNone then none
      else some { st with sd := st.sd || d.isSome, acc := st.acc ++ [(n, .pos, d.isSome)] }
    | .kw => some { st with nk := false, acc := st.acc ++ [(n, .kwOnly, d.isSome)] }
    | .done => none
  | .bareStar =>
    match st.ph with
    | .pre | .post => some { st with ph := .kw, nk := true }
    | _ => none
  | .vararg n _ =>
    match st.ph with
    | .pre | .post => some { st with ph := .kw, nk := false, acc := st.acc ++ [(n, .varArg, false)] }
    | _ => none
  | .kwarg n _ =>
    match st.ph with
    | .done => none
    | _ => if st.nk then none else some { st with ph := .done, acc := st.acc ++ [(n, .kwArg, false)] }

def PSt.init : PSt := { ph := .pre, sd := false, nk := false, acc := [] }

def run : PSt → List Item → Option PSt
  | st, [] => some st
  | st, it :: rest => (pstep st it).bind fun st' => run st' rest

/-- names, kinds and has-default flags Python reads off the emitted parameter list (`none` = SyntaxError) -/
def parseItems (items : List Item) : Option (List Summ) :=
  (run PSt.init items).bind fun st => if st.nk then none else some st.acc

/-! ### the canonical shape of a parameter list (for `sig_valid`) -/

def Item.isParam : Item → Bool
  | .param _ _ _ => true
  | _ => false

def Item.hasD : Item → Bool
  | .param _ _ d => d.isSome
  | _ => false

/-- Python's `parameters` production, as a predicate on the emitted items:
    `po* ["/"] pp* ["*args" | "*" kw+ | kw = ε] kw* ["**kwargs"]` with the compiler's rule on defaults. -/
def GrammarShape (items : List Item) : Prop :=
  ∃ (po slash pp star kw ka : List Item),
    items = po ++ slash ++ pp ++ star ++ kw ++ ka ∧
    (∀ x ∈ po ++ pp ++ kw, x.isParam = true) ∧
    ((slash = [] ∧ po = []) ∨ (slash = [Item.slash] ∧ po ≠ [])) ∧                 -- `/` only after ≥ 1 positional-only
    ((star = [] ∧ kw = []) ∨ (∃ n a, star = [Item.vararg n a]) ∨ (star = [Item.bareStar] ∧ kw ≠ [])) ∧  -- at most one `*`
    (ka = [] ∨ ∃ n a, ka = [Item.kwarg n a]) ∧                                      -- at most one `**`, last
    mono false ((po ++ pp).map Item.hasD) = true                                    -- no non-default after default


end StubSig
