import MypyVerif.Model.Errors
/-
Model of how `mypy/main.py : main` computes the process exit status — hand-written, import-free,
executable.

    n_errors, n_notes, n_files = util.count_stats(messages)      # mypy/util.py
    if messages and n_notes < len(messages):
        code = 2 if blockers else 1

    def count_stats(messages):                                    # rule `substring` (the tree as found)
        errors = [e for e in messages if ": error:" in e]
        notes  = [e for e in messages if ": note:" in e]
    def count_stats(messages):                                    # rule `firstMarker` (after the F5 fix)
        errors = [e for e in messages if message_severity(e) == "error"]
        notes  = [e for e in messages if message_severity(e) == "note"]

`messages` are the formatted lines (`Errors.format_messages_default`, neither `--pretty` nor column
numbers): `f"{srcloc}: {severity}: {message}"` + `f"  [{code}]"`.  Texts are lists of characters.
-/
namespace ExitStatus
open Errors (Sev)

def isPrefix : List Char → List Char → Bool
  | [], _ => true
  | _ :: _, [] => false
  | p :: ps, c :: cs => p == c && isPrefix ps cs

/-- Python's `p in s` for strings -/
def isInfix (p : List Char) : List Char → Bool
  | [] => isPrefix p []
  | c :: cs => isPrefix p (c :: cs) || isInfix p cs

def noteMarker : List Char := [':', ' ', 'n', 'o', 't', 'e', ':']
def errorMarker : List Char := [':', ' ', 'e', 'r', 'r', 'o', 'r', ':']

/-- one ErrorTuple that has a file, as `format_messages_default` sees it -/
structure Line where
  /-- `file:line` (or `file` when the line is unknown) -/
  srcloc : List Char
  sev : Sev
  message : List Char
  /-- `"  [code]"` when the code is shown, else empty -/
  codeSuffix : List Char
deriving Repr, DecidableEq

def sevText : Sev → List Char
  | .error => ['e', 'r', 'r', 'o', 'r']
  | .note => ['n', 'o', 't', 'e']

def format (l : Line) : List Char :=
  l.srcloc ++ [':', ' '] ++ sevText l.sev ++ [':', ' '] ++ l.message ++ l.codeSuffix

/-- which of the two markers starts first in `s` (Python: compare the two `str.find` results) -/
def firstMarker : List Char → Option Sev
  | [] => none
  | c :: cs =>
    if isPrefix errorMarker (c :: cs) then some .error
    else if isPrefix noteMarker (c :: cs) then some .note
    else firstMarker cs

/-- how `util.count_stats` decides the severity of a formatted line; which one the checked tree uses is
    recognised by translate/exitrule.py (`Gen/ExitRule.lean`)
    * `substring`:   `": error:" in e` / `": note:" in e`   (a line can be both)
    * `firstMarker`: `util.message_severity(e)`: the marker that occurs first -/
inductive Rule | substring | firstMarker | unknown
deriving Repr, DecidableEq

def isNoteLine : Rule → List Char → Bool
  | .substring, s => isInfix noteMarker s
  | .firstMarker, s => firstMarker s == some .note
  | .unknown, _ => false

def isErrorLine : Rule → List Char → Bool
  | .substring, s => isInfix errorMarker s
  | .firstMarker, s => firstMarker s == some .error
  | .unknown, _ => false

/-- `util.count_stats`: (n_errors, n_notes) -/
def countStats (r : Rule) (messages : List (List Char)) : Nat × Nat :=
  ((messages.filter (isErrorLine r)).length, (messages.filter (isNoteLine r)).length)

/-- the status `main` exits with -/
def exitCode (r : Rule) (messages : List (List Char)) (blockers : Bool) : Nat :=
  if !messages.isEmpty && (countStats r messages).2 < messages.length then (if blockers then 2 else 1) else 0

/-- what the property says the status must be, from the severities -/
def truth (ls : List Line) (blockers : Bool) : Nat :=
  if blockers then 2 else if ls.any (fun l => l.sev = .error) then 1 else 0

end ExitStatus
