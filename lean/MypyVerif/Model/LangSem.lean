import MypyVerif.Model.LangTc
/-
What the types of the MiniPy fragment *mean* — the vocabulary in which C01's `soundness` is stated
(Props/C01.lean).  Hand-written, import-free.

  `hasTy P h v T`   the runtime value `v` (in heap `h`) is a member of the static type `T`
                    (PEP 484: a `bool` value is a member of `int`; everything is a member of `object`;
                    an object is a member of every class on the MRO of its runtime class)
  `HeapOK P h`      every object has a known class and carries, for every attribute *declared* for its class
                    (own or inherited), a value of the declared type
  `ArgsOK P h vs Ts`  an argument vector inhabiting the declared parameter types
-/
namespace Lang

def hasAtom (P : Prog) (h : Heap) (v : Val) (a : Atom) : Prop :=
  match a, v with
  | .object, .ref l => ∃ c, classOf h l = some c      -- a reference is a member of `object` if it is not dangling
  | .object, _ => True
  | .int, .int _ => True
  | .int, .bool _ => True
  | .bool, .bool _ => True
  | .str, .str _ => True
  | .none, .none => True
  | .cls d, .ref l => ∃ c, classOf h l = some c ∧ isSub P c d = true
  | _, _ => False

def hasTy (P : Prog) (h : Heap) (v : Val) (T : Ty) : Prop := ∃ a, a ∈ T ∧ hasAtom P h v a

def HeapOK (P : Prog) (h : Heap) : Prop :=
  ∀ (l : Nat) (o : Obj), h[l]? = some o →
    (∃ cd, P.classes[o.cls]? = some cd) ∧
    ∀ f T, lookupAttr P o.cls f = some T → ∃ w, lookup f o.fields = some w ∧ hasTy P h w T

def ArgsOK (P : Prog) (h : Heap) : List Val → List Ty → Prop
  | [], [] => True
  | v :: vs, T :: Ts => hasTy P h v T ∧ ArgsOK P h vs Ts
  | _, _ => False

end Lang
