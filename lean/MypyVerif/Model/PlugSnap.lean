/-
Model of how cache entries are tied to the plugins they were computed with (mypy/build.py:
`options_snapshot`, `find_cache_meta`, `write_plugins_snapshot`, `dispatch`), core Lean only, executable.

A run with plugins version `q` over the modules `build` re-analyses every module of `build` whose entry it does
not trust and rewrites that entry; entries of modules outside `build` are not touched; at the very end the global
record `@plugins_snapshot.json` is set to `q`.  A kill leaves a prefix of these operations.

Two trust rules:
  * global only (the code before /repo 3cdd47f): an entry is trusted iff the global record equals `q`
    (an absent record is not compared);
  * per entry (`Cfg.entryRecordsPlugins`, regenerated from `options_snapshot` by translate/plugcfg.py): the entry's
    own options snapshot contains the plugins version it was written with and must equal `q` as well.
-/
namespace PlugSnap

structure Entry where
  analysed : Nat        -- plugins version the results in the entry were computed with (ghost)
  recorded : Nat        -- plugins version stored inside the entry's options snapshot
deriving Repr, DecidableEq

structure St where
  snap : Option Nat
  ent : Nat → Option Entry

structure Cfg where
  entryRecordsPlugins : Bool
deriving Repr, DecidableEq

inductive Op
  | rewrite (m : Nat) (q : Nat)
  | setSnap (q : Nat)
deriving Repr, DecidableEq

def St.set (s : St) (m : Nat) (e : Entry) : St := { s with ent := fun x => if x = m then some e else s.ent x }

def apply (s : St) : Op → St
  | .rewrite m q => s.set m { analysed := q, recorded := q }
  | .setSnap q => { s with snap := some q }

def applyAll (s : St) (ops : List Op) : St := ops.foldl apply s

/-- the entry of `m` is trusted by a run with plugins version `q` -/
def trusted (cfg : Cfg) (s : St) (q : Nat) (m : Nat) : Bool :=
  match s.ent m with
  | none => false
  | some e =>
    (match s.snap with | some p => p == q | none => true) && (!cfg.entryRecordsPlugins || e.recorded == q)

/-- the operations of a complete run -/
def runOps (cfg : Cfg) (s : St) (q : Nat) (build : List Nat) : List Op :=
  ((build.filter (fun m => !trusted cfg s q m)).map (fun m => Op.rewrite m q)) ++ [Op.setSnap q]

/-- one run, possibly killed after `k` operations -/
structure Run where
  q : Nat
  build : List Nat
  k : Nat

def step (cfg : Cfg) (s : St) (r : Run) : St := applyAll s ((runOps cfg s r.q r.build).take r.k)

def history (cfg : Cfg) (s : St) (rs : List Run) : St := rs.foldl (step cfg) s

def empty : St := { snap := none, ent := fun _ => none }

end PlugSnap
