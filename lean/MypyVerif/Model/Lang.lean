/-
"MiniPy" — the fragment of Python on which C01 ("accepted programs do not go wrong") is *proved*
(stage 1: classes, Optional/Union, isinstance/None narrowing, if/while; stage 2: truthiness of Optional[class]
locals, `<`, `-`, break/continue, un-annotated first assignments; stage 3: multiple inheritance — the MRO is part
of the program term, taken from Python's `__mro__`; stage 4: `raise` / `try … except (E…) … else … finally` over a
fixed set of exception classes, Python-level failures unwind through `finally` like any exception; stage 5: classes
with a user-defined `__bool__`).
Hand-written, import-free, executable.  This file: syntax, the class table, values, and the dynamic side —
a big-step fuel interpreter `evalE / evalS` with CPython's behaviour on the fragment:

  * attribute read  `e.f`          instance dictionary only (class bodies carry annotations, no values):
                                   missing → AttributeError; receiver `None`/int/str/bool → AttributeError
  * method call     `e.m(a…)`      `type(e).__mro__` lookup — C3 order under multiple inheritance — (AttributeError
                                   when absent), *then* the arguments
                                   left to right, then the arity check (TypeError)
  * function call   `f(a…)`        arguments left to right, arity check (TypeError)
  * constructor     `C(a…)`        arguments, arity check of `C.__init__` (TypeError), then the body of
                                   `__init__`, which in this fragment is a list of `self.f = e` with `e` over the
                                   parameters only (no `self` on a right-hand side), so "evaluate the right-hand
                                   sides in order, then allocate the finished object" is observationally the same
  * `isinstance(x, C)`, `x is None`, `x is not None`, `not`, `and`, `or` (operand value, short-circuit), `==`
    (numeric across int/bool, structural on str, identity on objects); the truth value of a condition / operand
    of `not`, `and`, `or` is `bool(v)`: a user-defined `__bool__` (method id 9) decides for instances of a class
    that has one (it must take no argument and return a bool, else TypeError), other instances are true;
    `+` (int/bool → int, str+str → str, anything else TypeError), `-` (int/bool → int), `<` (int/bool numerically, str lexicographically, else TypeError), `probe(k, e)` (records the value of `e`, returns None)
  * statements: `x: T = e`, `x = e`, `e.f = e'` (right-hand side first, as CPython does), expression statement,
    `return e`, `if/else` (elif = nested), `while` with `break`/`continue`, sequencing, `pass`, `raise E()`,
    `try/except (E…)/else/finally` (one handler clause naming the caught classes)
  * reading a local that was never assigned is `UnboundLocalError` (`Fail.unbound`) — not one of the failures
    the property speaks about.

The static side (`tc`, the algorithmic mirror of mypy's checker on this fragment) is in `Model/LangTc.lean`.

Strings are lists of code points (`List Nat`) so that kernel evaluation (`decide`) of examples stays cheap.
Locals are numbered: in a function `0 … params-1` are the parameters; in a method `0` is `self`.
-/
namespace Lang

/-! ## Types -/

/-- one item of a (flat) union -/
inductive Atom where
  | int | str | bool | none | object
  | cls (c : Nat)
deriving DecidableEq, Repr, Inhabited

/-- A type is a flat union of atoms: `[a]` is the plain type `a`, `[]` is `Never`,
    `[cls 1, none]` is `Optional[K1]`. -/
abbrev Ty := List Atom

/-! ## Syntax -/

inductive Expr where
  | intLit (n : Int)
  | strLit (s : List Nat)
  | boolLit (b : Bool)
  | noneLit
  | var (x : Nat)
  | attr (e : Expr) (f : Nat)
  | callM (e : Expr) (m : Nat) (args : List Expr)
  | callF (f : Nat) (args : List Expr)
  | new (c : Nat) (args : List Expr)
  | isinst (x : Nat) (c : Nat)
  | isNone (x : Nat) (neg : Bool)        -- `x is None` (neg = false) / `x is not None` (neg = true)
  | not (e : Expr)
  | and (a b : Expr)
  | or (a b : Expr)
  | eq (a b : Expr)
  | add (a b : Expr)
  | sub (a b : Expr)
  | lt (a b : Expr)
  | probe (k : Nat) (e : Expr)
deriving Repr, Inhabited

inductive Stmt where
  | pass
  | decl (x : Nat) (e : Expr)            -- `x: T = e`, T = the declared type of local x
  | assign (x : Nat) (e : Expr)          -- `x = e`
  | infer (x : Nat) (e : Expr)           -- the first, un-annotated `x = e`: defines x with the type of e
  | setAttr (o : Expr) (f : Nat) (e : Expr)
  | expr (e : Expr)
  | ret (e : Expr)
  | ite (c : Expr) (t e : Stmt)
  | while (c : Expr) (b : Stmt)
  | seq (a b : Stmt)
  | brk
  | cont
  | raise (k : Nat)                       -- `raise E_k()` for a small fixed set of exception classes
  /-- `try: b except (kinds…): h else: els finally: fin` (`hasFin = false`: no finally clause) -/
  | tryS (b : Stmt) (kinds : List Nat) (h els fin : Stmt) (hasFin : Bool)
deriving Repr, Inhabited

structure FuncDef where
  params : List Ty                        -- declared parameter types (methods: without `self`)
  locals : List Ty                        -- declared types of the remaining locals
  ret : Ty
  body : Stmt
deriving Repr, Inhabited

structure InitDef where
  params : List Ty
  assigns : List (Nat × Expr)             -- `self.f = e`, `e` over the parameters (locals 0 … n-1)
deriving Repr, Inhabited

structure ClassDef where
  bases : List Nat                        -- direct base classes, in order (multiple inheritance)
  mro : List Nat                          -- `__mro__`: the class itself first (`WF` checks coherence)
  attrs : List (Nat × Ty)                 -- annotated attributes declared in this class body
  init : InitDef
  methods : List (Nat × FuncDef)
deriving Repr, Inhabited

structure Prog where
  classes : List ClassDef
  funcs : List FuncDef
deriving Repr, Inhabited

/-! ## Class table -/

def lookup {α : Type} (k : Nat) : List (Nat × α) → Option α
  | [] => none
  | (k', a) :: r => if k' = k then some a else lookup k r

def mroOf (P : Prog) (c : Nat) : List Nat :=
  match P.classes[c]? with
  | some cd => cd.mro
  | none => []

/-- `issubclass(c, d)` -/
def isSub (P : Prog) (c d : Nat) : Bool := (mroOf P c).contains d

def ownAttr (P : Prog) (c f : Nat) : Option Ty :=
  match P.classes[c]? with
  | some cd => lookup f cd.attrs
  | none => none

def ownMeth (P : Prog) (c m : Nat) : Option FuncDef :=
  match P.classes[c]? with
  | some cd => lookup m cd.methods
  | none => none

def findAttr (P : Prog) (f : Nat) : List Nat → Option Ty
  | [] => none
  | k :: ks => match ownAttr P k f with
    | some T => some T
    | none => findAttr P f ks

def findMeth (P : Prog) (m : Nat) : List Nat → Option (Nat × FuncDef)
  | [] => none
  | k :: ks => match ownMeth P k m with
    | some fd => some (k, fd)
    | none => findMeth P m ks

/-- declared type of attribute `f` seen from class `c` (first definition along the MRO) -/
def lookupAttr (P : Prog) (c f : Nat) : Option Ty := findAttr P f (mroOf P c)

/-- method `m` seen from class `c`: defining class and definition -/
def lookupMeth (P : Prog) (c m : Nat) : Option (Nat × FuncDef) := findMeth P m (mroOf P c)

/-! ## Values, heap, state -/

inductive Val where
  | int (n : Int)
  | str (s : List Nat)
  | bool (b : Bool)
  | none
  | ref (l : Nat)
deriving DecidableEq, Repr, Inhabited

structure Obj where
  cls : Nat
  fields : List (Nat × Val)
deriving DecidableEq, Repr, Inhabited

abbrev Heap := List Obj

structure State where
  heap : Heap
  log : List (Nat × Val)                  -- probe events, newest first
deriving DecidableEq, Repr, Inhabited

inductive Fail where
  | typeError | attrError                 -- the two failures C01 is about
  | unbound                               -- UnboundLocalError
  | stuck                                 -- dangling reference / unknown function or class (shown impossible)
  | timeout                               -- out of fuel
  | exc (k : Nat)                         -- an exception of class k (ValueError, IndexError, KeyError …) on its way up
deriving DecidableEq, Repr, Inhabited

abbrev Store := List (Option Val)

/-- how a statement ends, with the locals at that point (a `finally` clause runs on every one of them) -/
inductive Ctl where
  | normal (σ : Store)
  | ret (v : Val) (σ : Store)
  | brk (σ : Store)                       -- `break` on its way to the enclosing loop
  | cont (σ : Store)                      -- `continue`
  | exc (f : Fail) (σ : Store)            -- an exception (also TypeError & co.) raised in this frame, unwinding
deriving DecidableEq, Repr, Inhabited

def Ctl.store : Ctl → Store
  | .normal σ => σ | .ret _ σ => σ | .brk σ => σ | .cont σ => σ | .exc _ σ => σ

def Ctl.withStore : Ctl → Store → Ctl
  | .normal _, σ => .normal σ | .ret v _, σ => .ret v σ | .brk _, σ => .brk σ | .cont _, σ => .cont σ
  | .exc f _, σ => .exc f σ

instance {ε α : Type} [DecidableEq ε] [DecidableEq α] : DecidableEq (Except ε α)
  | .ok a, .ok b => if h : a = b then isTrue (by rw [h]) else isFalse (by intro hc; cases hc; exact h rfl)
  | .error a, .error b => if h : a = b then isTrue (by rw [h]) else isFalse (by intro hc; cases hc; exact h rfl)
  | .ok _, .error _ => isFalse (by intro h; cases h)
  | .error _, .ok _ => isFalse (by intro h; cases h)

/-- state + failure monad; the state at the point of failure is kept -/
abbrev M (α : Type) := State → Except Fail α × State

def M.pure {α : Type} (a : α) : M α := fun s => (.ok a, s)
def M.fail {α : Type} (f : Fail) : M α := fun s => (.error f, s)
def M.bind {α β : Type} (m : M α) (f : α → M β) : M β := fun s =>
  match m s with
  | (.ok a, s') => f a s'
  | (.error e, s') => (.error e, s')

def getVar (σ : Store) (x : Nat) : Option Val :=
  match σ[x]? with
  | some (some v) => some v
  | _ => none

def readVar (σ : Store) (x : Nat) : M Val :=
  match getVar σ x with
  | some v => M.pure v
  | none => M.fail .unbound

def classOf (h : Heap) (l : Nat) : Option Nat :=
  match h[l]? with
  | some o => some o.cls
  | none => none

def truthy : Val → Bool
  | .int n => n != 0
  | .str s => !s.isEmpty
  | .bool b => b
  | .none => false
  | .ref _ => true

def toInt? : Val → Option Int
  | .int n => some n
  | .bool b => some (if b then 1 else 0)
  | _ => none

def valEq : Val → Val → Bool
  | .str a, .str b => a == b
  | .none, .none => true
  | .ref a, .ref b => a == b
  | a, b => match toInt? a, toInt? b with
    | some x, some y => x == y
    | _, _ => false

def addVal : Val → Val → Option Val
  | .str a, .str b => some (.str (a ++ b))
  | a, b => match toInt? a, toInt? b with
    | some x, some y => some (.int (x + y))
    | _, _ => none

def subVal : Val → Val → Option Val
  | a, b => match toInt? a, toInt? b with
    | some x, some y => some (.int (x - y))
    | _, _ => none

/-- lexicographic order on code points (Python's `str.__lt__`) -/
def ltList : List Nat → List Nat → Bool
  | [], [] => false
  | [], _ :: _ => true
  | _ :: _, [] => false
  | a :: r, b :: t => if a < b then true else if b < a then false else ltList r t

def ltVal : Val → Val → Option Bool
  | .str a, .str b => some (ltList a b)
  | a, b => match toInt? a, toInt? b with
    | some x, some y => some (decide (x < y))
    | _, _ => none

def setField (f : Nat) (v : Val) : List (Nat × Val) → List (Nat × Val)
  | [] => [(f, v)]
  | (f', w) :: r => if f' = f then (f, v) :: r else (f', w) :: setField f v r

/-- `e.f` on a value -/
def getAttr (v : Val) (f : Nat) : M Val := fun st =>
  match v with
  | .ref l => match st.heap[l]? with
    | some o => match lookup f o.fields with
      | some w => (.ok w, st)
      | none => (.error .attrError, st)
    | none => (.error .stuck, st)
  | _ => (.error .attrError, st)

/-- `o.f = v` on values -/
def putAttr (o : Val) (f : Nat) (v : Val) : M Unit := fun st =>
  match o with
  | .ref l => match st.heap[l]? with
    | some ob => (.ok (), { st with heap := st.heap.set l { ob with fields := setField f v ob.fields } })
    | none => (.error .stuck, st)
  | _ => (.error .attrError, st)

def alloc (c : Nat) (fields : List (Nat × Val)) : M Val := fun st =>
  (.ok (.ref st.heap.length), { st with heap := st.heap ++ [{ cls := c, fields := fields }] })

def logProbe (k : Nat) (v : Val) : M Unit := fun st =>
  (.ok (), { st with log := (k, v) :: st.log })

/-- `isinstance(v, C)` for a user class `C` -/
def instOf (P : Prog) (c : Nat) (v : Val) : M Bool := fun st =>
  match v with
  | .ref l => match classOf st.heap l with
    | some k => (.ok (isSub P k c), st)
    | none => (.error .stuck, st)
  | _ => (.ok false, st)

/-- dynamic method lookup on a receiver value -/
def methOf (P : Prog) (v : Val) (m : Nat) : M FuncDef := fun st =>
  match v with
  | .ref l => match classOf st.heap l with
    | some k => match lookupMeth P k m with
      | some (_, fd) => (.ok fd, st)
      | none => (.error .attrError, st)
    | none => (.error .stuck, st)
  | _ => (.error .attrError, st)

def initStore (fd : FuncDef) (args : List Val) : Store :=
  args.map some ++ List.replicate fd.locals.length none

/-- run a function body (`ev` = `evalS n P`) on argument values -/
def callBody (ev : Store → Stmt → M Ctl) (fd : FuncDef) (args : List Val) : M Val :=
  M.bind (ev (initStore fd args) fd.body) fun
    | .normal _ => M.pure .none
    | .ret v _ => M.pure v
    | .exc f _ => M.fail f                -- propagates to the caller
    | _ => M.fail .stuck                  -- `break`/`continue` outside a loop: a SyntaxError in Python

/-- the method id that stands for `__bool__` -/
def boolMeth : Nat := 9

/-- `__bool__` must return a bool (else CPython raises TypeError) -/
def asBool (r : Val) : M Bool :=
  match r with
  | .bool b => M.pure b
  | _ => M.fail .typeError

/-- `bool(v)` as Python computes it for a condition (`ev` = `evalS n P`): a user-defined `__bool__` decides for
    instances of a class that has one (it must return a bool), other instances are true -/
def truthOf (ev : Store → Stmt → M Ctl) (P : Prog) (v : Val) : M Bool := fun st =>
  match v with
  | .ref l =>
    match classOf st.heap l with
    | some k =>
      match lookupMeth P k boolMeth with
      | some (_, fd) =>
        if fd.params.isEmpty then
          (M.bind (callBody ev fd [v]) asBool) st
        else (.error .typeError, st)
      | none => (.ok true, st)
    | none => (.error .stuck, st)
  | _ => (.ok (truthy v), st)

/-- evaluate an expression inside a statement: an exception raised by it (in a callee) becomes the
    statement's outcome, with the locals as they are (expressions do not assign locals) -/
def liftE {α : Type} (σ : Store) (m : M α) (f : α → M Ctl) : M Ctl := fun st =>
  match m st with
  | (.ok a, st') => f a st'
  | (.error .timeout, st') => (.error .timeout, st')      -- not Python exceptions: nothing unwinds
  | (.error .stuck, st') => (.error .stuck, st')
  | (.error e, st') => (.ok (.exc e σ), st')

/-- after the body of a try statement (`ev` = `evalS n P`): a caught exception runs the handler, normal completion
    runs the else clause (not protected by the handler), everything else passes -/
def tryStep (ev : Store → Stmt → M Ctl) (kinds : List Nat) (h els : Stmt) (c1 : Ctl) : M Ctl :=
  match c1 with
  | .exc (.exc k) σ1 => if kinds.contains k then ev σ1 h else M.pure (.exc (.exc k) σ1)
  | .normal σ1 => ev σ1 els
  | other => M.pure other

/-- the finally clause runs on every outcome; if it completes, the pending outcome resumes with the locals it
    left, otherwise its own return / raise / break wins -/
def finStep (ev : Store → Stmt → M Ctl) (fin : Stmt) (hasFin : Bool) (c2 : Ctl) : M Ctl :=
  if hasFin then
    M.bind (ev c2.store fin) fun
      | .normal σ3 => M.pure (c2.withStore σ3)
      | other => M.pure other
  else M.pure c2

/-! ## The interpreter (structural recursion on the fuel; every recursive call uses one unit) -/

mutual
def evalE : Nat → Prog → Store → Expr → M Val
  | 0, _, _, _ => M.fail .timeout
  | n+1, P, σ, e =>
    match e with
    | .intLit k => M.pure (.int k)
    | .strLit s => M.pure (.str s)
    | .boolLit b => M.pure (.bool b)
    | .noneLit => M.pure .none
    | .var x => readVar σ x
    | .attr e f => M.bind (evalE n P σ e) fun v => getAttr v f
    | .callM e m args =>
        M.bind (evalE n P σ e) fun r =>
        M.bind (methOf P r m) fun fd =>
        M.bind (evalArgs n P σ args) fun vs =>
        if vs.length = fd.params.length then callBody (evalS n P) fd (r :: vs) else M.fail .typeError
    | .callF f args =>
        match P.funcs[f]? with
        | none => M.fail .stuck
        | some fd =>
          M.bind (evalArgs n P σ args) fun vs =>
          if vs.length = fd.params.length then callBody (evalS n P) fd vs else M.fail .typeError
    | .new c args =>
        match P.classes[c]? with
        | none => M.fail .stuck
        | some cd =>
          M.bind (evalArgs n P σ args) fun vs =>
          if vs.length = cd.init.params.length then
            M.bind (evalFields n P (vs.map some) cd.init.assigns []) fun fs => alloc c fs
          else M.fail .typeError
    | .isinst x c => M.bind (readVar σ x) fun v => M.bind (instOf P c v) fun b => M.pure (.bool b)
    | .isNone x neg => M.bind (readVar σ x) fun v => M.pure (.bool ((v == .none) != neg))
    | .not e => M.bind (evalE n P σ e) fun v => M.bind (truthOf (evalS n P) P v) fun t => M.pure (.bool (!t))
    | .and a b => M.bind (evalE n P σ a) fun v => M.bind (truthOf (evalS n P) P v) fun t =>
        if t then evalE n P σ b else M.pure v
    | .or a b => M.bind (evalE n P σ a) fun v => M.bind (truthOf (evalS n P) P v) fun t =>
        if t then M.pure v else evalE n P σ b
    | .eq a b => M.bind (evalE n P σ a) fun v => M.bind (evalE n P σ b) fun w => M.pure (.bool (valEq v w))
    | .add a b =>
        M.bind (evalE n P σ a) fun v => M.bind (evalE n P σ b) fun w =>
        match addVal v w with
        | some r => M.pure r
        | none => M.fail .typeError
    | .sub a b =>
        M.bind (evalE n P σ a) fun v => M.bind (evalE n P σ b) fun w =>
        match subVal v w with
        | some r => M.pure r
        | none => M.fail .typeError
    | .lt a b =>
        M.bind (evalE n P σ a) fun v => M.bind (evalE n P σ b) fun w =>
        match ltVal v w with
        | some r => M.pure (.bool r)
        | none => M.fail .typeError
    | .probe k e => M.bind (evalE n P σ e) fun v => M.bind (logProbe k v) fun _ => M.pure .none

def evalArgs : Nat → Prog → Store → List Expr → M (List Val)
  | 0, _, _, _ => M.fail .timeout
  | n+1, P, σ, es =>
    match es with
    | [] => M.pure []
    | e :: r => M.bind (evalE n P σ e) fun v => M.bind (evalArgs n P σ r) fun vs => M.pure (v :: vs)

/-- the body of `__init__`: `self.f = e` … accumulated into the instance dictionary -/
def evalFields : Nat → Prog → Store → List (Nat × Expr) → List (Nat × Val) → M (List (Nat × Val))
  | 0, _, _, _, _ => M.fail .timeout
  | n+1, P, σ, as, acc =>
    match as with
    | [] => M.pure acc
    | (f, e) :: r => M.bind (evalE n P σ e) fun v => evalFields n P σ r (setField f v acc)

def evalS : Nat → Prog → Store → Stmt → M Ctl
  | 0, _, _, _ => M.fail .timeout
  | n+1, P, σ, s =>
    match s with
    | .pass => M.pure (.normal σ)
    | .decl x e => liftE σ (evalE n P σ e) fun v => M.pure (.normal (σ.set x (some v)))
    | .assign x e => liftE σ (evalE n P σ e) fun v => M.pure (.normal (σ.set x (some v)))
    | .infer x e => liftE σ (evalE n P σ e) fun v => M.pure (.normal (σ.set x (some v)))
    | .setAttr o f e =>
        liftE σ (evalE n P σ e) fun v => liftE σ (evalE n P σ o) fun r =>
        liftE σ (putAttr r f v) fun _ => M.pure (.normal σ)
    | .expr e => liftE σ (evalE n P σ e) fun _ => M.pure (.normal σ)
    | .ret e => liftE σ (evalE n P σ e) fun v => M.pure (.ret v σ)
    | .ite c t e => liftE σ (evalE n P σ c) fun v => liftE σ (truthOf (evalS n P) P v) fun tv =>
        if tv then evalS n P σ t else evalS n P σ e
    | .while c b =>
        liftE σ (evalE n P σ c) fun v => liftE σ (truthOf (evalS n P) P v) fun tv =>
        if tv then
          M.bind (evalS n P σ b) fun
            | .normal σ' => evalS n P σ' (.while c b)
            | .cont σ' => evalS n P σ' (.while c b)
            | .brk σ' => M.pure (.normal σ')
            | other => M.pure other
        else M.pure (.normal σ)
    | .seq a b =>
        M.bind (evalS n P σ a) fun
          | .normal σ' => evalS n P σ' b
          | other => M.pure other
    | .brk => M.pure (.brk σ)
    | .cont => M.pure (.cont σ)
    | .raise k => M.pure (.exc (.exc k) σ)
    | .tryS b kinds h els fin hasFin =>
        M.bind (evalS n P σ b) fun c1 =>
        M.bind (tryStep (evalS n P) kinds h els c1) (finStep (evalS n P) fin hasFin)
end

/-- call function `fd` on argument values -/
def evalCall (n : Nat) (P : Prog) (fd : FuncDef) (args : List Val) : M Val :=
  if args.length = fd.params.length then callBody (evalS n P) fd args else M.fail .typeError

end Lang
