/-
Model of stubgen's import bookkeeping — hand-written, import-free, executable.

  mypy/stubutil.py  ImportTracker.add_import_from / add_import / require_name / reexport / import_lines
                    BaseStubGenerator.add_name (alias `_name` when the name is defined locally)

Dotted names are lists of components (`a.b.c` = [a, b, c]); a module given to `from … import` is an opaque
string (it may be relative: `.`, `..base`).  Python dicts are association lists (first match wins; an update
removes the old binding), sets are duplicate-free lists.  `import_lines` sorts its output; the model returns
the *set* of lines (the order is immaterial to what the lines bind), each line structured.
-/
namespace StubImports

abbrev Ident := List Char
abbrev DName := List Ident

structure Tracker where
  moduleFor : List (DName × Option Ident) := []     -- module_for: name ↦ module | None
  direct : List (DName × DName) := []               -- direct_imports
  revAlias : List (DName × DName) := []             -- reverse_alias
  required : List DName := []                       -- required_names
  reexports : List DName := []

def lookup [DecidableEq κ] (k : κ) : List (κ × ν) → Option ν
  | [] => none
  | (k', v) :: r => if k' = k then some v else lookup k r

def erase [DecidableEq κ] (k : κ) (d : List (κ × ν)) : List (κ × ν) := d.filter fun p => p.1 ≠ k
def insert [DecidableEq κ] (k : κ) (v : ν) (d : List (κ × ν)) : List (κ × ν) := (k, v) :: erase k d
def hasKey [DecidableEq κ] (k : κ) (d : List (κ × ν)) : Bool := (lookup k d).isSome
def addSet [DecidableEq κ] (k : κ) (s : List κ) : List κ := if k ∈ s then s else k :: s

/-- `require_name`'s loop on the reversed component list:
    `while name not in self.direct_imports and "." in name: name = name.rsplit(".", 1)[0]` -/
def stripRev (direct : List (DName × DName)) : List Ident → List Ident
  | [] => []
  | [x] => [x]
  | x :: y :: rest =>
    if hasKey (x :: y :: rest).reverse direct then x :: y :: rest else stripRev direct (y :: rest)

def requireTarget (direct : List (DName × DName)) (name : DName) : DName :=
  (stripRev direct name.reverse).reverse

def Tracker.requireName (t : Tracker) (name : DName) : Tracker :=
  { t with required := addSet (requireTarget t.direct name) t.required }

def Tracker.reexport (t : Tracker) (name : DName) : Tracker :=
  let t' := t.requireName name
  { t' with reexports := addSet name t'.reexports }

/-- one `(name, alias)` pair of `add_import_from` -/
def Tracker.addFromOne (t : Tracker) (module : Ident) (require : Bool) (na : Ident × Option Ident) : Tracker :=
  let key : DName := [na.2.getD na.1]
  let t1 : Tracker :=
    match na.2 with
    | some a => { t with moduleFor := insert [a] (some module) t.moduleFor, revAlias := insert [a] [na.1] t.revAlias }
    | none => { t with moduleFor := insert [na.1] (some module) t.moduleFor, revAlias := erase [na.1] t.revAlias }
  let t2 := if require then t1.requireName key else t1
  { t2 with direct := erase key t2.direct }

def Tracker.addImportFrom (t : Tracker) (module : Ident) (names : List (Ident × Option Ident)) (require : Bool) :
    Tracker :=
  names.foldl (fun t na => t.addFromOne module require na) t

/-- the non-empty prefixes of a dotted name, longest first: what `while name: … name = name.rpartition(".")[0]` visits -/
def nePrefixes (n : DName) : List DName :=
  (List.range n.length).map fun i => n.take (n.length - i)

def Tracker.addImport (t : Tracker) (module : DName) (alias : Option Ident) (require : Bool) : Tracker :=
  match alias with
  | some a =>
    { t with moduleFor := insert [a] none t.moduleFor, revAlias := insert [a] module t.revAlias,
             required := if require then addSet [a] t.required else t.required }
  | none =>
    let t1 := { t with required := if require then addSet module t.required else t.required }
    (nePrefixes module).foldl (fun t n =>
      { t with moduleFor := insert n none t.moduleFor, direct := insert n module t.direct,
               revAlias := erase n t.revAlias }) t1

inductive Op where
  | addImportFrom (module : Ident) (names : List (Ident × Option Ident)) (require : Bool)
  | addImport (module : DName) (alias : Option Ident) (require : Bool)
  | requireName (name : DName)
  | reexport (name : DName)

def Tracker.step (t : Tracker) : Op → Tracker
  | .addImportFrom m ns r => t.addImportFrom m ns r
  | .addImport m a r => t.addImport m a r
  | .requireName n => t.requireName n
  | .reexport n => t.reexport n

def runOps (ops : List Op) (t : Tracker := {}) : Tracker := ops.foldl Tracker.step t

inductive Line where
  | fromImport (module : Ident) (orig : DName) (alias : Option DName)   -- from module import orig [as alias]
  | importMod (module : DName) (alias : Option DName)                   -- import module [as alias]
deriving DecidableEq

/-- the line `import_lines` emits for one required name (`none`: "we haven't seen this name in an import") -/
def Tracker.lineFor (t : Tracker) (name : DName) : Option Line :=
  match lookup name t.moduleFor with
  | none => none
  | some (some m) =>
    match lookup name t.revAlias with
    | some orig => some (.fromImport m orig (some name))
    | none => if name ∈ t.reexports then some (.fromImport m name (some name)) else some (.fromImport m name none)
  | some none =>
    match lookup name t.revAlias with
    | some src => some (.importMod src (some name))
    | none => if name ∈ t.reexports then some (.importMod name (some name)) else some (.importMod name none)

def Tracker.importLines (t : Tracker) : List Line := t.required.filterMap t.lineFor

/-- the dotted names a line makes available in the stub's namespace (Python's import semantics) -/
def Line.binds : Line → List DName
  | .fromImport _ orig none => [orig]
  | .fromImport _ _ (some a) => [a]
  | .importMod m none => nePrefixes m
  | .importMod _ (some a) => [a]

def available (lines : List Line) (n : DName) : Bool := lines.any fun l => n ∈ l.binds

/-- `BaseStubGenerator.add_name`: `alias = "_" + name if name in defined_names`, then more underscores while
    the alias is defined too (`fuel` bounds the `while`; defined.length + 1 always suffices) -/
def pickAlias (defined : List Ident) : Nat → Ident → Ident
  | 0, a => a
  | fuel + 1, a => if a ∈ defined then pickAlias defined fuel ('_' :: a) else a

/-- returns the tracker and the name to write in the stub -/
def addName (defined : List Ident) (t : Tracker) (module : Ident) (name : Ident) (require : Bool) :
    Tracker × Ident :=
  let alias : Option Ident :=
    if name ∈ defined then some (pickAlias defined (defined.length + 1) ('_' :: name)) else none
  let builtins : Ident := ['b', 'u', 'i', 'l', 't', 'i', 'n', 's']
  let t' := if module ≠ builtins || alias.isSome then t.addImportFrom module [(name, alias)] require else t
  (t', alias.getD name)

end StubImports
