import MypyVerif.Model.ArgMap
/-
Model of CPython's argument binding — hand-written, import-free, executable.

  call site   (Python/ceval.c CALL / CALL_FUNCTION_EX, BUILD_MAP + DICT_MERGE): `*tuple` actuals are
              flattened into the positional arguments, explicit keywords and `**dict` actuals are merged
              left to right; a repeated key is `TypeError: got multiple values for keyword argument`
              ↦ `evalCall`
  callee      (Python/ceval.c `initialize_locals` for a code object with co_posonlyargcount, co_argcount,
              co_kwonlyargcount, CO_VARARGS, CO_VARKEYWORDS, defaults, kwdefaults) ↦ `pyBind`

Only *whether and why* binding fails is modelled (no values).  The signature is the structured `Sig`;
`Sig.toFormals` is how mypy sees the same `def` (callable `arg_kinds` / `arg_names`).
-/
namespace PyBind
open ArgMap

/-- `def f(<posonly>, /, <poskw>, *<varargs>, <kwonly>, **<varkw>)`; the last `ndef` of
    `posonly ++ poskw` have defaults; each keyword-only parameter says whether it has a default. -/
structure Sig where
  posonly : List Name
  poskw : List Name
  ndef : Nat
  varargs : Option Name
  kwonly : List (Name × Bool)
  varkw : Option Name
deriving Repr, DecidableEq

def Sig.nargs (s : Sig) : Nat := s.posonly.length + s.poskw.length      -- co_argcount

def Sig.allNames (s : Sig) : List Name :=
  s.posonly ++ s.poskw ++ s.varargs.toList ++ s.kwonly.map (·.1) ++ s.varkw.toList

/-- what the compiler guarantees for a `def` -/
def Sig.WF (s : Sig) : Prop := s.allNames.Nodup ∧ s.ndef ≤ s.nargs

instance (s : Sig) : Decidable s.WF := by unfold Sig.WF; infer_instance

/-- kind of the positional parameter number `i` -/
def Sig.posKind (s : Sig) (i : Nat) : FK := if i + s.ndef < s.nargs then .pos else .opt

def posFormals (s : Sig) : List Name → Nat → Bool → List Formal
  | [], _, _ => []
  | x :: xs, i, named =>
    { kind := s.posKind i, name := if named then some x else none } :: posFormals s xs (i + 1) named

def starFormals (s : Sig) : List Formal :=
  match s.varargs with | some v => [{ kind := .star, name := some v }] | none => []
def kwFormals (s : Sig) : List Formal :=
  s.kwonly.map (fun k => { kind := if k.2 then .namedOpt else .named, name := some k.1 })
def star2Formals (s : Sig) : List Formal :=
  match s.varkw with | some v => [{ kind := .star2, name := some v }] | none => []

/-- the callable type mypy derives from the `def` -/
def Sig.toFormals (s : Sig) : List Formal :=
  posFormals s s.posonly 0 false ++ (posFormals s s.poskw s.posonly.length true ++
    (starFormals s ++ (kwFormals s ++ star2Formals s)))

/-! ## the call site -/

inductive PyErr where
  | kwDup (x : Name)            -- got multiple values for keyword argument 'x'   (call site)
  | multiple (x : Name)         -- got multiple values for argument 'x'
  | unexpectedKw (x : Name)     -- got an unexpected keyword argument 'x'
  | posonlyAsKw                 -- got some positional-only arguments passed as keyword arguments
  | tooManyPositional           -- takes N positional arguments but M were given
  | missingPositional           -- missing N required positional arguments
  | missingKwonly               -- missing N required keyword-only arguments
deriving Repr, DecidableEq

/-- merge keys into the keyword dictionary under construction -/
def mergeKeys : List Name → List Name → Except PyErr (List Name)
  | acc, [] => .ok acc
  | acc, k :: ks => if acc.contains k then .error (.kwDup k) else mergeKeys (acc ++ [k]) ks

/-- evaluated call: number of positional arguments, keyword names in order; `none` when an actual has
    no statically known length / key set -/
def evalCall : List Actual → Nat → List Name → Option (Except PyErr (Nat × List Name))
  | [], n, kws => some (.ok (n, kws))
  | .pos :: as, n, kws => evalCall as (n + 1) kws
  | .star (some k) :: as, n, kws => evalCall as (n + k) kws
  | .star none :: _, _, _ => none
  | .named x :: as, n, kws =>
    match mergeKeys kws [x] with
    | .ok kws' => evalCall as n kws'
    | .error e => some (.error e)
  | .star2 (some ks) :: as, n, kws =>
    match mergeKeys kws ks with
    | .ok kws' => evalCall as n kws'
    | .error e => some (.error e)
  | .star2 none :: _, _, _ => none

/-! ## initialize_locals -/

/-- position of the first occurrence -/
def indexOf : List Name → Name → Option Nat
  | [], _ => none
  | y :: ys, x => if y = x then some 0 else (indexOf ys x).map (· + 1)

/-- search `co_varnames[co_posonlyargcount : total_args]` for the keyword; result: slot number -/
def findSlot (s : Sig) (x : Name) : Option Nat :=
  match indexOf s.poskw x with
  | some j => some (s.posonly.length + j)
  | none =>
    match indexOf (s.kwonly.map (·.1)) x with
    | some j => some (s.nargs + j)
    | none => none

/-- the keyword loop: `filled` = slots already holding a value; `all` = every keyword of the call
    (`positional_only_passed_as_keyword` inspects all of them at the first unmatched keyword) -/
def kwLoop (s : Sig) (all : List Name) : List Name → List Nat → Except PyErr (List Nat)
  | [], filled => .ok filled
  | x :: xs, filled =>
    match findSlot s x with
    | some j => if filled.contains j then .error (.multiple x) else kwLoop s all xs (filled ++ [j])
    | none =>
      if s.varkw.isSome then kwLoop s all xs filled        -- PyDict_SetItem(kwdict, keyword, value)
      else if all.any (s.posonly.contains ·) then .error .posonlyAsKw
      else .error (.unexpectedKw x)

/-- `initialize_locals`: the first error raised, in CPython's order of checks -/
def pyBind (s : Sig) (npos : Nat) (kws : List Name) : Option PyErr :=
  let n := min npos s.nargs                       -- positional arguments copied into slots 0..n-1
  match kwLoop s kws kws (List.range n) with
  | .error e => some e
  | .ok filled =>
    if npos > s.nargs ∧ s.varargs.isNone then some .tooManyPositional
    else if (List.range (s.nargs - s.ndef)).any (fun i => !filled.contains i) then some .missingPositional
    else if (s.kwonly.zipIdx.any fun (k, j) => !k.2 && !filled.contains (s.nargs + j)) then some .missingKwonly
    else none

/-- what CPython does with the call: `none` = not statically determined, `some none` = binds,
    `some (some e)` = raises `TypeError` for reason `e` -/
def pyCall (s : Sig) (acts : List Actual) : Option (Option PyErr) :=
  match evalCall acts 0 [] with
  | none => none
  | some (.error e) => some (some e)
  | some (.ok (n, kws)) => some (pyBind s n kws)

/-- `TypeError` is raised -/
def pyRaises (s : Sig) (acts : List Actual) : Option Bool := (pyCall s acts).map (·.isSome)

/-! ## call shapes on which the current code and CPython are known to differ (findings F8, F9)

Decidable predicates on the signature and the call; the harness uses them to recognise a known finding
narrowly, `Props/C12Bind.lean` to state `arity_iff_partial`. -/

/-- every key supplied by name: explicit keywords and `**TypedDict` keys, in order -/
def allKeys : List Actual → List Name
  | [] => []
  | .named x :: as => x :: allKeys as
  | .star2 (some ks) :: as => ks ++ allKeys as
  | _ :: as => allKeys as

/-- keys of the `**TypedDict` actuals only -/
def typedDictKeys : List Actual → List Name
  | [] => []
  | .star2 (some ks) :: as => ks ++ typedDictKeys as
  | _ :: as => typedDictKeys as

/-- mypy's mapper sends keyword `x` to the `**kwargs` formal (or, for a TypedDict key, to the `*args`
    formal of that name), where no duplicate test is made -/
def routesToStarFormal (F : List Formal) (x : Name) : Bool :=
  match nameIndex F x with
  | none => (star2Index F).isSome
  | some j => match kindAt F j with
    | some .star2 => true
    | some .star => true
    | _ => false

/-- F9 (i): a key is supplied twice (CPython: "got multiple values for keyword argument") and both
    occurrences are routed to a star formal -/
def KwDupIntoStar (F : List Formal) (acts : List Actual) : Bool :=
  (allKeys acts).any fun x => (allKeys acts).count x ≥ 2 && routesToStarFormal F x

/-- F9 (ii): a non-star formal receives exactly a `*tuple` of known length and a `**TypedDict` -- the
    `ARG_STAR`+`ARG_STAR2` exemption of `is_duplicate_mapping` applies although both sizes are known -/
def StarThenTypedDict (F : List Formal) (acts : List Actual) : Bool :=
  let ps := mapActualsToFormals F acts
  F.zipIdx.any fun (f, i) =>
    let m := mapped ps i
    !f.kind.isStar && m.length == 2 &&
      (match m[0]?.bind (fun j => acts[j]?), m[1]?.bind (fun j => acts[j]?) with
       | some (Actual.star (some _)), some (Actual.star2 (some _)) => true
       | _, _ => false)

/-- F9 (iii), only for a mapper with `Cfg.typedDictKeyMayNameStarArgs` (the code as found):
    a `**TypedDict` key is the name of the `*args` formal and there is no `**kwargs` formal:
    `map_actuals_to_formals` maps the key to the `*args` formal (the keyword branch tests
    `!= ARG_STAR`, the TypedDict branch does not), CPython raises "unexpected keyword argument" -/
def TypedDictKeyNamesStarArgs (F : List Formal) (acts : List Actual) : Bool :=
  Cfg.typedDictKeyMayNameStarArgs && (star2Index F).isNone &&
  (typedDictKeys acts).any fun x =>
    match nameIndex F x with
    | some j => kindAt F j == some .star
    | none => false

/-- F8: two `**TypedDict` actuals share a key (mypy's `ArgTypeExpander` crashes when such a key is
    routed to `**kwargs`; outside the domain of the model) -/
def TwoTypedDictsShareKey : List Actual → Bool
  | [] => false
  | .star2 (some ks) :: as => ks.any (fun x => (typedDictKeys as).contains x) || TwoTypedDictsShareKey as
  | _ :: as => TwoTypedDictsShareKey as

/-- every `*`/`**` actual has a statically known length / key set -/
def AllKnown : List Actual → Bool
  | [] => true
  | .star none :: _ => false
  | .star2 none :: _ => false
  | _ :: as => AllKnown as

end PyBind
