import MypyVerif.Model.Ipc
/-
Model of `dmypy_server.Server.serve` (the request loop) on top of the framing model.

One loop iteration = one client connection:
  with server:                       -- accept; IPCServer starts every connection with an empty buffer
      data = receive(server)         -- read_bytes → utf-8 → json → must be a dict; failure ⇒ drop connection
      "command" not in data          -- error reply
      not isinstance(command, str)   -- error reply
      run_command                    -- unknown command / arguments do not fit ⇒ error reply
                                     -- handler raises ⇒ "Daemon crashed" reply, loop exits, status file removed
      send(reply)                    -- OSError (client hung up) ignored
      command == "stop"              -- cmd_stop removed the status file; exit

utf-8 decoding, JSON parsing and the command handlers are *parameters* (`classify`, `handle`).
-/
namespace Serve
open Ipc

/-- what the first frame of a connection amounts to after decoding and parsing -/
inductive Req
  | badUtf8 | badJson | notDict        -- `receive` raises
  | noCommand | cmdNotStr | unknown | badArgs   -- answered with {"error": ...}
  | good (cmd : Nat)                   -- a well-formed request, handled normally (not `stop`)
  | crash (cmd : Nat)                  -- a request whose handler raises an exception
  | stop
deriving Repr, DecidableEq

inductive Reply
  | error (kind : Nat)                 -- 1 no command, 2 not a string, 3 unknown command, 4 bad arguments
  | result (r : Nat)
  | crashed
  | stopped
deriving Repr, DecidableEq

/-- a client: the chunks it manages to send before it stops sending, and whether it is still there to
    read the reply -/
structure Conn where
  chunks : List (List Byte)
  hangup : Bool
deriving Repr

structure Daemon where
  alive : Bool
  statusFile : Bool
  ipc : St               -- IPCServer.buffer / message_size
  app : Nat              -- everything the command handlers keep between requests (fine-grained state …)
deriving Repr

structure Params where
  classify : List Byte → Req
  handle : Nat → Nat → Nat × Nat     -- app state → command → new app state × result

variable (P : Params)

/-- what `receive` yields: `none` = OSError (no data / undecodable / not JSON / not a dict) -/
def received (r : Option (List Byte)) : Option Req :=
  match r with
  | none => none
  | some b =>
    match P.classify b with
    | .badUtf8 | .badJson | .notDict => none
    | q => some q

/-- one iteration of the loop; second component = the reply the daemon tries to send (if any) -/
def serve (d : Daemon) (c : Conn) : Daemon × Option Reply :=
  if !d.alive then (d, none) else
  -- accept: the buffer of the previous connection is discarded
  let (s', _, r) := readBytes St.init c.chunks
  let d := { d with ipc := s' }
  match received P r with
  | none => (d, none)                                        -- drop the connection, keep serving
  | some .noCommand => (d, some (.error 1))
  | some .cmdNotStr => (d, some (.error 2))
  | some .unknown => (d, some (.error 3))
  | some .badArgs => (d, some (.error 4))
  | some (.good cmd) =>
    let (a, res) := P.handle d.app cmd
    ({ d with app := a }, some (.result res))                -- a hung-up client only loses the reply
  | some (.crash _) => ({ d with alive := false, statusFile := false }, some .crashed)
  | some .stop => ({ d with alive := false, statusFile := false }, some .stopped)
  | some _ => (d, none)   -- unreachable: badUtf8/badJson/notDict were mapped to `none` by `received`

def serveAll (d : Daemon) : List Conn → Daemon × List (Option Reply)
  | [] => (d, [])
  | c :: cs =>
    let (d1, r) := serve P d c
    let (d2, rs) := serveAll d1 cs
    (d2, r :: rs)

/-- the request a connection amounts to (fresh buffer) -/
def Conn.req (c : Conn) : Option Req := received P (readBytes St.init c.chunks).2.2

def Conn.isGood (c : Conn) : Bool :=
  match c.req P with
  | some (.good _) => true
  | _ => false

/-- neither a `stop` nor a request whose handler raises -/
def Conn.Benign (c : Conn) : Prop :=
  match c.req P with
  | some .stop => False
  | some (.crash _) => False
  | _ => True

def results (rs : List (Option Reply)) : List Nat :=
  rs.filterMap fun r => match r with
    | some (.result x) => some x
    | _ => none

end Serve
