/-!
# C15 — `int → double` conversion and true division (the two places where compiled code rounds twice)

`mypyc/lib-rt/int_ops.c` `CPyTagged_TrueDivide`: for two short operands
`return (double)((Py_ssize_t)x >> 1) / (double)((Py_ssize_t)y >> 1);` — both operands are converted to
binary64 (round to nearest, ties to even) *before* the IEEE division, which rounds again.  CPython's
`int / int` (`long_true_divide`) rounds the exact quotient once.

`mypyc/irbuild/ll_builder.py` `binary_op`: `int <op> float` converts the `int` operand with
`int_to_float` (`CPyFloat_FromTagged`: `(double)` of a short int) and then compares / computes on doubles;
CPython compares an `int` with a `float` exactly.

Values here are exact: a binary64 value of magnitude ≥ 2^53 is an integer, a quotient is a dyadic rational
`(-1)^neg · m · 2^e`.  Range: |operands| < 2^1000 (no overflow / subnormals — operands of the fast paths are
63-bit).
-/
namespace FloatConv

/-- smallest `s ≥ s₀` (searching upwards, bounded by `fuel`) with `n / 2^s < 2^53` -/
def shiftFor (n : Nat) : Nat → Nat → Nat
  | 0, s => s
  | fuel + 1, s => if n >>> s < 9007199254740992 then s else shiftFor n fuel (s + 1)

/-- `n / 2^s + sticky` rounded to the nearest integer, ties to even; `sticky` = there are further non-zero
    bits below `n` (only for quotients). -/
def roundShift (n s : Nat) (sticky : Bool) : Nat :=
  if s = 0 then n
  else
    let q := n >>> s
    let r := n % 2 ^ s
    let half := 2 ^ (s - 1)
    if r > half ∨ (r = half ∧ (sticky ∨ q % 2 = 1)) then q + 1 else q

/-- `(double)n` for a natural number: the nearest binary64 value (an integer once `n ≥ 2^53`). -/
def rne53 (n : Nat) : Nat :=
  if n < 9007199254740992 then n
  else
    let s := shiftFor n 1100 0
    roundShift n s false <<< s

/-- `(double)a` as an exact integer. -/
def toDouble (a : Int) : Int := if a < 0 then -((rne53 a.natAbs : Nat) : Int) else ((rne53 a.natAbs : Nat) : Int)

/-- A (possibly signed-zero) dyadic rational `(-1)^neg · m · 2^(e - 1200)`. -/
structure Dyadic where
  neg : Bool
  m : Nat
  eoff : Nat
deriving DecidableEq, Repr

/-- equality of values (not of representations) -/
def Dyadic.same (x y : Dyadic) : Bool :=
  x.neg == y.neg && x.m * 2 ^ x.eoff == y.m * 2 ^ y.eoff

/-- the binary64 value nearest to `p / q` (`p, q > 0`, quotient in the normal range) -/
def rneQuot (neg : Bool) (p q : Nat) : Dyadic :=
  if p = 0 then ⟨neg, 0, 1200⟩
  else
    let N := p <<< 1100            -- p · 2^1100: the integer quotient has far more than 53 bits
    let Q := N / q
    let R := N % q
    let s := shiftFor Q 2300 0
    ⟨neg, roundShift Q s (R != 0), 1200 + s - 1100⟩

/-- CPython: one rounding of the exact quotient. -/
def cpythonTrueDiv (a b : Int) : Dyadic := rneQuot (decide ((a < 0) ≠ (b < 0))) a.natAbs b.natAbs

/-- compiled fast path: operands rounded to binary64 first, then the IEEE division (itself correctly rounded). -/
def compiledTrueDiv (a b : Int) : Dyadic :=
  rneQuot (decide ((a < 0) ≠ (b < 0))) (toDouble a).natAbs (toDouble b).natAbs

end FloatConv
