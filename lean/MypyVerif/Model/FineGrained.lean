/-
Model of the fine-grained propagation algorithm of mypy/server/update.py — hand-written, import-free,
executable.  Names (trigger names, target names, module ids) are `Nat`s interned by the harness.

  deps map  `dict[str, set[str]]`                 ↦ `Deps` (assoc list; a location is a trigger or a target)
  find_targets_recursive                          ↦ `bfs` + `findTargets`
  the `targets_with_errors` loop                  ↦ `addErrTargets`
  `for id, nodes in sorted(todo.items())` +
     `sorted(nodeset, key=line)`                  ↦ `sortTodo`, `sortByLine`, `reprocessAll`
  propagate_changes_using_dependencies            ↦ `propagate`  (MAX_ITER is the explicit iteration budget;
                                                     running out of it is the outcome `maxIter`, the
                                                     `RuntimeError("Max number of iterations …")` of the code)
  sort_messages_preserving_file_order             ↦ `sortMessages`

The state of the build manager is abstract (`σ`): `Sys σ` lists the operations the algorithm performs on
it (`lookup_target`, `module_prefix`, `reprocess_nodes`, reading `deps`).  Two instances exist:
  * `Sem` below — symbol snapshots, a per-target checker `checkT` as a parameter, recorded inputs; the
    theorems of Props/C03 are about this instance (and about every instance satisfying `ReprocessSpec`);
  * the replay instance of Driver/C03.lean — `reprocess`/`lookup`/`deps` are tables observed on the real
    `FineGrainedBuildManager`; the driver must then produce the processed-target sequence mypy produced.
-/
namespace FineGrained

abbrev Name := Nat
abbrev Target := Nat
abbrev Mod := Nat

/-- A location in a dependency set: a trigger `<n>` or a target. -/
inductive Node where
  | trig (n : Name)
  | tgt (t : Target)
deriving DecidableEq, Repr

abbrev Deps := List (Name × List Node)

/-- `deps.get(trigger, set())` (several entries with the same key are united) -/
def Deps.get : Deps → Name → List Node
  | [], _ => []
  | (k, vs) :: rest, n => if k = n then vs ++ Deps.get rest n else Deps.get rest n

/-- every location mentioned on a right-hand side -/
def Deps.values : Deps → List Node
  | [] => []
  | (_, vs) :: rest => vs ++ Deps.values rest

def dedup {α : Type} [DecidableEq α] : List α → List α
  | [] => []
  | x :: xs => if x ∈ xs then dedup xs else x :: dedup xs

/-- the locations directly triggered by the triggers in `cur` (`worklist |= deps.get(target)`) -/
def succs (d : Deps) : List Node → List Node
  | [] => []
  | .trig n :: rest => d.get n ++ succs d rest
  | .tgt _ :: rest => succs d rest

/-- The `while worklist:` loop of `find_targets_recursive`, level by level as in the code:
    `processed |= worklist; worklist' = ⋃ deps[trigger] − processed`.  `proc` already contains `cur`.
    The first argument bounds the number of rounds; `bfs_complete` (Proofs/FineGrained) shows that
    `d.values.length + 1` rounds always suffice, so no result is ever cut short. -/
def bfs (d : Deps) : Nat → List Node → List Node → List Node
  | 0, proc, _ => proc
  | f + 1, proc, cur =>
    let next := dedup ((succs d cur).filter (fun x => !proc.contains x))
    if next.isEmpty then proc else bfs d f (proc ++ next) next

def closure (d : Deps) (start : List Node) : List Node :=
  bfs d (d.values.length + 1) start start

def targetsOf : List Node → List Target
  | [] => []
  | .tgt t :: rest => t :: targetsOf rest
  | .trig _ :: rest => targetsOf rest

/-- What the propagation algorithm does with the build manager. -/
structure Sys (σ : Type) where
  deps      : σ → Deps
  /-- `module_prefix(graph, target)` -/
  modOf     : σ → Target → Option Mod
  /-- `module_id in manager.modules and not is_cache_skeleton` -/
  loaded    : σ → Mod → Bool
  /-- `lookup_target(manager, target, module_id)[0]`: the deferred nodes (each named by its own target) -/
  lookup    : σ → Target → List Target
  /-- `lookup_target(...)[1] is not None`: the target is a protocol class -/
  isProto   : σ → Target → Bool
  /-- `node.line` of a deferred node -/
  line      : σ → Target → Int
  /-- `for info in stale_protos: type_state.reset_subtype_caches_for(info)` -/
  invalidate : σ → List Target → σ
  /-- `reprocess_nodes(manager, graph, module_id, nodes, deps, processed_targets)`: new state, fired triggers -/
  reprocess : σ → Mod → List Target → σ × List Name

abbrev Todo := List (Mod × List Target)

def Todo.add : Todo → Mod → List Target → Todo
  | [], m, us => [(m, dedup us)]
  | (k, vs) :: rest, m, us => if k = m then (k, dedup (vs ++ us)) :: rest else (k, vs) :: Todo.add rest m us

def Todo.units : Todo → List Target
  | [] => []
  | (_, vs) :: rest => vs ++ Todo.units rest

structure Found where
  todo : Todo := []
  unloaded : List Mod := []
  staleProtos : List Target := []

/-- the body of `for target in current:` for a non-trigger location -/
def visitTarget (S : Sys σ) (s : σ) (upToDate : List Mod) (acc : Found) (t : Target) : Found :=
  match S.modOf s t with
  | none => acc                                         -- deleted module
  | some m =>
    if m ∈ upToDate then acc                            -- already processed
    else if !S.loaded s m then { acc with unloaded := if m ∈ acc.unloaded then acc.unloaded else acc.unloaded ++ [m] }
    else { acc with todo := acc.todo.add m (S.lookup s t),
                    staleProtos := if S.isProto s t && !(acc.staleProtos.contains t) then acc.staleProtos ++ [t]
                                   else acc.staleProtos }

/-- `find_targets_recursive(manager, graph, triggers, deps, up_to_date_modules)` -/
def findTargets (S : Sys σ) (s : σ) (triggers : List Name) (upToDate : List Mod) : Found :=
  let start := triggers.map Node.trig
  (targetsOf (closure (S.deps s) start)).foldl (visitTarget S s upToDate) {}

/-- `for target in targets_with_errors:` -/
def addErrTarget (S : Sys σ) (s : σ) (upToDate : List Mod) (todo : Todo) (t : Target) : Todo :=
  match S.modOf s t with
  | none => todo
  | some m => if m ∈ upToDate then todo else todo.add m (S.lookup s t)

def addErrTargets (S : Sys σ) (s : σ) (upToDate : List Mod) (todo : Todo) (terr : List Target) : Todo :=
  terr.foldl (addErrTarget S s upToDate) todo

/-- stable insertion sort by a key -/
def insertBy {α : Type} (key : α → Int) (x : α) : List α → List α
  | [] => [x]
  | y :: ys => if key x ≤ key y then x :: y :: ys else y :: insertBy key x ys

def sortBy {α : Type} (key : α → Int) : List α → List α
  | [] => []
  | x :: xs => insertBy key x (sortBy key xs)

/-- `sorted(todo.items(), key=lambda x: x[0])` -/
def sortTodo (t : Todo) : Todo := sortBy (fun e => (e.1 : Int)) t

/-- `sorted(nodeset, key=lambda n: n.node.line)`; ties (same line) are ordered by name here, the set order
    of the code is unspecified there -/
def sortByLine (S : Sys σ) (s : σ) (us : List Target) : List Target :=
  sortBy (S.line s) (sortBy (fun u => (u : Int)) us)

def unionNames (a b : List Name) : List Name := a ++ b.filter (fun x => !a.contains x)

/-- `for id, nodes in sorted(todo.items()): triggered |= reprocess_nodes(...)`; the node lists were
    computed (and are ordered) in the state at the start of the iteration -/
def reprocessAll (S : Sys σ) : σ → List (Mod × List Target) → List Name → σ × List Name
  | s, [], fired => (s, fired)
  | s, (m, us) :: rest, fired =>
    let r := S.reprocess s m us
    reprocessAll S r.1 rest (unionNames fired r.2)

def MAX_ITER : Nat := 1000

inductive Outcome (σ : Type) where
  /-- normal return: final state and `remaining_modules` -/
  | done (s : σ) (remaining : List Mod)
  /-- `raise RuntimeError("Max number of iterations (1000) reached (endless loop?)")` -/
  | maxIter (s : σ)

def insertNat (x : Nat) : List Nat → List Nat
  | [] => [x]
  | y :: ys => if x ≤ y then x :: y :: ys else y :: insertNat x ys

def sortNat : List Nat → List Nat
  | [] => []
  | x :: xs => insertNat x (sortNat xs)

/-- One iteration of the `while triggered or targets_with_errors:` loop; returns the new state, the
    triggers fired in it and the extended `remaining_modules`. -/
def iteration (S : Sys σ) (s : σ) (trig : List Name) (upToDate : List Mod) (terr : List Target)
    (remaining : List Mod) : σ × List Name × List Mod :=
  let found := findTargets S s trig upToDate
  let remaining := remaining ++ sortNat found.unloaded
  let todo := addErrTargets S s upToDate found.todo terr
  let batches := (sortTodo todo).map (fun e => (e.1, sortByLine S s e.2))
  let r := reprocessAll S (S.invalidate s found.staleProtos) batches []
  (r.1, r.2, remaining)

/-- `propagate_changes_using_dependencies`.  The first argument is the number of iterations still allowed
    (`MAX_ITER` at the call); `up_to_date_modules` and `targets_with_errors` are reset after the first
    iteration exactly as in the code. -/
def propagate (S : Sys σ) : Nat → σ → List Name → List Mod → List Target → List Mod → Outcome σ
  | 0, s, trig, _, terr, remaining =>
    if trig.isEmpty && terr.isEmpty then .done s remaining else .maxIter s
  | k + 1, s, trig, upToDate, terr, remaining =>
    if trig.isEmpty && terr.isEmpty then .done s remaining
    else
      let r := iteration S s trig upToDate terr remaining
      propagate S k r.1 r.2.1 [] [] r.2.2

/-! ## sort_messages_preserving_file_order -/

/-- a rendered message group (an error line with the lines that belong to it): file and text -/
structure Msg where
  file : Nat
  text : Nat
deriving DecidableEq, Repr

/-- `order[fnam]`: index of the first occurrence of the file among the previous messages, `n` if absent -/
def fileOrder : List Nat → Nat → Nat
  | [], _ => 0
  | f :: rest, g => if f = g then 0 else fileOrder rest g + 1

def firstFiles : List Msg → List Nat
  | [] => []
  | m :: rest => let r := firstFiles rest; m.file :: r.filter (· ≠ m.file)

/-- `sort_messages_preserving_file_order(messages, prev_messages)` on message groups -/
def sortMessages (msgs prev : List Msg) : List Msg :=
  let order := firstFiles prev
  sortBy (fun m => ((fileOrder order m.file : Nat) : Int)) msgs

/-! ## `FineGrainedBuildManager.update`, for any build-manager state -/

/-- the build manager as `FineGrainedBuildManager.update` uses it: the propagation operations plus
    `update_module`'s own work and `errors.targets()` -/
structure USys (σ : Type) extends Sys σ where
  /-- `update_module` up to and including `calculate_active_triggers`: `errors.reset()`, re-parse, analyse and
      check the whole module (or delete it); returns the new state and the active triggers -/
  processModule : σ → Mod → σ × List Name
  /-- `manager.errors.targets()` -/
  errTargets : σ → List Target

structure UpdStG (σ : Type) where
  st : σ
  /-- `previous_targets_with_errors` -/
  prevErr : List Target

/-- the `while True: update_one(...)` loop over the (duplicate-free) changed modules — each is processed by
    `update_module`, followed by `propagate_changes_using_dependencies(triggered, {module}, ∅)` and
    `previous_targets_with_errors.update(errors.targets())`; no newly discovered modules, no blocking error.
    `none` = MAX_ITER was hit -/
def updateLoopG {σ : Type} (S : USys σ) : List Mod → UpdStG σ → Option Mod → Option (UpdStG σ × Option Mod)
  | [], u, last => some (u, last)
  | m :: rest, u, _ =>
    match propagate S.toSys MAX_ITER (S.processModule u.st m).1 (S.processModule u.st m).2 [m] [] [] with
    | .maxIter _ => none
    | .done s _ => updateLoopG S rest { st := s, prevErr := u.prevErr ++ S.errTargets s } (some m)

/-- `FineGrainedBuildManager.update(changed_modules, removed_modules)`: the loop, then
    `propagate_changes_using_dependencies(∅, {next_id}, previous_targets_with_errors)` and
    `previous_targets_with_errors = errors.targets()` -/
def updateG {σ : Type} (S : USys σ) (u : UpdStG σ) (changed : List Mod) : Option (UpdStG σ) :=
  if changed.isEmpty then some u
  else match updateLoopG S changed u none with
    | none => none
    | some (u1, last) =>
      match propagate S.toSys MAX_ITER u1.st [] last.toList u1.prevErr [] with
      | .maxIter _ => none
      | .done s _ => some { st := s, prevErr := S.errTargets s }

/-! ## The semantic instance: snapshots, a per-target checker, recorded inputs, `update`

A *unit* is a target that is processed as a whole (module top level, function, method).  Symbol snapshots
live in an environment `Env`; every name is owned by at most one unit, the one whose (re)analysis defines it.
The type checker is a parameter: `checkT u env` returns the errors of unit `u`, the names it read and the
snapshots it gives to the names it owns; `analyze us env` is what semantic analysis + inference of a batch
make of the environment.  `depGen` is mypy/server/deps.py, `snapDiff` is mypy/server/astdiff.py
(`compare_symbol_table_snapshots` turned into triggers).  Their assumed properties (`WorldOK`) are stated in
Proofs/FineGrainedSem.lean. -/

abbrev Snap := Nat
abbrev Env := Name → Snap

structure Out where
  errs : List Msg
  reads : List Name
  defs : Name → Snap

/-- one version of the program, with the checker -/
structure World where
  units    : List Target
  modOf    : Target → Mod
  line     : Target → Int
  owner    : Name → Option Target
  nameMod  : Name → Mod
  checkT   : Target → Env → Out
  analyze  : List Target → Env → Env
  depGen   : Target → Env → Deps
  snapDiff : Env → Env → List Name

structure SemSt where
  env  : Env
  /-- `manager.errors.error_info_map`, by target -/
  emap : Target → List Msg
  deps : Deps
  /-- ghost: the inputs (name, snapshot) recorded when the unit was last processed -/
  seen : Target → List (Name × Snap)
  /-- ghost: the errors the unit had when it was last processed (survives `errors.reset()`) -/
  gerr : Target → List Msg

/-- type checking one unit of a batch against the analysed environment: errors replace the unit's old ones
    (`clear_errors_in_targets`), its dependencies are merged (`update_deps`) -/
def recordUnit (W : World) (env : Env) (s : SemSt) (u : Target) : SemSt :=
  { s with emap := fun v => if v = u then (W.checkT u env).errs else s.emap v,
           gerr := fun v => if v = u then (W.checkT u env).errs else s.gerr v,
           seen := fun v => if v = u then (W.checkT u env).reads.map (fun n => (n, env n)) else s.seen v,
           deps := s.deps ++ W.depGen u env }

/-- `reprocess_nodes` / the checking part of `update_module_isolated`: analyse the batch, check every unit of
    it, fire the triggers of the snapshots that changed -/
def processBatch (W : World) (s : SemSt) (us : List Target) : SemSt × List Name :=
  let us := us.filter (fun u => u ∈ W.units)
  let env' := W.analyze us s.env
  (us.foldl (recordUnit W env') { s with env := env' }, W.snapDiff s.env env')

def semSys (W : World) : Sys SemSt where
  deps s := s.deps
  modOf _ t := if t ∈ W.units then some (W.modOf t) else none
  loaded _ _ := true
  lookup _ t := if t ∈ W.units then [t] else []
  isProto _ _ := false
  line _ u := W.line u
  invalidate s _ := s
  reprocess s _ us := processBatch W s us

structure UpdSt where
  st : SemSt
  /-- `previous_targets_with_errors` -/
  prevErr : List Target

/-- `manager.errors.targets()` -/
def errTargets (W : World) (s : SemSt) : List Target := W.units.filter (fun u => !(s.emap u).isEmpty)

/-- `update_module`: `errors.reset()`, re-analyse and check the whole module (names the new version no longer
    defines disappear; a deleted module has no units left), `calculate_active_triggers(old, new)` -/
def processModule (W : World) (s : SemSt) (m : Mod) : SemSt × List Name :=
  let us := W.units.filter (fun u => W.modOf u = m)
  let envC : Env := fun n => if W.nameMod n = m ∧ W.owner n = none then 0 else s.env n
  let r := processBatch W { s with env := envC, emap := fun _ => [] } us
  (r.1, W.snapDiff s.env r.1.env)

/-- the `while True: update_one(...)` loop over the changed modules; `none` = MAX_ITER was hit -/
def updateLoop (W : World) : List Mod → UpdSt → Option Mod → Option (UpdSt × Option Mod)
  | [], u, last => some (u, last)
  | m :: rest, u, _ =>
    match propagate (semSys W) MAX_ITER (processModule W u.st m).1 (processModule W u.st m).2 [m] [] [] with
    | .maxIter _ => none
    | .done s _ => updateLoop W rest { st := s, prevErr := u.prevErr ++ errTargets W s } (some m)

/-- `FineGrainedBuildManager.update(changed_modules, removed_modules)` (no blocking errors, nothing to load
    from a cache): `none` = the `RuntimeError` of MAX_ITER -/
def update (W : World) (u : UpdSt) (changed : List Mod) : Option UpdSt :=
  if changed.isEmpty then some u
  else match updateLoop W changed u none with
    | none => none
    | some (u1, last) =>
      match propagate (semSys W) MAX_ITER u1.st [] last.toList u1.prevErr [] with
      | .maxIter _ => none
      | .done s _ => some { st := s, prevErr := errTargets W s }

/-- the semantic instance of the whole `update` interface; `updateG (semUSys W)` is `update W`
    (`update_eq`, Proofs/FineGrainedSem) -/
def semUSys (W : World) : USys SemSt := { semSys W with processModule := processModule W, errTargets := errTargets W }

def UpdSt.toG (u : UpdSt) : UpdStG SemSt := ⟨u.st, u.prevErr⟩

/-- `manager.errors.new_messages()`: the messages of all targets, target by target -/
def newMessages (W : World) (s : SemSt) : List Msg := W.units.flatMap s.emap

end FineGrained
