import MypyVerif.Gen.Options
import MypyVerif.Model.Config
/-!
# The generated option tables seen through the C17 model

`genTemplate` is the `Template` `parse_section` consults, built from `Gen/Options.lean` (regenerated from the
live mypy on every check).  The Boolean checkers below are the *generated obligations* of C17: `Props/C17`
proves each of them `= true` by `decide`, the driver evaluates them flag by flag to name the offending flag
when one breaks.

The exemption lists are hand-written and reasoned: a flag added to mypy that falls outside the rule and
outside these lists breaks the obligation.
-/
namespace Config.Table
open Config
open Gen.Options (Flag Act attrs otherNames flags iniKeys tomlKeys perModule strictFlags reporterNames flagPrefixPairs)

def tyOf : Gen.Options.Ty → Option Ty
  | .bool => some .bool
  | .int => some .int
  | .str => some .str
  | .list => some .list
  | .none => none
  | _ => some .other

/-- `getattr(Options(), k, None)` -/
def genAttr (k : Str) : Option (Option Ty) :=
  match attrs.find? (fun a => a.name == k) with
  | some a => some (tyOf a.ty)
  | none => if otherNames.contains k then some (some .other) else none

def genTemplate : Template := { attr := genAttr, configTypes := iniKeys, reporters := reporterNames }
def tomlTemplate : Template := { attr := genAttr, configTypes := tomlKeys, reporters := reporterNames }

def s (x : String) : Str := x.toList

/-! ## exemption lists (flag text ↦ reason) -/

/-- command-line spellings that have no config-file spelling of the same name.  The *setting* is still
    available in a config file under its option name (obligation `dest_settable`). -/
def cliOnlySpellings : List (Str × String) := [
  (s "--stats", "debug flag; option name is dump_type_stats"),
  (s "--inferstats", "debug flag; option name is dump_inference_stats"),
  (s "--skip-c-gen", "mypyc debug flag; option name is mypyc_skip_c_generation"),
  (s "--tb", "short alias of --show-traceback"),
  (s "--interactive", "hand-picked inverse of --non-interactive; config files write non_interactive = False"),
  (s "--disallow-redefinition-new", "inverse of the deprecated alias --allow-redefinition-new; parse_section maps only the exact key allow_redefinition_new"),
  (s "--hide-error-context", "parse_section inverts show_→hide_ only; config files write show_error_context = False"),
  (s "--hide-column-numbers", "as above (show_column_numbers = False)"),
  (s "--hide-error-end", "as above (show_error_end = False)"),
  (s "--hide-error-code-links", "as above (show_error_code_links = False)"),
  (s "--hide-absolute-path", "as above (show_absolute_path = False)")]

/-- flags whose dest is `special-opts:…`: `process_options` handles them by hand; the search compares
    them on the real tool -/
def specialHandled : List (Str × String) := [
  (s "--no-site-packages", "CLI sets special-opts:no_executable, config sets no_site_packages; both clear python_executable"),
  (s "--strict", "CLI and config both call set_strict_flags with the same assignments")]

/-- options the command line can set that a config file cannot (their default is `None` and there is no
    converter): not documented as config-file settings -/
def cliOnlySettings : List (Str × String) := [
  (s "output", "-O/--output: default None, no converter"),
  (s "config_file", "names the config file itself"),
  (s "shadow_file", "--shadow-file: debugging aid, nargs=2"),
  (s "timing_stats", "debug output file"),
  (s "line_checking_stats", "debug output file"),
  (s "mypyc_annotation_file", "mypyc -a"),
  (s "verbosity", "count action (-v)")]

/-- the row `deprecated_calls_exclude` had in the option table before the repair 9b531e7 (a list-valued
    attribute; no converter in `ini_config_types`, so `parse_section` applied `list` to the text and split
    it into characters) — kept as a fixed literal for the witness theorem `pre_repair_row_untyped` -/
def preRepairRow : Gen.Options.Attr :=
  { name := s "deprecated_calls_exclude", ty := .list, boolDefault := none, defaultRepr := "[]" }

/-- members of `PER_MODULE_OPTIONS` that are derived state, set through the corresponding list option -/
def derivedPerModule : List (Str × String) := [
  (s "enabled_error_codes", "computed from enable_error_code by apply_changes"),
  (s "disabled_error_codes", "computed from disable_error_code by apply_changes")]

/-! ## per-flag checkers -/

def _root_.Gen.Options.Flag.isBool (f : Flag) : Bool := f.act == .storeTrue || f.act == .storeFalse
def _root_.Gen.Options.Flag.isValued (f : Flag) : Bool := f.act == .store || f.act == .append || f.act == .count
def isLong (x : Str) : Bool := pfx "--" x

/-- a config-file line `<spelling> = True` either is not understood or sets exactly what the flag sets -/
def spellingAgrees (T : Template) (f : Flag) (x : Str) : Bool :=
  match resolveBool T (iniSpelling x) (s "True") with
  | some (k, v) => k == f.dest && some v == f.const
  | none => true

def spellingAccepted (T : Template) (x : Str) : Bool := (resolveBool T (iniSpelling x) (s "True")).isSome

/-- `cli_ini_agree` for one flag: every long spelling that the resolver accepts agrees; a spelling it
    does not accept is listed in `cliOnlySpellings`; special-opts flags are listed in `specialHandled` -/
def flagAgrees (T : Template) (f : Flag) : Bool :=
  !f.isBool ||
  (f.strings.filter isLong).all (fun x =>
    if f.special then (specialHandled.lookup x).isSome
    else spellingAgrees T f x && (spellingAccepted T x || (cliOnlySpellings.lookup x).isSome))

/-- the setting behind a (non-special) flag can be written in a config file under its option name, with
    the value given directly (no inversion) -/
def destSettable (T : Template) (f : Flag) : Bool :=
  f.special || f.strings.isEmpty || !(f.isBool || f.isValued) ||
  (match resolveKey T f.dest with
   | .sets k isBool false => k == f.dest && (isBool == f.isBool)
   | _ => false) || (cliOnlySettings.lookup f.dest).isSome

/-- a list-valued option needs a converter, otherwise `list("a,b")` splits into characters -/
def listAttrTyped (keys : List (Str × Bool)) (a : Gen.Options.Attr) : Bool :=
  !(a.ty == .list) || pfx "_" a.name || (keys.lookup a.name).isSome

def perModuleSettable (T : Template) (k : Str) : Bool :=
  (derivedPerModule.lookup k).isSome ||
  ((match resolveKey T k with
    | .sets k' _ false => k' == k
    | _ => false) && k != s "python_version" && k != kStrict)

/-- what `strict = True` / `--strict` assigns is what individual flags assign, and each such option can
    be written in a config file -/
def strictAssignmentOk (T : Template) (d : Str × Bool) : Bool :=
  flags.any (fun f => !f.special && f.dest == d.1 && f.const == some d.2) &&
  resolveKey T d.1 == .sets d.1 true false

/-- for a strict assignment `(d, b)`: the command line has a flag that sets `d` to the *opposite* value (what
    `--strict --no-x` / `--allow-…` needs), and the config-file spelling of that flag resolves to `(d, !b)` too,
    so "strict plus the explicit opposite" can be written in every source -/
def strictOppositeOk (T : Template) (d : Str × Bool) : Bool :=
  flags.any (fun f => !f.special && f.dest == d.1 && f.const == some (!d.2) &&
    (f.strings.filter isLong).any (fun x => resolveBool T (iniSpelling x) (s "True") == some (d.1, !d.2))) &&
  resolveBool T d.1 (if d.2 then s "False" else s "True") == some (d.1, !d.2)

/-! ## the obligations as Booleans over the whole tables -/

def cliIniAgreeB : Bool := flags.all (flagAgrees genTemplate)
def destSettableB : Bool := flags.all (destSettable genTemplate)
def tomlIniSameKeysB : Bool := iniKeys == tomlKeys
def perModuleInlineOkB : Bool := perModule.all (perModuleSettable genTemplate)
def strictOkB : Bool := strictFlags.all (strictAssignmentOk genTemplate)
def strictOppositeB : Bool := strictFlags.all (strictOppositeOk genTemplate) && strictFlags.all (strictOppositeOk tomlTemplate)
def strictAssign : Changes := strictFlags.map (fun d => (d.1, Val.bool d.2))
def listAttrsTypedB : Bool := attrs.all (listAttrTyped iniKeys)
def listAttrsTypedTomlB : Bool := attrs.all (listAttrTyped tomlKeys)
/-- the exemption lists name only flags/options that exist (a stale exemption is an error, too) -/
def exemptionsLiveB : Bool :=
  (cliOnlySpellings ++ specialHandled).all (fun e => flags.any (fun f => f.strings.contains e.1)) &&
  cliOnlySettings.all (fun e => flags.any (fun f => f.dest == e.1))

/-- command-line flag ↦ what argparse does to the `Options` object -/
def cliArgOf (flag : Str) (value : Str) : Option CliArg :=
  match flags.find? (fun f => f.strings.contains flag) with
  | none => none
  | some f =>
    if f.special then none
    else match f.act, f.const with
      | .storeTrue, some b => some (.store f.dest (.bool b))
      | .storeFalse, some b => some (.store f.dest (.bool b))
      | .append, _ => some (.append f.dest value)
      | .store, _ => some (.store f.dest (.str value))
      | _, _ => none

end Config.Table
