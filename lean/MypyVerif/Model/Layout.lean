/-
Model of the two directions of mypy's file ↔ module mapping — hand-written, import-free, executable.

  mypy/find_sources.py   create_source_list            ↦ `createSourceList`
                         SourceFinder.crawl_up          ↦ `crawlUp`
                         SourceFinder.crawl_up_dir      ↦ `crawlUpDir`
                         SourceFinder._crawl_up_helper  ↦ `helper`       (on the reversed directory path)
                         SourceFinder.get_init_file     ↦ `hasInit`
                         SourceFinder.find_sources_in_dir ↦ `findSourcesInDir` / `loopDir`
                         keyfunc                        ↦ `keyfunc` / `keyLe` / `sortNames`
                         get_explicit_package_bases     ↦ `Opts.bases`
                         module_join / strip_py         ↦ list append / `stripPy`
  mypy/modulefinder.py   compute_search_paths           ↦ `pythonPath` / `searchRoots`   (mypy_path + python_path)
                         FindModuleCache.get_toplevel_possibilities / find_lib_path_dirs ↦ `topLevelOk` / `candidates`
                         FindModuleCache._find_module   ↦ `scanDir` / `findLoop` / `findModule`
                                                          (the part over mypy_path + python_path; `verify` is True there)
                         verify_module / highest_init_level ↦ `verifyFrom` / `initLevel`
                         FindModuleCache.find_modules_recursive ↦ `findModulesRecursive`   (`-p PKG`)
                         BuildSource                    ↦ `Src`           (`module or "__main__"` ↦ `srcModule`)
  mypy/build.py          load_graph "Duplicate module named" ↦ `firstDuplicate`

A file system is three observations (`isFile`, `isDir`, `listdir`); the theorems assume the usual coherence
(`FS.WF`), `FS.ofEntries` builds a concrete one from a finite list of absolute paths.  Paths are absolute
component lists (root = []), names are character lists.  Case-insensitive file systems, symlinks, `..`,
site-packages / typeshed / PEP 561 stub packages in site-packages, `--exclude`, gitignore and
`--package-root` are outside the model.
-/
namespace Layout

abbrev Name := List Char
abbrev Path := List Name

/-! ## names -/

def sInit : Name := "__init__".toList
def sMain : Name := "__main__".toList
def extPy : Name := ".py".toList
def extPyi : Name := ".pyi".toList
def sStubs : Name := "-stubs".toList
def initPy : Name := sInit ++ extPy
def initPyi : Name := sInit ++ extPyi

/-- `s.removeprefix(p)` when `s.startswith(p)` -/
def stripPrefix? : List Char → List Char → Option (List Char)
  | [], s => some s
  | _ :: _, [] => none
  | p :: ps, c :: cs => if p = c then stripPrefix? ps cs else none

/-- `s[:-len(suf)]` when `s.endswith(suf)` -/
def stripSuffix? (suf s : List Char) : Option (List Char) :=
  (stripPrefix? suf.reverse s.reverse).map List.reverse

/-- find_sources.strip_py: PY_EXTENSIONS = (".pyi", ".py") in that order -/
def stripPy (n : Name) : Option Name :=
  match stripSuffix? extPyi n with
  | some t => some t
  | none => stripSuffix? extPy n

/-- `path.endswith(PY_EXTENSIONS)` -/
def endsPy (n : Name) : Bool := (stripPy n).isSome

/-- `strip_py(filename) or filename` -/
def moduleName (fn : Name) : Name :=
  match stripPy fn with
  | some [] => fn
  | some t => t
  | none => fn

/-- `name.removesuffix("-stubs")` -/
def dropStubs (n : Name) : Name := (stripSuffix? sStubs n).getD n

def isAlpha (c : Char) : Bool := ('a' ≤ c && c ≤ 'z') || ('A' ≤ c && c ≤ 'Z') || c = '_'
def isAlnum (c : Char) : Bool := isAlpha c || ('0' ≤ c && c ≤ '9')

/-- `str.isidentifier()` restricted to ASCII names -/
def isIdent : Name → Bool
  | [] => false
  | c :: cs => isAlpha c && cs.all isAlnum

/-- posixpath.splitext on a single component: split at the last dot unless everything before it is dots -/
def splitextRev : List Char → List Char → Name × Name
  -- scanning the reversed name; `acc` is the extension collected so far (without the dot)
  | [], acc => (acc, [])                      -- no dot at all: (name, "")  [acc is the whole name]
  | c :: rest, acc =>
    if c = '.' then
      if rest.all (· = '.') then (rest.reverse ++ '.' :: acc, [])   -- only leading dots before it
      else (rest.reverse, '.' :: acc)
    else splitextRev rest (c :: acc)

def splitext (n : Name) : Name × Name := splitextRev n.reverse []

def isPyExt (e : Name) : Bool := e = extPyi || e = extPy

/-- names skipped by find_sources_in_dir / find_modules_recursive -/
def skipList : List Name := ["__pycache__".toList, "site-packages".toList, "node_modules".toList]

def skipName (n : Name) : Bool :=
  skipList.contains n || (match n with | '.' :: _ => true | _ => false)

/-- lexicographic `<` on code points (Python `str.__lt__`) -/
def nameLt : Name → Name → Bool
  | [], [] => false
  | [], _ :: _ => true
  | _ :: _, [] => false
  | a :: as, b :: bs => if a.toNat < b.toNat then true else if b.toNat < a.toNat then false else nameLt as bs

/-- find_sources.keyfunc: (base != "__init__", index of the extension in PY_EXTENSIONS or -1, base or name).
    The middle component is shifted by one (0 = none, 1 = .pyi, 2 = .py). -/
def keyfunc (n : Name) : Bool × Nat × Name :=
  let (base, suffix) := splitext n
  if suffix = extPyi then (base != sInit, 1, base)
  else if suffix = extPy then (base != sInit, 2, base)
  else (base != sInit, 0, n)

def keyLt (a b : Bool × Nat × Name) : Bool :=
  if a.1 != b.1 then (!a.1 && b.1)
  else if a.2.1 != b.2.1 then a.2.1 < b.2.1
  else nameLt a.2.2 b.2.2

/-- stable insertion sort by `keyfunc` (`sorted(names, key=keyfunc)`) -/
def insertByKey (n : Name) : List Name → List Name
  | [] => [n]
  | m :: ms => if keyLt (keyfunc n) (keyfunc m) then n :: m :: ms else m :: insertByKey n ms

def sortNames (l : List Name) : List Name := l.foldr insertByKey []

/-- plain `sorted(names)` (find_modules_recursive) -/
def insertPlain (n : Name) : List Name → List Name
  | [] => [n]
  | m :: ms => if nameLt n m then n :: m :: ms else m :: insertPlain n ms

def sortPlain (l : List Name) : List Name := l.foldr insertPlain []

/-! ## file systems -/

structure FS where
  isFile : Path → Bool
  isDir : Path → Bool
  listdir : Path → List Name

/-- coherence of the three observations (what a real directory tree guarantees) -/
structure FS.WF (fs : FS) : Prop where
  fileParent : ∀ d n, fs.isFile (d ++ [n]) = true → fs.isDir d = true
  dirParent : ∀ d n, fs.isDir (d ++ [n]) = true → fs.isDir d = true
  notBoth : ∀ p, fs.isFile p = true → fs.isDir p = false
  listed : ∀ d n, n ∈ fs.listdir d ↔ (fs.isFile (d ++ [n]) = true ∨ fs.isDir (d ++ [n]) = true)

inductive Kind | file | dir
deriving DecidableEq, Repr

/-- `p` is a strict prefix of `q`: returns the next component -/
def nextComp : Path → Path → Option Name
  | [], n :: _ => some n
  | [], [] => none
  | _ :: _, [] => none
  | a :: as, b :: bs => if a = b then nextComp as bs else none

def dedup : List Name → List Name
  | [] => []
  | n :: ns => if ns.contains n then dedup ns else n :: dedup ns

/-- concrete file system from a finite list of absolute paths; every strict prefix of an entry is a directory -/
def FS.ofEntries (es : List (Path × Kind)) : FS where
  isDir p := p = [] || es.any (fun e => (e.1 = p && e.2 = Kind.dir) || (nextComp p e.1).isSome)
  isFile p := es.any (fun e => e.1 = p && e.2 = Kind.file) &&
              !(p = [] || es.any (fun e => (e.1 = p && e.2 = Kind.dir) || (nextComp p e.1).isSome))
  listdir p := dedup (es.filterMap (fun e => nextComp p e.1))

/-! ## options -/

structure Opts where
  ns : Bool                 -- options.namespace_packages
  epb : Bool                -- options.explicit_package_bases
  mypyPath : List Path      -- mypy_path() + options.mypy_path (absolute)
  cwd : Path                -- os.getcwd()

/-- get_explicit_package_bases -/
def Opts.bases (o : Opts) : Option (List Path) :=
  if o.epb then some (o.mypyPath ++ [o.cwd]) else none

/-- `self.explicit_package_bases is not None and self.is_explicit_package_base(dir)` -/
def Opts.isBase (o : Opts) (dir : Path) : Bool :=
  match o.bases with
  | some bs => bs.contains dir
  | none => false

/-! ## path → module (find_sources.py) -/

/-- get_init_file(dir) is not None -/
def hasInit (fs : FS) (dir : Path) : Bool :=
  fs.isFile (dir ++ [initPyi]) || fs.isFile (dir ++ [initPy])

/-- result of `_crawl_up_helper`: None / (module, base_dir) / InvalidSourceList(name) -/
inductive Crawl
  | none
  | some (mod : List Name) (base : Path)
  | err (name : Name)
deriving DecidableEq, Repr

/-- `x or ("", dir)` -/
def Crawl.orBase (c : Crawl) (dir : Path) : Crawl :=
  match c with
  | .none => .some [] dir
  | c => c

/-- `module_join(mod_prefix, name), base_dir` applied to a helper result -/
def Crawl.extend (c : Crawl) (name : Name) : Crawl :=
  match c with
  | .some mp b => .some (mp ++ [name]) b
  | c => c

/-- `_crawl_up_helper(dir)`; the argument is the directory path *reversed* (innermost component first) so
    that `os.path.split` is structural.  For the root `/`, `os.path.split` gives name "" (never an identifier). -/
def helper (fs : FS) (o : Opts) : List Name → Crawl
  | [] =>
    if o.isBase [] then .some [] []
    else if hasInit fs [] then .err []
    else .none
  | name :: rpar =>
    let dir := (name :: rpar).reverse
    if o.isBase dir then .some [] dir
    else
      let nm := dropStubs name
      if hasInit fs dir then
        if isIdent nm then ((helper fs o rpar).orBase rpar.reverse).extend nm
        else .err nm
      else if !isIdent nm then .none
      else if !o.ns then .none
      else (helper fs o rpar).extend nm

/-- crawl_up_dir -/
def crawlUpDir (fs : FS) (o : Opts) (dir : Path) : Crawl :=
  (helper fs o dir.reverse).orBase dir

/-- the tail of crawl_up: `if module_name == "__init__": return parent_module, base_dir`, else join -/
def joinFile (c : Crawl) (mn : Name) : Crawl :=
  if mn = sInit then c else c.extend mn

/-- crawl_up(path) for an absolute path; never `.none` -/
def crawlUp (fs : FS) (o : Opts) (path : Path) : Crawl :=
  match path.reverse with
  | [] => crawlUpDir fs o [] -- not reachable from create_source_list (a path ending in .py has a last component)
  | fn :: rpar => joinFile (crawlUpDir fs o rpar.reverse) (moduleName fn)

/-- `id.split(".")` of the dotted module string (the model keeps module ids as component lists; only a file
    stem can contain dots, so the dotted string and `searchComps` determine each other) -/
def splitDots : List Char → List Char → List Name
  | [], cur => [cur.reverse]
  | c :: cs, cur => if c = '.' then cur.reverse :: splitDots cs [] else splitDots cs (c :: cur)

def searchComps (m : List Name) : List Name := m.flatMap (fun c => splitDots c [])

structure Src where
  path : Path
  module : List Name       -- as returned by crawl_up ([] = "")
  base : Option Path
deriving DecidableEq, Repr

/-- BuildSource.module: `module or "__main__"` -/
def Src.srcModule (s : Src) : List Name := if s.module.isEmpty then [sMain] else s.module

/-- the module id as `find_module` and `load_graph` see it: the dotted string, split at every dot -/
def Src.modId (s : Src) : List Name := searchComps s.srcModule

inductive Err
  | badPackage (name : Name)     -- "<name> contains __init__.py[i] but is not a valid Python package name"
  | emptyDir (p : Path)          -- "There are no .py[i] files in directory '<p>'"
deriving DecidableEq, Repr

def crawlSrc (fs : FS) (o : Opts) (p : Path) : Except Err Src :=
  match crawlUp fs o p with
  | .some m b => .ok { path := p, module := m, base := some b }
  | .err n => .error (.badPackage n)
  | .none => .ok { path := p, module := [], base := none }   -- unreachable

/-- the `for name in names:` loop of find_sources_in_dir; `recur` is the recursive call on sub-directories -/
def loopDir (fs : FS) (o : Opts) (recur : Path → Except Err (List Src)) (path : Path) :
    List Name → List Name → Except Err (List Src)
  | [], _ => .ok []
  | n :: rest, seen =>
    if skipName n then loopDir fs o recur path rest seen
    else if fs.isDir (path ++ [n]) then
      match recur (path ++ [n]) with
      | .error e => .error e
      | .ok [] => loopDir fs o recur path rest seen
      | .ok (s :: ss) =>
        match loopDir fs o recur path rest (n :: seen) with
        | .error e => .error e
        | .ok more => .ok (s :: ss ++ more)
    else
      let se := splitext n
      if !seen.contains se.1 && isPyExt se.2 then
        match crawlSrc fs o (path ++ [n]) with
        | .error e => .error e
        | .ok s =>
          match loopDir fs o recur path rest (se.1 :: seen) with
          | .error e => .error e
          | .ok more => .ok (s :: more)
      else loopDir fs o recur path rest seen

/-- find_sources_in_dir with a recursion bound (`fuel` ≥ depth of the tree below `path` suffices) -/
def findSourcesInDir (fs : FS) (o : Opts) : Nat → Path → Except Err (List Src)
  | 0, _ => .ok []
  | fuel + 1, path => loopDir fs o (findSourcesInDir fs o fuel) path (sortNames (fs.listdir path)) []

/-- `path.endswith(PY_EXTENSIONS)` for a whole path -/
def isPyArg (p : Path) : Bool :=
  match p.getLast? with
  | some fn => endsPy fn
  | none => false

/-- one command-line argument of create_source_list (absolute, normalised) -/
def sourcesOfArg (fs : FS) (o : Opts) (fuel : Nat) (p : Path) : Except Err (List Src) :=
  if isPyArg p then
    match crawlSrc fs o p with
    | .error e => .error e
    | .ok s => .ok [s]
  else if fs.isDir p then
    match findSourcesInDir fs o fuel p with
    | .error e => .error e
    | .ok [] => .error (.emptyDir p)
    | .ok l => .ok l
  else .ok [{ path := p, module := [], base := none }]     -- scripts_are_modules = False

def createSourceList (fs : FS) (o : Opts) (fuel : Nat) : List Path → Except Err (List Src)
  | [] => .ok []
  | p :: ps =>
    match sourcesOfArg fs o fuel p with
    | .error e => .error e
    | .ok l =>
      match createSourceList fs o fuel ps with
      | .error e => .error e
      | .ok more => .ok (l ++ more)

/-- load_graph: the first source whose module id is already in the graph ("Duplicate module named") -/
def firstDuplicate : List Src → List (List Name) → Option (List Name)
  | [], _ => none
  | s :: ss, seen => if seen.contains s.modId then some s.modId else firstDuplicate ss (s.modId :: seen)

/-! ## module → path (modulefinder.py) -/

/-- compute_search_paths: python_path = reversed([cwd] + distinct base_dirs in source order) -/
def addBases : List Src → List Path → List Path
  | [], acc => acc
  | s :: ss, acc =>
    match s.base with
    | some b => if acc.contains b then addBases ss acc else addBases ss (acc ++ [b])
    | none => addBases ss acc

def pythonPath (o : Opts) (srcs : List Src) : List Path := (o.cwd :: addBases srcs []).reverse

/-- `search_paths.mypy_path + search_paths.python_path` -/
def searchRoots (o : Opts) (srcs : List Src) : List Path := o.mypyPath ++ pythonPath o srcs

/-- get_toplevel_possibilities: the root has an entry whose `splitext` stem is the first component -/
def topLevelOk (fs : FS) (root : Path) (c0 : Name) : Bool :=
  (fs.listdir root).any (fun n => (splitext n).1 = c0)

/-- find_lib_path_dirs: (directory that should contain the last component, its root) -/
def candidates (fs : FS) (roots : List Path) (comps : List Name) : List (Path × Path) :=
  roots.filterMap fun r =>
    if topLevelOk fs r (comps.headD []) && fs.isDir (r ++ comps.dropLast) then some (r ++ comps.dropLast, r) else none

/-- verify_module: `n` levels upward from (reversed) `rdir` all have an `__init__` file -/
def verifyFrom (fs : FS) : List Name → Nat → Bool
  | _, 0 => true
  | [], _ + 1 => hasInit fs []          -- os.path.dirname("/") = "/"
  | c :: rpar, n + 1 => hasInit fs (c :: rpar).reverse && verifyFrom fs rpar n

/-- highest_init_level: the largest i+1 (i < n) such that the i-th ancestor has an `__init__` file, else 0 -/
def initLevelFrom (fs : FS) : List Name → Nat → Nat → Nat → Nat
  | _, 0, _, best => best
  | [], _ + 1, i, best => if hasInit fs [] then i + 1 else best   -- (stays at the root; not reached by candidates)
  | c :: rpar, n + 1, i, best =>
    initLevelFrom fs rpar n (i + 1) (if hasInit fs (c :: rpar).reverse then i + 1 else best)

def initLevel (fs : FS) (bd : Path) (n : Nat) : Nat := initLevelFrom fs bd.reverse n 0 0

inductive Scan
  | found (p : Path)
  | misses (l : List Path)
deriving DecidableEq, Repr

/-- the package files looked for in a candidate directory, in the order of the code: the stub-only package
    `<last>-stubs/__init__.pyi`, then `<last>/__init__.pyi`, `<last>/__init__.py` -/
def pkgFiles (bd : Path) (last : Name) : List Path :=
  [bd ++ [last ++ sStubs, initPyi], bd ++ [last, initPyi], bd ++ [last, initPy]]

/-- "No package, look for module": `<last>.pyi`, `<last>.py` -/
def modFiles (bd : Path) (last : Name) : List Path :=
  [bd ++ [last ++ extPyi], bd ++ [last ++ extPy]]

/-- "In namespace mode, register a potential namespace package":
    `not has_init and exists_case(base_path) and not isfile_case(base_path)` -/
def nsDir (fs : FS) (ns : Bool) (bd : Path) (last : Name) : List Path :=
  if ns && !hasInit fs (bd ++ [last]) && (fs.isFile (bd ++ [last]) || fs.isDir (bd ++ [last])) && !fs.isFile (bd ++ [last])
  then [bd ++ [last]] else []

/-- `verify_module` and `highest_init_level` begin with `if is_init_file(path): path = dirname(path)`: for the package
    files that leads to `bd` like for every other candidate, but the *module* file of a module id ending in
    `.__init__` (`<bd>/__init__.py[i]`) is taken for a package `__init__` as well, so the walk starts one directory
    higher -/
def startOf (bd : Path) (last : Name) (isMod : Bool) : Path :=
  if isMod && last = sInit then bd.dropLast else bd

/-- verify_module(id, path) for a candidate path of directory `bd`; `nlev` = id.count(".") -/
def verifyAt (fs : FS) (bd : Path) (last : Name) (nlev : Nat) (isMod : Bool) : Bool :=
  verifyFrom fs (startOf bd last isMod).reverse nlev

/-- the candidate files of one directory in the order of the code, tagged "is a module file" -/
def scanCands (bd : Path) (last : Name) : List (Path × Bool) :=
  (pkgFiles bd last).map (·, false) ++ (modFiles bd last).map (·, true)

/-- the body of `for base_dir, verify in candidate_base_dirs:` for one directory `bd` (verify = True there);
    `nlev` = len(components) - 1.  The sequence of `isfile_case` tests is unrolled: the first existing file that
    passes `verify_module` is returned; when there is none, every existing file (and the namespace directory, in
    its place between packages and modules) has been recorded as a near miss. -/
def scanDir (fs : FS) (ns : Bool) (bd : Path) (last : Name) (nlev : Nat) : Scan :=
  match (scanCands bd last).find? (fun c => fs.isFile c.1 && verifyAt fs bd last nlev c.2) with
  | some c => .found c.1
  | none =>
    .misses ((pkgFiles bd last).filter fs.isFile ++ nsDir fs ns bd last ++ (modFiles bd last).filter fs.isFile)

/-- highest_init_level(id, path) of a near miss `p` of directory `bd` -/
def levelOf (fs : FS) (bd : Path) (last : Name) (nlev : Nat) (p : Path) : Nat :=
  initLevel fs (startOf bd last ((modFiles bd last).contains p)) nlev

/-- `levels.index(max(levels))`: first element with the maximal level -/
def pickBest : List (Path × Nat) → Option (Path × Nat)
  | [] => none
  | x :: xs =>
    match pickBest xs with
    | none => some x
    | some y => if x.2 < y.2 then some y else some x

def findLoop (fs : FS) (ns : Bool) (last : Name) (nlev : Nat) :
    List (Path × Path) → List (Path × Nat) → Option Path
  | [], near => if ns then (pickBest near).map (·.1) else none
  | (bd, _) :: rest, near =>
    match scanDir fs ns bd last nlev with
    | .found p => some p
    | .misses l => findLoop fs ns last nlev rest (near ++ l.map (fun p => (p, levelOf fs bd last nlev p)))

/-- `_find_module(id)` over mypy_path + python_path; `comps = id.split(".")` (non-empty) -/
def findModule (fs : FS) (ns : Bool) (roots : List Path) (comps : List Name) : Option Path :=
  match comps.getLast? with
  | none => none
  | some last => findLoop fs ns last (comps.length - 1) (candidates fs roots comps) []

/-- `find_module(source.module)` for a build source -/
def findSrc (fs : FS) (o : Opts) (srcs : List Src) (s : Src) : Option Path :=
  findModule fs o.ns (searchRoots o srcs) s.modId

/-! ## `-p PKG` (main.process_options + find_modules_recursive) -/

def isInitFile (p : Path) : Bool :=
  match p.getLast? with
  | some fn => fn = initPy || fn = initPyi
  | none => false

/-- the `for name in names:` loop of find_modules_recursive -/
def loopPkg (fs : FS) (ns : Bool) (recur : List Name → List (Path × List Name)) (pkgPath : Path) (module : List Name) :
    List Name → List Name → List (Path × List Name)
  | [], _ => []
  | n :: rest, seen =>
    if skipName n then loopPkg fs ns recur pkgPath module rest seen
    else if fs.isDir (pkgPath ++ [n]) then
      if ns || fs.isFile (pkgPath ++ [n, initPy]) || fs.isFile (pkgPath ++ [n, initPyi]) then
        recur (module ++ [n]) ++ loopPkg fs ns recur pkgPath module rest (n :: seen)
      else loopPkg fs ns recur pkgPath module rest seen
    else
      let se := splitext n
      if se.1 = sInit then loopPkg fs ns recur pkgPath module rest seen
      else if !seen.contains se.1 && !se.1.contains '.' && isPyExt se.2 then
        recur (module ++ [se.1]) ++ loopPkg fs ns recur pkgPath module rest (se.1 :: seen)
      else loopPkg fs ns recur pkgPath module rest seen

/-- find_modules_recursive(module) with search path (cwd,) + mypy_path as set up by main.process_options for
    `-p`/`-m`; module names are component lists (the recursion appends whole names, so a directory name with a
    dot would be split again by `find_module`: `searchComps`) -/
def findModulesRecursive (fs : FS) (ns : Bool) (roots : List Path) : Nat → List Name → List (Path × List Name)
  | 0, _ => []
  | fuel + 1, module =>
    match findModule fs ns roots (searchComps module) with
    | none => []
    | some mp =>
      let pkg : Option Path :=
        if isInitFile mp then some mp.dropLast
        else if fs.isDir mp then some mp
        else none
      match pkg with
      | none => [(mp, module)]
      | some pp =>
        (mp, module) :: loopPkg fs ns (findModulesRecursive fs ns roots fuel) pp module (sortPlain (fs.listdir pp)) []

/-- main.process_options: SearchPaths((cwd,), mypy_path, sys_path, ()) — searched as mypy_path + python_path -/
def packageRoots (o : Opts) : List Path := o.mypyPath ++ [o.cwd]

/-! ## the decidable side conditions of the `_partial` theorems (evaluated by the driver as well) -/

/-- every component is a valid identifier other than `__init__` (what an `import` statement can spell) -/
def importable (m : List Name) : Bool := !m.isEmpty && m.all (fun c => isIdent c && c != sInit)

/-- the path below the base spells the module: `base/dc/x.py[i]` or `base/dc/x/__init__.py[i]` -/
def spells (B : Path) (m : List Name) (f : Path) : Bool :=
  match m.getLast? with
  | none => false
  | some x => (pkgFiles (B ++ m.dropLast) x).tail.contains f || (modFiles (B ++ m.dropLast) x).contains f

/-- `crawl_up_dir(R) == ("", R)`: the search root is not itself inside a package -/
def goodRoot (fs : FS) (o : Opts) (R : Path) : Bool := crawlUpDir fs o R == Crawl.some [] R

/-- no explicit package base at `R/c1`, `R/c1/c2`, … (components given innermost first) -/
def noBaseBelow (o : Opts) (R : Path) : List Name → Bool
  | [] => true
  | c :: rq => !o.isBase (R ++ (c :: rq).reverse) && noBaseBelow o R rq

/-- no explicit package base strictly inside a search root along the module path (nor at its `-stubs` twin) -/
def noInnerBase (o : Opts) (roots : List Path) (m : List Name) : Bool :=
  roots.all fun R => noBaseBelow o R m.reverse &&
    !o.isBase (R ++ m.dropLast ++ [m.getLast?.getD [] ++ sStubs])

/-- with explicit package bases every search root is one of them (no source lies outside all bases) -/
def rootsExplicit (o : Opts) (roots : List Path) : Bool := !o.epb || roots.all o.isBase

/-- the F10 cell: in namespace mode the module's own package chain is not fully `__init__`-verified AND some
    search root has a bare (no `__init__`) directory named like the module; `noBareDir` says we are outside it -/
def noBareDir (fs : FS) (o : Opts) (roots : List Path) (B : Path) (m : List Name) : Bool :=
  !o.ns || verifyFrom fs (B ++ m.dropLast).reverse (m.length - 1) ||
    roots.all fun R => (nsDir fs true (R ++ m.dropLast) (m.getLast?.getD [])).isEmpty

/-- some `.py[i]` file can be reached from `p` by a directory walk of depth ≤ `k` (no skipped name on the way) -/
def hasSourceBelow (fs : FS) : Nat → Path → Bool
  | 0, _ => false
  | k + 1, p => (fs.listdir p).any fun n =>
      !skipName n && (if fs.isDir (p ++ [n]) then hasSourceBelow fs k (p ++ [n]) else isPyExt (splitext n).2)

/-- a same-named sibling directory `D/st` that shadows the module file `D/st.py[i]` in a directory listing is a
    regular package with the same module name: it has an `__init__` file, is not an explicit base, its name is an
    identifier other than `__init__`, and it contains no directory called `__init__` -/
def cleanShadow (fs : FS) (o : Opts) (D : Path) (st : Name) : Bool :=
  hasInit fs (D ++ [st]) && !o.isBase (D ++ [st]) && isIdent st && st != sInit && !fs.isDir (D ++ [st, sInit])

/-- the F10 cell of `dir_complete_partial` for the file `D/n`: outside it when no source-yielding directory is
    named like the file's stem, or that directory is a clean package -/
def dirCellOK (fs : FS) (o : Opts) (fuel : Nat) (D : Path) (n : Name) : Bool :=
  !hasSourceBelow fs fuel (D ++ [(splitext n).1]) || cleanShadow fs o D (splitext n).1

/-- for a namespace near miss the crawl only reaches the search root when the top-level directory of the module is a
    regular package or the root is an explicit base (asked of every root that has the module's directory at all) -/
def topOK (fs : FS) (o : Opts) (roots : List Path) (m : List Name) : Bool :=
  roots.all fun R => o.isBase R || m.length ≤ 1 || !fs.isDir (R ++ m.dropLast) || hasInit fs (R ++ [m.headD []])

/-- the sibling stub of a source file: `x.py` ↦ `x.pyi` (also `__init__.py` ↦ `__init__.pyi`) -/
def stubOf (p : Path) : Path :=
  match p.getLast? with
  | some fn => if (stripSuffix? extPy fn).isSome then p.dropLast ++ [fn ++ ['i']] else p
  | none => p

/-- the two roots that come from the configuration rather than from the sources are genuine bases -/
def goodRoots (fs : FS) (o : Opts) : Bool := (o.mypyPath ++ [o.cwd]).all (goodRoot fs o)

/-- the file `find_module` returns for the module of `s` is `s` itself, its sibling stub, or another file named
    on the command line (so that an unlisted file shadowing `s` is excluded) -/
def foundListed (fs : FS) (o : Opts) (srcs : List Src) (s : Src) : Bool :=
  match findSrc fs o srcs s with
  | none => true
  | some g => g = s.path || g = stubOf s.path || !fs.isFile g || srcs.any (fun s' => s'.path = g)

/-- all per-source side conditions of `roundtrip_or_duplicate_partial` -/
def cellOK (fs : FS) (o : Opts) (srcs : List Src) (s : Src) : Bool :=
  match s.base with
  | none => false
  | some B =>
    fs.isFile s.path && importable s.module && spells B s.module s.path &&
    noInnerBase o (searchRoots o srcs) s.module && noBareDir fs o (searchRoots o srcs) B s.module &&
    foundListed fs o srcs s

/-- the conclusion for one source, as a Bool (for the driver and the witnesses) -/
def roundTrips (fs : FS) (o : Opts) (srcs : List Src) (s : Src) : Bool :=
  findSrc fs o srcs s = some s.path || findSrc fs o srcs s = some (stubOf s.path)

/-- two listed files with different paths and the same module id -/
def hasDuplicate (srcs : List Src) : Bool :=
  srcs.any fun s => srcs.any fun s' => s.path != s'.path && s.modId = s'.modId

end Layout
