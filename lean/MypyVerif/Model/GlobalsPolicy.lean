/-
C10(d) policy: process-global mutable state must be reset when a build starts, or be exempt for a reviewed
reason.  The table of candidates is generated (Gen/Globals.lean).
-/
namespace GlobalsPolicy

structure Row where
  modName : String
  name : String
  kind : String           -- module-global | class-attribute | singleton | lru_cache
  reset : Bool            -- mentioned in a reset root (reset_global_state, build, build_inner, reset*/clear* they call)
deriving Repr

/-- (module, name, reason) -/
def exempt : List (String × String × String) := [
  ("build", "SCC.id_counter", "ids are labels; only identity within one build is used"),
  ("build", "State.order_counter", "only the relative order of States created within one build is used (tie-break)"),
  ("build", "initial_gc_freeze_done", "one-time GC tuning flag, no effect on results"),
  ("checker_state", "checker_state", "set and restored by a context manager around each check"),
  ("errorcodes", "error_codes", "registry filled at import time"),
  ("modulefinder", "find_gitignores", "memoised pure function of its arguments"),
  ("modulefinder", "get_search_dirs", "memoised per interpreter executable"),
  ("report", "reporter_classes", "registry filled at import time"),
  ("semanal", "SemanticAnalyzer.wrapped_coro_return_types",
   "class-level dict shared by all analyzers, keyed by FuncDef objects (identity hash) that the dict itself keeps alive: an entry can only be read back for the very node it was written for, never by another build; a leak, not a dependence"),
  ("util", "_AVAILABLE_THREADS", "memoised CPU count"),
  ("util", "fields_cache", "memoised dataclass field names per class")
]

def isExempt (r : Row) : Bool := exempt.any (fun e => e.1 == r.modName && e.2.1 == r.name)

def rowOk (r : Row) : Bool := r.reset || isExempt r

def allOk (t : List Row) : Bool := t.all rowOk

def bad (t : List Row) : List String := (t.filter (fun r => !rowOk r)).map (fun r => r.modName ++ "." ++ r.name)

end GlobalsPolicy
