import MypyVerif.Model.ForRange
/-!
Helper lemmas for `Props/C05.lean` (range-loop slice).
-/
namespace ForRange

/-! ### `wrap` is the identity on representable values -/

theorem wrapSigned_of_fits (m v : Int) (_hm : 0 < m) (h1 : -m ≤ v) (h2 : v < m) : wrapSigned m v = v := by
  unfold wrapSigned
  have : (v + m) % (2 * m) = v + m := Int.emod_eq_of_lt (by omega) (by omega)
  omega

theorem wrap_of_fits (t : RTy) (v : Int) (h : t.fits v = true) : t.wrap v = v := by
  cases t <;> simp only [RTy.fits, RTy.lo, RTy.hi, Bool.and_eq_true, decide_eq_true_eq] at h
  · exact wrapSigned_of_fits _ v (by decide) (by omega) (by omega)
  · rfl
  · exact wrapSigned_of_fits _ v (by decide) (by omega) (by omega)
  · exact wrapSigned_of_fits _ v (by decide) (by omega) (by omega)
  · exact wrapSigned_of_fits _ v (by decide) (by omega) (by omega)
  · simp only [RTy.wrap]; omega

/-! ### `compute_range_length` unrolled one step -/

theorem rangeLen_pos_step (start stop step : Int) (hs : 0 < step) :
    (¬ start < stop → rangeLen start stop step = 0) ∧
    (start < stop → rangeLen start stop step = rangeLen (start + step) stop step + 1) := by
  refine ⟨fun h => by simp [rangeLen, hs, h], fun h => ?_⟩
  have hns : ¬ step < 0 := by omega
  simp only [rangeLen, hs, if_true, h]
  have hx : 0 ≤ stop - start - 1 := by omega
  by_cases h2 : start + step < stop
  · simp only [h2, if_true]
    have e : stop - start - 1 = (stop - (start + step) - 1) + 1 * step := by omega
    have hdiv : (stop - start - 1) / step = (stop - (start + step) - 1) / step + 1 := by
      rw [e, Int.add_mul_ediv_right _ _ (by omega)]
    have hq : 0 ≤ (stop - (start + step) - 1) / step := Int.ediv_nonneg (by omega) (by omega)
    rw [hdiv]
    omega
  · simp only [h2, if_false]
    have : (stop - start - 1) / step = 0 := Int.ediv_eq_zero_of_lt hx (by omega)
    rw [this]; rfl

theorem rangeLen_neg_step (start stop step : Int) (hs : step < 0) :
    (¬ stop < start → rangeLen start stop step = 0) ∧
    (stop < start → rangeLen start stop step = rangeLen (start + step) stop step + 1) := by
  have hns : ¬ 0 < step := by omega
  refine ⟨fun h => by simp [rangeLen, hs, hns, h], fun h => ?_⟩
  simp only [rangeLen, hns, hs, if_true, if_false, h]
  have hx : 0 ≤ start - stop - 1 := by omega
  by_cases h2 : stop < start + step
  · simp only [h2, if_true]
    have e : start - stop - 1 = (start + step - stop - 1) + 1 * (-step) := by omega
    have hdiv : (start - stop - 1) / (-step) = (start + step - stop - 1) / (-step) + 1 := by
      rw [e, Int.add_mul_ediv_right _ _ (by omega)]
    have hq : 0 ≤ (start + step - stop - 1) / (-step) := Int.ediv_nonneg (by omega) (by omega)
    rw [hdiv]
    omega
  · simp only [h2, if_false]
    have : (start - stop - 1) / (-step) = 0 := Int.ediv_eq_zero_of_lt hx (by omega)
    rw [this]; rfl

/-- the condition of the emitted loop is "the range is not exhausted" -/
theorem cond_iff_len (st et : RTy) (start stop step : Int) (hs : step ≠ 0) :
    ((emit st et step).cond start stop = false → rangeLen start stop step = 0) ∧
    ((emit st et step).cond start stop = true →
      rangeLen start stop step = rangeLen (start + step) stop step + 1) := by
  by_cases hp : 0 < step
  · have hc : (emit st et step).cmp = .lt := by simp [emit, hp]
    obtain ⟨a, b⟩ := rangeLen_pos_step start stop step hp
    simp only [Skel.cond, hc, decide_eq_false_iff_not, decide_eq_true_eq]
    exact ⟨a, b⟩
  · have hn : step < 0 := by omega
    have hc : (emit st et step).cmp = .gt := by simp [emit, hp]
    obtain ⟨a, b⟩ := rangeLen_neg_step start stop step hn
    simp only [Skel.cond, hc, decide_eq_false_iff_not, decide_eq_true_eq, gt_iff_lt]
    exact ⟨a, b⟩

theorem emit_step (st et : RTy) (step : Int) (hok : StepLitOk st et step = true) : (emit st et step).step = step := by
  unfold StepLitOk at hok
  unfold Skel.step emit
  simp only
  split
  · rfl
  · rename_i h
    simp only [h, Bool.false_eq_true, if_false] at hok
    have : 2 * step / 2 = step := by omega
    rw [this]
    exact wrap_of_fits _ _ hok

theorem emit_idx (st et : RTy) (step : Int) : (emit st et step).idx = indexType st et := rfl

/-- one exact step of the emitted loop -/
theorem emit_next (st et : RTy) (step i : Int) (hok : StepLitOk st et step = true)
    (h : (indexType st et).fits (i + step) = true) :
    (emit st et step).next i = i + step := by
  unfold Skel.next
  rw [emit_step st et step hok]
  cases (emit st et step).add with
  | taggedAdd => rfl
  | intOp => simp only [emit_idx]; exact wrap_of_fits _ _ h

theorem pyRange_unfold (start stop step : Int) (h : rangeLen start stop step = rangeLen (start + step) stop step + 1) :
    pyRange start stop step = start :: pyRange (start + step) stop step := by
  unfold pyRange
  rw [h]; rfl

/-- `rangeFrom` is CPython's `compute_item`: element `i` is `start + i * step` -/
theorem rangeFrom_eq_map (n : Nat) : ∀ (start step : Int),
    rangeFrom n start step = (List.range n).map (fun (i : Nat) => start + (i : Int) * step) := by
  induction n with
  | zero => intro _ _; rfl
  | succ n ih =>
    intro start step
    rw [rangeFrom, ih, List.range_succ_eq_map, List.map_cons, List.map_map]
    congr 1
    · simp
    · apply List.map_congr_left
      intro i _
      simp only [Function.comp, Nat.succ_eq_add_one, Int.natCast_add, Int.natCast_one, Int.add_mul, Int.one_mul]
      omega

end ForRange
