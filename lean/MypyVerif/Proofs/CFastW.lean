import MypyVerif.Proofs.CFast
/-!
# C15 — the fixed-width division helpers of `int_ops.c` (`CPyInt{64,32,16}_{Divide,Remainder}`)

Characterisation of the generated definitions: `ZeroDivisionError` iff the divisor is 0, `OverflowError` iff
`INT_MIN // -1` (the only quotient that does not fit), Python's floor division / modulo otherwise; no
undefined C operation is executed.  The 32-bit section is the 64-bit one with the literals replaced.
-/
set_option maxRecDepth 4000
set_option linter.unusedSimpArgs false
set_option linter.unusedVariables false
namespace CFastProofs
open CFast Tagged CSem

theorem tdiv_abs_half (a b : Int) (hb : b ≠ 0) (hm : a.tmod b ≠ 0) :
    2 * (a.tdiv b).natAbs ≤ a.natAbs := by
  obtain ⟨_, _, _, hp, hn⟩ := tmod_facts a b hb
  have h2 : 2 ≤ b.natAbs := by omega
  rw [Int.natAbs_tdiv]
  have : a.natAbs.div b.natAbs ≤ a.natAbs / 2 := Nat.div_le_div_left h2 (by omega)
  have h3 : a.natAbs.div b.natAbs = a.natAbs / b.natAbs := rfl
  omega

theorem lit_m113 : (18446744073709551503#64 : BitVec 64).toInt = -113 := by decide

/-! ## 64 bit -/

theorem ofInt_eq_of_toInt (x : BitVec 64) (n : Int) (h : x.toInt = n) : x = BitVec.ofInt 64 n := by
  rw [← h]; simp

/-- `CPyInt64_Divide` (int_ops.c): `ZeroDivisionError` iff the divisor is 0, `OverflowError` iff
    `INT64_MIN // -1` (the only quotient that does not fit), Python's floor division otherwise. -/
theorem int64_divide_eq (x y : BitVec 64) : CPyInt64_Divide x y =
    if y.toInt = 0 then .raise "ZeroDivisionError" 18446744073709551503#64
    else if y.toInt = -1 ∧ x.toInt = -9223372036854775808 then .raise "OverflowError" 18446744073709551503#64
    else .fast (BitVec.ofInt 64 (x.toInt.fdiv y.toInt)) := by
  unfold CPyInt64_Divide
  simp only [beq_eq, bne_eq, lit_zero, lit_m1, lit_intMin, Bool.and_eq_true, decide_eq_true_eq,
    BitVec.slt_eq_decide]
  by_cases hz : y.toInt = 0
  · simp [hz]
  simp only [hz, if_false]
  by_cases ho : y.toInt = -1 ∧ x.toInt = -9223372036854775808
  · simp [ho]
  simp only [ho, if_false]
  have hbx := toInt_bounds x
  have hby := toInt_bounds y
  generalize hq' : BitVec.sdiv x y = q
  have hq : q.toInt = x.toInt.tdiv y.toInt := by
    rw [← hq']
    by_cases hx : x.toInt = -9223372036854775808
    · have hy : y.toInt ≠ -1 := fun e => ho ⟨e, hx⟩
      apply BitVec.toInt_sdiv_of_ne_or_ne; right
      intro e; apply hy; rw [e]; decide
    · exact sdiv_toInt x y hx
  generalize ha : x.toInt = a at *
  generalize hb : y.toInt = b at *
  obtain ⟨hdm, hm0, hm1, hm2, hm3⟩ := tmod_facts a b hz
  have hfd := fdiv_of_tdiv a b hz
  have htb := tdiv_abs_le a b
  have hth : a.tmod b ≠ 0 → 2 * (a.tdiv b).natAbs ≤ a.natAbs := tdiv_abs_half a b hz
  generalize ht : a.tdiv b = t at *
  generalize hmm : a.tmod b = m at *
  have hprod : q.toInt * y.toInt = b * t := by rw [hq, hb]; ac_rfl
  have hqy : (q * y).toInt = b * t := toInt_mul_cases q y _ hprod (by omega)
  have hsub : (q - 1#64).toInt = t - 1 ∨ t = -9223372036854775808 := by
    have := toInt_sub_cases q 1#64
    have := toInt_bounds (q - 1#64)
    rw [lit_one, hq] at *
    omega
  simp only [hqy]
  split
  · rename_i c; simp at c
    congr 1; apply ofInt_eq_of_toInt
    split at hfd <;> omega
  · rename_i c; simp at c
    congr 1; apply ofInt_eq_of_toInt
    rw [hq]; split at hfd <;> omega

theorem int64_divide_no_ub (x y : BitVec 64) : CPyInt64_Divide_ub x y = false := by
  unfold CPyInt64_Divide_ub
  simp only [beq_eq, lit_zero, lit_m1, lit_intMin, Bool.and_eq_true, decide_eq_true_eq]
  split
  · rfl
  · split
    · rfl
    · rename_i h1 h2
      simp only [Bool.or_eq_false_iff, Bool.and_eq_false_iff, decide_eq_false_iff_not]
      omega

theorem int64_remainder_eq (x y : BitVec 64) : CPyInt64_Remainder x y =
    if y.toInt = 0 then .raise "ZeroDivisionError" 18446744073709551503#64
    else .fast (BitVec.ofInt 64 (x.toInt.fmod y.toInt)) := by
  unfold CPyInt64_Remainder
  simp only [beq_eq, bne_eq, lit_zero, lit_m1, lit_intMin, Bool.and_eq_true, decide_eq_true_eq,
    BitVec.slt_eq_decide]
  by_cases hz : y.toInt = 0
  · simp [hz]
  simp only [hz, if_false]
  have hbx := toInt_bounds x
  have hby := toInt_bounds y
  generalize ha : x.toInt = a at *
  generalize hb : y.toInt = b at *
  obtain ⟨hdm, hm0, hm1, hm2, hm3⟩ := tmod_facts a b hz
  have hfm := fmod_of_tmod a b hz
  by_cases ho : b = -1 ∧ a = -9223372036854775808
  · obtain ⟨h1, h2⟩ := ho
    subst h1 h2
    simp only [and_self, if_true]
    rfl
  simp only [ho, if_false]
  have hrem : (BitVec.srem x y).toInt = a.tmod b := by rw [BitVec.toInt_srem, ha, hb]
  generalize BitVec.srem x y = q at *
  generalize hmm : a.tmod b = m at *
  have hadd := toInt_add_cases q y
  have hbqy := toInt_bounds (q + y)
  rw [hrem, hb] at hadd
  split
  · rename_i c; simp at c
    congr 1; apply ofInt_eq_of_toInt
    split at hfm <;> omega
  · rename_i c; simp at c
    congr 1; apply ofInt_eq_of_toInt
    rw [hrem]; split at hfm <;> omega

theorem int64_remainder_no_ub (x y : BitVec 64) : CPyInt64_Remainder_ub x y = false := by
  unfold CPyInt64_Remainder_ub
  simp only [beq_eq, lit_zero, lit_m1, lit_intMin, Bool.and_eq_true, decide_eq_true_eq]
  split
  · rfl
  · split
    · rfl
    · rename_i h1 h2
      simp only [Bool.or_eq_false_iff, Bool.and_eq_false_iff, decide_eq_false_iff_not]
      omega

/-! ## 32 bit -/

theorem toInt_bounds32 (x : BitVec 32) : -2147483648 ≤ x.toInt ∧ x.toInt < 2147483648 := by
  have h1 := BitVec.toInt_lt (x := x)
  have h2 := BitVec.le_toInt (x := x)
  omega

theorem toInt_add_cases32 (a b : BitVec 32) :
    (a + b).toInt = a.toInt + b.toInt ∨ (a + b).toInt = a.toInt + b.toInt - 4294967296
    ∨ (a + b).toInt = a.toInt + b.toInt + 4294967296 := by
  have h := BitVec.toInt_add a b
  rw [Int.bmod_def] at h
  have ha := toInt_bounds32 a; have hb := toInt_bounds32 b
  split at h <;> omega

theorem toInt_sub_cases32 (a b : BitVec 32) :
    (a - b).toInt = a.toInt - b.toInt ∨ (a - b).toInt = a.toInt - b.toInt - 4294967296
    ∨ (a - b).toInt = a.toInt - b.toInt + 4294967296 := by
  have h := @BitVec.toInt_sub 32 a b
  rw [Int.bmod_def] at h
  have ha := toInt_bounds32 a; have hb := toInt_bounds32 b
  split at h <;> omega

theorem beq_eq32 (a b : BitVec 32) : (a == b) = decide (a.toInt = b.toInt) := by
  by_cases h : a = b
  · subst h; simp
  · have : a.toInt ≠ b.toInt := fun e => h (BitVec.toInt_inj.1 e)
    simp [h, this]

theorem bne_eq32 (a b : BitVec 32) : (a != b) = decide (a.toInt ≠ b.toInt) := by
  simp [bne, beq_eq32]

theorem toInt_mul_cases32 (a b : BitVec 32) (p : Int) (hp : a.toInt * b.toInt = p)
    (h : -2147483648 ≤ p ∧ p < 2147483648) : (a * b).toInt = p := by
  rw [BitVec.toInt_mul, hp, Int.bmod_def]
  split <;> omega

theorem sdiv_toInt32 (A B : BitVec 32) (h : A.toInt ≠ -2147483648) :
    (BitVec.sdiv A B).toInt = A.toInt.tdiv B.toInt := by
  apply BitVec.toInt_sdiv_of_ne_or_ne
  left
  intro e
  apply h
  rw [e]; decide

theorem lit_zero32 : (0#32 : BitVec 32).toInt = 0 := by decide
theorem lit_m132 : (4294967295#32 : BitVec 32).toInt = -1 := by decide
theorem lit_one32 : (1#32 : BitVec 32).toInt = 1 := by decide
theorem lit_intMin32 : (2147483648#32 : BitVec 32).toInt = -2147483648 := by decide
theorem lit_m11332 : (4294967183#32 : BitVec 32).toInt = -113 := by decide

theorem ofInt_eq_of_toInt32 (x : BitVec 32) (n : Int) (h : x.toInt = n) : x = BitVec.ofInt 32 n := by
  rw [← h]; simp

/-- `CPyInt32_Divide` (int_ops.c): `ZeroDivisionError` iff the divisor is 0, `OverflowError` iff
    `INT32_MIN // -1` (the only quotient that does not fit), Python's floor division otherwise. -/
theorem int32_divide_eq (x y : BitVec 32) : CPyInt32_Divide x y =
    if y.toInt = 0 then .raise "ZeroDivisionError" 4294967183#32
    else if y.toInt = -1 ∧ x.toInt = -2147483648 then .raise "OverflowError" 4294967183#32
    else .fast (BitVec.ofInt 32 (x.toInt.fdiv y.toInt)) := by
  unfold CPyInt32_Divide
  simp only [beq_eq32, bne_eq32, lit_zero32, lit_m132, lit_intMin32, Bool.and_eq_true, decide_eq_true_eq,
    BitVec.slt_eq_decide]
  by_cases hz : y.toInt = 0
  · simp [hz]
  simp only [hz, if_false]
  by_cases ho : y.toInt = -1 ∧ x.toInt = -2147483648
  · simp [ho]
  simp only [ho, if_false]
  have hbx := toInt_bounds32 x
  have hby := toInt_bounds32 y
  generalize hq' : BitVec.sdiv x y = q
  have hq : q.toInt = x.toInt.tdiv y.toInt := by
    rw [← hq']
    by_cases hx : x.toInt = -2147483648
    · have hy : y.toInt ≠ -1 := fun e => ho ⟨e, hx⟩
      apply BitVec.toInt_sdiv_of_ne_or_ne; right
      intro e; apply hy; rw [e]; decide
    · exact sdiv_toInt32 x y hx
  generalize ha : x.toInt = a at *
  generalize hb : y.toInt = b at *
  obtain ⟨hdm, hm0, hm1, hm2, hm3⟩ := tmod_facts a b hz
  have hfd := fdiv_of_tdiv a b hz
  have htb := tdiv_abs_le a b
  have hth : a.tmod b ≠ 0 → 2 * (a.tdiv b).natAbs ≤ a.natAbs := tdiv_abs_half a b hz
  generalize ht : a.tdiv b = t at *
  generalize hmm : a.tmod b = m at *
  have hprod : q.toInt * y.toInt = b * t := by rw [hq, hb]; ac_rfl
  have hqy : (q * y).toInt = b * t := toInt_mul_cases32 q y _ hprod (by omega)
  have hsub : (q - 1#32).toInt = t - 1 ∨ t = -2147483648 := by
    have := toInt_sub_cases32 q 1#32
    have := toInt_bounds32 (q - 1#32)
    rw [lit_one32, hq] at *
    omega
  simp only [hqy]
  split
  · rename_i c; simp at c
    congr 1; apply ofInt_eq_of_toInt32
    split at hfd <;> omega
  · rename_i c; simp at c
    congr 1; apply ofInt_eq_of_toInt32
    rw [hq]; split at hfd <;> omega

theorem int32_divide_no_ub (x y : BitVec 32) : CPyInt32_Divide_ub x y = false := by
  unfold CPyInt32_Divide_ub
  simp only [beq_eq32, lit_zero32, lit_m132, lit_intMin32, Bool.and_eq_true, decide_eq_true_eq]
  split
  · rfl
  · split
    · rfl
    · rename_i h1 h2
      simp only [Bool.or_eq_false_iff, Bool.and_eq_false_iff, decide_eq_false_iff_not]
      omega

theorem int32_remainder_eq (x y : BitVec 32) : CPyInt32_Remainder x y =
    if y.toInt = 0 then .raise "ZeroDivisionError" 4294967183#32
    else .fast (BitVec.ofInt 32 (x.toInt.fmod y.toInt)) := by
  unfold CPyInt32_Remainder
  simp only [beq_eq32, bne_eq32, lit_zero32, lit_m132, lit_intMin32, Bool.and_eq_true, decide_eq_true_eq,
    BitVec.slt_eq_decide]
  by_cases hz : y.toInt = 0
  · simp [hz]
  simp only [hz, if_false]
  have hbx := toInt_bounds32 x
  have hby := toInt_bounds32 y
  generalize ha : x.toInt = a at *
  generalize hb : y.toInt = b at *
  obtain ⟨hdm, hm0, hm1, hm2, hm3⟩ := tmod_facts a b hz
  have hfm := fmod_of_tmod a b hz
  by_cases ho : b = -1 ∧ a = -2147483648
  · obtain ⟨h1, h2⟩ := ho
    subst h1 h2
    simp only [and_self, if_true]
    rfl
  simp only [ho, if_false]
  have hrem : (BitVec.srem x y).toInt = a.tmod b := by rw [BitVec.toInt_srem, ha, hb]
  generalize BitVec.srem x y = q at *
  generalize hmm : a.tmod b = m at *
  have hadd := toInt_add_cases32 q y
  have hbqy := toInt_bounds32 (q + y)
  rw [hrem, hb] at hadd
  split
  · rename_i c; simp at c
    congr 1; apply ofInt_eq_of_toInt32
    split at hfm <;> omega
  · rename_i c; simp at c
    congr 1; apply ofInt_eq_of_toInt32
    rw [hrem]; split at hfm <;> omega

theorem int32_remainder_no_ub (x y : BitVec 32) : CPyInt32_Remainder_ub x y = false := by
  unfold CPyInt32_Remainder_ub
  simp only [beq_eq32, lit_zero32, lit_m132, lit_intMin32, Bool.and_eq_true, decide_eq_true_eq]
  split
  · rfl
  · split
    · rfl
    · rename_i h1 h2
      simp only [Bool.or_eq_false_iff, Bool.and_eq_false_iff, decide_eq_false_iff_not]
      omega

/-! ## 16 bit (operands are promoted to `int`: sign-extended to 32 bits, results truncated back) -/

theorem toInt_bounds16 (x : BitVec 16) : -32768 ≤ x.toInt ∧ x.toInt < 32768 := by
  have h1 := BitVec.toInt_lt (x := x)
  have h2 := BitVec.le_toInt (x := x)
  omega

theorem sext16_toInt (x : BitVec 16) : (BitVec.signExtend 32 x).toInt = x.toInt :=
  BitVec.toInt_signExtend_of_le (by omega)

theorem toInt_toNat32 (x : BitVec 32) :
    (x.toInt = x.toNat ∧ x.toNat < 2147483648) ∨
    (x.toInt = (x.toNat : Int) - 4294967296 ∧ 2147483648 ≤ x.toNat) := by
  have h := BitVec.toInt_eq_toNat_cond x
  have hl := x.isLt
  split at h <;> omega

theorem trunc16_toInt (z : BitVec 32) (h : -32768 ≤ z.toInt ∧ z.toInt < 32768) :
    (BitVec.truncate 16 z).toInt = z.toInt := by
  have h1 : (BitVec.truncate 16 z).toInt = ((z.toNat : Int)).bmod (2 ^ 16) := BitVec.toInt_setWidth z
  rw [h1, Int.bmod_def]
  have := toInt_toNat32 z
  split <;> omega

theorem ofInt_eq_of_toInt16 (x : BitVec 16) (n : Int) (h : x.toInt = n) : x = BitVec.ofInt 16 n := by
  rw [← h]; simp

theorem lit16_min : (4294934528#32 : BitVec 32).toInt = -32768 := by decide

theorem int16_divide_eq (x y : BitVec 16) : CPyInt16_Divide x y =
    if y.toInt = 0 then .raise "ZeroDivisionError" 65423#16
    else if y.toInt = -1 ∧ x.toInt = -32768 then .raise "OverflowError" 65423#16
    else .fast (BitVec.ofInt 16 (x.toInt.fdiv y.toInt)) := by
  unfold CPyInt16_Divide
  simp only [beq_eq32, bne_eq32, lit_zero32, lit_m132, lit16_min, sext16_toInt, Bool.and_eq_true,
    decide_eq_true_eq, BitVec.slt_eq_decide]
  by_cases hz : y.toInt = 0
  · simp [hz]
  simp only [hz, if_false]
  by_cases ho : y.toInt = -1 ∧ x.toInt = -32768
  · simp [ho]
  simp only [ho, if_false]
  have hbx := toInt_bounds16 x
  have hby := toInt_bounds16 y
  generalize hX : BitVec.signExtend 32 x = X
  generalize hY : BitVec.signExtend 32 y = Y
  have hXi : X.toInt = x.toInt := by rw [← hX]; exact sext16_toInt x
  have hYi : Y.toInt = y.toInt := by rw [← hY]; exact sext16_toInt y
  generalize hQ' : BitVec.sdiv X Y = Q
  have hQ : Q.toInt = x.toInt.tdiv y.toInt := by
    rw [← hQ', sdiv_toInt32 X Y (by omega), hXi, hYi]
  generalize ha : x.toInt = a at *
  generalize hb : y.toInt = b at *
  obtain ⟨hdm, hm0, hm1, hm2, hm3⟩ := tmod_facts a b hz
  have hfd := fdiv_of_tdiv a b hz
  have htb := tdiv_abs_le a b
  have hth : a.tmod b ≠ 0 → 2 * (a.tdiv b).natAbs ≤ a.natAbs := tdiv_abs_half a b hz
  generalize ht : a.tdiv b = t at *
  generalize hmm : a.tmod b = m at *
  -- the quotient fits 16 bits (the only one that does not is excluded above)
  have htr : t ≠ 32768 := by
    intro e
    have : a = -32768 := by omega
    subst this; subst e
    -- then b * 32768 + m = -32768 with |m| < |b|: b = -1
    omega
  generalize hd' : BitVec.truncate 16 Q = d
  have hd : d.toInt = t := by rw [← hd', trunc16_toInt Q (by omega), hQ]
  generalize hD : BitVec.signExtend 32 d = D
  have hDi : D.toInt = t := by rw [← hD, sext16_toInt, hd]
  have hprod : D.toInt * Y.toInt = b * t := by rw [hDi, hYi]; ac_rfl
  have hDY : (D * Y).toInt = b * t := toInt_mul_cases32 D Y _ hprod (by omega)
  have hsub : (D - 1#32).toInt = t - 1 := by
    have := toInt_sub_cases32 D 1#32
    have := toInt_bounds32 (D - 1#32)
    rw [lit_one32, hDi] at *
    omega
  simp only [hDY, hXi]
  split
  · rename_i c; simp at c
    congr 1; apply ofInt_eq_of_toInt16
    rw [trunc16_toInt _ (by rw [hsub]; split at hfd <;> omega), hsub]
    split at hfd <;> omega
  · rename_i c; simp at c
    congr 1; apply ofInt_eq_of_toInt16
    rw [hd]; split at hfd <;> omega

theorem int16_remainder_eq (x y : BitVec 16) : CPyInt16_Remainder x y =
    if y.toInt = 0 then .raise "ZeroDivisionError" 65423#16
    else .fast (BitVec.ofInt 16 (x.toInt.fmod y.toInt)) := by
  unfold CPyInt16_Remainder
  simp only [beq_eq32, bne_eq32, lit_zero32, lit_m132, lit16_min, sext16_toInt, Bool.and_eq_true,
    decide_eq_true_eq, BitVec.slt_eq_decide]
  by_cases hz : y.toInt = 0
  · simp [hz]
  simp only [hz, if_false]
  have hbx := toInt_bounds16 x
  have hby := toInt_bounds16 y
  generalize hX : BitVec.signExtend 32 x = X
  generalize hY : BitVec.signExtend 32 y = Y
  have hXi : X.toInt = x.toInt := by rw [← hX]; exact sext16_toInt x
  have hYi : Y.toInt = y.toInt := by rw [← hY]; exact sext16_toInt y
  generalize ha : x.toInt = a at *
  generalize hb : y.toInt = b at *
  obtain ⟨hdm, hm0, hm1, hm2, hm3⟩ := tmod_facts a b hz
  have hfm := fmod_of_tmod a b hz
  by_cases ho : b = -1 ∧ a = -32768
  · obtain ⟨h1, h2⟩ := ho
    subst h1 h2
    simp only [and_self, if_true]
    rfl
  simp only [ho, if_false]
  have hrem : (BitVec.srem X Y).toInt = a.tmod b := by rw [BitVec.toInt_srem, hXi, hYi]
  generalize BitVec.srem X Y = Q at *
  generalize hmm : a.tmod b = m at *
  generalize hd' : BitVec.truncate 16 Q = d
  have hd : d.toInt = m := by rw [← hd', trunc16_toInt Q (by omega), hrem]
  generalize hD : BitVec.signExtend 32 d = D
  have hDi : D.toInt = m := by rw [← hD, sext16_toInt, hd]
  have hadd := toInt_add_cases32 D Y
  have hbdy := toInt_bounds32 (D + Y)
  rw [hDi, hYi] at hadd
  try simp only [hd, hDi]
  split
  · rename_i c; simp at c
    congr 1; apply ofInt_eq_of_toInt16
    rw [trunc16_toInt _ (by split at hfm <;> omega)]
    split at hfm <;> omega
  · rename_i c; simp at c
    congr 1; apply ofInt_eq_of_toInt16
    rw [hd]; split at hfm <;> omega

theorem lit16_intMin32 : (2147483648#32 : BitVec 32).toInt = -2147483648 := by decide

theorem int16_divide_no_ub (x y : BitVec 16) : CPyInt16_Divide_ub x y = false := by
  unfold CPyInt16_Divide_ub
  simp only [beq_eq32, lit_zero32, lit_m132, lit16_min, lit16_intMin32, sext16_toInt, Bool.and_eq_true,
    decide_eq_true_eq]
  have := toInt_bounds16 x
  split
  · rfl
  · split
    · rfl
    · rename_i h1 h2
      simp only [Bool.or_eq_false_iff, Bool.and_eq_false_iff, decide_eq_false_iff_not]
      omega

theorem int16_remainder_no_ub (x y : BitVec 16) : CPyInt16_Remainder_ub x y = false := by
  unfold CPyInt16_Remainder_ub
  simp only [beq_eq32, lit_zero32, lit_m132, lit16_min, lit16_intMin32, sext16_toInt, Bool.and_eq_true,
    decide_eq_true_eq]
  have := toInt_bounds16 x
  split
  · rfl
  · split
    · rfl
    · rename_i h1 h2
      simp only [Bool.or_eq_false_iff, Bool.and_eq_false_iff, decide_eq_false_iff_not]
      omega

end CFastProofs
