import MypyVerif.Model.Ownership
/-!
# C06 — soundness lemmas for the ownership verifier

`Gamma a s`: the abstract state `a` describes the concrete state `s` (pointwise membership).
One-step soundness (`aStep_sound`) is a membership argument that never looks inside `stepVal`.
-/
namespace Own

/-! ### finite sets as lists -/

theorem mem_insertVal {c x : CVal} {acc : AVal} : x ∈ insertVal c acc ↔ x = c ∨ x ∈ acc := by
  unfold insertVal
  by_cases h : acc.contains c = true
  · simp only [h, if_true]
    constructor
    · intro hx; exact Or.inr hx
    · intro hx
      cases hx with
      | inl e => subst e; simpa using h
      | inr hx => exact hx
  · simp only [h]
    simp

theorem mem_unionVals {a b : AVal} {x : CVal} : x ∈ unionVals a b ↔ x ∈ a ∨ x ∈ b := by
  unfold unionVals
  induction a with
  | nil => simp
  | cons c cs ih =>
    simp only [List.foldr_cons, mem_insertVal, ih, List.mem_cons]
    constructor
    · intro h
      rcases h with h | h | h
      · exact Or.inl (Or.inl h)
      · exact Or.inl (Or.inr h)
      · exact Or.inr h
    · intro h
      rcases h with (h | h) | h
      · exact Or.inl h
      · exact Or.inr (Or.inl h)
      · exact Or.inr (Or.inr h)

theorem liftVals_sound {f : CVal → Option (List CVal)} :
    ∀ {as bs : AVal}, liftVals f as = some bs → ∀ c ∈ as, ∃ r, f c = some r ∧ ∀ x ∈ r, x ∈ bs := by
  intro as
  induction as with
  | nil => intro bs _ c hc; cases hc
  | cons a rest ih =>
    intro bs h c hc
    unfold liftVals at h
    cases hfa : f a with
    | none => simp [hfa] at h
    | some r =>
      cases hrest : liftVals f rest with
      | none => simp [hfa, hrest] at h
      | some rs =>
        simp only [hfa, hrest, Option.some.injEq] at h
        subst h
        cases hc with
        | head => exact ⟨r, hfa, fun x hx => mem_unionVals.mpr (Or.inl hx)⟩
        | tail _ hc' =>
          obtain ⟨r', hr', hsub⟩ := ih hrest c hc'
          exact ⟨r', hr', fun x hx => mem_unionVals.mpr (Or.inr (hsub x hx))⟩

theorem liftMove_sound :
    ∀ {as nd ns : AVal}, liftMove as = some (nd, ns) → ∀ c ∈ as,
      ∃ cd cs, moveSrc c = some (cd, cs) ∧ cd ∈ nd ∧ cs ∈ ns := by
  intro as
  induction as with
  | nil => intro nd ns _ c hc; cases hc
  | cons a rest ih =>
    intro nd ns h c hc
    unfold liftMove at h
    cases hfa : moveSrc a with
    | none => simp [hfa] at h
    | some p =>
      obtain ⟨cd, cs⟩ := p
      cases hrest : liftMove rest with
      | none => simp [hfa, hrest] at h
      | some q =>
        obtain ⟨nd', ns'⟩ := q
        simp only [hfa, hrest, Option.some.injEq, Prod.mk.injEq] at h
        obtain ⟨h1, h2⟩ := h
        subst h1; subst h2
        cases hc with
        | head => exact ⟨cd, cs, hfa, mem_insertVal.mpr (Or.inl rfl), mem_insertVal.mpr (Or.inl rfl)⟩
        | tail _ hc' =>
          obtain ⟨cd', cs', hm, hd, hs⟩ := ih hrest c hc'
          exact ⟨cd', cs', hm, mem_insertVal.mpr (Or.inr hd), mem_insertVal.mpr (Or.inr hs)⟩

/-! ### abstract states -/

/-- the abstract state describes the concrete one -/
def Gamma (a : AState) (s : CState) : Prop := ∀ v, s v ∈ a.get v

theorem get_put {a : AState} {v w : Var} {x : AVal} (h : v < a.size) :
    (a.put v x).get w = if w = v then x else a.get w := by
  unfold AState.get AState.put
  simp only [Array.getD_eq_getD_getElem?, Array.getElem?_setIfInBounds]
  by_cases hw : w = v
  · subst hw; simp [h]
  · have : ¬ v = w := fun e => hw e.symm
    simp [hw, this]

theorem size_put {a : AState} {v : Var} {x : AVal} : (a.put v x).size = a.size := by
  unfold AState.put; simp

theorem Gamma_put {a : AState} {s : CState} {v : Var} {x : AVal} {c : CVal}
    (hG : Gamma a s) (hv : v < a.size) (hc : c ∈ x) : Gamma (a.put v x) (s.set v c) := by
  intro w
  rw [get_put hv]
  unfold CState.set
  by_cases hw : w = v
  · simp [hw, hc]
  · simp [hw, hG w]

theorem get_of_size_le {a : AState} {v : Var} (h : a.size ≤ v) : a.get v = [.undef] := by
  unfold AState.get
  simp [Array.getD_eq_getD_getElem?, Array.getElem?_eq_none h]

theorem get_mem_toList {a : AState} {v : Var} (h : v < a.size) : a.get v ∈ a.toList := by
  unfold AState.get
  simp only [Array.getD_eq_getD_getElem?, Array.getElem?_eq_getElem h, Option.getD_some]
  exact Array.mem_toList_iff.mpr (Array.getElem_mem h)

/-! ### one micro-op -/

theorem aStepUnary_sound {op : MicroOp} {a a' : AState} {s : CState}
    (hG : Gamma a s) (h : aStepUnary op a = some a') :
    ∃ ss, stepUnary op s = some ss ∧ ∀ s' ∈ ss, Gamma a' s' := by
  unfold aStepUnary at h
  by_cases hv : op.var < a.size
  · simp only [hv, decide_true, if_true] at h
    cases hl : liftVals (stepVal op) (a.get op.var) with
    | none => simp [hl] at h
    | some bs =>
      simp only [hl] at h
      by_cases hb : bs.all inBound = true
      · simp only [hb, if_true, Option.some.injEq] at h
        subst h
        obtain ⟨r, hr, hsub⟩ := liftVals_sound hl (s op.var) (hG op.var)
        refine ⟨r.map (s.set op.var), ?_, ?_⟩
        · unfold stepUnary; simp [hr]
        · intro s' hs'
          obtain ⟨c, hc, rfl⟩ := List.mem_map.mp hs'
          exact Gamma_put hG hv (hsub c hc)
      · simp [hb] at h
  · simp [hv] at h

theorem aStepMove_sound {d src : Var} {a a' : AState} {s : CState}
    (hG : Gamma a s) (h : aStepMove d src a = some a') :
    ∃ ss, stepMove d src s = some ss ∧ ∀ s' ∈ ss, Gamma a' s' := by
  unfold aStepMove at h
  by_cases hds : d = src
  · simp [hds] at h
  · simp only [hds, if_false] at h
    by_cases hr : (decide (d < a.size) && decide (src < a.size)) = true
    · simp only [hr, if_true] at h
      have hr' : d < a.size ∧ src < a.size := by simpa using hr
      by_cases ho : (a.get d).any CVal.owns = true
      · simp [ho] at h
      · have ho' : (a.get d).any CVal.owns = false := by simpa using ho
        simp only [ho', Bool.false_eq_true, if_false] at h
        cases hl : liftMove (a.get src) with
        | none => simp [hl] at h
        | some p =>
          obtain ⟨nd, ns⟩ := p
          simp only [hl] at h
          by_cases hb : (nd.all inBound && ns.all inBound) = true
          · simp only [hb, if_true, Option.some.injEq] at h
            subst h
            obtain ⟨cd, cs, hm, hd, hs⟩ := liftMove_sound hl (s src) (hG src)
            have hown : (s d).owns = false := by
              cases hsd : (s d).owns with
              | false => rfl
              | true =>
                exfalso; apply ho
                exact List.any_eq_true.mpr ⟨s d, hG d, hsd⟩
            refine ⟨[(s.set src cs).set d cd], ?_, ?_⟩
            · unfold stepMove; simp [hds, hown, hm]
            · intro s' hs'
              have : s' = (s.set src cs).set d cd := by simpa using hs'
              subst this
              have h1 : Gamma (a.put src ns) (s.set src cs) := Gamma_put hG hr'.2 hs
              have hd' : d < (a.put src ns).size := by rw [size_put]; exact hr'.1
              exact Gamma_put h1 hd' hd
          · simp [hb] at h
    · simp [hr] at h

theorem aStep_sound {op : MicroOp} {a a' : AState} {s : CState}
    (hG : Gamma a s) (h : aStep op a = some a') :
    ∃ ss, stepOp op s = some ss ∧ ∀ s' ∈ ss, Gamma a' s' := by
  cases op with
  | move d src => exact aStepMove_sound hG h
  | define d k => exact aStepUnary_sound hG h
  | incref v => exact aStepUnary_sound hG h
  | decref v x => exact aStepUnary_sound hG h
  | steal v => exact aStepUnary_sound hG h
  | stealMaybe v => exact aStepUnary_sound hG h
  | use v => exact aStepUnary_sound hG h
  | useMaybe v => exact aStepUnary_sound hG h
  | assumeNull v => exact aStepUnary_sound hG h
  | assumeOk v => exact aStepUnary_sound hG h
  | clobber v => exact aStepUnary_sound hG h

/-! ### lists of micro-ops -/

theorem bindAll_all {α β : Type} {f : α → Option (List β)} {P : β → Prop} :
    ∀ {xs : List α}, (∀ x ∈ xs, ∃ ys, f x = some ys ∧ ∀ y ∈ ys, P y) →
      ∃ zs, bindAll f xs = some zs ∧ ∀ z ∈ zs, P z := by
  intro xs
  induction xs with
  | nil => intro _; exact ⟨[], rfl, fun z hz => by cases hz⟩
  | cons x rest ih =>
    intro h
    obtain ⟨ys, hy, hP⟩ := h x (List.mem_cons_self ..)
    obtain ⟨zs, hz, hQ⟩ := ih (fun x' hx' => h x' (List.mem_cons_of_mem _ hx'))
    refine ⟨ys ++ zs, ?_, ?_⟩
    · unfold bindAll; simp [hy, hz]
    · intro z hz'
      rcases List.mem_append.mp hz' with h1 | h1
      · exact hP z h1
      · exact hQ z h1

theorem bindAll_mem {α β : Type} {f : α → Option (List β)} :
    ∀ {xs : List α} {zs : List β}, bindAll f xs = some zs → ∀ z ∈ zs, ∃ x ∈ xs, ∃ ys, f x = some ys ∧ z ∈ ys := by
  intro xs
  induction xs with
  | nil =>
    intro zs h z hz
    unfold bindAll at h
    simp only [Option.some.injEq] at h
    subst h; cases hz
  | cons x rest ih =>
    intro zs h z hz
    unfold bindAll at h
    cases hfx : f x with
    | none => simp [hfx] at h
    | some ys =>
      cases hr : bindAll f rest with
      | none => simp [hfx, hr] at h
      | some rs =>
        simp only [hfx, hr, Option.some.injEq] at h
        subst h
        rcases List.mem_append.mp hz with h1 | h1
        · exact ⟨x, List.mem_cons_self .., ys, hfx, h1⟩
        · obtain ⟨x', hx', ys', hy', hz'⟩ := ih hr z h1
          exact ⟨x', List.mem_cons_of_mem _ hx', ys', hy', hz'⟩

theorem aRun_sound : ∀ (ops : List MicroOp) {a a' : AState} {s : CState},
    aRun ops a = some a' → Gamma a s → ∃ ss, runOps ops s = some ss ∧ ∀ s' ∈ ss, Gamma a' s' := by
  intro ops
  induction ops with
  | nil =>
    intro a a' s h hG
    unfold aRun at h
    simp only [Option.some.injEq] at h
    subst h
    refine ⟨[s], rfl, ?_⟩
    intro s' hs'
    have : s' = s := by simpa using hs'
    subst this
    exact hG
  | cons op rest ih =>
    intro a a' s h hG
    unfold aRun at h
    cases hs : aStep op a with
    | none => simp [hs] at h
    | some a1 =>
      simp only [hs] at h
      obtain ⟨ss, hstep, hall⟩ := aStep_sound hG hs
      have := bindAll_all (f := runOps rest) (P := fun s' => Gamma a' s') (xs := ss)
        (fun x hx => ih h (hall x hx))
      obtain ⟨zs, hz, hP⟩ := this
      refine ⟨zs, ?_, hP⟩
      unfold runOps
      simp [hstep, hz]

/-! ### inclusion of abstract states -/

theorem subVals_sound {x y : AVal} (h : subVals x y = true) {c : CVal} (hc : c ∈ x) : c ∈ y := by
  unfold subVals at h
  have := List.all_eq_true.mp h c hc
  simpa using this

theorem subList_sound : ∀ {xs ys : List AVal}, subList xs ys = true →
    xs.length = ys.length ∧ ∀ (i : Nat) (c : CVal), c ∈ xs.getD i [.undef] → c ∈ ys.getD i [.undef] := by
  intro xs
  induction xs with
  | nil =>
    intro ys h
    cases ys with
    | nil => exact ⟨rfl, fun i c hc => hc⟩
    | cons y ys => simp [subList] at h
  | cons x xs ih =>
    intro ys h
    cases ys with
    | nil => simp [subList] at h
    | cons y ys =>
      simp only [subList, Bool.and_eq_true] at h
      obtain ⟨hl, hi⟩ := ih h.2
      refine ⟨by simp [hl], ?_⟩
      intro i c hc
      cases i with
      | zero =>
        simp only [List.getD_cons_zero] at hc ⊢
        exact subVals_sound h.1 hc
      | succ j =>
        simp only [List.getD_cons_succ] at hc ⊢
        exact hi j c hc

theorem get_eq_toList_getD (a : AState) (v : Var) : a.get v = a.toList.getD v [.undef] := by
  unfold AState.get
  simp [Array.getD_eq_getD_getElem?, List.getD_eq_getElem?_getD]

theorem subState_sound {a b : AState} {s : CState} (h : subState a b = true) (hG : Gamma a s) : Gamma b s := by
  intro v
  have := (subList_sound h).2 v (s v)
  rw [← get_eq_toList_getD, ← get_eq_toList_getD] at this
  exact this (hG v)

theorem flowsTo_sound {a : AState} {tgt : Option AState} {s : CState}
    (h : flowsTo a tgt = true) (hG : Gamma a s) : ∃ b, tgt = some b ∧ Gamma b s := by
  unfold flowsTo at h
  cases tgt with
  | none => simp at h
  | some b => exact ⟨b, rfl, subState_sound h hG⟩

theorem edgeDead_sound {e : Edge} {a : AState} {s : CState} (h : edgeDead e a = true) : ¬ Gamma a s := by
  intro hG
  unfold edgeDead at h
  obtain ⟨op, _, hop⟩ := List.any_eq_true.mp h
  have := hG op.var
  have he : a.get op.var = [] := by simpa using hop
  rw [he] at this
  cases this

/-! ### return -/

theorem exitAll_sound {a : AState} {s : CState} (h : exitAll a = true) (hG : Gamma a s) : ExitOK s := by
  intro v
  unfold exitAll at h
  by_cases hv : v < a.size
  · have h1 := List.all_eq_true.mp h (a.get v) (get_mem_toList hv)
    have h2 := List.all_eq_true.mp h1 (s v) (hG v)
    simpa using h2
  · have : a.get v = [.undef] := get_of_size_le (Nat.le_of_not_lt hv)
    have hm := hG v
    rw [this] at hm
    have : s v = .undef := by simpa using hm
    rw [this]; rfl

theorem aRet_sound {v : Option Var} {a : AState} {s : CState} (h : aRet v a = true) (hG : Gamma a s) :
    ∃ s', retStep v s = some s' ∧ ExitOK s' := by
  unfold aRet at h
  cases v with
  | none => exact ⟨s, rfl, exitAll_sound h hG⟩
  | some x =>
    simp only [Bool.and_eq_true, decide_eq_true_eq] at h
    obtain ⟨hx, h2⟩ := h
    cases hl : liftVals (fun c => (retVal c).map (fun r => [r])) (a.get x) with
    | none => simp [hl] at h2
    | some bs =>
      simp only [hl] at h2
      obtain ⟨r, hr, hsub⟩ := liftVals_sound hl (s x) (hG x)
      cases hrv : retVal (s x) with
      | none => simp [hrv] at hr
      | some c =>
        simp only [hrv, Option.map_some, Option.some.injEq] at hr
        subst hr
        refine ⟨s.set x c, ?_, ?_⟩
        · unfold retStep; simp [hrv]
        · exact exitAll_sound h2 (Gamma_put hG hx (hsub c (by simp)))

/-! ### the invariant -/

/-- block `l` is annotated reachable with a state that describes `s` -/
def Inv (ann : Ann) (l : Lbl) (s : CState) : Prop := ∃ a, ann.getD l none = some a ∧ Gamma a s

theorem checkEdge_sound {n : Nat} {ann : Ann} {a : AState} {e : Edge} {s : CState}
    (h : checkEdge n ann a e = true) (hG : Gamma a s) :
    e.target < n ∧ ∃ ss, runOps e.ops s = some ss ∧ ∀ s' ∈ ss, Inv ann e.target s' := by
  unfold checkEdge at h
  simp only [Bool.and_eq_true, decide_eq_true_eq] at h
  obtain ⟨ht, h2⟩ := h
  refine ⟨ht, ?_⟩
  cases hr : aRun e.ops a with
  | none => simp [hr] at h2
  | some a' =>
    simp only [hr, Bool.or_eq_true] at h2
    obtain ⟨ss, hrun, hall⟩ := aRun_sound e.ops hr hG
    refine ⟨ss, hrun, ?_⟩
    intro s' hs'
    rcases h2 with hd | hf
    · exact absurd (hall s' hs') (edgeDead_sound hd)
    · obtain ⟨b, hb, hGb⟩ := flowsTo_sound hf (hall s' hs')
      exact ⟨b, hb, hGb⟩

/-- what `checkBlock` establishes for one annotated block -/
def BlockOK (n : Nat) (ann : Ann) (a : AState) (b : Block) : Prop :=
  ∃ a', aRun b.ops a = some a' ∧ checkTerm n ann a' b.term = true

theorem checkBlocks_sound {n : Nat} {ann : Ann} :
    ∀ {es : List (Option AState)} {bs : List Block}, checkBlocks n ann es bs = true →
      es.length = bs.length ∧
      ∀ (l : Nat) (a : AState) (b : Block), es[l]? = some (some a) → bs[l]? = some b → BlockOK n ann a b := by
  intro es
  induction es with
  | nil =>
    intro bs h
    cases bs with
    | nil => exact ⟨rfl, fun l a b he _ => by simp at he⟩
    | cons b bs => simp [checkBlocks] at h
  | cons e es ih =>
    intro bs h
    cases bs with
    | nil => simp [checkBlocks] at h
    | cons b bs =>
      simp only [checkBlocks, Bool.and_eq_true] at h
      obtain ⟨hl, hi⟩ := ih h.2
      refine ⟨by simp [hl], ?_⟩
      intro l a b' he hb
      cases l with
      | zero =>
        simp only [List.getElem?_cons_zero, Option.some.injEq] at he hb
        subst he; subst hb
        have h1 := h.1
        unfold checkBlock at h1
        simp only at h1
        cases hr : aRun b.ops a with
        | none => simp [hr] at h1
        | some a' =>
          simp only [hr] at h1
          exact ⟨a', hr, h1⟩
      | succ j =>
        simp only [List.getElem?_cons_succ] at he hb
        exact hi j a b' he hb

theorem argKindOf_none_of_range {args : List (Var × ArgKind)} {n v : Nat}
    (h : args.all (fun p => decide (p.1 < n)) = true) (hv : n ≤ v) : argKindOf args v = none := by
  induction args with
  | nil => rfl
  | cons p rest ih =>
    obtain ⟨a, k⟩ := p
    simp only [List.all_cons, Bool.and_eq_true, decide_eq_true_eq] at h
    unfold argKindOf
    have h1 : a < n := h.1
    have : ¬ a = v := fun e => by subst e; exact absurd h1 (Nat.not_lt.mpr hv)
    simp only [this, if_false]
    exact ih h.2

theorem initState_get (f : FuncIR) (v : Var) :
    (initState f).get v = if v < f.nvars then initVals f v else [.undef] := by
  unfold initState AState.get
  simp only [Array.getD_eq_getD_getElem?, List.getElem?_toArray, List.getElem?_map]
  by_cases hv : v < f.nvars
  · simp [hv]
  · simp [hv]

theorem Gamma_init {f : FuncIR} {s : CState} (hr : argsInRange f = true) (hI : InitOK f s) :
    Gamma (initState f) s := by
  intro v
  rw [initState_get]
  by_cases hv : v < f.nvars
  · simp only [hv, if_true]; exact hI v
  · simp only [hv, if_false]
    have := hI v
    unfold initVals at this
    rw [argKindOf_none_of_range hr (Nat.le_of_not_lt hv)] at this
    exact this

end Own
