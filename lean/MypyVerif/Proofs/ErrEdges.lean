import MypyVerif.Model.ErrEdges
namespace ErrEdges

theorem run_tail_poison (fails : Nat → Bool) (d : Option Nat) : ∀ (rest : List Op) (t : Term) (j : Nat),
    tailOk d rest = true → run fails rest t j (some d) = runTerm t (some d) := by
  intro rest
  induction rest with
  | nil => intro t j _; rfl
  | cons o rest ih =>
    intro t j h
    simp only [tailOk, List.all_cons, Bool.and_eq_true, Bool.not_eq_true'] at h
    obtain ⟨⟨⟨h1, _⟩, h3⟩, h4⟩ := h
    simp only [run, h3, h1, Bool.not_true, Bool.or_self, Bool.false_eq_true, if_false]
    exact ih t (j + 1) (by simpa [tailOk] using h4)

theorem run_tail_clean (fails : Nat → Bool) (d : Option Nat) : ∀ (rest : List Op) (t : Term) (j : Nat),
    tailOk d rest = true → run fails rest t j none = runTerm t none := by
  intro rest
  induction rest with
  | nil => intro t j _; rfl
  | cons o rest ih =>
    intro t j h
    simp only [tailOk, List.all_cons, Bool.and_eq_true, Bool.not_eq_true', beq_iff_eq] at h
    obtain ⟨⟨⟨_, h2⟩, _⟩, h4⟩ := h
    simp only [run, h2, ne_eq, not_true_eq_false, decide_false, Bool.false_and, Bool.false_eq_true, if_false]
    exact ih t (j + 1) (by simpa [tailOk] using h4)

theorem runTerm_none (t : Term) : runTerm t none ≠ .bad ∧ ∀ l, runTerm t none ≠ .err l := by
  cases t <;> simp [runTerm]

theorem runTerm_checked (o : Op) (t : Term) (h : termChecks o t = true) (hk : o.ek ≠ .never) :
    ∃ l, runTerm t (some o.dest) = .err l ∧ errLabel t = some l := by
  unfold termChecks at h
  cases hek : o.ek with
  | never => exact absurd hek hk
  | magic =>
    rw [hek] at h
    cases t with
    | branch k v neg tl fl =>
      cases k <;> cases v <;> cases neg <;> simp at h
      rename_i v
      exact ⟨tl, by simp [runTerm, h], rfl⟩
    | _ => simp at h
  | false_ =>
    rw [hek] at h
    cases t with
    | branch k v neg tl fl =>
      cases k <;> cases v <;> cases neg <;> simp at h
      rename_i v
      exact ⟨tl, by simp [runTerm, h], rfl⟩
    | _ => simp at h
  | always =>
    rw [hek] at h
    cases t with
    | branch k v neg tl fl =>
      cases k <;> cases v <;> cases neg <;> simp at h
      exact ⟨tl, by simp [runTerm, h], rfl⟩
    | _ => simp at h

end ErrEdges
