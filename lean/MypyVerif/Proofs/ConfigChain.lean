import MypyVerif.Proofs.ConfigCache
/-!
Reading a chain of `apply_changes` option by option, the error-code sets, merging of inline comments, and
the command line over the config file.
-/
namespace Config

/-! ## reading a chain option by option -/

theorem firstDefined_append (k : Str) (a b : List Changes) :
    firstDefined k (a ++ b) = (firstDefined k a).or (firstDefined k b) := by
  induction a with
  | nil => simp [firstDefined]
  | cons ch a ih =>
    simp only [List.cons_append, firstDefined]
    cases ch.lookup k <;> simp [ih]

theorem applyChanges_get (o : Opts) (ch : Changes) (k : Str) :
    (o.applyChanges ch).get k = (ch.lookup k).getD (o.get k) := by
  simp only [Opts.applyChanges]
  cases ch.lookup k <;> rfl

/-- an ordinary option after a chain of `apply_changes`: the last section of the chain that defines it -/
theorem applyAll_get (chain : List Changes) : ∀ (g : Opts) (k : Str),
    (applyAll g chain).get k = (firstDefined k chain.reverse).getD (g.get k) := by
  induction chain with
  | nil => intro g k; simp [applyAll, firstDefined]
  | cons ch chain ih =>
    intro g k
    have : applyAll g (ch :: chain) = applyAll (g.applyChanges ch) chain := rfl
    rw [this, ih, List.reverse_cons, firstDefined_append, applyChanges_get]
    cases h1 : firstDefined k chain.reverse with
    | some v => simp
    | none =>
      simp only [firstDefined, Option.none_or]
      cases ch.lookup k <;> simp

/-! ## the error-code sets -/

/-- a section as `parse_section` returns it: it always carries both lists -/
def HasLists (ch : Changes) : Prop :=
  ∃ d e, ch.lookup kDisable = some (.list d) ∧ ch.lookup kEnable = some (.list e)

/-- what a section says about one error code: enabled (`some true`; wins inside one section), disabled
    (`some false`) or nothing -/
def mention (ch : Changes) (c : Str) : Option Bool :=
  if ((ch.lookup kEnable).getD .none).asList.contains c then some true
  else if ((ch.lookup kDisable).getD .none).asList.contains c then some false
  else none

def lastMention (c : Str) : List Changes → Option Bool
  | [] => none
  | ch :: rest => match mention ch c with | some b => some b | none => lastMention c rest

theorem lastMention_append (c : Str) (a b : List Changes) :
    lastMention c (a ++ b) = (lastMention c a).or (lastMention c b) := by
  induction a with
  | nil => simp [lastMention]
  | cons ch a ih =>
    simp only [List.cons_append, lastMention]
    cases mention ch c <;> simp [ih]

theorem applyChanges_codes (o : Opts) (ch : Changes) (h : HasLists ch) (c : Str) :
    (o.applyChanges ch).enabled c = (mention ch c).getD (o.enabled c) ∧
    (o.applyChanges ch).disabled c = ((mention ch c).map (!·)).getD (o.disabled c) := by
  obtain ⟨d, e, hd, he⟩ := h
  simp only [Opts.applyChanges, mention, hd, he, Option.getD_some, Val.asList]
  cases h1 : e.contains c <;> cases h2 : d.contains c <;> simp

theorem applyAll_codes (chain : List Changes) : ∀ (g : Opts), (∀ ch ∈ chain, HasLists ch) → ∀ c : Str,
    (applyAll g chain).enabled c = (lastMention c chain.reverse).getD (g.enabled c) ∧
    (applyAll g chain).disabled c = ((lastMention c chain.reverse).map (!·)).getD (g.disabled c) := by
  induction chain with
  | nil => intro g _ c; simp [applyAll, lastMention]
  | cons ch chain ih =>
    intro g h c
    have e0 : applyAll g (ch :: chain) = applyAll (g.applyChanges ch) chain := rfl
    have ih' := ih (g.applyChanges ch) (fun x hx => h x (by simp [hx])) c
    have h1 := applyChanges_codes g ch (h ch (by simp)) c
    rw [e0, ih'.1, ih'.2, List.reverse_cons, lastMention_append, h1.1, h1.2]
    cases hl : lastMention c chain.reverse with
    | some b => simp
    | none => simp only [lastMention, Option.none_or]; cases mention ch c <;> simp

/-! ## inline comments -/

theorem lookup_dictUpdate (old new : Changes) (k : Str) :
    (dictUpdate old new).lookup k = (new.lookup k).or (old.lookup k) := by
  unfold dictUpdate
  rw [List.lookup_append]
  cases hn : new.lookup k with
  | some v =>
    have : (old.filter (fun kv => (new.lookup kv.1).isNone)).lookup k = none := by
      apply lookup_none_of_not_mem
      intro hm
      obtain ⟨kv, hkv, rfl⟩ := List.mem_map.mp hm
      have := (List.mem_filter.mp hkv).2
      rw [hn] at this; simp at this
    simp [this]
  | none =>
    simp only [Option.none_or, Option.or_none]
    induction old with
    | nil => rfl
    | cons kv old ih =>
      obtain ⟨k1, v1⟩ := kv
      by_cases hk : k = k1
      · subst hk; simp [hn]
      · have hb : (k == k1) = false := by simpa using hk
        simp only [List.filter_cons, List.lookup_cons, hb]
        split
        · simp [List.lookup_cons, hb, ih]
        · exact ih

theorem lookup_map_other (n : Changes) (k k' : Str) (w : Val) (h : k' ≠ k) :
    (n.map (fun kv => if kv.1 == k then (k, w) else kv)).lookup k' = n.lookup k' := by
  induction n with
  | nil => rfl
  | cons kv n ih =>
    obtain ⟨k1, v1⟩ := kv
    rw [List.map_cons]
    by_cases h1 : k1 = k
    · subst h1
      have hb : (k' == k1) = false := by simpa using h
      have e : (if ((k1, v1) : Str × Val).1 == k1 then (k1, w) else (k1, v1)) = (k1, w) := by
        simp
      rw [e]
      simp only [List.lookup_cons, hb]
      exact ih
    · have hb1 : (k1 == k) = false := by simpa using h1
      have e : (if ((k1, v1) : Str × Val).1 == k then (k, w) else (k1, v1)) = (k1, v1) := by
        simp only [hb1]; rfl
      rw [e]
      simp only [List.lookup_cons]
      cases k' == k1
      · exact ih
      · rfl

theorem mergeListKey_lookup_other (sections n : Changes) (kk k : Str) (h : k ≠ kk) :
    (mergeListKey sections kk n).lookup k = n.lookup k := by
  unfold mergeListKey
  split
  · exact lookup_map_other n kk k _ h
  · rfl

/-- an ordinary key in one round of the inline-comment loop: the newer comment wins -/
theorem mergeInlineStep_lookup (sections new : Changes) (k : Str) (hd : k ≠ kDisable) (he : k ≠ kEnable) :
    (mergeInlineStep sections new).lookup k = (new.lookup k).or (sections.lookup k) := by
  unfold mergeInlineStep
  rw [lookup_dictUpdate, mergeListKey_lookup_other _ _ _ _ hd, mergeListKey_lookup_other _ _ _ _ he]

theorem mergeInline_lookup (lines : List Changes) (k : Str) (hd : k ≠ kDisable) (he : k ≠ kEnable) :
    (mergeInline lines).lookup k = firstDefined k lines.reverse := by
  unfold mergeInline
  suffices h : ∀ (acc : Changes), (lines.foldl mergeInlineStep acc).lookup k =
      (firstDefined k lines.reverse).or (acc.lookup k) by
    rw [h]
    have : List.lookup k [(kEnable, Val.list []), (kDisable, Val.list [])] = none := by
      have h1 : (k == kEnable) = false := by simpa using he
      have h2 : (k == kDisable) = false := by simpa using hd
      simp [List.lookup_cons, h1, h2]
    rw [this, Option.or_none]
  induction lines with
  | nil => intro acc; simp [firstDefined]
  | cons ln lines ih =>
    intro acc
    simp only [List.foldl_cons, List.reverse_cons]
    rw [ih, mergeInlineStep_lookup _ _ _ hd he, firstDefined_append]
    simp only [firstDefined]
    cases firstDefined k lines.reverse <;> cases ln.lookup k <;> simp

/-! ## command line over config file -/

def CliArg.key : CliArg → Str
  | .store k _ => k
  | .append k _ => k

theorem applyCli_untouched (args : List CliArg) : ∀ (get : Str → Val) (k : Str),
    (∀ a ∈ args, a.key ≠ k) → applyCli get args k = get k := by
  induction args with
  | nil => intro get k _; rfl
  | cons a args ih =>
    intro get k h
    have ha : a.key ≠ k := h a (by simp)
    have h' : ∀ b ∈ args, b.key ≠ k := fun b hb => h b (by simp [hb])
    cases a with
    | store k1 v =>
      simp only [applyCli]
      rw [ih _ k h']
      have : (k == k1) = false := by simp only [CliArg.key] at ha; simpa using fun e => ha e.symm
      simp [setKey, this]
    | append k1 item =>
      simp only [applyCli]
      rw [ih _ k h']
      have : (k == k1) = false := by simp only [CliArg.key] at ha; simpa using fun e => ha e.symm
      simp [setKey, this]

theorem applyCli_store_last (pre post : List CliArg) (get : Str → Val) (k : Str) (v : Val)
    (h : ∀ a ∈ post, a.key ≠ k) : applyCli get (pre ++ .store k v :: post) k = v := by
  induction pre generalizing get with
  | nil =>
    simp only [List.nil_append, applyCli]
    rw [applyCli_untouched post _ k h]
    simp [setKey]
  | cons a pre ih => cases a <;> simp only [List.cons_append, applyCli] <;> exact ih _

/-! ## assembly: `clone_for_module` on modules and on wildcard keys -/

/-- the finished cache is right about every structured ancestor key of a star-free name -/
theorem cacheOK_final (g : Opts) (secs : Sections) (q : Pat) (hq : IsLits q) (E : Cache)
    (hE : ∀ x ∈ E.map Prod.fst, x.endsDotStar = false) (t : Nat) (ht : t ≤ q.length) :
    CacheOK g secs (wildCache g secs (wildcardKeys secs) ++ E) q t := by
  apply cacheOK_of g secs _ E hE q t ht
  intro j hj
  have hqne : q ≠ [] := by intro e; subst e; simp at ht; omega
  constructor
  · intro hsome
    have hin : anc q j ∈ keysOf secs := (lookup_isSome_keys secs _).mp hsome
    have hw := anc_wild q hq j
    exact (mem_wildcardKeys secs _).mpr ((mem_wildKeys secs _).mpr ⟨hin, hw.1, hw.2 hqne⟩)
  · intro hin
    exact (lookup_isSome_keys secs _).mpr ((mem_wildKeys secs _).mp ((mem_wildcardKeys secs _).mp hin)).1

theorem wildCache_lookup_none (g : Opts) (secs : Sections) (p : Pat) (h : p ∉ wildcardKeys secs) :
    (wildCache g secs (wildcardKeys secs)).lookup p = none := by
  unfold wildCache; rw [lookup_map_self, if_neg h]

theorem concCache_endsDotStar (g : Opts) (secs : Sections) :
    ∀ x ∈ (concCache g secs (concreteKeys secs)).map Prod.fst, x.endsDotStar = false := by
  rw [concCache_keys]
  exact fun x hx => ((mem_concreteKeys secs x).mp hx).2.2

/-- `clone_for_module(m)` = the documented chain, as a fold of `apply_changes` -/
theorem cloneForModule_module (g : Opts) (secs : Sections) (m : List Str)
    (hv : ValidSecs secs) (hm : ValidMod m) :
    cloneForModule g secs (modPat m) = specResolve g secs m := by
  have hq := isLits_modPat m hm.2
  have hnw : modPat m ∉ wildcardKeys secs := by
    intro h
    have := ((mem_wildKeys secs _).mp ((mem_wildcardKeys secs _).mp h)).2.2
    rw [lits_endsDotStar _ hq] at this; cases this
  have hcore : cloneWith g secs (wildCache g secs (wildcardKeys secs)) (modPat m) =
      applyAll g (structChain secs (modPat m) ++ unstructChain secs m) := by
    apply cloneWith_module_core g secs hv _ m hm (wildCache_lookup_none g secs _ hnw)
    have := cacheOK_final g secs (modPat m) hq [] (by simp) (modPat m).length (Nat.le_refl _)
    simpa using this
  unfold cloneForModule specResolve precedenceChain
  rw [buildCache_eq g secs hv]
  by_cases hc : modPat m ∈ concreteKeys secs
  · -- the module has a section of its own: the cached entry
    have hkeys := ((mem_concreteKeys secs _).mp hc).1
    obtain ⟨s, hs, hs1⟩ := List.mem_map.mp hkeys
    have hlook : secs.lookup (modPat m) = some s.2 := by
      rw [← hs1]; exact lookup_some_of_mem secs s.1 s.2 hv.1 hs
    unfold cloneWith
    rw [List.lookup_append, wildCache_lookup_none g secs _ hnw, Option.none_or]
    unfold concCache
    rw [lookup_map_self, if_pos hc]
    simp only [concVal, hcore, concreteChain, hlook, Option.toList_some]
    rw [applyAll_snoc]
    simp [changesOf, hlook]
  · have hnk : secs.lookup (modPat m) = none := by
      apply lookup_none_of_not_mem
      intro hk
      exact hc ((mem_concreteKeys secs _).mpr ⟨hk, lits_unstructured _ hq, lits_endsDotStar _ hq⟩)
    rw [cloneWith_extra g secs _ _ (concCache_endsDotStar g secs) _ (by rw [concCache_keys]; exact hc), hcore]
    simp [concreteChain, hnk]

/-- `clone_for_module("q.*")` (what a structured section inherits): structured ancestors only -/
theorem cloneForModule_wild (g : Opts) (secs : Sections) (qm : List Str)
    (hv : ValidSecs secs) (hm : ValidMod qm) :
    cloneForModule g secs (modPat qm ++ [Part.star]) = applyAll g (structChain secs (modPat qm)) := by
  have hq := isLits_modPat qm hm.2
  have hqne : modPat qm ≠ [] := by
    intro e; apply hm.1; simpa [modPat] using e
  obtain ⟨n, hn⟩ : ∃ n, (modPat qm).length = n + 1 := by
    cases h : modPat qm with
    | nil => exact absurd h hqne
    | cons a q => exact ⟨q.length, rfl⟩
  unfold cloneForModule
  rw [buildCache_eq g secs hv]
  by_cases hw : modPat qm ++ [Part.star] ∈ wildcardKeys secs
  · unfold cloneWith
    rw [List.lookup_append]
    unfold wildCache
    rw [lookup_map_self, if_pos hw]
    simp [wildVal]
  · have hnotc : modPat qm ++ [Part.star] ∉ (concCache g secs (concreteKeys secs)).map Prod.fst := by
      rw [concCache_keys]
      intro h
      have := ((mem_concreteKeys secs _).mp h).2.2
      rw [wild_endsDotStar _ hqne] at this; cases this
    rw [cloneWith_extra g secs _ _ (concCache_endsDotStar g secs) _ hnotc]
    have hss : modPat qm ++ [Part.star] ++ [Part.star] ∉ wildcardKeys secs := by
      intro h
      have := ((mem_wildKeys secs _).mp ((mem_wildcardKeys secs _).mp h)).2.1
      simp [Pat.unstructured, Part.isStar] at this
    rw [cloneWith_wild_core g secs _ (modPat qm) hq n hn (wildCache_lookup_none g secs _ hw)
      (wildCache_lookup_none g secs _ hss)
      (by have := cacheOK_final g secs (modPat qm) hq [] (by simp) n (by omega); simpa using this)]
    rw [structChain_eq, hn, chainUpTo_succ]
    have hanc : anc (modPat qm) n = modPat qm ++ [Part.star] := by
      unfold anc; rw [List.take_of_length_le (by omega)]
    have hnone : secs.lookup (modPat qm ++ [Part.star]) = none := by
      apply lookup_none_of_not_mem
      intro hk
      exact hw ((mem_wildcardKeys secs _).mpr ((mem_wildKeys secs _).mpr
        ⟨hk, wild_unstructured _ hq, wild_endsDotStar _ hqne⟩))
    rw [hanc, hnone]
    simp

/-! ## the section table of a config file -/

theorem dictAssign_fresh (d : Sections) (k : Pat) (v : Changes) (h : k ∉ d.map Prod.fst) :
    dictAssign d k v = d ++ [(k, v)] := by
  unfold dictAssign
  rw [lookup_none_of_not_mem d k h]; rfl

theorem dictMerge_fresh (d : Sections) (k : Pat) (v : Changes) (h : k ∉ d.map Prod.fst) :
    dictMerge d k v = d ++ [(k, v)] := by
  unfold dictMerge
  rw [lookup_none_of_not_mem d k h]

/-- fold of fresh assignments is concatenation -/
theorem fold_fresh (f : Sections → Pat → Changes → Sections)
    (hf : ∀ d k v, k ∉ d.map Prod.fst → f d k v = d ++ [(k, v)]) (v : Changes) :
    ∀ (gs : List Pat) (d : Sections), (d.map Prod.fst ++ gs).Nodup →
      gs.foldl (fun d g => f d g v) d = d ++ gs.map (fun g => (g, v)) := by
  intro gs
  induction gs with
  | nil => intro d _; simp
  | cons g gs ih =>
    intro d hn
    have hg : g ∉ d.map Prod.fst := by
      intro h
      have := (List.nodup_append.mp hn).2.2 g h g (by simp)
      exact this rfl
    simp only [List.foldl_cons]
    rw [hf d g v hg, ih (d ++ [(g, v)]) (by simpa [List.append_assoc] using hn)]
    simp

theorem sections_fresh (f : Sections → Pat → Changes → Sections)
    (hf : ∀ d k v, k ∉ d.map Prod.fst → f d k v = d ++ [(k, v)]) :
    ∀ (fs : List FileSection) (d : Sections), (d.map Prod.fst ++ (flatSections fs).map Prod.fst).Nodup →
      fs.foldl (fun d s => s.1.foldl (fun d g => f d g s.2) d) d = d ++ flatSections fs := by
  intro fs
  induction fs with
  | nil => intro d _; simp [flatSections]
  | cons s fs ih =>
    intro d hn
    have hkeys : (flatSections (s :: fs)).map Prod.fst = s.1 ++ (flatSections fs).map Prod.fst := by
      simp [flatSections, List.map_map, Function.comp_def]
    rw [hkeys, ← List.append_assoc] at hn
    simp only [List.foldl_cons]
    rw [fold_fresh f hf s.2 s.1 d (List.nodup_append.mp hn).1]
    rw [ih (d ++ s.1.map (fun g => (g, s.2))) (by
      simpa [List.map_append, List.map_map, Function.comp_def] using hn)]
    simp [flatSections, List.append_assoc]

/-- when no pattern is named by two sections, both file formats produce exactly the documented table -/
theorem sections_faithful_partial (fs : List FileSection) (h : ((flatSections fs).map Prod.fst).Nodup) :
    iniSections fs = flatSections fs ∧ tomlSections fs = flatSections fs := by
  constructor
  · have := sections_fresh dictAssign dictAssign_fresh fs [] (by simpa using h)
    simpa [iniSections] using this
  · have := sections_fresh dictMerge dictMerge_fresh fs [] (by simpa using h)
    simpa [tomlSections] using this

/-! ## splitting a joined value -/

theorem splitOnAny_ne_nil (seps : List Char) (s : Str) : splitOnAny seps s ≠ [] := by
  induction s with
  | nil => simp [splitOnAny]
  | cons c s ih =>
    simp only [splitOnAny]
    split
    · simp
    · cases h : splitOnAny seps s <;> simp

theorem splitOnAny_sepfree (seps : List Char) (a : Str) (h : ∀ c ∈ a, seps.contains c = false) (rest : Str) :
    splitOnAny seps (a ++ rest) =
      match splitOnAny seps rest with
      | [] => [a]
      | p :: ps => (a ++ p) :: ps := by
  induction a with
  | nil =>
    cases h' : splitOnAny seps rest with
    | nil => exact absurd h' (splitOnAny_ne_nil seps rest)
    | cons p ps => simp [h']
  | cons c a ih =>
    have hc : seps.contains c = false := h c (by simp)
    have ih' := ih (fun x hx => h x (by simp [hx]))
    simp only [List.cons_append, splitOnAny, hc, Bool.false_eq_true, if_false, ih']
    cases splitOnAny seps rest <;> simp

/-- splitting the joined text gives the entries back (entries free of separators) -/
theorem splitOnAny_joinWith (seps : List Char) (sep : Char) (hs : seps.contains sep = true) :
    ∀ es : List Str, es ≠ [] → (∀ e ∈ es, ∀ c ∈ e, seps.contains c = false) →
      splitOnAny seps (joinWith sep es) = es := by
  intro es
  induction es with
  | nil => intro h; exact absurd rfl h
  | cons a es ih =>
    intro _ hfree
    cases es with
    | nil =>
      have := splitOnAny_sepfree seps a (hfree a (by simp)) []
      simpa [joinWith, splitOnAny] using this
    | cons b r =>
      have ih' := ih (by simp) (fun e he => hfree e (by simp [he]))
      simp only [joinWith]
      rw [splitOnAny_sepfree seps a (hfree a (by simp))]
      simp only [splitOnAny, hs, if_true, ih']
      simp

end Config
