import MypyVerif.Proofs.TypesSub
import MypyVerif.Proofs.TypesHier
/-! Transitivity of subtyping. -/
namespace Types

def Ty.arg? : Ty → Option Ty
  | .gen _ x => some x
  | _ => Option.none

/-- the argument of an instance seen through a superclass mapping -/
def argTo (l : Ty) : BaseArg → Option Ty
  | .na => Option.none
  | .param => l.arg?
  | .const a => some (.inst a)

variable {H : Hier}

theorem wf_inst {c : Nat} (h : (Ty.inst c).wf H = true) : c ∈ H.classes ∧ H.generic c = false := by
  simpa [Ty.wf] using h

theorem wf_gen {c : Nat} {x : Ty} (h : (Ty.gen c x).wf H = true) :
    c ∈ H.classes ∧ H.generic c = true ∧ x.wf H = true := by
  simp [Ty.wf] at h; exact ⟨h.1.1, h.1.2, h.2⟩

theorem wf_union {xs : List Ty} (h : (Ty.union xs).wf H = true) :
    wfL H xs = true ∧ (∀ x ∈ xs, x.isUnion = false) ∧ xs ≠ [] := by
  simp [Ty.wf] at h
  exact ⟨h.1.1, h.1.2, h.2⟩

theorem wfL_mem {xs : List Ty} (h : wfL H xs = true) : ∀ x ∈ xs, x.wf H = true := by
  induction xs with
  | nil => intro x hx; cases hx
  | cons y ys ih =>
    simp [wfL] at h
    intro x hx
    cases hx with
    | head => exact h.1
    | tail _ hx => exact ih h.2 x hx

theorem noFuncL_mem {xs : List Ty} (h : noFuncL H xs = true) : ∀ x ∈ xs, x.noFunc H = true := by
  induction xs with
  | nil => intro x hx; cases hx
  | cons y ys ih =>
    simp [noFuncL] at h
    intro x hx
    cases hx with
    | head => exact h.1
    | tail _ hx => exact ih h.2 x hx

/-- class facts of a well-formed instance -/
theorem wf_cls {l : Ty} {c : Nat} (hw : l.wf H = true) (hc : l.cls = some c) :
    c ∈ H.classes ∧ (H.generic c = true ↔ ∃ x, l = .gen c x) ∧ (H.generic c = false ↔ l = .inst c) := by
  cases l <;> simp [Ty.cls] at hc
  · subst hc; have := wf_inst hw; simp [this]
  · subst hc; have := wf_gen hw; simp [this]

theorem hasBase_eq (hok : H.Ok) {c : Nat} (hc : c ∈ H.classes) (d : Nat) :
    H.hasBase c d = (H.sup c d).isSome := by
  unfold Hier.hasBase
  by_cases hd : d = H.objectC
  · subst hd; simp [hok.sup_obj c hc]
  · simp [hd]

theorem mapTo_eq (hok : H.Ok) {l : Ty} (hw : l.wf H = true) {c : Nat} (hc : l.cls = some c)
    {d : Nat} (hd : d ∈ H.classes) {m : BaseArg} (hm : H.sup c d = some m) :
    H.mapTo l d = match argTo l m with | some x => .gen d x | Option.none => .inst d := by
  have hcm := (wf_cls hw hc).1
  have hsh := hok.sup_shape c hcm d hd m hm
  cases l <;> simp [Ty.cls] at hc
  · -- inst c
    rename_i c0
    subst hc
    have hng := (wf_inst hw).2
    simp only [Hier.mapTo]
    by_cases hcd : c0 = d
    · subst hcd
      have := hok.sup_refl c0 hcm
      rw [hm, hng] at this
      simp at this; subst this
      simp [argTo]
    · have : (c0 == d) = false := by simpa using hcd
      simp only [this, hm]
      cases m with
      | na => simp [argTo]
      | param => simp [Hier.shapeOk, hng] at hsh
      | const a => simp [argTo]
  · rename_i c0 x
    subst hc
    have hg := (wf_gen hw).2.1
    simp only [Hier.mapTo]
    by_cases hcd : c0 = d
    · subst hcd
      have := hok.sup_refl c0 hcm
      rw [hm, hg] at this
      simp at this; subst this
      simp [argTo, Ty.arg?]
    · have : (c0 == d) = false := by simpa using hcd
      simp only [this, hm]
      cases m with
      | na => simp [argTo]
      | param => simp [argTo, Ty.arg?]
      | const a => simp [argTo]

theorem varCheck_refl (p : Bool) (v : Variance) (x : Ty) : varCheck v (S H p) x x = true := by
  cases v <;> simp [varCheck, S_refl]

theorem isInstance_of_cls {l : Ty} {c : Nat} (h : l.cls = some c) : l.isInstance = true ∧ l.isUnion = false := by
  cases l <;> simp [Ty.cls] at h <;> simp [Ty.isInstance, Ty.isUnion]

/-- subtyping between two well-formed instances -/
theorem S_inst_iff (hok : H.Ok) (p : Bool) {l r : Ty} (hwl : l.wf H = true) (hwr : r.wf H = true)
    {c d : Nat} (hc : l.cls = some c) (hd : r.cls = some d) :
    S H p l r = true ↔ ∃ m, H.sup c d = some m ∧
      (∀ x y, argTo l m = some x → r.arg? = some y → varCheck (H.variance d) (S H p) x y = true) := by
  have hcm := (wf_cls hwl hc).1
  have hdm := (wf_cls hwr hd).1
  rw [S_atom H p l r (isInstance_of_cls hc).2 (isInstance_of_cls hd).2]
  have key : subAtom H p (S H p) l r = true ↔ ∃ m, H.sup c d = some m ∧
      (∀ x y, argTo l m = some x → r.arg? = some y → varCheck (H.variance d) (S H p) x y = true) := by
    have h1 : subAtom H p (S H p) l r = subInstance H (S H p) l r c d := by
      cases l <;> simp [Ty.cls] at hc <;> subst hc <;> cases r <;> simp [Ty.cls] at hd <;> subst hd <;>
        simp [subAtom, subFromInstance]
    rw [h1]
    unfold subInstance
    rw [hasBase_eq hok hcm]
    cases hs : H.sup c d with
    | none => simp
    | some m =>
      simp only [Option.isSome_some, if_true]
      rw [mapTo_eq hok hwl hc hdm hs]
      constructor
      · intro h
        refine ⟨m, rfl, ?_⟩
        intro x y hx hy
        rw [hx] at h
        cases r <;> simp [Ty.arg?] at hy
        subst hy
        simpa using h
      · rintro ⟨m', hm', h⟩
        cases hm'
        cases hx : argTo l m with
        | none => simp
        | some x =>
          cases r <;> simp [Ty.cls] at hd <;> simp
          rename_i d' y
          subst hd
          exact h x y hx rfl
  constructor
  · intro h
    simp only [Bool.or_eq_true] at h
    rcases h with h | h
    · have : l = r := by simpa using h
      subst this
      rw [hc] at hd; cases hd
      refine ⟨_, hok.sup_refl c hcm, ?_⟩
      intro x y hx hy
      by_cases hg : H.generic c = true
      · simp [hg, argTo] at hx
        rw [hx] at hy; cases hy
        exact varCheck_refl p _ x
      · simp [hg, argTo] at hx
    · exact key.1 h
  · intro h
    simp only [Bool.or_eq_true]
    right
    exact key.2 h

theorem S_and_left (p1 p2 : Bool) {a c : Ty} (h : S H p2 a c = true) : S H (p1 && p2) a c = true := by
  cases p1 with
  | true => simpa using h
  | false =>
    cases p2 with
    | false => simpa using h
    | true => simpa using proper_imp_S H _ a c (Nat.le_refl _) h

theorem S_and_right (p1 p2 : Bool) {a c : Ty} (h : S H p1 a c = true) : S H (p1 && p2) a c = true := by
  rw [Bool.and_comm]; exact S_and_left p2 p1 h

/-- side condition of transitivity `a ≤[p1] b ≤[p2] c`: the only failing pattern is
    `X ≤ callable ≤ builtins.function` with a non-proper first step, so `builtins.function` must not occur in
    `c` unless the first step is proper — and, because contravariant positions swap the roles, not in `a`
    unless the second step is proper.  Nothing is required of `b`. -/
def Cond (H : Hier) (p1 p2 : Bool) (a _b c : Ty) : Prop :=
  (p1 = true ∨ c.noFunc H = true) ∧ (p2 = true ∨ a.noFunc H = true)

def TransAt (H : Hier) (n : Nat) : Prop :=
  ∀ (p1 p2 : Bool) (a b c : Ty), a.size + b.size + c.size ≤ n → Cond H p1 p2 a b c →
    a.wf H = true → b.wf H = true → c.wf H = true →
    S H p1 a b = true → S H p2 b c = true → S H (p1 && p2) a c = true

theorem argTo_facts (hok : H.Ok) {a : Ty} (hw : a.wf H = true) {ca cb : Nat} (hc : a.cls = some ca)
    (hcb : cb ∈ H.classes) {m : BaseArg} (hm : H.sup ca cb = some m) {x : Ty} (hx : argTo a m = some x) :
    x.size ≤ a.size ∧ x.size < a.size + 1 ∧ x.wf H = true ∧ (a.noFunc H = true → x.noFunc H = true) := by
  have hcm := (wf_cls hw hc).1
  have hsh := hok.sup_shape ca hcm cb hcb m hm
  cases m with
  | na => simp [argTo] at hx
  | param =>
    simp only [argTo] at hx
    cases a <;> simp [Ty.arg?] at hx
    subst hx
    have := wf_gen hw
    refine ⟨by simp [Ty.size], by simp [Ty.size]; omega, this.2.2, ?_⟩
    simp [Ty.noFunc]
  | const k =>
    simp only [argTo] at hx
    cases hx
    simp only [Hier.shapeOk, Bool.and_eq_true, List.contains_iff_mem, Bool.not_eq_true'] at hsh
    have hpos := Ty.size_pos a
    refine ⟨by simp [Ty.size]; omega, by simp [Ty.size]; omega, by simp [Ty.wf, hsh.1.2, hsh.2], ?_⟩
    intro _
    have := hok.no_const_fn ca hcm cb hcb
    simp only [Ty.noFunc, bne_iff_ne, ne_eq]
    intro hk; subst hk; exact this hm

theorem arg_facts {b : Ty} {y : Ty} (hy : b.arg? = some y) (hw : b.wf H = true) :
    y.size < b.size ∧ y.wf H = true ∧ (b.noFunc H = true → y.noFunc H = true) := by
  cases b <;> simp [Ty.arg?] at hy
  subst hy
  exact ⟨by simp [Ty.size], (wf_gen hw).2.2, by simp [Ty.noFunc]⟩

theorem varCheck_trans {p1 p2 : Bool} {x y z : Ty} {v1 v2 : Variance}
    (T12 : S H p1 x y = true → S H p2 y z = true → S H (p1 && p2) x z = true)
    (T21 : S H p2 z y = true → S H p1 y x = true → S H (p1 && p2) z x = true)
    (hv : v1 = .inv ∨ v1 = v2)
    (h1 : varCheck v1 (S H p1) x y = true) (h2 : varCheck v2 (S H p2) y z = true) :
    varCheck v2 (S H (p1 && p2)) x z = true := by
  rcases hv with hv | hv
  · subst hv
    simp only [varCheck, Bool.and_eq_true] at h1
    cases v2 <;> simp only [varCheck, Bool.and_eq_true] at h2 ⊢
    · exact ⟨T12 h1.1 h2.1, T21 h2.2 h1.2⟩
    · exact T12 h1.1 h2
    · exact T21 h2 h1.2
  · subst hv
    cases v1 <;> simp only [varCheck, Bool.and_eq_true] at h1 h2 ⊢
    · exact ⟨T12 h1.1 h2.1, T21 h2.2 h1.2⟩
    · exact T12 h1 h2
    · exact T21 h2 h1

theorem Cond_symm {p1 p2 : Bool} {a b c : Ty} (h : Cond H p1 p2 a b c) : Cond H p2 p1 c b a :=
  ⟨h.2, h.1⟩

theorem Cond_sub {p1 p2 : Bool} {a b c x y z : Ty} (h : Cond H p1 p2 a b c)
    (hx : a.noFunc H = true → x.noFunc H = true) (hy : b.noFunc H = true → y.noFunc H = true)
    (hz : c.noFunc H = true → z.noFunc H = true) : Cond H p1 p2 x y z := by
  have _ := hy
  exact ⟨h.1.imp id hz, h.2.imp id hx⟩

/-- transitivity for three instances -/
theorem trans_inst (hok : H.Ok) {n : Nat} (IH : TransAt H n) {p1 p2 : Bool} {a b c : Ty}
    (hn : a.size + b.size + c.size ≤ n + 1) (hcond : Cond H p1 p2 a b c)
    (hwa : a.wf H = true) (hwb : b.wf H = true) (hwc : c.wf H = true)
    {ca cb cc : Nat} (hca : a.cls = some ca) (hcb : b.cls = some cb) (hcc : c.cls = some cc)
    (h1 : S H p1 a b = true) (h2 : S H p2 b c = true) : S H (p1 && p2) a c = true := by
  have hcam := (wf_cls hwa hca).1
  have hcbm := (wf_cls hwb hcb).1
  have hccm := (wf_cls hwc hcc).1
  obtain ⟨m1, hm1, A1⟩ := (S_inst_iff hok p1 hwa hwb hca hcb).1 h1
  obtain ⟨m2, hm2, A2⟩ := (S_inst_iff hok p2 hwb hwc hcb hcc).1 h2
  rw [S_inst_iff hok _ hwa hwc hca hcc]
  refine ⟨m1.comp m2, hok.sup_trans ca hcam cb hcbm cc hccm m1 m2 hm1 hm2, ?_⟩
  intro x z hx hz
  have hsh2 := hok.sup_shape cb hcbm cc hccm m2 hm2
  have hsh1 := hok.sup_shape ca hcam cb hcbm m1 hm1
  cases m2 with
  | na => simp [BaseArg.comp, argTo] at hx
  | const k =>
    simp only [BaseArg.comp, argTo] at hx
    have := A2 x z (by simpa [argTo] using hx) hz
    revert this
    cases H.variance cc <;> simp only [varCheck, Bool.and_eq_true]
    · rintro ⟨u, v⟩; exact ⟨S_and_left _ _ u, S_and_left _ _ v⟩
    · exact S_and_left _ _
    · exact S_and_left _ _
  | param =>
    simp only [BaseArg.comp] at hx
    simp only [Hier.shapeOk, Bool.and_eq_true] at hsh2
    obtain ⟨y, hb⟩ := ((wf_cls hwb hcb).2.1).1 hsh2.1
    have hy : b.arg? = some y := by rw [hb]; rfl
    have hA2 := A2 y z (by simp [argTo, hy]) hz
    have hA1 := A1 x y hx hy
    have fx := argTo_facts hok hwa hca hcbm hm1 hx
    have fy := arg_facts hy hwb
    have fz := arg_facts hz hwc
    have hc' : Cond H p1 p2 x y z := Cond_sub hcond fx.2.2.2 fy.2.2 fz.2.2
    apply varCheck_trans (v1 := H.variance cb) ?_ ?_ (hok.var_compat cb hcbm cc hccm hm2) hA1 hA2
    · exact IH p1 p2 x y z (by omega) hc' fx.2.2.1 fy.2.1 fz.2.1
    · intro u v
      have := IH p2 p1 z y x (by omega) (Cond_symm hc') fz.2.1 fy.2.1 fx.2.2.1 u v
      rwa [Bool.and_comm] at this



/-- an instance is only a subtype of instances (among non-union types) -/
theorem S_inst_right (p : Bool) {a b : Ty} {ca : Nat} (hca : a.cls = some ca) (hb : b.isUnion = false)
    (h : S H p a b = true) : ∃ cb, b.cls = some cb := by
  rw [S_atom H p a b (isInstance_of_cls hca).2 hb] at h
  simp only [Bool.or_eq_true] at h
  rcases h with h | h
  · have : a = b := by simpa using h
    subst this; exact ⟨ca, hca⟩
  · cases a <;> simp [Ty.cls] at hca <;> cases b <;> simp [subAtom, subFromInstance] at h <;> simp [Ty.cls]

/-- the only well-formed non-union supertype of `object` is `object` -/
theorem S_obj_left (hok : H.Ok) (p : Bool) {c : Ty} (hc : c.isUnion = false) (hw : c.wf H = true)
    (h : S H p (.inst H.objectC) c = true) : c = .inst H.objectC := by
  obtain ⟨cc, hcc⟩ := S_inst_right p (a := .inst H.objectC) rfl hc h
  have hwo : (Ty.inst H.objectC).wf H = true := by simp [Ty.wf, hok.obj_mem, hok.obj_ng]
  obtain ⟨m, hm, _⟩ := (S_inst_iff hok p hwo hw rfl hcc).1 h
  have hccm := (wf_cls hw hcc).1
  have := hok.antisym H.objectC hok.obj_mem cc hccm m .na hm (hok.sup_obj cc hccm)
  subst this
  exact ((wf_cls hw hcc).2.2).1 hok.obj_ng

theorem all2_trans {f g k : Ty → Ty → Bool} : ∀ {xs ys zs : List Ty},
    xs.length = ys.length → ys.length = zs.length →
    (∀ x ∈ xs, ∀ y ∈ ys, ∀ z ∈ zs, f x y = true → g y z = true → k x z = true) →
    all2 f xs ys = true → all2 g ys zs = true → all2 k xs zs = true
  | [], [], [], _, _, _ => by simp [all2]
  | x :: xs, y :: ys, z :: zs, h1, h2, h => by
    simp only [all2, Bool.and_eq_true]
    rintro ⟨a1, a2⟩ ⟨b1, b2⟩
    refine ⟨h x (by simp) y (by simp) z (by simp) a1 b1, ?_⟩
    exact all2_trans (by simpa using h1) (by simpa using h2)
      (fun a ha b hb c hc => h a (by simp [ha]) b (by simp [hb]) c (by simp [hc])) a2 b2
  | [], _ :: _, _, h1, _, _ => by simp at h1
  | _ :: _, [], _, h1, _, _ => by simp at h1
  | [], [], _ :: _, _, h2, _ => by simp at h2
  | _ :: _, _ :: _, [], _, h2, _ => by simp at h2

theorem all2_all_trans {f : Ty → Ty → Bool} {g k : Ty → Bool} : ∀ {xs ys : List Ty},
    xs.length = ys.length →
    (∀ x ∈ xs, ∀ y ∈ ys, f x y = true → g y = true → k x = true) →
    all2 f xs ys = true → ys.all g = true → xs.all k = true
  | [], [], _, _ => by simp
  | x :: xs, y :: ys, h1, h => by
    simp only [all2, Bool.and_eq_true, List.all_cons]
    rintro ⟨a1, a2⟩ ⟨b1, b2⟩
    exact ⟨h x (by simp) y (by simp) a1 b1,
      all2_all_trans (by simpa using h1) (fun a ha b hb => h a (by simp [ha]) b (by simp [hb])) a2 b2⟩
  | [], _ :: _, h1, _ => by simp at h1
  | _ :: _, [], h1, _ => by simp at h1


theorem beq_false_of_ne {a b : Ty} (h : a ≠ b) : (a == b) = false := by simpa using h

theorem wf_tuple {xs : List Ty} (h : (Ty.tuple xs).wf H = true) : ∀ x ∈ xs, x.wf H = true :=
  wfL_mem (by simpa [Ty.wf] using h)

theorem noFunc_tuple {xs : List Ty} (h : (Ty.tuple xs).noFunc H = true) : ∀ x ∈ xs, x.noFunc H = true :=
  noFuncL_mem (by simpa [Ty.noFunc] using h)

theorem Cond_mem3 {p1 p2 : Bool} {a b c x y z : Ty} (h : Cond H p1 p2 a b c)
    (hx : a.noFunc H = true → x.noFunc H = true) (hy : b.noFunc H = true → y.noFunc H = true)
    (hz : c.noFunc H = true → z.noFunc H = true) : Cond H p1 p2 x y z := Cond_sub h hx hy hz

/-- transitivity, left operand a fixed tuple -/
theorem trans_tuple (hok : H.Ok) {n : Nat} (IH : TransAt H n) {p1 p2 : Bool} {ls : List Ty} {b c : Ty}
    (hn : (Ty.tuple ls).size + b.size + c.size ≤ n + 1) (hcond : Cond H p1 p2 (.tuple ls) b c)
    (hwa : (Ty.tuple ls).wf H = true) (hwb : b.wf H = true) (hwc : c.wf H = true)
    (hbu : b.isUnion = false) (hcu : c.isUnion = false) (hab : Ty.tuple ls ≠ b) (hbc : b ≠ c)
    (h1 : S H p1 (.tuple ls) b = true) (h2 : S H p2 b c = true) : S H (p1 && p2) (.tuple ls) c = true := by
  rw [S_atom H _ _ _ rfl hbu, beq_false_of_ne hab] at h1
  rw [S_atom H _ _ _ rfl hcu]
  simp only [Bool.false_or, subAtom] at h1
  simp only [Bool.or_eq_true]
  right
  simp only [subAtom]
  have hwl := wf_tuple hwa
  cases b with
  | never | none | union _ | callable _ _ | lit _ _ | typeType _ => simp [subFromTuple] at h1
  | inst d =>
    simp [subFromTuple] at h1
    subst h1
    exact absurd (S_obj_left hok p2 hcu hwc h2).symm hbc
  | gen d y =>
    simp only [subFromTuple] at h1
    split at h1
    · rename_i htl
      have hdm := (wf_gen hwb).1
      obtain ⟨cc, hcc⟩ := S_inst_right p2 (a := .gen d y) rfl hcu h2
      obtain ⟨m2, hm2, A2⟩ := (S_inst_iff hok p2 hwb hwc rfl hcc).1 h2
      have hccm := (wf_cls hwc hcc).1
      rcases hok.tl_up d hdm htl cc hccm m2 hm2 with ⟨hm, hcc'⟩ | ⟨hm, htl'⟩
      · subst hcc'
        have : c = .inst H.objectC := ((wf_cls hwc hcc).2.2).1 hok.obj_ng
        subst this
        simp [subFromTuple]
      · subst hm
        obtain ⟨z, hz⟩ := ((wf_cls hwc hcc).2.1).1 (hok.tl_generic cc hccm htl').1
        subst hz
        have hA := A2 y z (by simp [argTo, Ty.arg?]) rfl
        rw [(hok.tl_generic cc hccm htl').2] at hA
        simp only [varCheck] at hA
        simp only [subFromTuple, htl', if_true]
        rw [List.all_eq_true] at h1 ⊢
        intro li hli
        have := size_le_sizeL hli
        refine IH p1 p2 li y z (by simp [Ty.size] at hn ⊢; omega) ?_ (hwl li hli) (wf_gen hwb).2.2 (wf_gen hwc).2.2
          (h1 li hli) hA
        exact Cond_sub hcond (fun h => noFunc_tuple h li hli) (by simp [Ty.noFunc]) (by simp [Ty.noFunc])
    · cases h1
  | tuple ms =>
    simp only [subFromTuple, Bool.and_eq_true, beq_iff_eq] at h1
    have hwm := wf_tuple hwb
    rw [S_atom H _ _ _ rfl hcu, beq_false_of_ne hbc] at h2
    simp only [Bool.false_or, subAtom] at h2
    cases c with
    | never | none | union _ | callable _ _ | lit _ _ | typeType _ => simp [subFromTuple] at h2
    | inst e => simpa [subFromTuple] using h2
    | gen e z =>
      simp only [subFromTuple] at h2 ⊢
      split at h2
      · rename_i htl
        simp only [htl, if_true]
        refine all2_all_trans h1.1 ?_ h1.2 h2
        intro x hx y hy hxy hyz
        have := size_le_sizeL hx; have := size_le_sizeL hy
        refine IH p1 p2 x y z (by simp [Ty.size] at hn ⊢; omega) ?_ (hwl x hx) (hwm y hy) (wf_gen hwc).2.2 hxy hyz
        exact Cond_sub hcond (fun h => noFunc_tuple h x hx) (fun h => noFunc_tuple h y hy) (by simp [Ty.noFunc])
      · cases h2
    | tuple ns =>
      simp only [subFromTuple, Bool.and_eq_true, beq_iff_eq] at h2 ⊢
      have hwn := wf_tuple hwc
      refine ⟨h1.1.trans h2.1, all2_trans h1.1 h2.1 ?_ h1.2 h2.2⟩
      intro x hx y hy z hz hxy hyz
      have := size_le_sizeL hx; have := size_le_sizeL hy; have := size_le_sizeL hz
      refine IH p1 p2 x y z (by simp [Ty.size] at hn ⊢; omega) ?_ (hwl x hx) (hwm y hy) (hwn z hz) hxy hyz
      exact Cond_sub hcond (fun h => noFunc_tuple h x hx) (fun h => noFunc_tuple h y hy) (fun h => noFunc_tuple h z hz)


theorem wf_callable {xs : List Ty} {r : Ty} (h : (Ty.callable xs r).wf H = true) :
    (∀ x ∈ xs, x.wf H = true) ∧ r.wf H = true := by
  simp [Ty.wf] at h; exact ⟨wfL_mem h.1, h.2⟩

theorem noFunc_callable {xs : List Ty} {r : Ty} (h : (Ty.callable xs r).noFunc H = true) :
    (∀ x ∈ xs, x.noFunc H = true) ∧ r.noFunc H = true := by
  simp [Ty.noFunc] at h; exact ⟨noFuncL_mem h.1, h.2⟩

theorem wf_fn (hok : H.Ok) : (Ty.inst H.functionC).wf H = true := by
  simp [Ty.wf, hok.fn_mem, hok.fn_ng]

/-- the well-formed non-union supertypes of `builtins.function` are itself and `object` -/
theorem S_fn_left (hok : H.Ok) (p : Bool) {c : Ty} (hc : c.isUnion = false) (hw : c.wf H = true)
    (h : S H p (.inst H.functionC) c = true) : c = .inst H.functionC ∨ c = .inst H.objectC := by
  obtain ⟨cc, hcc⟩ := S_inst_right p (a := .inst H.functionC) rfl hc h
  obtain ⟨m, hm, _⟩ := (S_inst_iff hok p (wf_fn hok) hw rfl hcc).1 h
  have hccm := (wf_cls hw hcc).1
  rcases hok.fn_sup cc hccm m hm with h | h
  · subst h; left; exact ((wf_cls hw hcc).2.2).1 hok.fn_ng
  · subst h; right; exact ((wf_cls hw hcc).2.2).1 hok.obj_ng

/-- transitivity, left operand a callable -/
theorem trans_callable (hok : H.Ok) {n : Nat} (IH : TransAt H n) {p1 p2 : Bool} {as : List Ty} {r b c : Ty}
    (hn : (Ty.callable as r).size + b.size + c.size ≤ n + 1) (hcond : Cond H p1 p2 (.callable as r) b c)
    (hwa : (Ty.callable as r).wf H = true) (hwb : b.wf H = true) (hwc : c.wf H = true)
    (hbu : b.isUnion = false) (hcu : c.isUnion = false) (hab : Ty.callable as r ≠ b) (hbc : b ≠ c)
    (h1 : S H p1 (.callable as r) b = true) (h2 : S H p2 b c = true) :
    S H (p1 && p2) (.callable as r) c = true := by
  rw [S_atom H _ _ _ rfl hbu, beq_false_of_ne hab] at h1
  rw [S_atom H _ _ _ rfl hcu]
  simp only [Bool.false_or, subAtom] at h1
  simp only [Bool.or_eq_true]
  right
  simp only [subAtom]
  have hwl := wf_callable hwa
  -- the fallback route: `function <: b`, so `b` is `function` or `object`
  have viaFn : ∀ (b : Ty), b.isUnion = false → b.wf H = true → b ≠ c → S H p1 (.inst H.functionC) b = true →
      S H p2 b c = true → (∃ cb, b.cls = some cb) → subFromCallable H (S H (p1 && p2)) as r c = true := by
    intro b hbu hwb hbc hf h2 _
    rcases S_fn_left hok p1 hbu hwb hf with hb | hb
    · subst hb
      obtain ⟨cc, hcc⟩ := S_inst_right p2 (a := .inst H.functionC) rfl hcu h2
      cases c <;> simp [Ty.cls] at hcc <;> simp only [subFromCallable] <;> exact S_and_left _ _ h2
    · subst hb
      exact absurd (S_obj_left hok p2 hcu hwc h2).symm hbc
  cases b with
  | never | none | union _ | tuple _ | lit _ _ | typeType _ => simp [subFromCallable] at h1
  | inst d => exact viaFn _ hbu hwb hbc (by simpa [subFromCallable] using h1) h2 ⟨d, rfl⟩
  | gen d y => exact viaFn _ hbu hwb hbc (by simpa [subFromCallable] using h1) h2 ⟨d, rfl⟩
  | callable bs r' =>
    simp only [subFromCallable, Bool.and_eq_true, beq_iff_eq] at h1
    have hwm := wf_callable hwb
    rw [S_atom H _ _ _ rfl hcu, beq_false_of_ne hbc] at h2
    simp only [Bool.false_or, subAtom] at h2
    cases c with
    | never | none | union _ | tuple _ | lit _ _ | typeType _ => simp [subFromCallable] at h2
    | inst e => simp only [subFromCallable] at h2 ⊢; exact S_and_left _ _ h2
    | gen e z => simp only [subFromCallable] at h2 ⊢; exact S_and_left _ _ h2
    | callable cs r'' =>
      simp only [subFromCallable, Bool.and_eq_true, beq_iff_eq] at h2 ⊢
      have hwn := wf_callable hwc
      have hnf : ∀ t, (Ty.callable as r).noFunc H = true → t ∈ as → t.noFunc H = true :=
        fun t h ht => (noFunc_callable h).1 t ht
      refine ⟨⟨?_, h1.1.2.trans h2.1.2⟩, ?_⟩
      · refine IH p1 p2 r r' r'' (by simp [Ty.size] at hn ⊢; omega) ?_ hwl.2 hwm.2 hwn.2 h1.1.1 h2.1.1
        exact Cond_sub hcond (fun h => (noFunc_callable h).2) (fun h => (noFunc_callable h).2)
          (fun h => (noFunc_callable h).2)
      · refine all2_trans h2.1.2.symm h1.1.2.symm ?_ h2.2 h1.2
        intro z hz y hy x hx hzy hyx
        have := size_le_sizeL hx; have := size_le_sizeL hy; have := size_le_sizeL hz
        have := IH p2 p1 z y x (by simp [Ty.size] at hn ⊢; omega) ?_ (hwn.1 z hz) (hwm.1 y hy) (hwl.1 x hx) hzy hyx
        · rwa [Bool.and_comm] at this
        · exact Cond_symm (Cond_sub hcond (fun h => (noFunc_callable h).1 x hx)
            (fun h => (noFunc_callable h).1 y hy) (fun h => (noFunc_callable h).1 z hz))

/-- transitivity, left operand a literal -/
theorem trans_lit (_hok : H.Ok) {n : Nat} (IH : TransAt H n) {p1 p2 : Bool} {k v : Nat} {b c : Ty}
    (hn : (Ty.lit k v).size + b.size + c.size ≤ n + 1) (hcond : Cond H p1 p2 (.lit k v) b c)
    (hwa : (Ty.lit k v).wf H = true) (hwb : b.wf H = true) (hwc : c.wf H = true)
    (hbu : b.isUnion = false) (hcu : c.isUnion = false) (hab : Ty.lit k v ≠ b)
    (h1 : S H p1 (.lit k v) b = true) (h2 : S H p2 b c = true) :
    S H (p1 && p2) (.lit k v) c = true := by
  rw [S_atom H _ _ _ rfl hbu, beq_false_of_ne hab] at h1
  simp only [Bool.false_or, subAtom] at h1
  have hb : S H p1 (.inst k) b = true := by
    cases b <;> first | exact h1 | simp at h1
  have hwk : (Ty.inst k).wf H = true := by simpa [Ty.wf] using hwa
  have := IH p1 p2 (.inst k) b c (by simp [Ty.size] at hn ⊢; omega)
    (Cond_sub hcond (by simp [Ty.noFunc]) id id) hwk hwb hwc hb h2
  rw [S_atom H _ _ _ rfl hcu]
  simp only [Bool.or_eq_true]
  right
  cases c with
  | lit k' v' =>
    rw [S_atom H _ _ _ rfl rfl] at this
    simp [subAtom, subFromInstance] at this
  | union _ => simp [Ty.isUnion] at hcu
  | never | none | inst _ | gen _ _ | tuple _ | callable _ _ | typeType _ => simpa [subAtom] using this


theorem wf_ty (hok : H.Ok) : (Ty.inst H.typeC).wf H = true := by
  simp [Ty.wf, hok.ty_mem, hok.ty_ng]

theorem wf_obj (hok : H.Ok) : (Ty.inst H.objectC).wf H = true := by
  simp [Ty.wf, hok.obj_mem, hok.obj_ng]

/-- the well-formed non-union supertypes of `builtins.type` are itself and `object` -/
theorem S_ty_left (hok : H.Ok) (p : Bool) {c : Ty} (hc : c.isUnion = false) (hw : c.wf H = true)
    (h : S H p (.inst H.typeC) c = true) : c = .inst H.typeC ∨ c = .inst H.objectC := by
  obtain ⟨cc, hcc⟩ := S_inst_right p (a := .inst H.typeC) rfl hc h
  obtain ⟨m, hm, _⟩ := (S_inst_iff hok p (wf_ty hok) hw rfl hcc).1 h
  have hccm := (wf_cls hw hcc).1
  rcases hok.ty_sup cc hccm m hm with h | h
  · subst h; left; exact ((wf_cls hw hcc).2.2).1 hok.ty_ng
  · subst h; right; exact ((wf_cls hw hcc).2.2).1 hok.obj_ng

/-- transitivity, left operand `Type[x]` -/
theorem trans_typeType (hok : H.Ok) {n : Nat} (IH : TransAt H n) {p1 p2 : Bool} {x b c : Ty}
    (hn : (Ty.typeType x).size + b.size + c.size ≤ n + 1) (hcond : Cond H p1 p2 (.typeType x) b c)
    (hwa : (Ty.typeType x).wf H = true) (hwb : b.wf H = true) (hwc : c.wf H = true)
    (hbu : b.isUnion = false) (hcu : c.isUnion = false) (hab : Ty.typeType x ≠ b) (hbc : b ≠ c)
    (h1 : S H p1 (.typeType x) b = true) (h2 : S H p2 b c = true) :
    S H (p1 && p2) (.typeType x) c = true := by
  rw [S_atom H _ _ _ rfl hbu, beq_false_of_ne hab] at h1
  rw [S_atom H _ _ _ rfl hcu]
  simp only [Bool.false_or, subAtom] at h1
  simp only [Bool.or_eq_true]
  right
  simp only [subAtom]
  have hwx : x.wf H = true := by simp [Ty.wf] at hwa; exact hwa.1
  cases b with
  | never | none | union _ | tuple _ | lit _ _ | gen _ _ => simp [subFromTypeType] at h1
  | inst d =>
    simp only [subFromTypeType, Bool.or_eq_true, beq_iff_eq] at h1
    rcases h1 with h1 | h1
    · subst h1
      exact absurd (S_obj_left hok p2 hcu hwc h2).symm hbc
    · subst h1
      rcases S_ty_left hok p2 hcu hwc h2 with hc | hc <;> subst hc <;> simp [subFromTypeType]
  | typeType y =>
    simp only [subFromTypeType] at h1
    have hwy : y.wf H = true := by simp [Ty.wf] at hwb; exact hwb.1
    rw [S_atom H _ _ _ rfl hcu, beq_false_of_ne hbc] at h2
    simp only [Bool.false_or, subAtom] at h2
    cases c with
    | never | none | union _ | tuple _ | lit _ _ | gen _ _ => simp [subFromTypeType] at h2
    | inst e => simpa [subFromTypeType] using h2
    | typeType z =>
      simp only [subFromTypeType] at h2 ⊢
      have hwz : z.wf H = true := by simp [Ty.wf] at hwc; exact hwc.1
      exact IH p1 p2 x y z (by simp [Ty.size] at hn ⊢; omega)
        (Cond_sub hcond (by simp [Ty.noFunc]) (by simp [Ty.noFunc]) (by simp [Ty.noFunc])) hwx hwy hwz h1 h2
    | callable cs r =>
      simp only [subFromTypeType] at h2 ⊢
      have hwr := (wf_callable hwc).2
      cases p2 with
      | true => simp at h2
      | false =>
        simp only [Bool.and_false] at h2 ⊢
        have := IH p1 false x y r (by simp [Ty.size] at hn ⊢; omega)
          (Cond_sub hcond (by simp [Ty.noFunc]) (by simp [Ty.noFunc]) (fun h => (noFunc_callable h).2))
          hwx hwy hwr h1 (by simpa using h2)
        simpa using this
  | callable bs r =>
    simp only [subFromTypeType] at h1
    have hwr := (wf_callable hwb).2
    cases p1 with
    | true => simp at h1
    | false =>
      simp only [Bool.false_eq_true, if_false] at h1
      have hnf : c.noFunc H = true := by
        rcases hcond.1 with h | h
        · simp at h
        · exact h
      rw [S_atom H _ _ _ rfl hcu, beq_false_of_ne hbc] at h2
      simp only [Bool.false_or, subAtom] at h2
      have viaFn : S H p2 (.inst H.functionC) c = true → subFromTypeType H (false && p2) (S H (false && p2)) x c = true := by
        intro hf
        rcases S_fn_left hok p2 hcu hwc hf with hc | hc
        · subst hc; simp [Ty.noFunc] at hnf
        · subst hc; simp [subFromTypeType]
      cases c with
      | never | none | union _ | tuple _ | lit _ _ | typeType _ => simp [subFromCallable] at h2
      | inst e => exact viaFn (by simpa [subFromCallable] using h2)
      | gen e z => exact viaFn (by simpa [subFromCallable] using h2)
      | callable cs r'' =>
        simp only [subFromCallable, Bool.and_eq_true] at h2
        simp only [subFromTypeType, Bool.false_and, Bool.false_eq_true, if_false]
        have := IH false p2 x r r'' (by simp [Ty.size] at hn ⊢; omega)
          (Cond_sub hcond (by simp [Ty.noFunc]) (fun h => (noFunc_callable h).2) (fun h => (noFunc_callable h).2))
          hwx hwr (wf_callable hwc).2 h1 h2.1.1
        simpa using this

/-- transitivity of subtyping (both flags proper, or `builtins.function` absent) -/
theorem trans_all (hok : H.Ok) : ∀ n, TransAt H n := by
  intro n
  induction n with
  | zero => intro p1 p2 a b c hn; have := Ty.size_pos a; omega
  | succ n IH =>
    intro p1 p2 a b c hn hcond hwa hwb hwc h1 h2
    by_cases hau : a.isUnion = true
    · cases a <;> simp [Ty.isUnion] at hau
      rename_i as
      rw [S_union_left] at h1 ⊢
      rw [List.all_eq_true] at h1 ⊢
      intro i hi
      have := size_le_sizeL hi
      have hwi : i.wf H = true := wfL_mem (wf_union hwa).1 i hi
      exact IH p1 p2 i b c (by simp [Ty.size] at hn; omega)
        (Cond_sub hcond (fun h => noFuncL_mem (by simpa [Ty.noFunc] using h) i hi) id id) hwi hwb hwc (h1 i hi) h2
    have hau : a.isUnion = false := by simpa using hau
    by_cases hbu : b.isUnion = true
    · cases b <;> simp [Ty.isUnion] at hbu
      rename_i bs
      rw [S_union_right H _ _ _ hau, List.any_eq_true] at h1
      obtain ⟨j, hj, h1⟩ := h1
      rw [S_union_left, List.all_eq_true] at h2
      have := size_le_sizeL hj
      have hwj : j.wf H = true := wfL_mem (wf_union hwb).1 j hj
      exact IH p1 p2 a j c (by simp [Ty.size] at hn; omega)
        (Cond_sub hcond id (fun h => noFuncL_mem (by simpa [Ty.noFunc] using h) j hj) id) hwa hwj hwc h1 (h2 j hj)
    have hbu : b.isUnion = false := by simpa using hbu
    by_cases hcu : c.isUnion = true
    · cases c <;> simp [Ty.isUnion] at hcu
      rename_i cs
      rw [S_union_right H _ _ _ hbu, List.any_eq_true] at h2
      obtain ⟨k, hk, h2⟩ := h2
      rw [S_union_right H _ _ _ hau, List.any_eq_true]
      have := size_le_sizeL hk
      have hwk : k.wf H = true := wfL_mem (wf_union hwc).1 k hk
      exact ⟨k, hk, IH p1 p2 a b k (by simp [Ty.size] at hn; omega)
        (Cond_sub hcond id id (fun h => noFuncL_mem (by simpa [Ty.noFunc] using h) k hk)) hwa hwb hwk h1 h2⟩
    have hcu : c.isUnion = false := by simpa using hcu
    by_cases hab : a = b
    · subst hab; exact S_and_left _ _ h2
    by_cases hbc : b = c
    · subst hbc; exact S_and_right _ _ h1
    cases a with
    | union _ => simp [Ty.isUnion] at hau
    | never => rw [S_atom H _ _ _ rfl hcu]; simp [subAtom]
    | none =>
      rw [S_atom H _ _ _ rfl hbu, beq_false_of_ne hab] at h1
      simp only [Bool.false_or, subAtom, Bool.or_eq_true, beq_iff_eq] at h1
      rcases h1 with h1 | h1
      · cases b <;> simp [Ty.isNone] at h1; exact absurd rfl hab
      · subst h1
        exact absurd (S_obj_left hok p2 hcu hwc h2).symm hbc
    | inst ca =>
      obtain ⟨cb, hcb⟩ := S_inst_right p1 (a := .inst ca) rfl hbu h1
      obtain ⟨cc, hcc⟩ := S_inst_right p2 hcb hcu h2
      exact trans_inst hok IH hn hcond hwa hwb hwc rfl hcb hcc h1 h2
    | gen ca x =>
      obtain ⟨cb, hcb⟩ := S_inst_right p1 (a := .gen ca x) rfl hbu h1
      obtain ⟨cc, hcc⟩ := S_inst_right p2 hcb hcu h2
      exact trans_inst hok IH hn hcond hwa hwb hwc rfl hcb hcc h1 h2
    | tuple ls => exact trans_tuple hok IH hn hcond hwa hwb hwc hbu hcu hab hbc h1 h2
    | callable as r => exact trans_callable hok IH hn hcond hwa hwb hwc hbu hcu hab hbc h1 h2
    | lit k v => exact trans_lit hok IH hn hcond hwa hwb hwc hbu hcu hab h1 h2
    | typeType x => exact trans_typeType hok IH hn hcond hwa hwb hwc hbu hcu hab hbc h1 h2


end Types
