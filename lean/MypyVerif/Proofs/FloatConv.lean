import MypyVerif.Model.FloatConv
/-! # C15 — lemmas about the conversion / true-division model (`Model/FloatConv.lean`) -/
set_option maxRecDepth 100000
set_option exponentiation.threshold 4000
namespace FloatConv

theorem compiled_truediv_witness :
    (compiledTrueDiv 9007199254740993 3).same (cpythonTrueDiv 9007199254740993 3) = false := by decide

theorem toDouble_small (a : Int) (h : -9007199254740992 ≤ a ∧ a ≤ 9007199254740992) : toDouble a = a := by
  unfold toDouble rne53
  by_cases hlt : a.natAbs < 9007199254740992
  · simp only [hlt, if_true]; split <;> omega
  · have : a.natAbs = 9007199254740992 := by omega
    rw [this]
    have e : (if (9007199254740992 : Nat) < 9007199254740992 then 9007199254740992
        else roundShift 9007199254740992 (shiftFor 9007199254740992 1100 0) false <<< shiftFor 9007199254740992 1100 0)
        = 9007199254740992 := by decide
    simp only [e]
    split <;> omega

theorem truediv_exact_partial (a b : Int)
    (ha : -9007199254740992 ≤ a ∧ a ≤ 9007199254740992) (hb : -9007199254740992 ≤ b ∧ b ≤ 9007199254740992) :
    compiledTrueDiv a b = cpythonTrueDiv a b := by
  unfold compiledTrueDiv cpythonTrueDiv
  rw [toDouble_small a ha, toDouble_small b hb]

theorem toDouble_witness : toDouble 9007199254740993 = 9007199254740992 := by decide

end FloatConv
