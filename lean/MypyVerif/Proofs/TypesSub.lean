import MypyVerif.Proofs.Types
/-! Subtyping: reflexivity, the leaves normal form, proper ⇒ non-proper, transitivity. -/
namespace Types

variable (H : Hier) (p : Bool)

theorem S_refl (l : Ty) : S H p l l = true := by
  rw [S_unfold]; simp [subStep]

/-! ### leaves -/

mutual
theorem flattenT_not_union : ∀ (t x : Ty), x ∈ flattenT t → x.isUnion = false
  | .union is, x, h => by simp only [flattenT] at h; exact flattenL_not_union is x h
  | .never, x, h | .none, x, h | .inst _, x, h | .gen _ _, x, h | .tuple _, x, h
  | .callable _ _, x, h | .lit _ _, x, h | .typeType _, x, h => by
    simp [flattenT] at h; subst h; rfl
theorem flattenL_not_union : ∀ (ts : List Ty) (x : Ty), x ∈ flattenL ts → x.isUnion = false
  | [], x, h => by simp [flattenL] at h
  | t :: ts, x, h => by
    simp only [flattenL, List.mem_append] at h
    cases h with
    | inl h => exact flattenT_not_union t x h
    | inr h => exact flattenL_not_union ts x h
end

theorem flattenT_of_not_union {t : Ty} (h : t.isUnion = false) : flattenT t = [t] := by
  cases t <;> simp [flattenT] <;> simp [Ty.isUnion] at h

theorem flattenL_eq_flatMap : ∀ ts : List Ty, flattenL ts = ts.flatMap flattenT
  | [] => rfl
  | t :: ts => by simp [flattenL, flattenL_eq_flatMap ts]

mutual
theorem flattenT_size : ∀ (t x : Ty), x ∈ flattenT t → x.size ≤ t.size
  | .union is, x, h => by
    simp only [flattenT] at h
    have := flattenL_size is x h
    simp [Ty.size]; omega
  | .never, x, h | .none, x, h | .inst _, x, h | .gen _ _, x, h | .tuple _, x, h
  | .callable _ _, x, h | .lit _ _, x, h | .typeType _, x, h => by
    simp [flattenT] at h; subst h; exact Nat.le_refl _
theorem flattenL_size : ∀ (ts : List Ty) (x : Ty), x ∈ flattenL ts → x.size ≤ sizeL ts
  | [], x, h => by simp [flattenL] at h
  | t :: ts, x, h => by
    simp only [flattenL, List.mem_append] at h
    simp only [sizeL]
    cases h with
    | inl h => have := flattenT_size t x h; omega
    | inr h => have := flattenL_size ts x h; omega
end

/-- union on the left, different from the right -/
theorem S_union_left_ne (ls : List Ty) (r : Ty) (h : Ty.union ls ≠ r) :
    S H p (.union ls) r = ls.all (fun i => S H p i r) := by
  rw [S_unfold]
  have : (Ty.union ls == r) = false := by simpa using h
  simp [subStep, this]

/-- non-union on the left, union on the right -/
theorem S_union_right (l : Ty) (rs : List Ty) (hl : l.isUnion = false) :
    S H p l (.union rs) = rs.any (fun x => S H p l x) := by
  rw [S_unfold]
  have : (l == Ty.union rs) = false := by
    cases l <;> simp [Ty.isUnion] at hl <;> rfl
  cases l <;> simp [subStep, this] <;> simp [Ty.isUnion] at hl

/-- both sides non-union -/
theorem S_atom (l r : Ty) (hl : l.isUnion = false) (hr : r.isUnion = false) :
    S H p l r = (l == r || subAtom H p (S H p) l r) := by
  rw [S_unfold]
  unfold subStep
  by_cases h : l == r
  · simp [h]
  · simp only [h, Bool.false_or]
    cases l <;> simp [Ty.isUnion] at hl <;> cases r <;> simp [Ty.isUnion] at hr <;> rfl

/-- leaves normal form: `l <: r` iff every leaf of `l` is a subtype of some leaf of `r` -/
theorem S_leaves : ∀ (n : Nat) (l r : Ty), l.size + r.size ≤ n →
    S H p l r = (flattenT l).all (fun x => (flattenT r).any (fun y => S H p x y)) := by
  intro n
  induction n with
  | zero => intro l r h; have := Ty.size_pos l; omega
  | succ n ih =>
    intro l r hn
    by_cases hlu : l.isUnion = true
    · -- left union
      cases l <;> simp [Ty.isUnion] at hlu
      rename_i ls
      by_cases heq : Ty.union ls = r
      · subst heq
        rw [S_refl]
        symm
        rw [List.all_eq_true]
        intro x hx
        rw [List.any_eq_true]
        exact ⟨x, hx, S_refl H p x⟩
      · rw [S_union_left_ne H p ls r heq]
        simp only [flattenT, flattenL_eq_flatMap, List.all_flatMap]
        apply all_congr'
        intro i hi
        apply ih
        have := size_le_sizeL hi
        simp [Ty.size] at hn; omega
    · have hlu : l.isUnion = false := by simpa using hlu
      rw [flattenT_of_not_union hlu]
      simp only [List.all_cons, List.all_nil, Bool.and_true]
      by_cases hru : r.isUnion = true
      · cases r <;> simp [Ty.isUnion] at hru
        rename_i rs
        rw [S_union_right H p l rs hlu]
        simp only [flattenT, flattenL_eq_flatMap, List.any_flatMap]
        apply any_congr'
        intro x hx
        have := ih l x (by have := size_le_sizeL hx; simp [Ty.size] at hn; omega)
        rw [this, flattenT_of_not_union hlu]
        simp
      · have hru : r.isUnion = false := by simpa using hru
        rw [flattenT_of_not_union hru]
        simp

theorem S_leaves' (l r : Ty) :
    S H p l r = (flattenT l).all (fun x => (flattenT r).any (fun y => S H p x y)) :=
  S_leaves H p _ l r (Nat.le_refl _)

theorem S_union_left (ls : List Ty) (r : Ty) :
    S H p (.union ls) r = ls.all (fun i => S H p i r) := by
  rw [S_leaves']
  simp only [flattenT, flattenL_eq_flatMap, List.all_flatMap]
  apply all_congr'
  intro i _
  rw [S_leaves' H p i r]

theorem all_mono {α} {f g : α → Bool} {xs : List α} (h : ∀ x ∈ xs, f x = true → g x = true) :
    xs.all f = true → xs.all g = true := by
  simp only [List.all_eq_true]
  intro hf x hx
  exact h x hx (hf x hx)

theorem any_mono {α} {f g : α → Bool} {xs : List α} (h : ∀ x ∈ xs, f x = true → g x = true) :
    xs.any f = true → xs.any g = true := by
  simp only [List.any_eq_true]
  rintro ⟨x, hx, hf⟩
  exact ⟨x, hx, h x hx hf⟩

theorem all2_mono {f g : Ty → Ty → Bool} : ∀ {xs ys : List Ty},
    (∀ x ∈ xs, ∀ y ∈ ys, f x y = true → g x y = true) → all2 f xs ys = true → all2 g xs ys = true
  | [], _, _ => by simp [all2]
  | _ :: _, [], _ => by simp [all2]
  | x :: xs, y :: ys, h => by
    simp only [all2, Bool.and_eq_true]
    rintro ⟨h1, h2⟩
    exact ⟨h x (by simp) y (by simp) h1, all2_mono (fun a ha b hb => h a (by simp [ha]) b (by simp [hb])) h2⟩

theorem varCheck_mono {v} {f g : Ty → Ty → Bool} {x y : Ty}
    (h1 : f x y = true → g x y = true) (h2 : f y x = true → g y x = true) :
    varCheck v f x y = true → varCheck v g x y = true := by
  cases v <;> simp only [varCheck, Bool.and_eq_true]
  · rintro ⟨a, b⟩; exact ⟨h1 a, h2 b⟩
  · exact h1
  · exact h2

theorem subInstance_mono (f g : Ty → Ty → Bool) (l r : Ty) (c d : Nat) (hl : l.isInstance = true)
    (h : ∀ l' r', l'.size + r'.size < l.size + r.size → f l' r' = true → g l' r' = true) :
    subInstance H f l r c d = true → subInstance H g l r c d = true := by
  unfold subInstance
  split
  · split
    · rename_i c1 x c2 y hm
      have hs := mapTo_arg_size H l d hl c1 x hm
      apply varCheck_mono <;> apply h <;> simp [Ty.size] <;> omega
    · exact id
  · exact id

theorem subFromInstance_mono (f g : Ty → Ty → Bool) (l r : Ty) (c : Nat) (hl : l.isInstance = true)
    (h : ∀ l' r', l'.size + r'.size < l.size + r.size → f l' r' = true → g l' r' = true) :
    subFromInstance H f l c r = true → subFromInstance H g l c r = true := by
  unfold subFromInstance
  split
  · exact subInstance_mono H f g l _ c _ hl h
  · exact subInstance_mono H f g l _ c _ hl h
  · exact id

theorem subAtom_mono (f g : Ty → Ty → Bool) (l r : Ty)
    (h : ∀ l' r', l'.size + r'.size < l.size + r.size → f l' r' = true → g l' r' = true) :
    subAtom H true f l r = true → subAtom H false g l r = true := by
  cases l with
  | never => exact id
  | none => exact id
  | union _ => exact id
  | inst c => exact subFromInstance_mono H f g _ r c rfl h
  | gen c x0 => exact subFromInstance_mono H f g _ r c rfl h
  | tuple ls =>
    simp only [subAtom, subFromTuple]
    split
    · exact id
    · split
      · apply all_mono; intro li hli; apply h
        have := size_le_sizeL hli; simp [Ty.size]; omega
      · exact id
    · rename_i rs
      simp only [Bool.and_eq_true]
      rintro ⟨h1, h2⟩
      refine ⟨h1, all2_mono ?_ h2⟩
      intro x hx y hy; apply h
      have := size_le_sizeL hx; have := size_le_sizeL hy; simp [Ty.size]; omega
    · exact id
  | callable as ret =>
    simp only [subAtom, subFromCallable]
    split
    · rename_i bs ret'
      simp only [Bool.and_eq_true]
      rintro ⟨⟨h1, h2⟩, h3⟩
      refine ⟨⟨h _ _ (by simp [Ty.size]; omega) h1, h2⟩, all2_mono ?_ h3⟩
      intro x hx y hy; apply h
      have := size_le_sizeL hx; have := size_le_sizeL hy; simp [Ty.size]; omega
    · apply h; simp [Ty.size]; omega
    · apply h; simp [Ty.size]; omega
    · exact id
  | lit c v =>
    simp only [subAtom]
    split
    · exact id
    · apply h; simp [Ty.size]
  | typeType x =>
    simp only [subAtom, subFromTypeType]
    split
    · apply h; simp [Ty.size]; omega
    · simp
    · exact id
    · exact id

/-- a proper subtype is a subtype -/
theorem proper_imp_S : ∀ (n : Nat) (l r : Ty), l.size + r.size ≤ n → S H true l r = true → S H false l r = true := by
  intro n
  induction n with
  | zero => intro l r h; have := Ty.size_pos l; omega
  | succ n ih =>
    intro l r hn
    by_cases hlu : l.isUnion = true
    · cases l <;> simp [Ty.isUnion] at hlu
      rename_i ls
      rw [S_union_left, S_union_left]
      apply all_mono
      intro i hi
      apply ih
      have := size_le_sizeL hi; simp [Ty.size] at hn; omega
    · have hlu : l.isUnion = false := by simpa using hlu
      by_cases hru : r.isUnion = true
      · cases r <;> simp [Ty.isUnion] at hru
        rename_i rs
        rw [S_union_right _ _ _ _ hlu, S_union_right _ _ _ _ hlu]
        apply any_mono
        intro x hx
        apply ih
        have := size_le_sizeL hx; simp [Ty.size] at hn; omega
      · have hru : r.isUnion = false := by simpa using hru
        rw [S_atom _ _ _ _ hlu hru, S_atom _ _ _ _ hlu hru]
        simp only [Bool.or_eq_true]
        rintro (h | h)
        · exact Or.inl h
        · right
          refine subAtom_mono H _ _ l r ?_ h
          intro l' r' hlt
          exact ih l' r' (by omega)


end Types
