import MypyVerif.Proofs.Types
/-! Subtyping: reflexivity, the leaves normal form, proper ⇒ non-proper, transitivity. -/
namespace Types

variable (H : Hier) (p : Bool)

theorem S_refl (l : Ty) : S H p l l = true := by
  rw [S_unfold]; simp [subStep]

/-! ### leaves -/

mutual
theorem flattenT_not_union : ∀ (t x : Ty), x ∈ flattenT t → x.isUnion = false
  | .union is, x, h => by simp only [flattenT] at h; exact flattenL_not_union is x h
  | .never, x, h | .none, x, h | .inst _, x, h | .gen _ _, x, h | .tuple _, x, h
  | .callable _ _, x, h | .lit _ _, x, h | .typeType _, x, h => by
    simp [flattenT] at h; subst h; rfl
theorem flattenL_not_union : ∀ (ts : List Ty) (x : Ty), x ∈ flattenL ts → x.isUnion = false
  | [], x, h => by simp [flattenL] at h
  | t :: ts, x, h => by
    simp only [flattenL, List.mem_append] at h
    cases h with
    | inl h => exact flattenT_not_union t x h
    | inr h => exact flattenL_not_union ts x h
end

theorem flattenT_of_not_union {t : Ty} (h : t.isUnion = false) : flattenT t = [t] := by
  cases t <;> simp [flattenT] <;> simp [Ty.isUnion] at h

theorem flattenL_eq_flatMap : ∀ ts : List Ty, flattenL ts = ts.flatMap flattenT
  | [] => rfl
  | t :: ts => by simp [flattenL, flattenL_eq_flatMap ts]

mutual
theorem flattenT_size : ∀ (t x : Ty), x ∈ flattenT t → x.size ≤ t.size
  | .union is, x, h => by
    simp only [flattenT] at h
    have := flattenL_size is x h
    simp [Ty.size]; omega
  | .never, x, h | .none, x, h | .inst _, x, h | .gen _ _, x, h | .tuple _, x, h
  | .callable _ _, x, h | .lit _ _, x, h | .typeType _, x, h => by
    simp [flattenT] at h; subst h; exact Nat.le_refl _
theorem flattenL_size : ∀ (ts : List Ty) (x : Ty), x ∈ flattenL ts → x.size ≤ sizeL ts
  | [], x, h => by simp [flattenL] at h
  | t :: ts, x, h => by
    simp only [flattenL, List.mem_append] at h
    simp only [sizeL]
    cases h with
    | inl h => have := flattenT_size t x h; omega
    | inr h => have := flattenL_size ts x h; omega
end

/-- union on the left, different from the right -/
theorem S_union_left_ne (ls : List Ty) (r : Ty) (h : Ty.union ls ≠ r) :
    S H p (.union ls) r = ls.all (fun i => S H p i r) := by
  rw [S_unfold]
  have : (Ty.union ls == r) = false := by simpa using h
  simp [subStep, this]

/-- non-union on the left, union on the right -/
theorem S_union_right (l : Ty) (rs : List Ty) (hl : l.isUnion = false) :
    S H p l (.union rs) = rs.any (fun x => S H p l x) := by
  rw [S_unfold]
  have : (l == Ty.union rs) = false := by
    cases l <;> simp [Ty.isUnion] at hl <;> rfl
  cases l <;> simp [subStep, this] <;> simp [Ty.isUnion] at hl

/-- both sides non-union -/
theorem S_atom (l r : Ty) (hl : l.isUnion = false) (hr : r.isUnion = false) :
    S H p l r = (l == r || subAtom H p (S H p) l r) := by
  rw [S_unfold]
  unfold subStep
  by_cases h : l == r
  · simp [h]
  · simp only [h, Bool.false_or]
    cases l <;> simp [Ty.isUnion] at hl <;> cases r <;> simp [Ty.isUnion] at hr <;> rfl

/-- leaves normal form: `l <: r` iff every leaf of `l` is a subtype of some leaf of `r` -/
theorem S_leaves : ∀ (n : Nat) (l r : Ty), l.size + r.size ≤ n →
    S H p l r = (flattenT l).all (fun x => (flattenT r).any (fun y => S H p x y)) := by
  intro n
  induction n with
  | zero => intro l r h; have := Ty.size_pos l; omega
  | succ n ih =>
    intro l r hn
    by_cases hlu : l.isUnion = true
    · -- left union
      cases l <;> simp [Ty.isUnion] at hlu
      rename_i ls
      by_cases heq : Ty.union ls = r
      · subst heq
        rw [S_refl]
        symm
        rw [List.all_eq_true]
        intro x hx
        rw [List.any_eq_true]
        exact ⟨x, hx, S_refl H p x⟩
      · rw [S_union_left_ne H p ls r heq]
        simp only [flattenT, flattenL_eq_flatMap, List.all_flatMap]
        apply all_congr'
        intro i hi
        apply ih
        have := size_le_sizeL hi
        simp [Ty.size] at hn; omega
    · have hlu : l.isUnion = false := by simpa using hlu
      rw [flattenT_of_not_union hlu]
      simp only [List.all_cons, List.all_nil, Bool.and_true]
      by_cases hru : r.isUnion = true
      · cases r <;> simp [Ty.isUnion] at hru
        rename_i rs
        rw [S_union_right H p l rs hlu]
        simp only [flattenT, flattenL_eq_flatMap, List.any_flatMap]
        apply any_congr'
        intro x hx
        have := ih l x (by have := size_le_sizeL hx; simp [Ty.size] at hn; omega)
        rw [this, flattenT_of_not_union hlu]
        simp
      · have hru : r.isUnion = false := by simpa using hru
        rw [flattenT_of_not_union hru]
        simp

theorem S_leaves' (l r : Ty) :
    S H p l r = (flattenT l).all (fun x => (flattenT r).any (fun y => S H p x y)) :=
  S_leaves H p _ l r (Nat.le_refl _)

end Types
