import MypyVerif.Proofs.TypesSimp
/-! Fuel adequacy for join / meet: every recursive call of `joinStep` / `meetStep` is on a smaller pair (or on a
    pair of instances of "plain" classes, which needs no further recursive call). -/
namespace Types
variable {H : Hier}

/-! ### sizes -/

theorem sizeL_append : ∀ (xs ys : List Ty), sizeL (xs ++ ys) = sizeL xs + sizeL ys
  | [], ys => by simp [sizeL]
  | x :: xs, ys => by simp [sizeL, sizeL_append xs ys]; omega

theorem sizeL_reverse : ∀ (xs : List Ty), sizeL xs.reverse = sizeL xs
  | [] => rfl
  | x :: xs => by simp [sizeL_append, sizeL, sizeL_reverse xs]; omega

mutual
theorem flattenT_sizeL : ∀ (t : Ty), sizeL (flattenT t) ≤ t.size
  | .union is => by
    simp only [flattenT, Ty.size]
    have := flattenL_sizeL is; omega
  | .never | .none | .inst _ | .gen _ _ | .tuple _ | .callable _ _ | .lit _ _ | .typeType _ => by
    simp [flattenT, sizeL]
theorem flattenL_sizeL : ∀ (ts : List Ty), sizeL (flattenL ts) ≤ sizeL ts
  | [] => by simp [flattenL, sizeL]
  | t :: ts => by
    simp only [flattenL, sizeL, sizeL_append]
    have := flattenT_sizeL t; have := flattenL_sizeL ts; omega
end

theorem removePass_size (ps : Ty → Ty → Bool) : ∀ (items acc : List Ty) (lf : List Nat),
    sizeL (removePass ps items acc lf) ≤ sizeL acc + sizeL items := by
  intro items
  induction items with
  | nil => intro acc lf; simp [removePass, sizeL]
  | cons ti rest ih =>
    intro acc lf
    have hpos := Ty.size_pos ti
    have k1 : ∀ lf', sizeL (removePass ps rest (acc ++ [ti]) lf') ≤ sizeL acc + sizeL (ti :: rest) := by
      intro lf'
      have := ih (acc ++ [ti]) lf'
      simp [sizeL_append, sizeL] at this ⊢; omega
    have k2 : sizeL (removePass ps rest acc lf) ≤ sizeL acc + sizeL (ti :: rest) := by
      have := ih acc lf
      simp [sizeL] at this ⊢; omega
    unfold removePass
    split
    · exact k2
    · split
      · exact k2
      · split
        · split
          · exact k1 _
          · split
            · exact k2
            · exact k1 _
        · split
          · exact k2
          · exact k1 _

theorem removeRedundant_size (ps : Ty → Ty → Bool) (items : List Ty) :
    sizeL (removeRedundant ps items) ≤ sizeL items := by
  unfold removeRedundant
  simp only
  have h1 := removePass_size ps items [] []
  simp [sizeL] at h1
  split
  · exact h1
  · have h2 := removePass_size ps (removePass ps items [] []).reverse [] []
    simp [sizeL, sizeL_reverse] at h2
    split
    · omega
    · rw [sizeL_reverse]; omega

theorem makeUnion_size : ∀ (xs : List Ty), (makeUnion xs).size ≤ 1 + sizeL xs
  | [] => by simp [makeUnion, Ty.size, sizeL]
  | [x] => by simp [makeUnion, sizeL] <;> omega
  | x :: y :: zs => by simp [makeUnion, Ty.size]

theorem simplify_size (H : Hier) (items : List Ty) : (simplifyUnion H items).size ≤ 1 + sizeL items := by
  unfold simplifyUnion
  simp only
  have hf := flattenL_sizeL items
  split
  · rename_i t heq
    rw [heq] at hf; simp [sizeL] at hf; omega
  · have := makeUnion_size (removeRedundant (isProperSubtype H) (flattenL items))
    have := removeRedundant_size (isProperSubtype H) (flattenL items)
    omega

theorem tupleFallback_size (H : Hier) (ts : List Ty) : (tupleFallback H ts).size < (Ty.tuple ts).size := by
  have := simplify_size H ts
  simp [tupleFallback, Ty.size]; omega

theorem trueOrFalse_size (H : Hier) (t : Ty) : (trueOrFalse H t).size ≤ t.size := by
  cases t <;> simp [trueOrFalse]
  rename_i is
  have := simplify_size H is
  simp [Ty.size]; omega

theorem joinTruthiness_size (H : Hier) (s t : Ty) :
    (joinTruthiness H s t).1.size ≤ s.size ∧ (joinTruthiness H s t).2.size ≤ t.size := by
  unfold joinTruthiness
  split
  · exact ⟨trueOrFalse_size H s, trueOrFalse_size H t⟩
  · exact ⟨Nat.le_refl _, Nat.le_refl _⟩

theorem joinSwap_size (s t : Ty) : (joinSwap s t).1.size + (joinSwap s t).2.size = s.size + t.size := by
  unfold joinSwap
  simp only
  split <;> split <;> split <;> simp <;> omega

/-! ### the instance walk -/

/-- the arguments `joinInstF` may hand to the argument join: the instance's own argument, or the constant
    argument of one of its superclass mappings -/
def ArgOf (H : Hier) (t : Ty) (x : Ty) : Prop :=
  t.arg? = some x ∨ ∃ c d a, t.cls = some c ∧ d ∈ H.classes ∧ H.sup c d = some (.const a) ∧ x = .inst a

theorem mapTo_wf (hok : H.Ok) {t : Ty} (hw : t.wf H = true) {c : Nat} (hc : t.cls = some c)
    {b : Nat} (hb : b ∈ H.classes) {m : BaseArg} (hm : H.sup c b = some m) :
    (H.mapTo t b).wf H = true ∧ (H.mapTo t b).cls = some b := by
  rw [mapTo_eq hok hw hc hb hm]
  have hcm := (wf_cls hw hc).1
  have hsh := hok.sup_shape c hcm b hb m hm
  cases m with
  | na => simp [argTo, Ty.wf, Ty.cls, hb]; simpa [Hier.shapeOk] using hsh
  | param =>
    simp only [Hier.shapeOk, Bool.and_eq_true] at hsh
    obtain ⟨x, hx⟩ := ((wf_cls hw hc).2.1).1 hsh.1
    subst hx
    simp [argTo, Ty.arg?, Ty.wf, Ty.cls, hb, hsh.2, (wf_gen hw).2.2]
  | const a =>
    simp only [Hier.shapeOk, Bool.and_eq_true, List.contains_iff_mem, Bool.not_eq_true'] at hsh
    simp [argTo, Ty.wf, Ty.cls, hb, hsh.1.1, hsh.1.2, hsh.2]

theorem argOf_mapTo (hok : H.Ok) {t : Ty} (hw : t.wf H = true) {c b : Nat} (hc : t.cls = some c)
    (hb : b ∈ H.classes) {m : BaseArg} (hm : H.sup c b = some m) {x : Ty}
    (h : ArgOf H (H.mapTo t b) x) : ArgOf H t x := by
  have hcm := (wf_cls hw hc).1
  have hcls := (mapTo_wf hok hw hc hb hm).2
  rw [mapTo_eq hok hw hc hb hm] at h
  rcases h with h | ⟨c', d, a', hc', hd, hs', hx⟩
  · -- the mapped instance's own argument
    cases m with
    | na => simp [argTo, Ty.arg?] at h
    | param =>
      simp only [argTo] at h
      cases ht : t.arg? with
      | none => rw [ht] at h; simp [Ty.arg?] at h
      | some x0 =>
        rw [ht] at h
        simp only [Ty.arg?, Option.some.injEq] at h
        left; rw [← h]; exact ht
    | const a =>
      simp [argTo, Ty.arg?] at h
      right; exact ⟨c, b, a, hc, hb, hm, h.symm⟩
  · rw [← mapTo_eq hok hw hc hb hm, hcls] at hc'
    cases hc'
    have := hok.sup_trans c hcm b hb d hd m (.const a') hm hs'
    right; exact ⟨c, d, a', hc, hd, by simpa [BaseArg.comp] using this, hx⟩

theorem pickBest_congr (H : Hier) : ∀ (xs ys : List Ty) (b : Option Ty), xs = ys → pickBest H b xs = pickBest H b ys := by
  intro xs ys b h; rw [h]

theorem map_congr' {α β} {f g : α → β} {xs : List α} (h : ∀ x ∈ xs, f x = g x) : xs.map f = xs.map g :=
  List.map_congr_left h

/-- `joinInstF` only consults the argument join on `ArgOf` pairs -/
theorem joinInstF_congr (hok : H.Ok) (J J' : Ty → Ty → Ty) : ∀ (k : Nat) (t s : Ty),
    t.wf H = true → s.wf H = true →
    (∀ x y, (ArgOf H t x ∧ ArgOf H s y) ∨ (ArgOf H s x ∧ ArgOf H t y) → J x y = J' x y) →
    joinInstF H J k t s = joinInstF H J' k t s := by
  intro k
  induction k with
  | zero => intros; rfl
  | succ k ih =>
    intro t s hwt hws hJ
    simp only [joinInstF, joinInstStep]
    cases hct : t.cls with
    | none => rfl
    | some c =>
      cases hcs : s.cls with
      | none => rfl
      | some d =>
        simp only
        have hcm := (wf_cls hwt hct).1
        have hdm := (wf_cls hws hcs).1
        split
        · -- same class
          split
          · rename_i c1 x c2 y
            have hxy : J x y = J' x y := hJ x y (Or.inl ⟨Or.inl rfl, Or.inl rfl⟩)
            rw [hxy]
          · rfl
        · split
          · congr 1
            apply map_congr'
            intro b hb
            obtain ⟨hbm, _, hsb⟩ := hok.bases_ok c hcm b hb
            obtain ⟨m, hm⟩ := Option.isSome_iff_exists.1 hsb
            apply ih _ _ (mapTo_wf hok hwt hct hbm hm).1 hws
            intro x y hxy
            apply hJ
            rcases hxy with ⟨h1, h2⟩ | ⟨h1, h2⟩
            · exact Or.inl ⟨argOf_mapTo hok hwt hct hbm hm h1, h2⟩
            · exact Or.inr ⟨h1, argOf_mapTo hok hwt hct hbm hm h2⟩
          · congr 1
            apply map_congr'
            intro b hb
            obtain ⟨hbm, _, hsb⟩ := hok.bases_ok d hdm b hb
            obtain ⟨m, hm⟩ := Option.isSome_iff_exists.1 hsb
            apply ih _ _ (mapTo_wf hok hws hcs hbm hm).1 hwt
            intro x y hxy
            apply hJ
            rcases hxy with ⟨h1, h2⟩ | ⟨h1, h2⟩
            · exact Or.inr ⟨argOf_mapTo hok hws hcs hbm hm h1, h2⟩
            · exact Or.inl ⟨h1, argOf_mapTo hok hws hcs hbm hm h2⟩

end Types
