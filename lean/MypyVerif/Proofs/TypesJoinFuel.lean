import MypyVerif.Proofs.TypesSimp
/-! Fuel adequacy for join / meet: every recursive call of `joinStep` / `meetStep` is on a smaller pair (or on a
    pair of instances of "plain" classes, which needs no further recursive call). -/
namespace Types
variable {H : Hier}

/-! ### sizes -/

theorem sizeL_append : ∀ (xs ys : List Ty), sizeL (xs ++ ys) = sizeL xs + sizeL ys
  | [], ys => by simp [sizeL]
  | x :: xs, ys => by simp [sizeL, sizeL_append xs ys]; omega

theorem sizeL_reverse : ∀ (xs : List Ty), sizeL xs.reverse = sizeL xs
  | [] => rfl
  | x :: xs => by simp [sizeL_append, sizeL, sizeL_reverse xs]; omega

mutual
theorem flattenT_sizeL : ∀ (t : Ty), sizeL (flattenT t) ≤ t.size
  | .union is => by
    simp only [flattenT, Ty.size]
    have := flattenL_sizeL is; omega
  | .never | .none | .inst _ | .gen _ _ | .tuple _ | .callable _ _ | .lit _ _ | .typeType _ => by
    simp [flattenT, sizeL]
theorem flattenL_sizeL : ∀ (ts : List Ty), sizeL (flattenL ts) ≤ sizeL ts
  | [] => by simp [flattenL, sizeL]
  | t :: ts => by
    simp only [flattenL, sizeL, sizeL_append]
    have := flattenT_sizeL t; have := flattenL_sizeL ts; omega
end

theorem removePass_size (ps : Ty → Ty → Bool) : ∀ (items acc : List Ty) (lf : List Nat),
    sizeL (removePass ps items acc lf) ≤ sizeL acc + sizeL items := by
  intro items
  induction items with
  | nil => intro acc lf; simp [removePass, sizeL]
  | cons ti rest ih =>
    intro acc lf
    have hpos := Ty.size_pos ti
    have k1 : ∀ lf', sizeL (removePass ps rest (acc ++ [ti]) lf') ≤ sizeL acc + sizeL (ti :: rest) := by
      intro lf'
      have := ih (acc ++ [ti]) lf'
      simp [sizeL_append, sizeL] at this ⊢; omega
    have k2 : sizeL (removePass ps rest acc lf) ≤ sizeL acc + sizeL (ti :: rest) := by
      have := ih acc lf
      simp [sizeL] at this ⊢; omega
    unfold removePass
    split
    · exact k2
    · split
      · exact k2
      · split
        · split
          · exact k1 _
          · split
            · exact k2
            · exact k1 _
        · split
          · exact k2
          · exact k1 _

theorem removeRedundant_size (ps : Ty → Ty → Bool) (items : List Ty) :
    sizeL (removeRedundant ps items) ≤ sizeL items := by
  unfold removeRedundant
  simp only
  have h1 := removePass_size ps items [] []
  simp [sizeL] at h1
  split
  · exact h1
  · have h2 := removePass_size ps (removePass ps items [] []).reverse [] []
    simp [sizeL, sizeL_reverse] at h2
    split
    · omega
    · rw [sizeL_reverse]; omega

theorem makeUnion_size : ∀ (xs : List Ty), (makeUnion xs).size ≤ 1 + sizeL xs
  | [] => by simp [makeUnion, Ty.size, sizeL]
  | [x] => by simp [makeUnion, sizeL] <;> omega
  | x :: y :: zs => by simp [makeUnion, Ty.size]

theorem simplify_size (H : Hier) (items : List Ty) : (simplifyUnion H items).size ≤ 1 + sizeL items := by
  unfold simplifyUnion
  simp only
  have hf := flattenL_sizeL items
  split
  · rename_i t heq
    rw [heq] at hf; simp [sizeL] at hf; omega
  · have := makeUnion_size (removeRedundant (isProperSubtype H) (flattenL items))
    have := removeRedundant_size (isProperSubtype H) (flattenL items)
    omega

theorem tupleFallback_size (H : Hier) (ts : List Ty) : (tupleFallback H ts).size < (Ty.tuple ts).size := by
  have := simplify_size H ts
  simp [tupleFallback, Ty.size]; omega

theorem trueOrFalse_size (H : Hier) (t : Ty) : (trueOrFalse H t).size ≤ t.size := by
  cases t <;> simp [trueOrFalse]
  rename_i is
  have := simplify_size H is
  simp [Ty.size]; omega

theorem joinTruthiness_size (H : Hier) (s t : Ty) :
    (joinTruthiness H s t).1.size ≤ s.size ∧ (joinTruthiness H s t).2.size ≤ t.size := by
  unfold joinTruthiness
  split
  · exact ⟨trueOrFalse_size H s, trueOrFalse_size H t⟩
  · exact ⟨Nat.le_refl _, Nat.le_refl _⟩

theorem joinSwap_size (s t : Ty) : (joinSwap s t).1.size + (joinSwap s t).2.size = s.size + t.size := by
  unfold joinSwap
  simp only
  split <;> split <;> split <;> simp <;> omega

/-! ### the instance walk -/

/-- the arguments `joinInstF` may hand to the argument join: the instance's own argument, or the constant
    argument of one of its superclass mappings -/
def ArgOf (H : Hier) (t : Ty) (x : Ty) : Prop :=
  t.arg? = some x ∨ ∃ c d a, t.cls = some c ∧ d ∈ H.classes ∧ H.sup c d = some (.const a) ∧ x = .inst a

theorem mapTo_wf (hok : H.Ok) {t : Ty} (hw : t.wf H = true) {c : Nat} (hc : t.cls = some c)
    {b : Nat} (hb : b ∈ H.classes) {m : BaseArg} (hm : H.sup c b = some m) :
    (H.mapTo t b).wf H = true ∧ (H.mapTo t b).cls = some b := by
  rw [mapTo_eq hok hw hc hb hm]
  have hcm := (wf_cls hw hc).1
  have hsh := hok.sup_shape c hcm b hb m hm
  cases m with
  | na => simp [argTo, Ty.wf, Ty.cls, hb]; simpa [Hier.shapeOk] using hsh
  | param =>
    simp only [Hier.shapeOk, Bool.and_eq_true] at hsh
    obtain ⟨x, hx⟩ := ((wf_cls hw hc).2.1).1 hsh.1
    subst hx
    simp [argTo, Ty.arg?, Ty.wf, Ty.cls, hb, hsh.2, (wf_gen hw).2.2]
  | const a =>
    simp only [Hier.shapeOk, Bool.and_eq_true, List.contains_iff_mem, Bool.not_eq_true'] at hsh
    simp [argTo, Ty.wf, Ty.cls, hb, hsh.1.1, hsh.1.2, hsh.2]

theorem argOf_mapTo (hok : H.Ok) {t : Ty} (hw : t.wf H = true) {c b : Nat} (hc : t.cls = some c)
    (hb : b ∈ H.classes) {m : BaseArg} (hm : H.sup c b = some m) {x : Ty}
    (h : ArgOf H (H.mapTo t b) x) : ArgOf H t x := by
  have hcm := (wf_cls hw hc).1
  have hcls := (mapTo_wf hok hw hc hb hm).2
  rw [mapTo_eq hok hw hc hb hm] at h
  rcases h with h | ⟨c', d, a', hc', hd, hs', hx⟩
  · -- the mapped instance's own argument
    cases m with
    | na => simp [argTo, Ty.arg?] at h
    | param =>
      simp only [argTo] at h
      cases ht : t.arg? with
      | none => rw [ht] at h; simp [Ty.arg?] at h
      | some x0 =>
        rw [ht] at h
        simp only [Ty.arg?, Option.some.injEq] at h
        left; rw [← h]; exact ht
    | const a =>
      simp [argTo, Ty.arg?] at h
      right; exact ⟨c, b, a, hc, hb, hm, h.symm⟩
  · rw [← mapTo_eq hok hw hc hb hm, hcls] at hc'
    cases hc'
    have := hok.sup_trans c hcm b hb d hd m (.const a') hm hs'
    right; exact ⟨c, d, a', hc, hd, by simpa [BaseArg.comp] using this, hx⟩

theorem pickBest_congr (H : Hier) : ∀ (xs ys : List Ty) (b : Option Ty), xs = ys → pickBest H b xs = pickBest H b ys := by
  intro xs ys b h; rw [h]

theorem map_congr' {α β} {f g : α → β} {xs : List α} (h : ∀ x ∈ xs, f x = g x) : xs.map f = xs.map g :=
  List.map_congr_left h

/-- `joinInstF` only consults the argument join on `ArgOf` pairs -/
theorem joinInstF_congr (hok : H.Ok) (J J' : Ty → Ty → Ty) : ∀ (k : Nat) (t s : Ty),
    t.wf H = true → s.wf H = true →
    (∀ x y, (ArgOf H t x ∧ ArgOf H s y) ∨ (ArgOf H s x ∧ ArgOf H t y) → J x y = J' x y) →
    joinInstF H J k t s = joinInstF H J' k t s := by
  intro k
  induction k with
  | zero => intros; rfl
  | succ k ih =>
    intro t s hwt hws hJ
    simp only [joinInstF, joinInstStep]
    cases hct : t.cls with
    | none => rfl
    | some c =>
      cases hcs : s.cls with
      | none => rfl
      | some d =>
        simp only
        have hcm := (wf_cls hwt hct).1
        have hdm := (wf_cls hws hcs).1
        split
        · -- same class
          split
          · rename_i c1 x c2 y
            have hxy : J x y = J' x y := hJ x y (Or.inl ⟨Or.inl rfl, Or.inl rfl⟩)
            rw [hxy]
          · rfl
        · split
          · congr 1
            apply map_congr'
            intro b hb
            obtain ⟨hbm, _, hsb⟩ := hok.bases_ok c hcm b hb
            obtain ⟨m, hm⟩ := Option.isSome_iff_exists.1 hsb
            apply ih _ _ (mapTo_wf hok hwt hct hbm hm).1 hws
            intro x y hxy
            apply hJ
            rcases hxy with ⟨h1, h2⟩ | ⟨h1, h2⟩
            · exact Or.inl ⟨argOf_mapTo hok hwt hct hbm hm h1, h2⟩
            · exact Or.inr ⟨h1, argOf_mapTo hok hwt hct hbm hm h2⟩
          · congr 1
            apply map_congr'
            intro b hb
            obtain ⟨hbm, _, hsb⟩ := hok.bases_ok d hdm b hb
            obtain ⟨m, hm⟩ := Option.isSome_iff_exists.1 hsb
            apply ih _ _ (mapTo_wf hok hws hcs hbm hm).1 hwt
            intro x y hxy
            apply hJ
            rcases hxy with ⟨h1, h2⟩ | ⟨h1, h2⟩
            · exact Or.inr ⟨argOf_mapTo hok hws hcs hbm hm h1, h2⟩
            · exact Or.inl ⟨h1, argOf_mapTo hok hws hcs hbm hm h2⟩


/-- a class without generic superclasses -/
def Plain (H : Hier) (a : Nat) : Prop :=
  a ∈ H.classes ∧ H.generic a = false ∧ ∀ e ∈ H.classes, H.sup a e = none ∨ H.sup a e = some .na

def PlainPair (H : Hier) (x y : Ty) : Prop := ∃ a a', x = .inst a ∧ y = .inst a' ∧ Plain H a ∧ Plain H a'

theorem argOf_facts (hok : H.Ok) {t x : Ty} (hw : t.wf H = true) (h : ArgOf H t x) :
    x.wf H = true ∧ (x.size < t.size ∨ (∃ c a, t = .inst c ∧ x = .inst a ∧ Plain H a)) := by
  rcases h with h | ⟨c, d, a, hc, hd, hs, hx⟩
  · have := arg_facts h hw
    exact ⟨this.2.1, Or.inl this.1⟩
  · subst hx
    have hcm := (wf_cls hw hc).1
    have hsh := hok.sup_shape c hcm d hd _ hs
    simp only [Hier.shapeOk, Bool.and_eq_true, List.contains_iff_mem, Bool.not_eq_true'] at hsh
    have hpl : Plain H a := ⟨hsh.1.2, hsh.2, hok.const_plain c hcm d hd a hs⟩
    refine ⟨by simp [Ty.wf, hsh.1.2, hsh.2], ?_⟩
    cases t <;> simp [Ty.cls] at hc
    · subst hc; right; exact ⟨_, a, rfl, rfl, hpl⟩
    · left; rename_i c0 x0; have := Ty.size_pos x0; simp [Ty.size]; omega

theorem argOf_pair (hok : H.Ok) {t s x y : Ty} (hwt : t.wf H = true) (hws : s.wf H = true)
    (hx : ArgOf H t x) (hy : ArgOf H s y) :
    x.wf H = true ∧ y.wf H = true ∧ (x.size + y.size < t.size + s.size ∨ PlainPair H x y) := by
  obtain ⟨wx, fx⟩ := argOf_facts hok hwt hx
  obtain ⟨wy, fy⟩ := argOf_facts hok hws hy
  refine ⟨wx, wy, ?_⟩
  rcases fx with fx | ⟨c, a, ht, hxa, hpa⟩
  · rcases fy with fy | ⟨c', a', hs, hya, hpa'⟩
    · left; omega
    · left; subst hs hya; simp [Ty.size] at *; omega
  · rcases fy with fy | ⟨c', a', hs, hya, hpa'⟩
    · left; subst ht hxa; simp [Ty.size] at *; omega
    · right; exact ⟨a, a', hxa, hya, hpa, hpa'⟩

theorem zipWith2_congr {f g : Ty → Ty → Ty} : ∀ {xs ys : List Ty},
    (∀ x ∈ xs, ∀ y ∈ ys, f x y = g x y) → zipWith2 f xs ys = zipWith2 g xs ys
  | [], _, _ => by simp [zipWith2]
  | _ :: _, [], _ => by simp [zipWith2]
  | x :: xs, y :: ys, h => by
    simp only [zipWith2]
    rw [h x (by simp) y (by simp), zipWith2_congr (fun a ha b hb => h a (by simp [ha]) b (by simp [hb]))]

theorem makeUnion_wf {rr : List Ty} (h : ∀ x ∈ rr, x.wf H = true ∧ x.isUnion = false) :
    (makeUnion rr).wf H = true := by
  match rr, h with
  | [], _ => simp [makeUnion, Ty.wf]
  | [x], h => simpa [makeUnion] using (h x (by simp)).1
  | x :: y :: zs, h =>
    simp only [makeUnion, Ty.wf, Bool.and_eq_true, List.all_eq_true]
    refine ⟨⟨wfL_iff.2 (fun t ht => (h t ht).1), ?_⟩, by simp⟩
    intro t ht; simp [(h t ht).2]

theorem simplify_wf (hok : H.Ok) (items : List Ty) (hw : wfL H items = true) :
    (simplifyUnion H items).wf H = true := by
  have hnu : ∀ x ∈ flattenL items, x.isUnion = false := fun x hx => flattenL_not_union items x hx
  have hwf : ∀ x ∈ flattenL items, x.wf H = true := flattenL_wf items hw
  unfold simplifyUnion
  simp only
  split
  · rename_i t heq; exact hwf t (by rw [heq]; simp)
  · have spec := (removeRedundant_spec (isProperSubtype H) (fun x => S_refl H true x) (flattenL items) (by
      intro x hx y hy z hz h1 h2
      have := trans_all hok _ true true x y z (Nat.le_refl _) ⟨Or.inl rfl, Or.inl rfl⟩ (hwf x hx) (hwf y hy) (hwf z hz) h1 h2
      simpa [isProperSubtype_eq] using this)).1
    exact makeUnion_wf (fun x hx => ⟨hwf x (spec x hx), hnu x (spec x hx)⟩)

theorem tupleFallback_wf (hok : H.Ok) {ts : List Ty} (hw : (Ty.tuple ts).wf H = true) :
    (tupleFallback H ts).wf H = true := by
  simp only [tupleFallback, Ty.wf, Bool.and_eq_true, List.contains_iff_mem]
  exact ⟨⟨hok.tup_mem, hok.tup_g⟩, simplify_wf hok ts (by simpa [Ty.wf] using hw)⟩


theorem wf_lit {c v : Nat} (h : (Ty.lit c v).wf H = true) : (Ty.inst c).wf H = true := by
  simpa [Ty.wf] using h

theorem wf_typeType {x : Ty} (h : (Ty.typeType x).wf H = true) : x.wf H = true ∧ x.isUnion = false := by
  simpa [Ty.wf] using h

theorem joinInstances_congr (hok : H.Ok) (J J' : Ty → Ty → Ty) {t s : Ty} (hwt : t.wf H = true) (hws : s.wf H = true)
    {B : Nat} (hB : t.size + s.size ≤ B)
    (hJ : ∀ x y, x.wf H = true → y.wf H = true → (x.size + y.size < B ∨ PlainPair H x y) → J x y = J' x y) :
    joinInstances H J t s = joinInstances H J' t s := by
  unfold joinInstances
  apply joinInstF_congr hok J J' _ t s hwt hws
  intro x y hxy
  rcases hxy with ⟨h1, h2⟩ | ⟨h1, h2⟩
  · obtain ⟨wx, wy, hs⟩ := argOf_pair hok hwt hws h1 h2
    exact hJ x y wx wy (hs.imp (fun h => by omega) id)
  · obtain ⟨wx, wy, hs⟩ := argOf_pair hok hws hwt h1 h2
    exact hJ x y wx wy (hs.imp (fun h => by omega) id)

/-- locality of the join visitor -/
theorem joinVisit_congr (hok : H.Ok) (J J' M M' : Ty → Ty → Ty) (s t : Ty)
    (hws : s.wf H = true) (hwt : t.wf H = true)
    (hJ : ∀ x y, x.wf H = true → y.wf H = true → (x.size + y.size < s.size + t.size ∨ PlainPair H x y) → J x y = J' x y)
    (hM : ∀ x y, x.wf H = true → y.wf H = true → x.size + y.size < s.size + t.size → M x y = M' x y) :
    joinVisit H J M s t = joinVisit H J' M' s t := by
  have hfn := wf_fn hok
  have hsp := Ty.size_pos s
  have htp := Ty.size_pos t
  -- instance on the right
  have hinst : t.isInstance = true → joinVisitInstance H J s t = joinVisitInstance H J' s t := by
    intro hti
    unfold joinVisitInstance
    cases s with
    | never | none | union _ => rfl
    | inst c => exact joinInstances_congr hok J J' hwt hws (by omega) hJ
    | gen c x => exact joinInstances_congr hok J J' hwt hws (by omega) hJ
    | callable as r =>
      simp only
      exact hJ _ _ hwt hfn (Or.inl (by simp [Ty.size]; omega))
    | typeType y =>
      simp only [joinVisitTypeType]
      cases t <;> simp [Ty.isInstance] at hti <;> rfl
    | tuple ss =>
      simp only [joinVisitTuple]
      cases t <;> simp [Ty.isInstance] at hti <;>
        exact hJ _ _ hwt (tupleFallback_wf hok hws) (Or.inl (by have := tupleFallback_size H ss; omega))
    | lit c v =>
      simp only [joinVisitLiteral]
      cases t <;> simp [Ty.isInstance] at hti <;>
        exact hJ _ _ hwt (wf_lit hws) (Or.inl (by simp [Ty.size] <;> omega))
  cases t with
  | union _ | none | never => rfl
  | inst c => exact hinst rfl
  | gen c x => exact hinst rfl
  | tuple ts =>
    simp only [joinVisit, joinVisitTuple]
    cases s with
    | tuple ss =>
      simp only
      have hwss := wf_tuple hws
      have hwts := wf_tuple hwt
      split
      · congr 1
        apply zipWith2_congr
        intro x hx y hy
        have := size_le_sizeL hx; have := size_le_sizeL hy
        exact hJ x y (hwts x hx) (hwss y hy) (Or.inl (by simp [Ty.size]; omega))
      · split
        · rfl
        · split
          · rfl
          · have h1 := tupleFallback_size H ss
            have h2 := tupleFallback_size H ts
            exact joinInstances_congr hok J J' (tupleFallback_wf hok hws) (tupleFallback_wf hok hwt)
              (B := (Ty.tuple ss).size + (Ty.tuple ts).size) (by omega) hJ
    | never | none | union _ | inst _ | gen _ _ | callable _ _ | lit _ _ | typeType _ =>
      exact hJ _ _ hws (tupleFallback_wf hok hwt) (Or.inl (by have := tupleFallback_size H ts; omega))
  | callable bs ret =>
    simp only [joinVisit, joinVisitCallable]
    have hwb := wf_callable hwt
    have hfb : ∀ s', s'.wf H = true → s'.size = s.size → J (.inst H.functionC) s' = J' (.inst H.functionC) s' := by
      intro s' hw' hsz
      exact hJ _ _ hfn hw' (Or.inl (by simp [Ty.size]; omega))
    cases s with
    | callable as ret' =>
      simp only
      have hwa := wf_callable hws
      have hr : J ret ret' = J' ret ret' := hJ _ _ hwb.2 hwa.2 (Or.inl (by simp [Ty.size]; omega))
      have hz : zipWith2 J bs as = zipWith2 J' bs as := by
        apply zipWith2_congr
        intro x hx y hy
        have := size_le_sizeL hx; have := size_le_sizeL hy
        exact hJ x y (hwb.1 x hx) (hwa.1 y hy) (Or.inl (by simp [Ty.size]; omega))
      have hzm : zipWith2 M bs as = zipWith2 M' bs as := by
        apply zipWith2_congr
        intro x hx y hy
        have := size_le_sizeL hx; have := size_le_sizeL hy
        exact hM x y (hwb.1 x hx) (hwa.1 y hy) (by simp [Ty.size]; omega)
      rw [hr, hz, hzm, hfb _ hws rfl]
    | never | none | union _ | inst _ | gen _ _ | tuple _ | lit _ _ | typeType _ => exact hfb _ hws rfl
  | lit c v =>
    simp only [joinVisit, joinVisitLiteral]
    cases s with
    | lit c' v' =>
      simp only
      rw [hJ _ _ (wf_lit hws) (wf_lit hwt) (Or.inl (by simp [Ty.size]))]
    | never | none | union _ | inst _ | gen _ _ | tuple _ | callable _ _ | typeType _ =>
      exact hJ _ _ hws (wf_lit hwt) (Or.inl (by simp [Ty.size]))
  | typeType y =>
    simp only [joinVisit, joinVisitTypeType]
    cases s with
    | typeType x =>
      simp only
      rw [hJ _ _ (wf_typeType hwt).1 (wf_typeType hws).1 (Or.inl (by simp [Ty.size]; omega))]
    | never | none | union _ | inst _ | gen _ _ | tuple _ | callable _ _ | lit _ _ => rfl


theorem flatMap_congr' {α β} {f g : α → List β} {xs : List α} (h : ∀ x ∈ xs, f x = g x) :
    xs.flatMap f = xs.flatMap g := by
  induction xs with
  | nil => rfl
  | cons x xs ih =>
    simp only [List.flatMap_cons]
    rw [h x (by simp), ih (fun y hy => h y (by simp [hy]))]

theorem meetVisitTuple_congr (M M' : Ty → Ty → Ty) (s t : Ty) (ts : List Ty)
    (hws : s.wf H = true) (hwts : ∀ x ∈ ts, x.wf H = true) {B : Nat} (hB : s.size + (Ty.tuple ts).size ≤ B)
    (hM : ∀ x y, x.wf H = true → y.wf H = true → x.size + y.size < B → M x y = M' x y) :
    meetVisitTuple H M s t ts = meetVisitTuple H M' s t ts := by
  unfold meetVisitTuple
  cases s with
  | tuple ss =>
    simp only
    have hwss := wf_tuple hws
    split
    · congr 1
      apply zipWith2_congr
      intro x hx y hy
      have := size_le_sizeL hx; have := size_le_sizeL hy
      exact hM x y (hwts x hx) (hwss y hy) (by simp [Ty.size] at hB; omega)
    · rfl
  | gen d y =>
    simp only
    split
    · congr 1
      apply map_congr'
      intro x hx
      have := size_le_sizeL hx
      exact hM x y (hwts x hx) (wf_gen hws).2.2 (by simp [Ty.size] at hB; omega)
    · rfl
  | never | none | union _ | inst _ | callable _ _ | lit _ _ | typeType _ => rfl

/-- locality of the meet visitor -/
theorem meetVisit_congr (J J' M M' : Ty → Ty → Ty) (s t : Ty)
    (hws : s.wf H = true) (hwt : t.wf H = true)
    (hJ : ∀ x y, x.wf H = true → y.wf H = true → x.size + y.size < s.size + t.size → J x y = J' x y)
    (hM : ∀ x y, x.wf H = true → y.wf H = true → x.size + y.size < s.size + t.size → M x y = M' x y) :
    meetVisit H J M s t = meetVisit H J' M' s t := by
  have hsp := Ty.size_pos s
  have htp := Ty.size_pos t
  have hinst : t.isInstance = true → meetVisitInstance H M s t = meetVisitInstance H M' s t := by
    intro hti
    unfold meetVisitInstance
    split
    · split
      · split
        · split
          · rename_i c x c' y _ _ _
            rw [hM x y (wf_gen hwt).2.2 (wf_gen hws).2.2 (by simp [Ty.size]; omega)]
          · rfl
        · rfl
      · rfl
    · cases s with
      | typeType y =>
        simp only [meetVisitTypeType]
        cases t <;> simp [Ty.isInstance] at hti <;> rfl
      | tuple ss =>
        simp only
        exact meetVisitTuple_congr M M' t _ ss hwt (wf_tuple hws) (by omega) hM
      | never | none | union _ | inst _ | gen _ _ | callable _ _ | lit _ _ => rfl
  cases t with
  | none | never | lit _ _ => rfl
  | inst c => exact hinst rfl
  | gen c x => exact hinst rfl
  | union ts =>
    simp only [meetVisit]
    have hwts := wfL_mem (wf_union hwt).1
    cases s with
    | union ss =>
      simp only
      have hwss := wfL_mem (wf_union hws).1
      congr 1
      apply flatMap_congr'
      intro x hx
      apply map_congr'
      intro y hy
      have := size_le_sizeL hx; have := size_le_sizeL hy
      exact hM x y (hwts x hx) (hwss y hy) (by simp [Ty.size]; omega)
    | never | none | inst _ | gen _ _ | tuple _ | callable _ _ | lit _ _ | typeType _ =>
      simp only
      congr 1
      apply map_congr'
      intro x hx
      have := size_le_sizeL hx
      exact hM x _ (hwts x hx) hws (by simp [Ty.size] at *; omega)
  | tuple ts =>
    simp only [meetVisit]
    exact meetVisitTuple_congr M M' s _ ts hws (wf_tuple hwt) (Nat.le_refl _) hM
  | callable bs ret =>
    simp only [meetVisit, meetVisitCallable]
    have hwb := wf_callable hwt
    cases s with
    | callable as ret' =>
      simp only
      have hwa := wf_callable hws
      have hr : J ret ret' = J' ret ret' := hJ _ _ hwb.2 hwa.2 (by simp [Ty.size]; omega)
      have hrm : M ret ret' = M' ret ret' := hM _ _ hwb.2 hwa.2 (by simp [Ty.size]; omega)
      have hz : zipWith2 J bs as = zipWith2 J' bs as := by
        apply zipWith2_congr
        intro x hx y hy
        have := size_le_sizeL hx; have := size_le_sizeL hy
        exact hJ x y (hwb.1 x hx) (hwa.1 y hy) (by simp [Ty.size]; omega)
      rw [hr, hrm, hz]
    | never | none | union _ | inst _ | gen _ _ | tuple _ | lit _ _ | typeType _ => rfl
  | typeType y =>
    simp only [meetVisit, meetVisitTypeType]
    cases s with
    | typeType x =>
      simp only
      rw [hM _ _ (wf_typeType hwt).1 (wf_typeType hws).1 (by simp [Ty.size]; omega)]
    | never | none | union _ | inst _ | gen _ _ | tuple _ | callable _ _ | lit _ _ => rfl


theorem plain_wf {a : Nat} (h : Plain H a) : (Ty.inst a).wf H = true := by
  simp [Ty.wf, h.1, h.2.1]

/-- joining two instances of plain classes never consults the recursive calls -/
theorem plain_join_indep (hok : H.Ok) (J J' M M' : Ty → Ty → Ty) {x y : Ty} (hp : PlainPair H x y) :
    joinStep H J M x y = joinStep H J' M' x y := by
  obtain ⟨a, a', hx, hy, pa, pa'⟩ := hp
  subst hx hy
  have hvac : ∀ (b : Nat), Plain H b → ∀ z, ¬ ArgOf H (.inst b) z := by
    intro b pb z hz
    rcases hz with hz | ⟨c, d, k, hc, hd, hs, _⟩
    · simp [Ty.arg?] at hz
    · simp [Ty.cls] at hc; subst hc
      rcases pb.2.2 d hd with h | h <;> rw [h] at hs <;> simp at hs
  simp only [joinStep, joinTruthiness, Ty.canBeTrue, Ty.canBeFalse, bne_self_eq_false, Bool.false_or,
    Bool.false_eq_true, if_false, joinSwap, Ty.isUnion, Ty.isNone, Ty.isNever, Bool.false_and,
    joinVisit, joinVisitInstance, joinInstances]
  apply joinInstF_congr hok J J' _ _ _ (plain_wf pa') (plain_wf pa)
  intro u v h
  rcases h with ⟨h1, _⟩ | ⟨h1, _⟩
  · exact absurd h1 (hvac a' pa' u)
  · exact absurd h1 (hvac a pa u)

theorem trueOrFalse_wf (hok : H.Ok) {t : Ty} (hw : t.wf H = true) : (trueOrFalse H t).wf H = true := by
  cases t <;> simp only [trueOrFalse] <;> try exact hw
  exact simplify_wf hok _ (wf_union hw).1

theorem joinPrelude_facts (hok : H.Ok) {s t : Ty} (hws : s.wf H = true) (hwt : t.wf H = true) :
    let st := joinSwap (joinTruthiness H s t).1 (joinTruthiness H s t).2
    st.1.wf H = true ∧ st.2.wf H = true ∧ st.1.size + st.2.size ≤ s.size + t.size := by
  have h1 : (joinTruthiness H s t).1.wf H = true ∧ (joinTruthiness H s t).2.wf H = true := by
    unfold joinTruthiness
    split
    · exact ⟨trueOrFalse_wf hok hws, trueOrFalse_wf hok hwt⟩
    · exact ⟨hws, hwt⟩
  have h2 := joinTruthiness_size H s t
  have h3 := joinSwap_size (joinTruthiness H s t).1 (joinTruthiness H s t).2
  refine ⟨?_, ?_, by omega⟩
  · unfold joinSwap; simp only; split <;> split <;> split <;> simp [h1.1, h1.2]
  · unfold joinSwap; simp only; split <;> split <;> split <;> simp [h1.1, h1.2]

theorem joinStep_congr (hok : H.Ok) (J J' M M' : Ty → Ty → Ty) (s t : Ty)
    (hws : s.wf H = true) (hwt : t.wf H = true)
    (hJ : ∀ x y, x.wf H = true → y.wf H = true → (x.size + y.size < s.size + t.size ∨ PlainPair H x y) → J x y = J' x y)
    (hM : ∀ x y, x.wf H = true → y.wf H = true → x.size + y.size < s.size + t.size → M x y = M' x y) :
    joinStep H J M s t = joinStep H J' M' s t := by
  obtain ⟨w1, w2, hs⟩ := joinPrelude_facts hok hws hwt
  simp only [joinStep]
  apply joinVisit_congr hok J J' M M' _ _ w1 w2
  · intro x y wx wy h
    exact hJ x y wx wy (h.imp (fun h => by omega) id)
  · intro x y wx wy h
    exact hM x y wx wy (by omega)

theorem meetStep_congr (J J' M M' : Ty → Ty → Ty) (s t : Ty)
    (hws : s.wf H = true) (hwt : t.wf H = true)
    (hJ : ∀ x y, x.wf H = true → y.wf H = true → x.size + y.size < s.size + t.size → J x y = J' x y)
    (hM : ∀ x y, x.wf H = true → y.wf H = true → x.size + y.size < s.size + t.size → M x y = M' x y) :
    meetStep H J M s t = meetStep H J' M' s t := by
  simp only [meetStep]
  split
  · rfl
  · split
    · rfl
    · split
      · apply meetVisit_congr J J' M M' _ _ hwt hws
        · intro x y wx wy h; exact hJ x y wx wy (by omega)
        · intro x y wx wy h; exact hM x y wx wy (by omega)
      · exact meetVisit_congr J J' M M' _ _ hws hwt hJ hM

theorem plainPair_size {x y : Ty} (h : PlainPair H x y) : x.size + y.size = 2 := by
  obtain ⟨a, a', hx, hy, _, _⟩ := h; subst hx hy; rfl

theorem plainPair_wf {x y : Ty} (h : PlainPair H x y) : x.wf H = true ∧ y.wf H = true := by
  obtain ⟨a, a', hx, hy, pa, pa'⟩ := h; subst hx hy; exact ⟨plain_wf pa, plain_wf pa'⟩

/-- enough fuel: the results do not depend on the fuel -/
theorem jmF_stable (hok : H.Ok) : ∀ (n m : Nat) (s t : Ty), s.wf H = true → t.wf H = true →
    s.size + t.size ≤ n → s.size + t.size ≤ m →
    joinF H n s t = joinF H m s t ∧ meetF H n s t = meetF H m s t := by
  intro n
  induction n with
  | zero => intro m s t _ _ h; have := Ty.size_pos s; omega
  | succ n ih =>
    intro m s t hws hwt hn hm
    cases m with
    | zero => have := Ty.size_pos s; omega
    | succ m =>
      simp only [joinF, meetF]
      constructor
      · apply joinStep_congr hok _ _ _ _ s t hws hwt
        · intro x y wx wy h
          rcases h with h | h
          · exact (ih m x y wx wy (by omega) (by omega)).1
          · -- a plain pair: one more unfolding on both sides, which ignores the recursive calls
            have hs2 := plainPair_size h
            have hsp := Ty.size_pos s; have htp := Ty.size_pos t
            obtain ⟨n', rfl⟩ : ∃ n', n = n' + 1 := ⟨n - 1, by omega⟩
            obtain ⟨m', rfl⟩ : ∃ m', m = m' + 1 := ⟨m - 1, by omega⟩
            simp only [joinF]
            exact plain_join_indep hok _ _ _ _ h
        · intro x y wx wy h
          exact (ih m x y wx wy (by omega) (by omega)).2
      · apply meetStep_congr _ _ _ _ s t hws hwt
        · intro x y wx wy h
          exact (ih m x y wx wy (by omega) (by omega)).1
        · intro x y wx wy h
          exact (ih m x y wx wy (by omega) (by omega)).2

/-- the wrappers satisfy the step equations -/
theorem join_unfold (hok : H.Ok) (s t : Ty) (hws : s.wf H = true) (hwt : t.wf H = true) :
    join H s t = joinStep H (join H) (meet H) s t := by
  unfold join jmFuel
  have hsp := Ty.size_pos s; have htp := Ty.size_pos t
  obtain ⟨k, hk⟩ : ∃ k, s.size + t.size = k + 1 := ⟨s.size + t.size - 1, by omega⟩
  rw [hk]
  simp only [joinF]
  apply joinStep_congr hok _ _ _ _ s t hws hwt
  · intro x y wx wy h
    rcases h with h | h
    · exact (jmF_stable hok k _ x y wx wy (by omega) (Nat.le_refl _)).1
    · have hs2 := plainPair_size h
      obtain ⟨k', rfl⟩ : ∃ k', k = k' + 1 := ⟨k - 1, by omega⟩
      show joinF H (k' + 1) x y = joinF H (x.size + y.size) x y
      rw [hs2]
      simp only [joinF]
      exact plain_join_indep hok _ _ _ _ h
  · intro x y wx wy h
    exact (jmF_stable hok k _ x y wx wy (by omega) (Nat.le_refl _)).2

theorem meet_unfold (hok : H.Ok) (s t : Ty) (hws : s.wf H = true) (hwt : t.wf H = true) :
    meet H s t = meetStep H (join H) (meet H) s t := by
  unfold meet jmFuel
  have hsp := Ty.size_pos s; have htp := Ty.size_pos t
  obtain ⟨k, hk⟩ : ∃ k, s.size + t.size = k + 1 := ⟨s.size + t.size - 1, by omega⟩
  rw [hk]
  simp only [meetF]
  apply meetStep_congr _ _ _ _ s t hws hwt
  · intro x y wx wy h
    exact (jmF_stable hok k _ x y wx wy (by omega) (Nat.le_refl _)).1
  · intro x y wx wy h
    exact (jmF_stable hok k _ x y wx wy (by omega) (Nat.le_refl _)).2


end Types
