import MypyVerif.Proofs.Types
/-! The executable hierarchy check `Hier.ok` yields the propositional facts the proofs use. -/
namespace Types

structure Hier.Ok (H : Hier) : Prop where
  obj_mem : H.objectC ∈ H.classes
  obj_ng : H.generic H.objectC = false
  obj_bases : H.bases H.objectC = []
  tup_mem : H.tupleC ∈ H.classes
  tup_g : H.generic H.tupleC = true
  tup_tl : H.tupleLike H.tupleC = true
  fn_mem : H.functionC ∈ H.classes
  fn_ng : H.generic H.functionC = false
  ty_mem : H.typeC ∈ H.classes
  ty_ng : H.generic H.typeC = false
  sup_refl : ∀ c ∈ H.classes, H.sup c c = some (if H.generic c then .param else .na)
  sup_obj : ∀ c ∈ H.classes, H.sup c H.objectC = some .na
  sup_shape : ∀ c ∈ H.classes, ∀ d ∈ H.classes, ∀ m, H.sup c d = some m → H.shapeOk c d m = true
  sup_trans : ∀ c ∈ H.classes, ∀ d ∈ H.classes, ∀ e ∈ H.classes, ∀ m1 m2,
    H.sup c d = some m1 → H.sup d e = some m2 → H.sup c e = some (m1.comp m2)
  var_compat : ∀ c ∈ H.classes, ∀ d ∈ H.classes, H.sup c d = some .param →
    H.variance c = .inv ∨ H.variance c = H.variance d
  antisym : ∀ c ∈ H.classes, ∀ d ∈ H.classes, ∀ m m', H.sup c d = some m → H.sup d c = some m' → c = d
  bases_ok : ∀ c ∈ H.classes, ∀ b ∈ H.bases c, b ∈ H.classes ∧ b ≠ c ∧ (H.sup c b).isSome = true
  bases_ne : ∀ c ∈ H.classes, c ≠ H.objectC → H.bases c ≠ []
  mro_lt : ∀ c ∈ H.classes, ∀ d ∈ H.classes, ∀ m, H.sup c d = some m → c ≠ d → H.mroLen d < H.mroLen c
  base_path : ∀ c ∈ H.classes, ∀ d ∈ H.classes, ∀ m, H.sup c d = some m → c ≠ d →
    ∃ b ∈ H.bases c, (H.sup b d).isSome = true
  tl_generic : ∀ d ∈ H.classes, H.tupleLike d = true → H.generic d = true ∧ H.variance d = .co
  tl_up : ∀ d ∈ H.classes, H.tupleLike d = true → ∀ e ∈ H.classes, ∀ m, H.sup d e = some m →
    (m = .na ∧ e = H.objectC) ∨ (m = .param ∧ H.tupleLike e = true)
  fn_sub : ∀ c ∈ H.classes, ∀ m, H.sup c H.functionC = some m → c = H.functionC
  fn_sup : ∀ c ∈ H.classes, ∀ m, H.sup H.functionC c = some m → c = H.functionC ∨ c = H.objectC
  ty_sub : ∀ c ∈ H.classes, ∀ m, H.sup c H.typeC = some m → c = H.typeC
  ty_sup : ∀ c ∈ H.classes, ∀ m, H.sup H.typeC c = some m → c = H.typeC ∨ c = H.objectC
  no_const_fn : ∀ c ∈ H.classes, ∀ d ∈ H.classes, H.sup c d ≠ some (.const H.functionC)
  const_plain : ∀ c ∈ H.classes, ∀ d ∈ H.classes, ∀ a, H.sup c d = some (.const a) →
    ∀ e ∈ H.classes, H.sup a e = none ∨ H.sup a e = some .na

theorem contains_iff {cs : List Nat} {c : Nat} : cs.contains c = true ↔ c ∈ cs := by
  simp

theorem Hier.ok_sound (H : Hier) (h : H.ok = true) : H.Ok := by
  simp only [Hier.ok, Bool.and_eq_true] at h
  obtain ⟨⟨⟨⟨⟨hsp, hsup⟩, hb⟩, htl⟩, hft⟩, hcp⟩ := h
  simp only [Hier.okConst, List.all_eq_true] at hcp
  simp only [Hier.okSpecial, Bool.and_eq_true, List.contains_iff_mem, Bool.not_eq_true',
    List.isEmpty_iff] at hsp
  obtain ⟨⟨⟨⟨⟨⟨⟨⟨⟨h1, h2⟩, h3⟩, h4⟩, h5⟩, h6⟩, h7⟩, h8⟩, h9⟩, h10⟩ := hsp
  simp only [Hier.okSup, List.all_eq_true, Bool.and_eq_true] at hsup
  simp only [Hier.okBases, List.all_eq_true, Bool.and_eq_true] at hb
  simp only [Hier.okTupleLike, List.all_eq_true] at htl
  simp only [Hier.okFunType, List.all_eq_true, Bool.and_eq_true] at hft
  refine ⟨h1, h2, h3, h4, h5, h6, h7, h8, h9, h10, ?_, ?_, ?_, ?_, ?_, ?_, ?_, ?_, ?_, ?_, ?_, ?_, ?_, ?_, ?_, ?_, ?_, ?_⟩
  · intro c hc; have := (hsup c hc).1.1; simpa using this
  · intro c hc; have := (hsup c hc).1.2; simpa using this
  · intro c hc d hd m hm
    have := (hsup c hc).2 d hd
    rw [hm] at this
    simp only [Bool.and_eq_true] at this
    exact this.1.1.1
  · intro c hc d hd e he m1 m2 h1 h2
    have := (hsup c hc).2 d hd
    rw [h1] at this
    simp only [Bool.and_eq_true, List.all_eq_true] at this
    have := this.1.1.2 e he
    rw [h2] at this
    simpa using this
  · intro c hc d hd hm
    have := (hsup c hc).2 d hd
    rw [hm] at this
    simp only [Bool.and_eq_true] at this
    have := this.1.2
    simp at this
    rcases this with h | h
    · exact Or.inl h
    · exact Or.inr h
  · intro c hc d hd m m' h1 h2
    have := (hsup c hc).2 d hd
    rw [h1] at this
    simp only [Bool.and_eq_true] at this
    have := this.2
    simp [h2] at this
    exact this
  · intro c hc b hbb
    have := (hb c hc).1.1 b hbb
    simp only [List.contains_iff_mem] at this
    refine ⟨this.1.1, ?_, this.2⟩
    simpa using this.1.2
  · intro c hc hne
    have := (hb c hc).1.2
    simp [hne] at this
    exact this
  · intro c hc d hd m hm hne
    have := (hb c hc).2 d hd
    rw [hm] at this
    simp [hne] at this
    exact this.1
  · intro c hc d hd m hm hne
    have := (hb c hc).2 d hd
    rw [hm] at this
    simp [hne] at this
    obtain ⟨b, hbm, hbs⟩ := this.2
    exact ⟨b, hbm, by simpa using hbs⟩
  · intro d hd htld
    have := htl d hd
    simp [htld] at this
    exact ⟨this.1.1, this.1.2⟩
  · intro d hd htld e he m hm
    have := htl d hd
    simp [htld] at this
    have := this.2 e he
    rw [hm] at this
    cases m with
    | na => left; exact ⟨rfl, by simpa using this⟩
    | param => right; exact ⟨rfl, by simpa using this⟩
    | const a => simp at this
  · intro c hc m hm
    have := (hft c hc).1.1.1.1
    simpa [hm] using this
  · intro c hc m hm
    have := (hft c hc).1.1.1.2
    simpa [hm] using this
  · intro c hc m hm
    have := (hft c hc).1.1.2
    simpa [hm] using this
  · intro c hc m hm
    have := (hft c hc).1.2
    simpa [hm] using this
  · intro c hc d hd
    have := (hft c hc).2
    simpa using this d hd
  · intro c hc d hd a hm e he
    have := hcp c hc d hd
    rw [hm] at this
    simp only [List.all_eq_true] at this
    simpa using this e he

end Types
