import MypyVerif.Model.Types
/-! Helper lemmas for the type-lattice model (property theorems are in Props/C08.lean). -/
namespace Types

/-! ### structural equality -/

mutual
theorem Ty.beq_iff : ∀ (a b : Ty), Ty.beq a b = true ↔ a = b
  | .never, b => by cases b <;> simp [Ty.beq]
  | .none, b => by cases b <;> simp [Ty.beq]
  | .inst c, b => by cases b <;> simp [Ty.beq]
  | .gen c a, b => by cases b <;> simp [Ty.beq, Ty.beq_iff a]
  | .union xs, b => by cases b <;> simp [Ty.beq, beqL_iff xs]
  | .tuple xs, b => by cases b <;> simp [Ty.beq, beqL_iff xs]
  | .callable xs r, b => by cases b <;> simp [Ty.beq, beqL_iff xs, Ty.beq_iff r]
  | .lit c v, b => by cases b <;> simp [Ty.beq]
  | .typeType a, b => by cases b <;> simp [Ty.beq, Ty.beq_iff a]
theorem beqL_iff : ∀ (xs ys : List Ty), beqL xs ys = true ↔ xs = ys
  | [], ys => by cases ys <;> simp [beqL]
  | x :: xs, ys => by cases ys <;> simp [beqL, Ty.beq_iff x, beqL_iff xs]
end

instance : LawfulBEq Ty where
  eq_of_beq {a b} h := (Ty.beq_iff a b).1 h
  rfl {a} := (Ty.beq_iff a a).2 rfl

instance : DecidableEq Ty := fun a b => decidable_of_iff (Ty.beq a b = true) (Ty.beq_iff a b)

/-! ### size -/

theorem Ty.size_pos : ∀ t : Ty, 0 < t.size
  | .never | .none | .inst _ | .lit _ _ => by simp [Ty.size]
  | .gen _ _ | .union _ | .tuple _ | .callable _ _ | .typeType _ => by simp [Ty.size]; omega

theorem size_le_sizeL {x : Ty} {xs : List Ty} (h : x ∈ xs) : x.size ≤ sizeL xs := by
  induction xs with
  | nil => cases h
  | cons y ys ih =>
    simp [sizeL]
    cases h with
    | head => omega
    | tail _ h => have := ih h; omega

/-! ### fuel: the recursive calls of `subStep` are on smaller pairs -/

theorem all_congr' {α} {f g : α → Bool} {xs : List α} (h : ∀ x ∈ xs, f x = g x) : xs.all f = xs.all g := by
  induction xs with
  | nil => rfl
  | cons x xs ih =>
    simp only [List.all_cons]
    rw [h x (by simp), ih (fun y hy => h y (by simp [hy]))]

theorem any_congr' {α} {f g : α → Bool} {xs : List α} (h : ∀ x ∈ xs, f x = g x) : xs.any f = xs.any g := by
  induction xs with
  | nil => rfl
  | cons x xs ih =>
    simp only [List.any_cons]
    rw [h x (by simp), ih (fun y hy => h y (by simp [hy]))]

theorem all2_congr {f g : Ty → Ty → Bool} : ∀ {xs ys : List Ty},
    (∀ x ∈ xs, ∀ y ∈ ys, f x y = g x y) → all2 f xs ys = all2 g xs ys
  | [], _, _ => by simp [all2]
  | _ :: _, [], _ => by simp [all2]
  | x :: xs, y :: ys, h => by
    simp only [all2]
    rw [h x (by simp) y (by simp), all2_congr (fun a ha b hb => h a (by simp [ha]) b (by simp [hb]))]

theorem varCheck_congr {v} {f g : Ty → Ty → Bool} {x y : Ty}
    (h1 : f x y = g x y) (h2 : f y x = g y x) : varCheck v f x y = varCheck v g x y := by
  cases v <;> simp [varCheck, h1, h2]

/-- size of the argument of a mapped instance -/
theorem mapTo_arg_size (H : Hier) (l : Ty) (d : Nat) (hl : l.isInstance = true) :
    ∀ c x, H.mapTo l d = .gen c x → x.size ≤ l.size := by
  intro c x hm
  cases l <;> simp [Ty.isInstance] at hl
  · rename_i c0
    simp only [Hier.mapTo] at hm
    split at hm
    · cases hm
    · split at hm <;> cases hm
      simp [Ty.size]
  · rename_i c0 x0
    simp only [Hier.mapTo] at hm
    split at hm
    · cases hm; simp [Ty.size]
    · have := Ty.size_pos x0
      split at hm <;> cases hm <;> simp [Ty.size] <;> omega

theorem subInstance_congr (H : Hier) (f g : Ty → Ty → Bool) (l r : Ty) (c d : Nat) (hl : l.isInstance = true)
    (h : ∀ l' r', l'.size + r'.size < l.size + r.size → f l' r' = g l' r') :
    subInstance H f l r c d = subInstance H g l r c d := by
  unfold subInstance
  split
  · split
    · rename_i c1 x c2 y hm
      have hs := mapTo_arg_size H l d hl c1 x hm
      apply varCheck_congr <;> apply h <;> simp [Ty.size] <;> omega
    · rfl
  · rfl

theorem subFromInstance_congr (H : Hier) (f g : Ty → Ty → Bool) (l r : Ty) (c : Nat) (hl : l.isInstance = true)
    (h : ∀ l' r', l'.size + r'.size < l.size + r.size → f l' r' = g l' r') :
    subFromInstance H f l c r = subFromInstance H g l c r := by
  unfold subFromInstance
  split
  · exact subInstance_congr H f g l _ c _ hl h
  · exact subInstance_congr H f g l _ c _ hl h
  · rfl

theorem subAtom_congr (H : Hier) (p : Bool) (f g : Ty → Ty → Bool) (l r : Ty)
    (h : ∀ l' r', l'.size + r'.size < l.size + r.size → f l' r' = g l' r') :
    subAtom H p f l r = subAtom H p g l r := by
  cases l with
  | never => rfl
  | none => rfl
  | union _ => rfl
  | inst c => exact subFromInstance_congr H f g _ r c rfl h
  | gen c x => exact subFromInstance_congr H f g _ r c rfl h
  | tuple ls =>
    simp only [subAtom, subFromTuple]
    split
    · rfl
    · split
      · apply all_congr'; intro li hli; apply h
        have := size_le_sizeL hli; simp [Ty.size]; omega
      · rfl
    · rename_i rs
      congr 1
      apply all2_congr; intro x hx y hy; apply h
      have := size_le_sizeL hx; have := size_le_sizeL hy; simp [Ty.size]; omega
    · rfl
  | callable as ret =>
    simp only [subAtom, subFromCallable]
    split
    · rename_i bs ret'
      have h1 : f ret ret' = g ret ret' := by apply h; simp [Ty.size]; omega
      have h2 : all2 f bs as = all2 g bs as := by
        apply all2_congr; intro x hx y hy; apply h
        have := size_le_sizeL hx; have := size_le_sizeL hy; simp [Ty.size]; omega
      rw [h1, h2]
    · apply h; simp [Ty.size]; omega
    · apply h; simp [Ty.size]; omega
    · rfl
  | lit c v =>
    simp only [subAtom]
    split
    · rfl
    · apply h; simp [Ty.size]
  | typeType x =>
    simp only [subAtom, subFromTypeType]
    split
    · apply h; simp [Ty.size]; omega
    · split
      · rfl
      · apply h; simp [Ty.size]; omega
    · rfl
    · rfl

/-- the recursive calls of `subStep` are on pairs of smaller total size -/
theorem subStep_congr (H : Hier) (p : Bool) (f g : Ty → Ty → Bool) (l r : Ty)
    (h : ∀ l' r', l'.size + r'.size < l.size + r.size → f l' r' = g l' r') :
    subStep H p f l r = subStep H p g l r := by
  unfold subStep
  split
  · rfl
  · have hu : ∀ rs, r = .union rs → (rs.any fun x => f l x) = (rs.any fun x => g l x) := by
      intro rs hr; subst hr
      apply any_congr'; intro x hx; apply h
      have := size_le_sizeL hx; simp [Ty.size]; omega
    cases l with
    | union ls =>
      simp only
      apply all_congr'
      intro i hi
      apply h
      have := size_le_sizeL hi
      simp [Ty.size]; omega
    | never => cases r <;> first | rfl | exact hu _ rfl
    | none => cases r <;> first | rfl | exact hu _ rfl
    | inst c => cases r <;> first | exact hu _ rfl | exact subAtom_congr H p f g _ _ h
    | gen c x => cases r <;> first | exact hu _ rfl | exact subAtom_congr H p f g _ _ h
    | tuple ls => cases r <;> first | exact hu _ rfl | exact subAtom_congr H p f g _ _ h
    | callable as ret => cases r <;> first | exact hu _ rfl | exact subAtom_congr H p f g _ _ h
    | lit c v => cases r <;> first | exact hu _ rfl | exact subAtom_congr H p f g _ _ h
    | typeType x => cases r <;> first | exact hu _ rfl | exact subAtom_congr H p f g _ _ h


theorem subF_stable (H : Hier) (p : Bool) : ∀ (n m : Nat) (l r : Ty),
    l.size + r.size ≤ n → l.size + r.size ≤ m → subF H p n l r = subF H p m l r := by
  intro n
  induction n with
  | zero => intro m l r h; have := Ty.size_pos l; omega
  | succ n ih =>
    intro m l r hn hm
    cases m with
    | zero => have := Ty.size_pos l; omega
    | succ m =>
      simp only [subF]
      apply subStep_congr
      intro l' r' hlt
      exact ih m l' r' (by omega) (by omega)

/-- subtyping with the fuel the wrappers use -/
def S (H : Hier) (p : Bool) (l r : Ty) : Bool := subF H p (l.size + r.size) l r

theorem isSubtype_eq (H : Hier) (l r : Ty) : isSubtype H l r = S H false l r := rfl
theorem isProperSubtype_eq (H : Hier) (l r : Ty) : isProperSubtype H l r = S H true l r := rfl

/-- the wrappers satisfy the step equation: fuel never runs out -/
theorem S_unfold (H : Hier) (p : Bool) (l r : Ty) : S H p l r = subStep H p (S H p) l r := by
  unfold S
  have hl := Ty.size_pos l
  have hr := Ty.size_pos r
  obtain ⟨k, hk⟩ : ∃ k, l.size + r.size = k + 1 := ⟨l.size + r.size - 1, by omega⟩
  rw [hk]
  simp only [subF]
  apply subStep_congr
  intro l' r' hlt
  exact subF_stable H p k _ l' r' (by omega) (by omega)

end Types
