import MypyVerif.Proofs.LayoutList
/-!
`find_sources_in_dir` versus listing the files of a directory individually (C18 model).
-/
namespace Layout

variable (fs : FS) (o : Opts)

/-- `d ++ rel` is a `.py[i]` file that the directory walk from `d` can reach: every directory on the way exists and
    no component is one of the skipped names -/
def walkable (fs : FS) : Path → List Name → Prop
  | _, [] => False
  | d, [n] => skipName n = false ∧ fs.isFile (d ++ [n]) = true ∧ isPyExt (splitext n).2 = true
  | d, n :: m :: rest => skipName n = false ∧ fs.isDir (d ++ [n]) = true ∧ walkable fs (d ++ [n]) (m :: rest)

theorem walkable_ne_nil {d : Path} {rel : List Name} (h : walkable fs d rel) : rel ≠ [] := by
  intro he; subst he; exact h

theorem walkable_cons {d : Path} {n : Name} {rel : List Name} (hs : skipName n = false)
    (hd : fs.isDir (d ++ [n]) = true) (h : walkable fs (d ++ [n]) rel) : walkable fs d (n :: rel) := by
  cases rel with
  | nil => exact absurd rfl (walkable_ne_nil fs h)
  | cons m rest => exact ⟨hs, hd, h⟩

/-! ### sorting keeps the entries -/

theorem mem_insertByKey {n m : Name} {l : List Name} : m ∈ insertByKey n l ↔ m = n ∨ m ∈ l := by
  induction l with
  | nil => simp [insertByKey]
  | cons a as ih =>
    simp only [insertByKey]
    split
    · simp
    · simp only [List.mem_cons, ih]
      constructor
      · rintro (h | h | h)
        · exact Or.inr (Or.inl h)
        · exact Or.inl h
        · exact Or.inr (Or.inr h)
      · rintro (h | h | h)
        · exact Or.inr (Or.inl h)
        · exact Or.inl h
        · exact Or.inr (Or.inr h)

theorem mem_sortNames {m : Name} {l : List Name} : m ∈ sortNames l ↔ m ∈ l := by
  induction l with
  | nil => simp [sortNames]
  | cons a as ih =>
    have : sortNames (a :: as) = insertByKey a (sortNames as) := rfl
    rw [this, mem_insertByKey, ih]; simp

/-! ### soundness: everything listed is a reachable `.py[i]` file and is the crawl of its path -/

theorem loopDir_sound (wf : fs.WF) {recur : Path → Except Err (List Src)} {path : Path} {k : Nat}
    (hrec : ∀ n l, recur (path ++ [n]) = .ok l → ∀ s ∈ l, ∃ rel, s.path = path ++ [n] ++ rel ∧
      walkable fs (path ++ [n]) rel ∧ rel.length ≤ k) :
    ∀ (names seen : List Name) (out : List Src), (∀ n ∈ names, n ∈ fs.listdir path) →
      loopDir fs o recur path names seen = .ok out →
      ∀ s ∈ out, ∃ rel, s.path = path ++ rel ∧ walkable fs path rel ∧ rel.length ≤ k + 1 := by
  intro names
  induction names with
  | nil => intro seen out _ h; simp only [loopDir] at h; cases h; intro s hs; cases hs
  | cons n rest ih =>
    intro seen out hl h
    have hl' : ∀ m ∈ rest, m ∈ fs.listdir path := fun m hm => hl m (by simp [hm])
    simp only [loopDir] at h
    split at h
    · exact ih _ _ hl' h
    · next hskip =>
      have hskip' : skipName n = false := by simpa using hskip
      split at h
      · next hdir =>
        split at h
        · cases h
        · exact ih _ _ hl' h
        · next s0 ss hr =>
          split at h
          · cases h
          · next more hm =>
            simp only [Except.ok.injEq] at h
            subst h
            intro s hs
            simp only [List.cons_append, List.mem_cons, List.mem_append] at hs
            have fromrec : s ∈ s0 :: ss → ∃ rel, s.path = path ++ rel ∧ walkable fs path rel ∧ rel.length ≤ k + 1 := by
              intro hs'
              obtain ⟨rel, hp, hw, hlen⟩ := hrec n _ hr s hs'
              exact ⟨n :: rel, by simp [hp], walkable_cons fs hskip' hdir hw, by simp; omega⟩
            rcases hs with rfl | hs | hs
            · exact fromrec (by simp)
            · exact fromrec (by simp [hs])
            · exact ih _ _ hl' hm s hs
      · next hndir =>
        split at h
        · next hemit =>
          split at h
          · cases h
          · next s0 hc =>
            split at h
            · cases h
            · next more hm =>
              simp only [Except.ok.injEq] at h
              subst h
              intro s hs
              simp only [List.mem_cons] at hs
              rcases hs with rfl | hs
              · refine ⟨[n], by rw [crawlSrc_path fs o hc], ?_, by simp⟩
                simp only [Bool.and_eq_true] at hemit
                have hmem := (wf.listed path n).mp (hl n (by simp))
                rcases hmem with hf | hd
                · exact ⟨hskip', hf, hemit.2⟩
                · exact absurd hd hndir
              · exact ih _ _ hl' hm s hs
        · exact ih _ _ hl' h

theorem findSourcesInDir_sound (wf : fs.WF) : ∀ (fuel : Nat) (d : Path) (out : List Src),
    findSourcesInDir fs o fuel d = .ok out →
    ∀ s ∈ out, ∃ rel, s.path = d ++ rel ∧ walkable fs d rel ∧ rel.length ≤ fuel := by
  intro fuel
  induction fuel with
  | zero => intro d out h; simp only [findSourcesInDir] at h; cases h; intro s hs; cases hs
  | succ k ih =>
    intro d out h
    simp only [findSourcesInDir] at h
    exact loopDir_sound fs o wf (fun n l hl => ih (d ++ [n]) l hl) _ _ _ (fun n hn => (mem_sortNames).mp hn) h

/-! ### what can be reached is seen by `hasSourceBelow` -/

theorem hasSourceBelow_of_walkable (wf : fs.WF) : ∀ (k : Nat) (p : Path) (rel : List Name),
    walkable fs p rel → rel.length ≤ k → hasSourceBelow fs k p = true := by
  intro k
  induction k with
  | zero =>
    intro p rel hw hl
    have : rel = [] := List.eq_nil_of_length_eq_zero (by omega)
    exact absurd this (walkable_ne_nil fs hw)
  | succ k ih =>
    intro p rel hw hl
    simp only [hasSourceBelow, List.any_eq_true, Bool.and_eq_true, Bool.not_eq_true']
    cases rel with
    | nil => exact absurd rfl (walkable_ne_nil fs hw)
    | cons n rest =>
      cases rest with
      | nil =>
        obtain ⟨hs, hf, hpy⟩ := hw
        refine ⟨n, (wf.listed p n).mpr (Or.inl hf), hs, ?_⟩
        simp [wf.notBoth _ hf, hpy]
      | cons m rest' =>
        obtain ⟨hs, hd, hw'⟩ := hw
        refine ⟨n, (wf.listed p n).mpr (Or.inr hd), hs, ?_⟩
        simp only [hd, if_true]
        exact ih _ _ hw' (by simp at hl ⊢; omega)

/-! ### the loop: directories are always entered, a file is only dropped when its stem was seen -/

theorem loopDir_dir {recur : Path → Except Err (List Src)} {path : Path} :
    ∀ (names seen : List Name) (out : List Src), loopDir fs o recur path names seen = .ok out →
      ∀ n ∈ names, skipName n = false → fs.isDir (path ++ [n]) = true →
      ∃ l, recur (path ++ [n]) = .ok l ∧ ∀ s ∈ l, s ∈ out := by
  intro names
  induction names with
  | nil => intro seen out _ n hn; cases hn
  | cons a rest ih =>
    intro seen out h n hn hskip hdir
    simp only [loopDir] at h
    split at h
    · next hsk =>
      cases hn with
      | head => rw [hskip] at hsk; cases hsk
      | tail _ hn => exact ih _ _ h n hn hskip hdir
    · split at h
      · next hda =>
        split at h
        · cases h
        · next hr =>
          cases hn with
          | head => exact ⟨[], hr, by intro s hs; cases hs⟩
          | tail _ hn => exact ih _ _ h n hn hskip hdir
        · next s0 ss hr =>
          split at h
          · cases h
          · next more hm =>
            simp only [Except.ok.injEq] at h
            subst h
            cases hn with
            | head => exact ⟨s0 :: ss, hr, by intro s hs; simp only [List.cons_append, List.mem_cons, List.mem_append] at hs ⊢; rcases hs with h | h <;> simp [h]⟩
            | tail _ hn =>
              obtain ⟨l, hl, hsub⟩ := ih _ _ hm n hn hskip hdir
              exact ⟨l, hl, by intro s hs; simp [hsub s hs]⟩
      · next hnda =>
        have hne : n ∈ rest := by
          cases hn with
          | head => exact absurd hdir hnda
          | tail _ hn => exact hn
        split at h
        · split at h
          · cases h
          · split at h
            · cases h
            · next more hm =>
              simp only [Except.ok.injEq] at h
              subst h
              obtain ⟨l, hl, hsub⟩ := ih _ _ hm n hne hskip hdir
              exact ⟨l, hl, by intro s hs; simp [hsub s hs]⟩
        · exact ih _ _ h n hne hskip hdir

/-- the fate of a `.py[i]` file entry `n` (stem `st`) in the loop: it is emitted, or its stem was already seen, or
    a source-yielding directory named `st`, or an emitted file with the same stem, precedes it -/
theorem loopDir_file {recur : Path → Except Err (List Src)} {path : Path} {n : Name}
    (hskip : skipName n = false) (hnd : fs.isDir (path ++ [n]) = false) (hpy : isPyExt (splitext n).2 = true) :
    ∀ (names seen : List Name) (out : List Src), loopDir fs o recur path names seen = .ok out → n ∈ names →
      (∃ s ∈ out, s.path = path ++ [n]) ∨ (splitext n).1 ∈ seen ∨
      (∃ s0 ss, recur (path ++ [(splitext n).1]) = .ok (s0 :: ss) ∧ ∀ s ∈ s0 :: ss, s ∈ out) ∨
      (∃ n', n' ≠ n ∧ (splitext n').1 = (splitext n).1 ∧ isPyExt (splitext n').2 = true ∧
        ∃ s ∈ out, s.path = path ++ [n']) := by
  intro names
  induction names with
  | nil => intro seen out _ hn; cases hn
  | cons a rest ih =>
    intro seen out h hn
    simp only [loopDir] at h
    split at h
    · next hsk =>
      cases hn with
      | head => rw [hskip] at hsk; cases hsk
      | tail _ hn => exact ih _ _ h hn
    · split at h
      · next hda =>
        have hne : n ∈ rest := by
          cases hn with
          | head => rw [hnd] at hda; cases hda
          | tail _ hn => exact hn
        split at h
        · cases h
        · exact ih _ _ h hne
        · next s0 ss hr =>
          split at h
          · cases h
          · next more hm =>
            simp only [Except.ok.injEq] at h
            subst h
            rcases ih _ _ hm hne with ⟨s, hs, hp⟩ | hseen | ⟨t0, ts, ht, hsub⟩ | ⟨n', h1, h2, h3, s, hs, hp⟩
            · exact Or.inl ⟨s, by simp [hs], hp⟩
            · simp only [List.mem_cons] at hseen
              rcases hseen with hst | hseen
              · right; right; left
                refine ⟨s0, ss, by rw [hst]; exact hr, ?_⟩
                intro s hs
                simp only [List.cons_append, List.mem_cons, List.mem_append] at hs ⊢
                rcases hs with h | h <;> simp [h]
              · exact Or.inr (Or.inl hseen)
            · exact Or.inr (Or.inr (Or.inl ⟨t0, ts, ht, by intro s hs; simp [hsub s hs]⟩))
            · exact Or.inr (Or.inr (Or.inr ⟨n', h1, h2, h3, s, by simp [hs], hp⟩))
      · next hnda =>
        split at h
        · next hemit =>
          split at h
          · cases h
          · next s0 hc =>
            split at h
            · cases h
            · next more hm =>
              simp only [Except.ok.injEq] at h
              subst h
              by_cases han : a = n
              · subst han
                exact Or.inl ⟨s0, by simp, crawlSrc_path fs o hc⟩
              · have hne : n ∈ rest := by
                  cases hn with
                  | head => exact absurd rfl han
                  | tail _ hn => exact hn
                simp only [Bool.and_eq_true] at hemit
                rcases ih _ _ hm hne with ⟨s, hs, hp⟩ | hseen | ⟨t0, ts, ht, hsub⟩ | ⟨n', h1, h2, h3, s, hs, hp⟩
                · exact Or.inl ⟨s, by simp [hs], hp⟩
                · simp only [List.mem_cons] at hseen
                  rcases hseen with hst | hseen
                  · right; right; right
                    exact ⟨a, han, hst.symm, hemit.2, s0, by simp, crawlSrc_path fs o hc⟩
                  · exact Or.inr (Or.inl hseen)
                · exact Or.inr (Or.inr (Or.inl ⟨t0, ts, ht, by intro s hs; simp [hsub s hs]⟩))
                · exact Or.inr (Or.inr (Or.inr ⟨n', h1, h2, h3, s, by simp [hs], hp⟩))
        · next hnoemit =>
          by_cases han : a = n
          · subst han
            right; left
            simp only [hpy, Bool.and_true, Bool.not_eq_true', Bool.not_eq_false] at hnoemit
            simpa using hnoemit
          · have hne : n ∈ rest := by
              cases hn with
              | head => exact absurd rfl han
              | tail _ hn => exact hn
            exact ih _ _ h hne

/-! ### completeness up to shadowing -/

theorem listdir_nil_of_not_dir (wf : fs.WF) {p : Path} (h : fs.isDir p = false) : fs.listdir p = [] := by
  apply List.eq_nil_iff_forall_not_mem.mpr
  intro n hn
  rcases (wf.listed p n).mp hn with hf | hd
  · rw [wf.fileParent _ _ hf] at h; cases h
  · rw [wf.dirParent _ _ hd] at h; cases h

theorem hasSourceBelow_not_dir (wf : fs.WF) {p : Path} (h : fs.isDir p = false) (k : Nat) :
    hasSourceBelow fs k p = false := by
  cases k with
  | zero => rfl
  | succ k => simp [hasSourceBelow, listdir_nil_of_not_dir fs wf h]

theorem module_of_crawled {s : Src} {m : List Name} {b : Path} (hc : Crawled fs o s)
    (h : crawlUp fs o s.path = .some m b) : s.module = m := by
  unfold Crawled at hc
  rw [crawled_of_crawlUp fs o h] at hc
  simp only [Except.ok.injEq] at hc
  rw [← hc]

/-- **`find_sources_in_dir` against listing individually (completeness up to shadowing).**  Every reachable
    `.py[i]` file `d/rel` that `crawl_up` names `m` is either listed by `find_sources_in_dir(d)` or another listed
    file carries the module name `m` — outside the F10 cell: a same-named sibling directory that contains sources
    must be a clean package (`hcell`). -/
theorem dir_complete (wf : fs.WF) (F : Nat) : ∀ (fuel : Nat), fuel ≤ F → ∀ (d : Path) (rel : List Name) (S : List Src)
    (m : List Name) (b : Path),
    findSourcesInDir fs o fuel d = .ok S → walkable fs d rel → rel.length ≤ fuel →
    crawlUp fs o (d ++ rel) = .some m b →
    (∀ D n, d ++ rel = D ++ [n] → hasSourceBelow fs F (D ++ [(splitext n).1]) = true →
      cleanShadow fs o D (splitext n).1 = true) →
    (∃ s ∈ S, s.path = d ++ rel) ∨ (∃ s ∈ S, s.path ≠ d ++ rel ∧ s.module = m) := by
  intro fuel
  induction fuel with
  | zero =>
    intro _ d rel S m b _ hw hl _ _
    have : rel = [] := List.eq_nil_of_length_eq_zero (by omega)
    exact absurd this (walkable_ne_nil fs hw)
  | succ k ih =>
    intro hF d rel S m b hS hw hl hcr hcell
    have hk : k ≤ F := by omega
    have hScrawled := findSourcesInDir_crawled fs o _ _ _ hS
    simp only [findSourcesInDir] at hS
    cases rel with
    | nil => exact absurd rfl (walkable_ne_nil fs hw)
    | cons n rest =>
      cases rest with
      | cons m' rest' =>
        -- a directory on the way: it is always entered
        obtain ⟨hskip, hdir, hw'⟩ := hw
        have hmem : n ∈ sortNames (fs.listdir d) := mem_sortNames.mpr ((wf.listed d n).mpr (Or.inr hdir))
        obtain ⟨l, hl', hsub⟩ := loopDir_dir fs o _ _ _ hS n hmem hskip hdir
        have hpath : d ++ n :: m' :: rest' = (d ++ [n]) ++ (m' :: rest') := by simp
        rw [hpath] at hcr hcell ⊢
        rcases ih hk (d ++ [n]) (m' :: rest') l m b hl' hw' (by simp at hl ⊢; omega) hcr hcell with
          ⟨s, hs, hp⟩ | ⟨s, hs, hp, hm⟩
        · exact Or.inl ⟨s, hsub s hs, hp⟩
        · exact Or.inr ⟨s, hsub s hs, hp, hm⟩
      | nil =>
        obtain ⟨hskip, hfile, hpy⟩ := hw
        have hnd : fs.isDir (d ++ [n]) = false := wf.notBoth _ hfile
        have hmem : n ∈ sortNames (fs.listdir d) := mem_sortNames.mpr ((wf.listed d n).mpr (Or.inl hfile))
        have hmn : moduleName n = (splitext n).1 := moduleName_of_splitext hpy
        rcases loopDir_file fs o hskip hnd hpy _ _ _ hS hmem with
          ⟨s, hs, hp⟩ | hseen | ⟨s0, ss, hr, hsub⟩ | ⟨n', hne, hst, hpy', s, hs, hp⟩
        · exact Or.inl ⟨s, hs, hp⟩
        · cases hseen
        · -- shadowed by the directory `d/st`, which yields sources
          right
          generalize hst : (splitext n).1 = st at *
          obtain ⟨rel0, hp0, hw0, hlen0⟩ := findSourcesInDir_sound fs o wf k _ _ hr s0 (by simp)
          have hyield : hasSourceBelow fs F (d ++ [st]) = true :=
            hasSourceBelow_of_walkable fs wf F _ _ hw0 (by omega)
          have hclean := hcell d n rfl (by rw [hst]; exact hyield)
          rw [hst] at hclean
          simp only [cleanShadow, Bool.and_eq_true, Bool.not_eq_true', bne_iff_ne, ne_eq] at hclean
          obtain ⟨⟨⟨⟨hinit, hnb⟩, hid⟩, hnini⟩, hnoinitdir⟩ := hclean
          -- the module name of `d/n` is that of the package `d/st`
          have hcr' : (crawlUpDir fs o d).extend st = .some m b := by
            rw [crawlUp_snoc, hmn] at hcr
            simpa [joinFile, hnini] using hcr
          have hpkg : crawlUpDir fs o (d ++ [st]) = .some m b := by
            rw [crawlUpDir_pkg fs o hinit hnb (by rw [dropStubs_ident hid]; exact hid), dropStubs_ident hid]
            exact hcr'
          -- its `__init__` file
          have hini : ∃ ini, (ini = initPyi ∨ ini = initPy) ∧ fs.isFile (d ++ [st] ++ [ini]) = true := by
            simp only [hasInit, Bool.or_eq_true] at hinit
            rcases hinit with h | h
            · exact ⟨initPyi, Or.inl rfl, h⟩
            · exact ⟨initPy, Or.inr rfl, h⟩
          obtain ⟨ini, hini, hinifile⟩ := hini
          have hini_props : skipName ini = false ∧ isPyExt (splitext ini).2 = true ∧ moduleName ini = sInit ∧
              (splitext ini).1 = sInit := by
            rcases hini with rfl | rfl <;> decide
          have hwini : walkable fs (d ++ [st]) [ini] := ⟨hini_props.1, hinifile, hini_props.2.1⟩
          have hcrini : crawlUp fs o (d ++ [st] ++ [ini]) = .some m b := by
            rw [crawlUp_snoc, hini_props.2.2.1]
            simpa [joinFile] using hpkg
          have hk1 : 1 ≤ k := by
            cases k with
            | zero => simp [findSourcesInDir] at hr
            | succ k' => omega
          have hcellini : ∀ D n', d ++ [st] ++ [ini] = D ++ [n'] →
              hasSourceBelow fs F (D ++ [(splitext n').1]) = true → cleanShadow fs o D (splitext n').1 = true := by
            intro D n' he hy
            have := List.append_inj' he (by simp)
            obtain ⟨hD, hn'⟩ := this
            simp only [List.cons.injEq, and_true] at hn'
            subst hD; subst hn'
            rw [hini_props.2.2.2] at hy
            have : d ++ [st] ++ [sInit] = d ++ [st, sInit] := by simp
            rw [this, hasSourceBelow_not_dir fs wf hnoinitdir] at hy
            cases hy
          have hshape : ∀ s ∈ s0 :: ss, s.path ≠ d ++ [n] := by
            intro s hs he
            obtain ⟨rel1, hp1, hw1, _⟩ := findSourcesInDir_sound fs o wf k _ _ hr s hs
            have hne1 := walkable_ne_nil fs hw1
            have := congrArg List.length (hp1.symm.trans he)
            simp at this
            cases rel1 with
            | nil => exact hne1 rfl
            | cons _ _ => simp at this
          rcases ih hk (d ++ [st]) [ini] (s0 :: ss) m b hr hwini (by simpa using hk1) hcrini hcellini with
            ⟨s, hs, hp⟩ | ⟨s, hs, _, hm⟩
          · have hcs : Crawled fs o s := findSourcesInDir_crawled fs o _ _ _ hr s hs
            exact ⟨s, hsub s hs, hshape s hs, module_of_crawled fs o hcs (by rw [hp]; exact hcrini)⟩
          · exact ⟨s, hsub s hs, hshape s hs, hm⟩
        · -- shadowed by an emitted file with the same stem
          right
          refine ⟨s, hs, ?_, ?_⟩
          · rw [hp]; intro he
            have := List.append_cancel_left he
            simp only [List.cons.injEq, and_true] at this
            exact hne this
          · apply module_of_crawled fs o (hScrawled s hs)
            rw [hp, crawlUp_snoc, moduleName_of_splitext hpy', hst, ← hmn, ← crawlUp_snoc]
            exact hcr

end Layout
