import MypyVerif.Model.Mro
/-! Helper lemmas for the MRO models (property theorems are in Props/C12Mro.lean). -/
namespace Mro

/-! ### `total`, `dropHead`, `nonEmpty` -/

theorem total_nil : total [] = 0 := rfl
theorem total_cons (s : List Cls) (seqs : List (List Cls)) : total (s :: seqs) = s.length + total seqs := by
  simp [total]

theorem dropHead_len_le (h : Cls) (s : List Cls) : (dropHead h s).length ≤ s.length := by
  cases s with
  | nil => simp [dropHead]
  | cons x xs => simp only [dropHead]; split <;> simp

theorem total_dropHead_le (h : Cls) (seqs : List (List Cls)) :
    total (seqs.map (dropHead h)) ≤ total seqs := by
  induction seqs with
  | nil => simp [total]
  | cons s rest ih =>
    simp only [List.map_cons, total_cons]
    have := dropHead_len_le h s
    omega

theorem total_dropHead_lt (h : Cls) (seqs : List (List Cls)) (hex : ∃ s ∈ seqs, s.head? = some h) :
    total (seqs.map (dropHead h)) < total seqs := by
  induction seqs with
  | nil => obtain ⟨s, hs, _⟩ := hex; simp at hs
  | cons s rest ih =>
    obtain ⟨s', hs', hh⟩ := hex
    simp only [List.map_cons, total_cons]
    have hle := total_dropHead_le h rest
    rcases List.mem_cons.mp hs' with heq | hmem
    · subst heq
      cases s' with
      | nil => simp at hh
      | cons x xs =>
        simp at hh; subst hh
        simp [dropHead]; omega
    · have := ih ⟨s', hmem, hh⟩
      have := dropHead_len_le h s
      omega

theorem total_nonEmpty (seqs : List (List Cls)) : total (nonEmpty seqs) = total seqs := by
  induction seqs with
  | nil => rfl
  | cons s rest ih =>
    unfold nonEmpty at *
    cases s with
    | nil => simpa [total_cons] using ih
    | cons x xs => simp [total_cons, ih]

theorem nonEmpty_idem (seqs : List (List Cls)) : nonEmpty (nonEmpty seqs) = nonEmpty seqs := by
  simp [nonEmpty]

theorem nonEmpty_map_dropHead (h : Cls) (seqs : List (List Cls)) :
    nonEmpty ((nonEmpty seqs).map (dropHead h)) = nonEmpty (seqs.map (dropHead h)) := by
  induction seqs with
  | nil => rfl
  | cons s rest ih =>
    unfold nonEmpty at *
    cases s with
    | nil => simpa [dropHead] using ih
    | cons x xs => simp only [List.filter_cons, List.isEmpty_cons, Bool.not_false, ite_true, List.map_cons, ih]

/-! ### `findHead` -/

theorem findHead_some (all : List (List Cls)) (seqs : List (List Cls)) (h : Cls)
    (hf : findHead all seqs = some h) : (∃ s ∈ seqs, s.head? = some h) ∧ goodHead all h = true := by
  induction seqs with
  | nil => simp [findHead] at hf
  | cons s rest ih =>
    cases s with
    | nil =>
      simp only [findHead] at hf
      obtain ⟨⟨s, hs, hh⟩, hg⟩ := ih hf
      exact ⟨⟨s, List.mem_cons_of_mem _ hs, hh⟩, hg⟩
    | cons x xs =>
      simp only [findHead] at hf
      split at hf
      · injection hf with hf; subst hf; exact ⟨⟨x :: xs, List.mem_cons_self, rfl⟩, by assumption⟩
      · obtain ⟨⟨s, hs, hh⟩, hg⟩ := ih hf
        exact ⟨⟨s, List.mem_cons_of_mem _ hs, hh⟩, hg⟩

/-! ### the fuel of `mergeFuel` is irrelevant once it exceeds `total` -/

theorem mergeFuel_fuel (f1 : Nat) : ∀ (f2 : Nat) (seqs : List (List Cls)),
    total seqs < f1 → total seqs < f2 → mergeFuel f1 seqs = mergeFuel f2 seqs := by
  induction f1 with
  | zero => intro f2 seqs h; omega
  | succ a ih =>
    intro f2 seqs h1 h2
    cases f2 with
    | zero => omega
    | succ b =>
      simp only [mergeFuel]
      split
      · rfl
      · cases hf : findHead (nonEmpty seqs) (nonEmpty seqs) with
        | none => rfl
        | some h =>
          simp only
          have hlt := total_dropHead_lt h _ (findHead_some _ _ _ hf).1
          rw [total_nonEmpty] at hlt
          rw [ih b _ (by omega) (by omega)]

theorem mergeFuel_eq_merge (fuel : Nat) (seqs : List (List Cls)) (h : total seqs < fuel) :
    mergeFuel fuel seqs = merge seqs :=
  mergeFuel_fuel fuel _ seqs h (by omega)

/-- **Termination as a theorem**: `merge` satisfies the equation of the `while True` loop of
    mypy/mro.py — the fuel in its definition never runs out. -/
theorem merge_unfold (seqs : List (List Cls)) : merge seqs =
    (if (nonEmpty seqs).isEmpty then some []
     else match findHead (nonEmpty seqs) (nonEmpty seqs) with
       | none => none
       | some h => (merge ((nonEmpty seqs).map (dropHead h))).map (h :: ·)) := by
  have hm : merge seqs = mergeFuel (total seqs + 1) seqs := rfl
  rw [hm]
  simp only [mergeFuel]
  split
  · rfl
  · cases hf : findHead (nonEmpty seqs) (nonEmpty seqs) with
    | none => rfl
    | some h =>
      simp only
      have hlt := total_dropHead_lt h _ (findHead_some _ _ _ hf).1
      rw [total_nonEmpty] at hlt
      rw [mergeFuel_eq_merge _ _ hlt]

/-- The same loop defined by well-founded recursion: Lean accepts the definition only with the proof
    that every round strictly decreases the total length (a head is removed). -/
def mergeWF (seqs : List (List Cls)) : Option (List Cls) :=
  if (nonEmpty seqs).isEmpty then some []
  else
    match _hf : findHead (nonEmpty seqs) (nonEmpty seqs) with
    | none => none
    | some h => (mergeWF ((nonEmpty seqs).map (dropHead h))).map (h :: ·)
termination_by total seqs
decreasing_by
  have h1 := total_dropHead_lt h _ (findHead_some _ _ _ _hf).1
  rw [total_nonEmpty] at h1
  exact h1

theorem mergeWF_eq_merge (seqs : List (List Cls)) : mergeWF seqs = merge seqs := by
  generalize hn : total seqs = n
  induction n using Nat.strongRecOn generalizing seqs with
  | _ n ih =>
    rw [mergeWF, merge_unfold]
    split
    · rfl
    · split
      · next hf => simp [hf]
      · next h hf =>
        simp only [hf]
        have hlt := total_dropHead_lt h _ (findHead_some _ _ _ hf).1
        rw [total_nonEmpty] at hlt
        rw [ih _ (by omega) _ rfl]

/-! ### CPython's `pmerge` computes the same function -/

/-- what is left of each tuple: `to_merge[i][remain[i]:]` -/
def view (st : List (List Cls × Nat)) : List (List Cls) := st.map (fun p => p.1.drop p.2)

theorem inTail_nil (h : Cls) : inTail h [] = false := rfl

theorem goodHead_nonEmpty (seqs : List (List Cls)) (h : Cls) :
    goodHead (nonEmpty seqs) h = goodHead seqs h := by
  induction seqs with
  | nil => rfl
  | cons s rest ih =>
    unfold goodHead nonEmpty at *
    cases s with
    | nil => simpa [inTail] using ih
    | cons x xs => simp [ih]

theorem findHead_nonEmpty_aux (a1 a2 : List (List Cls)) (hg : ∀ h, goodHead a1 h = goodHead a2 h)
    (rest : List (List Cls)) : findHead a1 (nonEmpty rest) = findHead a2 rest := by
  induction rest with
  | nil => rfl
  | cons s rest ih =>
    unfold nonEmpty at *
    cases s with
    | nil => simpa [findHead] using ih
    | cons x xs => simp [findHead, hg, ih]

theorem findHead_nonEmpty (seqs : List (List Cls)) :
    findHead (nonEmpty seqs) (nonEmpty seqs) = findHead seqs seqs :=
  findHead_nonEmpty_aux _ _ (goodHead_nonEmpty seqs) seqs

theorem mergeFuel_nonEmpty (fuel : Nat) (seqs : List (List Cls)) :
    mergeFuel fuel (nonEmpty seqs) = mergeFuel fuel seqs := by
  cases fuel with
  | zero => rfl
  | succ f => simp only [mergeFuel, nonEmpty_idem]

theorem drop_eq_getD_cons (t : List Cls) (r : Nat) (h : r < t.length) :
    t.drop r = t.getD r 0 :: t.drop (r + 1) := by
  rw [List.drop_eq_getElem_cons h]
  simp [List.getD_eq_getElem?_getD, List.getElem?_eq_getElem h]

theorem candOk_eq_goodHead (st : List (List Cls × Nat)) (c : Cls) :
    candOk st c = goodHead (view st) c := by
  unfold candOk goodHead view
  induction st with
  | nil => rfl
  | cons p rest ih =>
    simp only [List.all_cons, List.map_cons, ih]
    congr 1
    simp [tailContains, inTail, List.tail_drop]

theorem pmScan_eq_findHead (all : List (List Cls × Nat)) (rest : List (List Cls × Nat)) :
    pmScan all rest = findHead (view all) (view rest) := by
  induction rest with
  | nil => rfl
  | cons p rest ih =>
    obtain ⟨t, r⟩ := p
    simp only [pmScan]
    split
    · next hle =>
      have : t.drop r = [] := List.drop_eq_nil_of_le hle
      simp only [view, List.map_cons, this, findHead]
      exact ih
    · next hlt =>
      have hlt' : r < t.length := by omega
      simp only [view, List.map_cons, drop_eq_getD_cons t r hlt', findHead]
      rw [candOk_eq_goodHead]
      simp only [view] at ih ⊢
      rw [ih]
      rfl

theorem advance_view (h : Cls) (t : List Cls) (r : Nat) :
    (advance h (t, r)).1.drop (advance h (t, r)).2 = dropHead h (t.drop r) := by
  simp only [advance]
  split
  · next hc => rw [drop_eq_getD_cons t r hc.1, dropHead, if_pos hc.2]
  · next hc =>
    by_cases hlt : r < t.length
    · have he : ¬ t.getD r 0 = h := fun e => hc ⟨hlt, e⟩
      rw [drop_eq_getD_cons t r hlt, dropHead, if_neg he]
    · have : t.drop r = [] := List.drop_eq_nil_of_le (by omega)
      rw [this]; rfl

theorem view_advance (h : Cls) (st : List (List Cls × Nat)) :
    view (st.map (advance h)) = (view st).map (dropHead h) := by
  unfold view
  induction st with
  | nil => rfl
  | cons p rest ih =>
    obtain ⟨t, r⟩ := p
    simp only [List.map_cons, ih, advance_view]

theorem allExhausted_iff (st : List (List Cls × Nat)) :
    allExhausted st = (nonEmpty (view st)).isEmpty := by
  unfold allExhausted view nonEmpty
  induction st with
  | nil => rfl
  | cons p rest ih =>
    obtain ⟨t, r⟩ := p
    simp only [List.all_cons, List.map_cons, List.filter_cons]
    by_cases hle : t.length ≤ r
    · have : t.drop r = [] := List.drop_eq_nil_of_le hle
      simp [hle, this, ih]
    · have hlt : r < t.length := by omega
      simp [hle, drop_eq_getD_cons t r hlt]

theorem findHead_of_all_empty (all : List (List Cls)) (seqs : List (List Cls))
    (h : (nonEmpty seqs).isEmpty = true) : findHead all seqs = none := by
  induction seqs with
  | nil => rfl
  | cons s rest ih =>
    unfold nonEmpty at *
    cases s with
    | nil => simp only [findHead]; exact ih (by simpa using h)
    | cons x xs => simp at h

theorem pmergeFuel_eq (fuel : Nat) : ∀ st : List (List Cls × Nat),
    pmergeFuel fuel st = mergeFuel fuel (view st) := by
  induction fuel with
  | zero => intro st; rfl
  | succ f ih =>
    intro st
    simp only [pmergeFuel, mergeFuel]
    rw [pmScan_eq_findHead, findHead_nonEmpty]
    cases hf : findHead (view st) (view st) with
    | none =>
      simp only [allExhausted_iff]
    | some h =>
      have hne : (nonEmpty (view st)).isEmpty = false := by
        cases hb : (nonEmpty (view st)).isEmpty with
        | false => rfl
        | true => rw [findHead_of_all_empty _ _ hb] at hf; cases hf
      simp only [hne, Bool.false_eq_true, if_false]
      rw [ih, view_advance, ← mergeFuel_nonEmpty f ((nonEmpty (view st)).map (dropHead h)),
        nonEmpty_map_dropHead, mergeFuel_nonEmpty]

theorem view_init (seqs : List (List Cls)) : view (seqs.map (fun t => (t, 0))) = seqs := by
  unfold view
  induction seqs with
  | nil => rfl
  | cons s rest ih => simp_all

theorem pmerge_eq_merge (seqs : List (List Cls)) : pmerge seqs = merge seqs := by
  unfold pmerge merge
  rw [pmergeFuel_eq, view_init]

/-! ### what a successful merge looks like -/

theorem merge_nonEmpty (seqs : List (List Cls)) : merge (nonEmpty seqs) = merge seqs := by
  unfold merge
  rw [total_nonEmpty, mergeFuel_nonEmpty]

/-- Induction along the rounds of the loop. -/
theorem merge_induction (P : List (List Cls) → List Cls → Prop)
    (base : ∀ seqs, (nonEmpty seqs).isEmpty = true → P seqs [])
    (step : ∀ seqs h r, (nonEmpty seqs).isEmpty = false →
      findHead (nonEmpty seqs) (nonEmpty seqs) = some h →
      merge ((nonEmpty seqs).map (dropHead h)) = some r →
      P ((nonEmpty seqs).map (dropHead h)) r → P seqs (h :: r)) :
    ∀ seqs r, merge seqs = some r → P seqs r := by
  intro seqs
  generalize hn : total seqs = n
  induction n using Nat.strongRecOn generalizing seqs with
  | _ n ih =>
    intro r hm
    rw [merge_unfold] at hm
    split at hm
    · next he => injection hm with hm; subst hm; exact base seqs he
    · next he =>
      split at hm
      · cases hm
      · next h hf =>
        cases hr : merge ((nonEmpty seqs).map (dropHead h)) with
        | none => rw [hr] at hm; cases hm
        | some r' =>
          rw [hr] at hm
          injection hm with hm; subst hm
          have hlt := total_dropHead_lt h _ (findHead_some _ _ _ hf).1
          rw [total_nonEmpty] at hlt
          exact step seqs h r' (by simpa using he) hf hr (ih _ (by omega) _ rfl r' hr)

theorem mem_nonEmpty {s : List Cls} {seqs : List (List Cls)} :
    s ∈ nonEmpty seqs ↔ s ∈ seqs ∧ s ≠ [] := by
  unfold nonEmpty
  cases s <;> simp

theorem nonEmpty_isEmpty_mem {seqs : List (List Cls)} (h : (nonEmpty seqs).isEmpty = true)
    {s : List Cls} (hs : s ∈ seqs) : s = [] := by
  cases s with
  | nil => rfl
  | cons x xs =>
    have : (x :: xs) ∈ nonEmpty seqs := mem_nonEmpty.mpr ⟨hs, by simp⟩
    rw [List.isEmpty_iff.mp h] at this
    cases this

theorem mem_of_mem_dropHead {h x : Cls} {s : List Cls} (hx : x ∈ dropHead h s) : x ∈ s := by
  cases s with
  | nil => exact hx
  | cons y ys =>
    simp only [dropHead] at hx
    split at hx
    · exact List.mem_cons_of_mem _ hx
    · exact hx

/-- Every input sequence is a subsequence of the result (monotonicity and local precedence of C3). -/
theorem merge_sublist : ∀ seqs r, merge seqs = some r → ∀ s ∈ seqs, s.Sublist r := by
  apply merge_induction
  · intro seqs he s hs
    rw [nonEmpty_isEmpty_mem he hs]; exact List.Sublist.slnil
  · intro seqs h r _ _ _ ih s hs
    cases s with
    | nil => exact List.nil_sublist _
    | cons x xs =>
      have hmem : (x :: xs) ∈ nonEmpty seqs := mem_nonEmpty.mpr ⟨hs, by simp⟩
      have := ih (dropHead h (x :: xs)) (List.mem_map_of_mem hmem)
      simp only [dropHead] at this
      split at this
      · next hx => subst hx; exact List.Sublist.cons_cons _ this
      · exact List.Sublist.cons _ this

/-- The result contains nothing but members of the inputs. -/
theorem merge_mem : ∀ seqs r, merge seqs = some r → ∀ x ∈ r, ∃ s ∈ seqs, x ∈ s := by
  apply merge_induction
  · intro seqs _ x hx; cases hx
  · intro seqs h r _ hf _ ih x hx
    rcases List.mem_cons.mp hx with rfl | hx
    · obtain ⟨⟨s, hs, hh⟩, _⟩ := findHead_some _ _ _ hf
      refine ⟨s, (mem_nonEmpty.mp hs).1, ?_⟩
      cases s with
      | nil => cases hh
      | cons y ys => simp at hh; subst hh; exact List.mem_cons_self
    · obtain ⟨s', hs', hxs'⟩ := ih x hx
      obtain ⟨s, hs, rfl⟩ := List.mem_map.mp hs'
      exact ⟨s, (mem_nonEmpty.mp hs).1, mem_of_mem_dropHead hxs'⟩

theorem not_mem_dropHead_of_goodHead {seqs : List (List Cls)} {h : Cls} (hg : goodHead seqs h = true)
    {s : List Cls} (hs : s ∈ seqs) : h ∉ dropHead h s := by
  have ht : inTail h s = false := by
    have := List.all_eq_true.mp hg s hs
    simpa using this
  cases s with
  | nil => simp [dropHead]
  | cons y ys =>
    simp only [inTail, List.tail_cons] at ht
    have hn : h ∉ ys := by simpa using ht
    simp only [dropHead]
    split
    · exact hn
    · next hne =>
      intro hmem
      rcases List.mem_cons.mp hmem with rfl | hm
      · exact hne rfl
      · exact hn hm

/-- The result never repeats a class. -/
theorem merge_nodup : ∀ seqs r, merge seqs = some r → r.Nodup := by
  apply merge_induction (P := fun _ r => r.Nodup)
  · intro _ _; exact List.nodup_nil
  · intro seqs h r _ hf hm ih
    refine List.nodup_cons.mpr ⟨?_, ih⟩
    intro hmem
    obtain ⟨s', hs', hxs'⟩ := merge_mem _ _ hm h hmem
    obtain ⟨s, hs, rfl⟩ := List.mem_map.mp hs'
    exact not_mem_dropHead_of_goodHead (findHead_some _ _ _ hf).2 hs hxs'

/-- A duplicate-free list merges to itself. -/
theorem merge_single (l : List Cls) (hn : l.Nodup) : merge [l] = some l := by
  induction l with
  | nil => rfl
  | cons x xs ih =>
    have hx : x ∉ xs := (List.nodup_cons.mp hn).1
    rw [merge_unfold]
    have hg : goodHead [x :: xs] x = true := by simp [goodHead, inTail, hx]
    simp [nonEmpty, findHead, hg, dropHead, ih (List.nodup_cons.mp hn).2]

/-- The single-base case: `merge([mro(b), [b]]) = mro(b)` when `mro(b)` starts with `b` and is
    duplicate-free — what CPython's `n == 1` fast path relies on. -/
theorem merge_fast_path (b : Cls) (t : List Cls) (hn : (b :: t).Nodup) :
    merge [b :: t, [b]] = some (b :: t) := by
  have hb : b ∉ t := (List.nodup_cons.mp hn).1
  rw [merge_unfold]
  have hg : goodHead [b :: t, [b]] b = true := by simp [goodHead, inTail, hb]
  have h2 : merge [t, []] = some t := by
    rw [← merge_nonEmpty]
    cases t with
    | nil => rfl
    | cons y ys =>
      have : nonEmpty [y :: ys, []] = [y :: ys] := by simp [nonEmpty]
      rw [this]; exact merge_single _ (List.nodup_cons.mp hn).2
  simp [nonEmpty, findHead, hg, dropHead, h2]

/-! ### class statements and tables -/

/-- an MRO stored for class `j`: starts with `j`, no repetition, only classes defined no later than `j` -/
def WfMro (j : Cls) (l : List Cls) : Prop := l.head? = some j ∧ l.Nodup ∧ ∀ x ∈ l, x ≤ j

def agrees : PyRes → Info → Prop
  | .ok l, inf => inf = { mro := l, badMro := false, err := none }
  | .typeErrorDup, inf => inf.err = some .duplicateBase
  | .typeErrorMro, inf => inf.err = some .inconsistentMro ∧ inf.badMro = true
  | .nameError, _ => True

/-- relation between the two tables after the same class statements -/
def Inv (py : List PyRes) (my : List Info) : Prop :=
  py.length = my.length ∧
  ∀ j, j < py.length → agrees (py.getD j .nameError) (my.getD j objectInfo) ∧
    ∀ l, py.getD j .nameError = .ok l → WfMro j l

def PyWf (py : List PyRes) : Prop := ∀ j l, py.getD j .nameError = .ok l → j < py.length ∧ WfMro j l

theorem getD_ge {α : Type} (l : List α) (d : α) {j : Nat} (h : l.length ≤ j) : l.getD j d = d := by
  simp [List.getD_eq_getElem?_getD, List.getElem?_eq_none h]

/-- `mros` are the stored MROs of `bases`, position by position -/
inductive Looked (tbl : List PyRes) : List Cls → List (List Cls) → Prop
  | nil : Looked tbl [] []
  | cons {b m bs ms} : tbl.getD b .nameError = .ok m → Looked tbl bs ms → Looked tbl (b :: bs) (m :: ms)

theorem getD_ok_lt {py : List PyRes} {j : Nat} {l : List Cls} (h : py.getD j .nameError = .ok l) :
    j < py.length := by
  by_cases hj : j < py.length
  · exact hj
  · rw [getD_ge _ _ (by omega)] at h; cases h

theorem Inv.pyWf {py : List PyRes} {my : List Info} (h : Inv py my) : PyWf py :=
  fun j _ hl => ⟨getD_ok_lt hl, (h.2 j (getD_ok_lt hl)).2 _ hl⟩

theorem lookupAll_spec (tbl : List PyRes) : ∀ (bases : List Cls) (mros : List (List Cls)),
    lookupAll tbl bases = some mros →
    Looked tbl bases mros := by
  intro bases
  induction bases with
  | nil => intro mros h; simp [lookupAll] at h; subst h; exact Looked.nil
  | cons b bs ih =>
    intro mros h
    simp only [lookupAll] at h
    cases hb : tbl.getD b .nameError with
    | ok m =>
      cases hr : lookupAll tbl bs with
      | none => rw [hb, hr] at h; simp [PyRes.mro?] at h
      | some ms =>
        rw [hb, hr] at h
        simp [PyRes.mro?] at h
        subst h
        exact Looked.cons hb (ih ms hr)
    | typeErrorDup => rw [hb] at h; simp [PyRes.mro?] at h
    | typeErrorMro => rw [hb] at h; simp [PyRes.mro?] at h
    | nameError => rw [hb] at h; simp [PyRes.mro?] at h

theorem lin_eq_mros {py : List PyRes} {my : List Info} (hinv : Inv py my) :
    ∀ (bases : List Cls) (mros : List (List Cls)),
    Looked py bases mros →
    bases.map (fun b => (my.getD b objectInfo).mro) = mros := by
  intro bases mros h
  induction h with
  | nil => rfl
  | cons hb _ ih =>
    simp only [List.map_cons, ih, List.cons.injEq, and_true]
    have := (hinv.2 _ (getD_ok_lt hb)).1
    rw [hb] at this
    simp only [agrees] at this
    rw [this]

theorem basesOrObject_ne_nil (w : List Cls) : basesOrObject w ≠ [] := by
  unfold basesOrObject; cases w <;> simp

/-- `mro_implementation` without the single-base fast path and with mypy's `merge` in place of `pmerge` -/
def pySpec (py : List PyRes) (c : Cls) (w : List Cls) : PyRes :=
  match lookupAll py (basesOrObject w) with
  | none => .nameError
  | some mros =>
    if hasDup (basesOrObject w) then .typeErrorDup
    else match merge (mros ++ [basesOrObject w]) with
      | some r => .ok (c :: r)
      | none => .typeErrorMro

theorem pyClass_eq_spec {py : List PyRes} (hwf : PyWf py) (c : Cls) (w : List Cls) :
    pyClass py c w = pySpec py c w := by
  unfold pyClass pySpec
  simp only
  generalize basesOrObject w = bases
  cases hl : lookupAll py bases with
  | none => rfl
  | some mros =>
    simp only
    have hspec := lookupAll_spec _ _ _ hl
    split
    · next m =>
      cases hspec with
      | cons hb hrest =>
        cases hrest
        obtain ⟨_, hh, hn, _⟩ := hwf _ _ hb
        cases m with
        | nil => cases hh
        | cons x t =>
          simp at hh; subst hh
          have := merge_fast_path x t hn
          simp only [List.cons_append, List.nil_append] at this ⊢
          simp [hasDup, this]
    · rw [pmerge_eq_merge]
      rfl

theorem Looked.bases_lt {py : List PyRes} {bases : List Cls} {mros : List (List Cls)}
    (h : Looked py bases mros) : ∀ b ∈ bases, b < py.length := by
  induction h with
  | nil => intro b hb; cases hb
  | cons hb _ ih =>
    intro b' hb'
    rcases List.mem_cons.mp hb' with rfl | hm
    · exact getD_ok_lt hb
    · exact ih _ hm

theorem Looked.mros_of {py : List PyRes} {bases : List Cls} {mros : List (List Cls)}
    (h : Looked py bases mros) : ∀ m ∈ mros, ∃ b ∈ bases, py.getD b .nameError = .ok m := by
  induction h with
  | nil => intro m hm; cases hm
  | cons hb _ ih =>
    intro m' hm'
    rcases List.mem_cons.mp hm' with rfl | hm
    · exact ⟨_, List.mem_cons_self, hb⟩
    · obtain ⟨b, hb', hl⟩ := ih _ hm
      exact ⟨b, List.mem_cons_of_mem _ hb', hl⟩

theorem Looked.of_base {py : List PyRes} {bases : List Cls} {mros : List (List Cls)}
    (h : Looked py bases mros) : ∀ b ∈ bases, ∃ m ∈ mros, py.getD b .nameError = .ok m := by
  induction h with
  | nil => intro b hb; cases hb
  | cons hb _ ih =>
    intro b' hb'
    rcases List.mem_cons.mp hb' with rfl | hm
    · exact ⟨_, List.mem_cons_self, hb⟩
    · obtain ⟨m, hm', hl⟩ := ih _ hm
      exact ⟨m, List.mem_cons_of_mem _ hm', hl⟩

/-- members of a merged MRO were all defined before the class being created -/
theorem merged_lt {py : List PyRes} (hwf : PyWf py) {bases : List Cls} {mros : List (List Cls)}
    (hl : Looked py bases mros) {r : List Cls} (hm : merge (mros ++ [bases]) = some r) :
    ∀ x ∈ r, x < py.length := by
  intro x hx
  obtain ⟨s, hs, hxs⟩ := merge_mem _ _ hm x hx
  rcases List.mem_append.mp hs with hs | hs
  · obtain ⟨b, hb, hlb⟩ := hl.mros_of s hs
    have h1 : x ≤ b := (hwf _ _ hlb).2.2.2 x hxs
    have h2 : b < py.length := hl.bases_lt b hb
    exact Nat.lt_of_le_of_lt h1 h2
  · simp at hs; subst hs; exact hl.bases_lt x hxs

/-- One more class statement: the two outcomes agree, and a created class has a well-formed MRO. -/
theorem step_agrees {py : List PyRes} {my : List Info} (hinv : Inv py my) (w : List Cls) :
    agrees (pyClass py py.length w) (myClass my my.length w) ∧
    ∀ l, pyClass py py.length w = .ok l → WfMro py.length l := by
  have hwf := hinv.pyWf
  rw [pyClass_eq_spec hwf, ← hinv.1]
  unfold pySpec myClass
  simp only
  cases hl : lookupAll py (basesOrObject w) with
  | none => exact ⟨trivial, fun l h => by cases h⟩
  | some mros =>
    have hlk := lookupAll_spec _ _ _ hl
    simp only
    cases hd : hasDup (basesOrObject w) with
    | true => exact ⟨rfl, fun l h => by cases h⟩
    | false =>
      simp only [Bool.false_eq_true, if_false]
      rw [lin_eq_mros hinv _ _ hlk]
      cases hm : merge (mros ++ [basesOrObject w]) with
      | none => exact ⟨⟨rfl, rfl⟩, fun l h => by cases h⟩
      | some r =>
        refine ⟨rfl, ?_⟩
        intro l h
        injection h with h; subst h
        have hlt := merged_lt hwf hlk hm
        refine ⟨rfl, List.nodup_cons.mpr ⟨fun hc => ?_, merge_nodup _ _ hm⟩, ?_⟩
        · exact absurd (hlt _ hc) (Nat.lt_irrefl _)
        · intro x hx
          rcases List.mem_cons.mp hx with rfl | hx
          · exact Nat.le_refl _
          · exact Nat.le_of_lt (hlt x hx)

theorem getD_append_one {α : Type} (l : List α) (x d : α) (j : Nat) :
    (l ++ [x]).getD j d = if j < l.length then l.getD j d else if j = l.length then x else d := by
  simp only [List.getD_eq_getElem?_getD]
  by_cases h1 : j < l.length
  · simp [h1, List.getElem?_append_left h1]
  · by_cases h2 : j = l.length
    · subst h2; simp
    · have : (l ++ [x]).length ≤ j := by simp; omega
      simp [h1, h2, List.getElem?_eq_none this]

theorem Inv.step {py : List PyRes} {my : List Info} (hinv : Inv py my) (w : List Cls) :
    Inv (pyStep py w) (myStep my w) := by
  obtain ⟨ha, hw⟩ := step_agrees hinv w
  refine ⟨by simp [pyStep, myStep, hinv.1], ?_⟩
  intro j hj
  simp only [pyStep, myStep, getD_append_one]
  simp only [pyStep, List.length_append, List.length_cons, List.length_nil] at hj
  by_cases h1 : j < py.length
  · have h1' : j < my.length := hinv.1 ▸ h1
    simp only [h1, h1', if_true]
    exact hinv.2 j h1
  · have h2 : j = py.length := by omega
    subst h2
    have hm : my.length = py.length := hinv.1.symm
    rw [hm] at ha
    simp only [hm, Nat.lt_irrefl, if_false, if_true]
    exact ⟨ha, hw⟩

theorem Inv.init : Inv [.ok [0]] [objectInfo] := by
  refine ⟨rfl, ?_⟩
  intro j hj
  have : j = 0 := by simp at hj; omega
  subst this
  refine ⟨rfl, ?_⟩
  intro l h
  simp at h; subst h
  exact ⟨rfl, by simp, by simp⟩

theorem Inv.foldl (H : List (List Cls)) : ∀ {py : List PyRes} {my : List Info}, Inv py my →
    Inv (H.foldl pyStep py) (H.foldl myStep my) := by
  induction H with
  | nil => intro py my h; exact h
  | cons w rest ih => intro py my h; exact ih (h.step w)

theorem inv_tables (H : List (List Cls)) : Inv (pyTable H) (myTable H) := Inv.foldl H Inv.init

end Mro
