import MypyVerif.Model.LangSem
/-
Basic lemmas for the C01 development: association lists, the class table under `WF`, membership of values in
types, soundness of `subTy` and of simplified unions, heap extension.
-/
namespace Lang

/-! ## Except / req -/

theorem bind_ok {ε α β : Type} {x : Except ε α} {f : α → Except ε β} {b : β} :
    (x >>= f) = .ok b ↔ ∃ a, x = .ok a ∧ f a = .ok b := by
  cases x with
  | error e =>
    constructor
    · intro h; cases h
    · rintro ⟨a, h, _⟩; cases h
  | ok a =>
    constructor
    · intro h; exact ⟨a, rfl, h⟩
    · rintro ⟨a', h, h2⟩; cases h; exact h2

theorem req_ok {b : Bool} {e : TcErr} {u : Unit} : req b e = .ok u ↔ b = true := by
  unfold req; cases b <;> simp

theorem pure_ok {ε α : Type} {a b : α} : (pure a : Except ε α) = .ok b ↔ a = b := by
  simp [pure, Except.pure]

/-! ## Association lists -/

theorem lookup_append {α : Type} (k : Nat) (a b : List (Nat × α)) :
    lookup k (a ++ b) = match lookup k a with | some v => some v | none => lookup k b := by
  induction a with
  | nil => simp [lookup]
  | cons p r ih =>
    obtain ⟨k', v⟩ := p
    simp only [List.cons_append, lookup]
    split <;> simp_all

theorem lookup_mem {α : Type} {k : Nat} {l : List (Nat × α)} {v : α} (h : lookup k l = some v) : (k, v) ∈ l := by
  induction l with
  | nil => simp [lookup] at h
  | cons p r ih =>
    obtain ⟨k', w⟩ := p
    simp only [lookup] at h
    split at h
    · simp_all
    · exact List.mem_cons_of_mem _ (ih h)

theorem lookup_none_of_not_key {α : Type} {k : Nat} {l : List (Nat × α)} (h : ∀ p ∈ l, p.1 ≠ k) : lookup k l = none := by
  induction l with
  | nil => rfl
  | cons p r ih =>
    obtain ⟨k', w⟩ := p
    simp only [lookup]
    have := h (k', w) (List.mem_cons_self)
    simp at this
    simp [this]
    exact ih (fun p hp => h p (List.mem_cons_of_mem _ hp))

theorem lookup_setField (f g : Nat) (v : Val) (l : List (Nat × Val)) :
    lookup g (setField f v l) = if g = f then some v else lookup g l := by
  induction l with
  | nil =>
    simp only [setField, lookup]
    by_cases hg : g = f
    · subst hg; simp
    · have : ¬ f = g := fun h => hg h.symm
      simp [hg, this]
  | cons p r ih =>
    obtain ⟨f', w⟩ := p
    simp only [setField]
    by_cases hf : f' = f
    · subst hf
      simp only [if_true, lookup]
      by_cases hg : f' = g
      · subst hg; simp
      · have : ¬ g = f' := fun h => hg h.symm
        simp [hg, this]
    · simp only [hf, if_false, lookup]
      by_cases hg : f' = g
      · subst hg; simp [hf]
      · simp [hg, ih]

/-! ## The class table -/

/-- what `wfClasses` gives for every class -/
structure ClassWF (P : Prog) (c : Nat) (cd : ClassDef) : Prop where
  mro : mroCoherent P c cd = true
  attrs : attrsInvariant P c cd = true
  init : initComplete P cd = true

theorem wfClasses_get (P : Prog) : ∀ (l : List ClassDef) (c0 : Nat), wfClasses P c0 l = true →
    ∀ (i : Nat) (cd : ClassDef), l[i]? = some cd → ClassWF P (c0 + i) cd := by
  intro l
  induction l with
  | nil => intro c0 _ i cd h; simp at h
  | cons d r ih =>
    intro c0 h i cd hi
    simp only [wfClasses, Bool.and_eq_true] at h
    cases i with
    | zero => simp at hi; subst hi; exact ⟨h.1.1.1, h.1.1.2, h.1.2⟩
    | succ j =>
      simp at hi
      have := ih (c0 + 1) h.2 j cd hi
      have e : c0 + 1 + j = c0 + (j + 1) := by omega
      rw [e] at this; exact this

theorem WF.cls {P : Prog} (h : WF P) {c : Nat} {cd : ClassDef} (hc : P.classes[c]? = some cd) : ClassWF P c cd := by
  have := wfClasses_get P P.classes 0 h c cd hc
  simpa using this

theorem mroOf_eq {P : Prog} {c : Nat} {cd : ClassDef} (hc : P.classes[c]? = some cd) : mroOf P c = cd.mro := by
  simp [mroOf, hc]

theorem mroOf_none {P : Prog} {c : Nat} (hc : P.classes[c]? = none) : mroOf P c = [] := by
  simp [mroOf, hc]

theorem isSub_iff {P : Prog} {c d : Nat} : isSub P c d = true ↔ d ∈ mroOf P c := by
  simp [isSub]

/-- under `WF` the MRO of a class starts with the class -/
theorem mro_head {P : Prog} (h : WF P) {c : Nat} {cd : ClassDef} (hc : P.classes[c]? = some cd) :
    ∃ t, mroOf P c = c :: t := by
  have w := (h.cls hc).mro
  simp only [mroCoherent, Bool.and_eq_true] at w
  rw [mroOf_eq hc]
  cases hm : cd.mro with
  | nil => rw [hm] at w; simp at w
  | cons a t =>
    rw [hm] at w
    simp at w
    exact ⟨t, by rw [w.1]⟩

theorem isSub_refl {P : Prog} (h : WF P) {c : Nat} {cd : ClassDef} (hc : P.classes[c]? = some cd) : isSub P c c = true := by
  rw [isSub_iff]
  obtain ⟨t, e⟩ := mro_head h hc
  simp [e]

/-- every member of an MRO is a class of the table, and its own MRO is contained in it -/
theorem mro_closed {P : Prog} (h : WF P) {c d : Nat} (hd : d ∈ mroOf P c) :
    (∃ cd, P.classes[d]? = some cd) ∧ ∀ e, e ∈ mroOf P d → e ∈ mroOf P c := by
  cases hc : P.classes[c]? with
  | none => simp [mroOf_none hc] at hd
  | some cd =>
    have w := (h.cls hc).mro
    simp only [mroCoherent, Bool.and_eq_true, List.all_eq_true] at w
    rw [mroOf_eq hc] at hd ⊢
    have := w.2 d hd
    constructor
    · cases hdc : P.classes[d]? with
      | none => rw [hdc] at this; simp at this
      | some dd => exact ⟨dd, rfl⟩
    · intro e he
      have := this.2 e he
      simpa using this

theorem mro_mem_cls {P : Prog} (h : WF P) (c d : Nat) (hd : d ∈ mroOf P c) : ∃ cd, P.classes[d]? = some cd :=
  (mro_closed h hd).1

theorem isSub_trans {P : Prog} (h : WF P) {a b c : Nat} (h1 : isSub P a b = true) (h2 : isSub P b c = true) :
    isSub P a c = true := by
  rw [isSub_iff] at *
  exact (mro_closed h h1).2 c h2

/-! ### attribute and method lookup along the MRO -/

theorem findAttr_some_mem {P : Prog} {f : Nat} : ∀ (l : List Nat) (T : Ty), findAttr P f l = some T →
    ∃ k, k ∈ l ∧ ownAttr P k f = some T := by
  intro l
  induction l with
  | nil => intro T h; simp [findAttr] at h
  | cons k r ih =>
    intro T h
    simp only [findAttr] at h
    cases ho : ownAttr P k f with
    | some T1 => rw [ho] at h; simp at h; subst h; exact ⟨k, by simp, ho⟩
    | none =>
      rw [ho] at h
      obtain ⟨k', hk, hk'⟩ := ih T h
      exact ⟨k', List.mem_cons_of_mem _ hk, hk'⟩

theorem findMeth_some_mem {P : Prog} {m : Nat} : ∀ (l : List Nat) (k : Nat) (fd : FuncDef), findMeth P m l = some (k, fd) →
    k ∈ l ∧ ownMeth P k m = some fd := by
  intro l
  induction l with
  | nil => intro k fd h; simp [findMeth] at h
  | cons k0 r ih =>
    intro k fd h
    simp only [findMeth] at h
    cases ho : ownMeth P k0 m with
    | some fd1 => rw [ho] at h; simp at h; obtain ⟨rfl, rfl⟩ := h; exact ⟨by simp, ho⟩
    | none =>
      rw [ho] at h
      obtain ⟨hk, hk'⟩ := ih k fd h
      exact ⟨List.mem_cons_of_mem _ hk, hk'⟩

theorem findAttr_of_mem {P : Prog} {f : Nat} : ∀ (l : List Nat) (k : Nat) (T : Ty), k ∈ l → ownAttr P k f = some T →
    ∃ T', findAttr P f l = some T' := by
  intro l
  induction l with
  | nil => intro k T h; simp at h
  | cons k0 r ih =>
    intro k T hk ho
    simp only [findAttr]
    cases h0 : ownAttr P k0 f with
    | some T0 => exact ⟨T0, rfl⟩
    | none =>
      simp at hk
      rcases hk with rfl | hk
      · rw [ho] at h0; cases h0
      · exact ih k T hk ho

/-- F18 excluded: an attribute has the same declared type seen from a subclass -/
theorem lookupAttr_sub {P : Prog} (h : WF P) (c d f : Nat) (T : Ty) (hs : isSub P c d = true)
    (hl : lookupAttr P d f = some T) : lookupAttr P c f = some T := by
  rw [isSub_iff] at hs
  obtain ⟨k, hk, hown⟩ := findAttr_some_mem _ _ hl
  have hkc : k ∈ mroOf P c := (mro_closed h hs).2 k hk
  cases hc : P.classes[c]? with
  | none => simp [mroOf_none hc] at hs
  | some cd =>
    have w := (h.cls hc).attrs
    simp only [attrsInvariant, List.all_eq_true] at w
    rw [mroOf_eq hc] at hkc
    have := w k hkc
    unfold ownAttr at hown
    cases hkd : P.classes[k]? with
    | none => rw [hkd] at hown; cases hown
    | some kd =>
      rw [hkd] at hown this
      simp only [List.all_eq_true] at this
      have := this (f, T) (lookup_mem hown)
      simpa using this

/-! ## Values in types -/

/-- heap extension: objects keep their class -/
def Ext (h h' : Heap) : Prop := ∀ l c, classOf h l = some c → classOf h' l = some c

theorem Ext.refl (h : Heap) : Ext h h := fun _ _ x => x
theorem Ext.trans {a b c : Heap} (h1 : Ext a b) (h2 : Ext b c) : Ext a c := fun l k x => h2 l k (h1 l k x)

theorem hasAtom_ext {P : Prog} {h h' : Heap} (e : Ext h h') {v : Val} {a : Atom} (ha : hasAtom P h v a) : hasAtom P h' v a := by
  cases a <;> cases v <;> simp_all [hasAtom]
  · obtain ⟨c, hc⟩ := ha; exact ⟨c, e _ _ hc⟩
  · obtain ⟨c, hc, hs⟩ := ha; exact ⟨c, e _ _ hc, hs⟩

theorem hasTy_ext {P : Prog} {h h' : Heap} (e : Ext h h') {v : Val} {T : Ty} (ht : hasTy P h v T) : hasTy P h' v T := by
  obtain ⟨a, ha, hv⟩ := ht
  exact ⟨a, ha, hasAtom_ext e hv⟩

theorem ArgsOK_ext {P : Prog} {h h' : Heap} (e : Ext h h') : ∀ {vs : List Val} {Ts : List Ty}, ArgsOK P h vs Ts → ArgsOK P h' vs Ts := by
  intro vs
  induction vs with
  | nil => intro Ts h; cases Ts <;> simp_all [ArgsOK]
  | cons v r ih =>
    intro Ts h; cases Ts with
    | nil => simp [ArgsOK] at h
    | cons T Ts => simp only [ArgsOK] at *; exact ⟨hasTy_ext e h.1, ih h.2⟩

theorem ArgsOK_length {P : Prog} {h : Heap} : ∀ {vs : List Val} {Ts : List Ty}, ArgsOK P h vs Ts → vs.length = Ts.length := by
  intro vs
  induction vs with
  | nil => intro Ts h; cases Ts <;> simp_all [ArgsOK]
  | cons v r ih =>
    intro Ts h; cases Ts with
    | nil => simp [ArgsOK] at h
    | cons T Ts => simp only [ArgsOK] at h; simp [ih h.2]

theorem subAtom_sound {P : Prog} (w : WF P) {h : Heap} {v : Val} {a b : Atom} (hs : subAtom P a b = true)
    (ha : hasAtom P h v a) : hasAtom P h v b := by
  cases a <;> cases b <;> cases v <;> simp_all [subAtom, hasAtom]
  · obtain ⟨c, hc, _⟩ := ha; exact ⟨c, hc⟩
  · obtain ⟨c, hc, hsub⟩ := ha; exact ⟨c, hc, isSub_trans w hsub hs⟩

theorem subTy_sound {P : Prog} (w : WF P) {h : Heap} {v : Val} {T U : Ty} (hs : subTy P T U = true)
    (ht : hasTy P h v T) : hasTy P h v U := by
  obtain ⟨a, ha, hv⟩ := ht
  simp only [subTy, List.all_eq_true, List.any_eq_true] at hs
  obtain ⟨b, hb, hab⟩ := hs a ha
  exact ⟨b, hb, subAtom_sound w hab hv⟩

theorem hasTy_mono {P : Prog} {h : Heap} {v : Val} {T U : Ty} (hs : ∀ a ∈ T, a ∈ U) (ht : hasTy P h v T) : hasTy P h v U := by
  obtain ⟨a, ha, hv⟩ := ht
  exact ⟨a, hs a ha, hv⟩

/-! ### simplified unions -/

theorem insAtom_sound {P : Prog} (w : WF P) {h : Heap} {v : Val} (a : Atom) (acc : Ty) :
    (hasAtom P h v a ∨ hasTy P h v acc) → hasTy P h v (insAtom P a acc) := by
  intro hv
  unfold insAtom
  split
  next hany =>
    rcases hv with hv | hv
    · simp only [List.any_eq_true] at hany
      obtain ⟨b, hb, hab⟩ := hany
      exact ⟨b, hb, subAtom_sound w hab hv⟩
    · exact hv
  next hany =>
    rcases hv with hv | hv
    · exact ⟨a, by simp, hv⟩
    · obtain ⟨b, hb, hvb⟩ := hv
      by_cases hba : subAtom P b a = true
      · exact ⟨a, by simp, subAtom_sound w hba hvb⟩
      · exact ⟨b, by simp [hb, hba], hvb⟩

theorem foldl_insAtom_sound {P : Prog} (w : WF P) {h : Heap} {v : Val} : ∀ (T acc : Ty),
    (hasTy P h v T ∨ hasTy P h v acc) → hasTy P h v (T.foldl (fun acc a => insAtom P a acc) acc) := by
  intro T
  induction T with
  | nil =>
    intro acc hv
    rcases hv with ⟨a, ha, _⟩ | hv
    · simp at ha
    · exact hv
  | cons a r ih =>
    intro acc hv
    simp only [List.foldl_cons]
    apply ih
    rcases hv with ⟨b, hb, hvb⟩ | hv
    · simp at hb
      rcases hb with rfl | hb
      · right; exact insAtom_sound w _ _ (Or.inl hvb)
      · left; exact ⟨b, hb, hvb⟩
    · right; exact insAtom_sound w _ _ (Or.inr hv)

theorem simpUnion_sound {P : Prog} (w : WF P) {h : Heap} {v : Val} {T : Ty} (ht : hasTy P h v T) :
    hasTy P h v (simpUnion P T) :=
  foldl_insAtom_sound w T [] (Or.inl ht)

theorem unionTys_sound {P : Prog} (w : WF P) {h : Heap} {v : Val} {Ts : List Ty} {T : Ty} (hT : T ∈ Ts)
    (ht : hasTy P h v T) : hasTy P h v (unionTys P Ts) := by
  apply simpUnion_sound w
  obtain ⟨a, ha, hv⟩ := ht
  exact ⟨a, List.mem_flatten.mpr ⟨T, hT, ha⟩, hv⟩

theorem joinResults_sound {P : Prog} (w : WF P) {h : Heap} {v : Val} {Ts : List Ty} {T : Ty} (hT : T ∈ Ts)
    (ht : hasTy P h v T) : hasTy P h v (joinResults P Ts) := by
  unfold joinResults
  split
  · simp at hT; subst hT; exact ht
  · exact unionTys_sound w hT ht

/-- members of a simplified union come from the operands (used for the *subset* direction of narrowing) -/
theorem insAtom_mem {P : Prog} {a b : Atom} {acc : Ty} (hb : b ∈ insAtom P a acc) : b = a ∨ b ∈ acc := by
  unfold insAtom at hb
  split at hb
  · exact Or.inr hb
  · simp at hb; rcases hb with hb | hb
    · exact Or.inr hb.1
    · exact Or.inl hb

theorem foldl_insAtom_mem {P : Prog} {b : Atom} : ∀ (T acc : Ty),
    b ∈ T.foldl (fun acc a => insAtom P a acc) acc → b ∈ T ∨ b ∈ acc := by
  intro T
  induction T with
  | nil => intro acc h; exact Or.inr h
  | cons a r ih =>
    intro acc h
    simp only [List.foldl_cons] at h
    rcases ih _ h with h | h
    · exact Or.inl (List.mem_cons_of_mem _ h)
    · rcases insAtom_mem h with rfl | h
      · exact Or.inl (by simp)
      · exact Or.inr h

end Lang
