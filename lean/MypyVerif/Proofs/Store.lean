import MypyVerif.Model.Store
/-! Step lemmas for the store-update protocol. -/
namespace Store

/-- every tag occurring in the entry is older than `t` (analyses / data stamps of later runs are new) -/
def Below (p : Phys) (t : Nat) : Prop :=
  (∀ d, p.data = some d → d < t) ∧ (∀ a b, p.metaR = some (a, b) → a < t ∧ b < t) ∧
  (∀ e, p.metaEx = some e → e < t)

theorem below_mono (p : Phys) (t u : Nat) (h : t ≤ u) (hb : Below p t) : Below p u := by
  obtain ⟨h1, h2, h3⟩ := hb
  refine ⟨fun x hx => ?_, fun a b hab => ?_, fun x hx => ?_⟩
  · have := h1 x hx; omega
  · have := h2 a b hab; omega
  · have := h3 x hx; omega

theorem safe_wData (p : Phys) (t : Nat) (hb : Below p t) : Safe (apply p (.wData t)) := by
  intro a b c h1 h2 _
  simp [apply] at h1 h2
  have := (hb.2.1 a b h1).2
  omega

theorem safe_rm (p : Phys) : Safe (apply p .rmMetaEx) := by
  intro a b c _ _ h3
  simp [apply] at h3

theorem safe_wMeta_noEx (p : Phys) (t dt : Nat) (h : p.metaEx = none) : Safe (apply p (.wMeta t dt)) := by
  intro a b c _ _ h3
  simp [apply, h] at h3

theorem safe_wMetaEx (p : Phys) (t dt : Nat) (h : p.metaR = some (t, dt)) : Safe (apply p (.wMetaEx t)) := by
  intro a b c h1 _ h3
  simp [apply, h] at h1 h3
  omega

theorem below_wData (p : Phys) (t : Nat) (hb : Below p (t + 1)) : Below (apply p (.wData t)) (t + 1) := by
  obtain ⟨h1, h2, h3⟩ := hb
  refine ⟨fun x hx => ?_, h2, h3⟩
  simp [apply] at hx; omega

theorem below_rm (p : Phys) (t : Nat) (hb : Below p t) : Below (apply p .rmMetaEx) t := by
  obtain ⟨h1, h2, h3⟩ := hb
  exact ⟨h1, h2, fun x hx => by simp [apply] at hx⟩

theorem below_wMeta (p : Phys) (t dt : Nat) (hdt : dt ≤ t) (hb : Below p (t + 1)) :
    Below (apply p (.wMeta t dt)) (t + 1) := by
  obtain ⟨h1, h2, h3⟩ := hb
  refine ⟨h1, fun a b hab => ?_, h3⟩
  simp [apply] at hab; omega

theorem below_wMetaEx (p : Phys) (t : Nat) (hb : Below p (t + 1)) : Below (apply p (.wMetaEx t)) (t + 1) := by
  obtain ⟨h1, h2, h3⟩ := hb
  refine ⟨h1, h2, fun x hx => ?_⟩
  simp [apply] at hx; omega

/-- the tail `remove meta_ex; write meta; write meta_ex` (any subset failing) from a Safe state -/
theorem tail_safe (p : Phys) (t dt : Nat) (f : Fails) (hdt : dt ≤ t) (hs : Safe p) (hb : Below p (t + 1)) :
    ∀ q ∈ crashStates p (tailOps true t dt f), Safe q ∧ Below q (t + 1) := by
  intro q hq
  unfold tailOps at hq
  simp only [if_true] at hq
  have b1 := below_rm p (t + 1) hb
  have b2 := below_wMeta _ t dt hdt b1
  have b3 := below_wMetaEx _ t b2
  have s1 := safe_rm p
  have s2 : Safe (apply (apply p .rmMetaEx) (.wMeta t dt)) := safe_wMeta_noEx _ t dt (by simp [apply])
  have s3 : Safe (apply (apply (apply p .rmMetaEx) (.wMeta t dt)) (.wMetaEx t)) :=
    safe_wMetaEx _ t dt (by simp [apply])
  cases hr : f.rm <;> cases hm : f.metaR <;> cases he : f.metaEx <;>
    simp [hr, hm, he, crashStates] at hq <;>
    (rcases hq with rfl | rfl | rfl | rfl) <;>
    first
    | exact ⟨hs, hb⟩
    | exact ⟨s1, b1⟩
    | exact ⟨s2, b2⟩
    | exact ⟨s3, b3⟩

theorem crashStates_cons (p : Phys) (o : Op) (os : List Op) (q : Phys) :
    q ∈ crashStates p (o :: os) ↔ q = p ∨ q ∈ crashStates (apply p o) os := by
  simp [crashStates]

end Store

namespace Store
/-! ### The data tie: a trusted meta refers to a data record holding the interface it describes -/

/-- `iface t` = the interface (bytes) computed by analysis `t` -/
def DataOk (iface : Nat → Nat) (p : Phys) : Prop :=
  ∀ t dt, p.metaR = some (t, dt) → p.data = some dt → iface dt = iface t

theorem dataOk_wData (iface : Nat → Nat) (p : Phys) (t : Nat) (hb : Below p t) : DataOk iface (apply p (.wData t)) := by
  intro a b h1 h2
  simp [apply] at h1 h2
  have := (hb.2.1 a b h1).2
  omega

theorem dataOk_rm (iface : Nat → Nat) (p : Phys) (h : DataOk iface p) : DataOk iface (apply p .rmMetaEx) := by
  intro a b h1 h2; exact h a b (by simpa [apply] using h1) (by simpa [apply] using h2)

theorem dataOk_wMetaEx (iface : Nat → Nat) (p : Phys) (t : Nat) (h : DataOk iface p) : DataOk iface (apply p (.wMetaEx t)) := by
  intro a b h1 h2; exact h a b (by simpa [apply] using h1) (by simpa [apply] using h2)

theorem dataOk_wMeta (iface : Nat → Nat) (p : Phys) (t dt : Nat)
    (h : p.data = some dt → iface dt = iface t) : DataOk iface (apply p (.wMeta t dt)) := by
  intro a b h1 h2
  simp [apply] at h1 h2
  obtain ⟨rfl, rfl⟩ := h1
  exact h h2

theorem tail_dataOk (iface : Nat → Nat) (p : Phys) (t dt : Nat) (f : Fails) (hd : DataOk iface p)
    (h : p.data = some dt → iface dt = iface t) :
    ∀ q ∈ crashStates p (tailOps true t dt f), DataOk iface q ∧ q.data = p.data := by
  intro q hq
  unfold tailOps at hq
  simp only [if_true] at hq
  have d1 := dataOk_rm iface p hd
  have d2 : DataOk iface (apply (apply p .rmMetaEx) (.wMeta t dt)) := dataOk_wMeta iface _ t dt (by simpa [apply] using h)
  have d3 := dataOk_wMetaEx iface _ t d2
  cases hr : f.rm <;> cases hm : f.metaR <;> cases he : f.metaEx <;>
    simp [hr, hm, he, crashStates] at hq <;>
    (rcases hq with rfl | rfl | rfl | rfl) <;>
    first
    | exact ⟨hd, rfl⟩
    | exact ⟨d1, rfl⟩
    | exact ⟨d2, rfl⟩
    | exact ⟨d3, rfl⟩

end Store
