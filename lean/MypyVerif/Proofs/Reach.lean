import MypyVerif.Model.Reach
namespace Reach
end Reach
