import MypyVerif.Model.Reach
/-! Helper lemmas for the reachability model (property theorems are in Props/C12Reach.lean). -/
namespace Reach

/-! ### orderings and operators -/

theorem opHolds_reverse (op : Op) (o : Ordering) : opHolds (reverseOp op) o.swap = opHolds op o := by
  cases op <;> cases o <;> rfl

theorem reverseOp_reverseOp (op : Op) : reverseOp (reverseOp op) = op := by cases op <;> rfl

theorem cmpInt_swap (a b : Int) : cmpInt b a = (cmpInt a b).swap := by
  unfold cmpInt
  by_cases h1 : a < b
  · have : ¬ b < a := by omega
    have : ¬ b = a := by omega
    simp [*]
  · by_cases h2 : a = b
    · subst h2; simp
    · have : b < a := by omega
      simp [*]

theorem cmpInt_eq_iff (a b : Int) : cmpInt a b = .eq ↔ a = b := by
  unfold cmpInt
  by_cases h1 : a < b
  · simp [h1]; omega
  · by_cases h2 : a = b <;> simp [h1, h2]

/-- `o`, unless it is `eq`: then `t` -/
def ordThen (o t : Ordering) : Ordering := if o = .eq then t else o

theorem lexOrd_eq_iff : ∀ (xs ys : List Int), lexOrd xs ys = .eq ↔ xs = ys
  | [], [] => by simp [lexOrd]
  | [], _ :: _ => by simp [lexOrd]
  | _ :: _, [] => by simp [lexOrd]
  | x :: xs, y :: ys => by
    simp only [lexOrd]
    by_cases h : x = y
    · simp [h, lexOrd_eq_iff xs ys]
    · simp [h, cmpInt_eq_iff]

/-! ### run-time comparison of a tuple that starts with ints against a tuple of ints -/

def ints (l : List Int) : List Elem := l.map .int

theorem cmpElems_prefix (op : Op) (extra : List Elem) : ∀ (xs ys : List Int), ys.length ≤ xs.length →
    cmpElems op (ints xs ++ extra) (ints ys) =
      some (opHolds op (ordThen (lexOrd xs ys) (if extra = [] then .eq else .gt))) := by
  intro xs
  induction xs with
  | nil =>
    intro ys hl
    cases ys with
    | nil =>
      cases extra with
      | nil => simp [ints, cmpElems, lexOrd, ordThen]
      | cons e es => simp [ints, cmpElems, lexOrd, ordThen]
    | cons y ys => simp at hl
  | cons x xs ih =>
    intro ys hl
    cases ys with
    | nil => simp [ints, cmpElems, lexOrd, ordThen]
    | cons y ys =>
      have hl' : ys.length ≤ xs.length := by simpa using hl
      simp only [ints, List.map_cons, List.cons_append, cmpElems, lexOrd]
      by_cases h : x = y
      · subst h
        simp only [if_true]
        exact ih ys hl'
      · have hne : ¬ (Elem.int x = Elem.int y) := by intro he; injection he; contradiction
        have hc : cmpInt x y ≠ .eq := fun hc => h ((cmpInt_eq_iff x y).mp hc)
        simp [h, hne, elemCmp, ordThen, hc]

theorem cmpElems_prefix_swapped (op : Op) (extra : List Elem) : ∀ (xs ys : List Int), ys.length ≤ xs.length →
    cmpElems op (ints ys) (ints xs ++ extra) =
      some (opHolds (reverseOp op) (ordThen (lexOrd xs ys) (if extra = [] then .eq else .gt))) := by
  intro xs
  induction xs with
  | nil =>
    intro ys hl
    cases ys with
    | nil =>
      cases extra with
      | nil => cases op <;> simp [ints, cmpElems, lexOrd, ordThen, opHolds, reverseOp] <;> decide
      | cons e es => cases op <;> simp [ints, cmpElems, lexOrd, ordThen, opHolds, reverseOp] <;> decide
    | cons y ys => simp at hl
  | cons x xs ih =>
    intro ys hl
    cases ys with
    | nil => cases op <;> simp [ints, cmpElems, lexOrd, ordThen, opHolds, reverseOp] <;> decide
    | cons y ys =>
      have hl' : ys.length ≤ xs.length := by simpa using hl
      simp only [ints, List.map_cons, List.cons_append, cmpElems, lexOrd]
      by_cases h : x = y
      · subst h
        simp only [if_true]
        exact ih ys hl'
      · have hne : ¬ (Elem.int y = Elem.int x) := by intro he; injection he with he; exact h he.symm
        have hc : cmpInt x y ≠ .eq := fun hc => h ((cmpInt_eq_iff x y).mp hc)
        simp only [h, hne, if_false, elemCmp, ordThen, hc]
        rw [cmpInt_swap x y, ← opHolds_reverse op, Ordering.swap_swap]

theorem ordThen_eq (o : Ordering) : ordThen o .eq = o := by cases o <;> rfl

theorem ofBool_beq (b : Bool) : (ofBool b == TV.alwaysTrue) = b := by cases b <;> rfl

theorem ofBool_ne_unknown (b : Bool) : ofBool b ≠ TV.unknown := by cases b <;> simp [ofBool]

/-! ### what the operands picked by consider_sys_version_info are at run time -/

/-- the 5-tuple `sys.version_info` of a run on the target version -/
def versionTuple (major minor micro : Nat) (level : String) (serial : Nat) : List Elem :=
  [.int major, .int minor, .int micro, .str level, .int serial]

theorem cvi_index {v : Operand} {i : Nat} (h : containsSysVersionInfo v = some (.index i)) :
    v = .index (.int i) := by
  cases v with
  | index l => cases l <;> simp [containsSysVersionInfo, litNat?] at h; subst h; rfl
  | slice lo hi st =>
    simp only [containsSysVersionInfo] at h
    split at h
    · cases h
    · cases lo <;> cases hi <;> simp at h
      all_goals (try (rename_i a b; cases hla : litNat? a <;> cases hlb : litNat? b <;> simp [hla, hlb] at h))
  | _ => simp [containsSysVersionInfo] at h

theorem take_length' {α : Type} (l : List α) : (l.drop 0).take (l.length - 0) = l := by simp

theorem cvi_slice {v : Operand} {lo hi : Option Nat} (h : containsSysVersionInfo v = some (.slice lo hi))
    (env : Env) :
    evalOperand env v = (pySlice env.versionInfo (lo.map Int.ofNat) (hi.map Int.ofNat) none).map .tup := by
  cases v with
  | versionInfo =>
    simp [containsSysVersionInfo] at h
    obtain ⟨rfl, rfl⟩ := h
    simp [evalOperand, pySlice]
  | index l => cases l <;> simp [containsSysVersionInfo, litNat?] at h
  | slice lo' hi' st =>
    simp only [containsSysVersionInfo] at h
    split at h
    · cases h
    · next hst =>
      have hst' : st = none ∨ st = some 1 := by
        cases st with
        | none => exact Or.inl rfl
        | some k => by_cases hk : k = 1
                    · exact Or.inr (by rw [hk])
                    · exact absurd ⟨by simp, by simp [hk]⟩ hst
      have hstride : ∀ l h', pySlice env.versionInfo l h' st = pySlice env.versionInfo l h' none := by
        intro l h'; rcases hst' with rfl | rfl <;> rfl
      simp only [evalOperand, hstride]
      cases lo' with
      | none =>
        cases hi' with
        | none => simp at h; obtain ⟨rfl, rfl⟩ := h; rfl
        | some b =>
          cases b with
          | int n => simp [litNat?] at h; obtain ⟨rfl, rfl⟩ := h; rfl
          | neg n => simp [litNat?] at h
      | some a =>
        cases a with
        | neg n => cases hi' <;> simp [litNat?] at h
        | int n =>
          cases hi' with
          | none => simp [litNat?] at h; obtain ⟨rfl, rfl⟩ := h; rfl
          | some b =>
            cases b with
            | int k => simp [litNat?] at h; obtain ⟨rfl, rfl⟩ := h; rfl
            | neg k => simp [litNat?] at h
  | _ => simp [containsSysVersionInfo] at h

theorem ciot_int {t : Operand} {k : Nat} (h : containsIntOrTupleOfInts t = some (.int k)) :
    t = .lit (.int k) := by
  cases t with
  | lit l => cases l <;> simp [containsIntOrTupleOfInts, litNat?] at h; subst h; rfl
  | tuple items => simp [containsIntOrTupleOfInts] at h
  | _ => simp [containsIntOrTupleOfInts] at h

theorem allNat_spec : ∀ (items : List Lit) (xs : List Nat), allNat? items = some xs →
    items.map (fun l => Elem.int l.val) = ints (natsToInts xs) := by
  intro items
  induction items with
  | nil => intro xs h; simp [allNat?] at h; subst h; rfl
  | cons l ls ih =>
    intro xs h
    simp only [allNat?] at h
    cases l with
    | neg n => simp [litNat?] at h
    | int n =>
      cases hr : allNat? ls with
      | none => simp [litNat?, hr] at h
      | some ns =>
        simp [litNat?, hr] at h
        subst h
        simp [ints, natsToInts, Lit.val] at ih ⊢
        exact ih ns hr

theorem ciot_tuple {t : Operand} {xs : List Nat} (h : containsIntOrTupleOfInts t = some (.tuple xs))
    (env : Env) : evalOperand env t = some (.tup (ints (natsToInts xs))) := by
  cases t with
  | lit l => cases l <;> simp [containsIntOrTupleOfInts, litNat?] at h
  | tuple items =>
    simp [containsIntOrTupleOfInts] at h
    simp [evalOperand, allNat_spec items xs h]
  | _ => simp [containsIntOrTupleOfInts] at h

/-- `sys.version_info[lo:hi]` at run time, for the bounds mypy accepts: the slice of (major, minor) mypy
    uses, followed by `extra`; `extra` is empty exactly when the upper bound is written. -/
theorem slice_rt (M m mc se : Nat) (lv : String) (lo hi : Option Nat)
    (h : lo.getD 0 < hi.getD 2 ∧ hi.getD 2 ≤ 2) :
    ∃ extra, pySlice (versionTuple M m mc lv se) (lo.map Int.ofNat) (hi.map Int.ofNat) none =
        some (ints (((natsToInts [M, m]).drop (lo.getD 0)).take (hi.getD 2 - lo.getD 0)) ++ extra) ∧
      (extra = [] ↔ hi ≠ none) := by
  cases lo with
  | none =>
    cases hi with
    | none => exact ⟨[.int mc, .str lv, .int se], by simp [pySlice, versionTuple, ints, natsToInts], by simp⟩
    | some b =>
      simp at h
      have hb : b = 1 ∨ b = 2 := by omega
      rcases hb with rfl | rfl
      · exact ⟨[], by simp [pySlice, versionTuple, ints, natsToInts, adjust], by simp⟩
      · exact ⟨[], by simp [pySlice, versionTuple, ints, natsToInts, adjust], by simp⟩
  | some a =>
    cases hi with
    | none =>
      simp at h
      have ha : a = 0 ∨ a = 1 := by omega
      rcases ha with rfl | rfl
      · exact ⟨[.int mc, .str lv, .int se], by simp [pySlice, versionTuple, ints, natsToInts, adjust], by simp⟩
      · exact ⟨[.int mc, .str lv, .int se], by simp [pySlice, versionTuple, ints, natsToInts, adjust], by simp⟩
    | some b =>
      simp at h
      have hab : (a = 0 ∧ b = 1) ∨ (a = 0 ∧ b = 2) ∨ (a = 1 ∧ b = 2) := by omega
      rcases hab with ⟨rfl, rfl⟩ | ⟨rfl, rfl⟩ | ⟨rfl, rfl⟩
      · exact ⟨[], by simp [pySlice, versionTuple, ints, natsToInts, adjust], by simp⟩
      · exact ⟨[], by simp [pySlice, versionTuple, ints, natsToInts, adjust], by simp⟩
      · exact ⟨[], by simp [pySlice, versionTuple, ints, natsToInts, adjust], by simp⟩

/-- the F4 shape, on the operands consider_sys_version_info settled on: an open-ended slice compared with
    exactly the tuple mypy cuts out of (major, minor), under an operator that tells "equal" from "longer" -/
def f4Core (i : VIdx) (th : Thing) (op : Op) (major minor : Nat) : Bool :=
  match i, th with
  | .slice lo none, .tuple t =>
    decide (natsToInts t = (natsToInts [major, minor]).drop (lo.getD 0)) &&
      (op == .eq || op == .ne || op == .le || op == .gt)
  | _, _ => false

theorem natsToInts_length (l : List Nat) : (natsToInts l).length = l.length := by simp [natsToInts]

/-- The heart of `version_test_exact_partial`: outside the F4 shape, whatever consider_sys_version_info
    decides for (version operand, literal operand, operator) is the value of the comparison at run time —
    written either way round. -/
theorem version_core (env : Env) (M m mc se : Nat) (lv : String)
    (henv : env.versionInfo = versionTuple M m mc lv se)
    (v t : Operand) (i : VIdx) (th : Thing) (op : Op)
    (hv : containsSysVersionInfo v = some i) (ht : containsIntOrTupleOfInts t = some th)
    (tv : TV) (hd : decideVersion (some i) (some th) op M m = tv) (hne : tv ≠ .unknown)
    (hf4 : f4Core i th op M m = false) :
    ∃ a b, evalOperand env v = some a ∧ evalOperand env t = some b ∧
      cmpVal op a b = some (tv == .alwaysTrue) ∧ cmpVal (reverseOp op) b a = some (tv == .alwaysTrue) := by
  cases i with
  | index k =>
    cases th with
    | tuple ts => simp [decideVersion] at hd; exact absurd hd.symm hne
    | int n =>
      have hv' := cvi_index hv
      have ht' := ciot_int ht
      subst hv' ht'
      simp only [decideVersion] at hd
      by_cases h0 : k = 0
      · subst h0
        simp only [if_true] at hd
        refine ⟨.int M, .int n, by simp [evalOperand, pyIndex, henv, versionTuple, Lit.val, Elem.toVal], by simp [evalOperand, Lit.val], ?_, ?_⟩
        · simp only [cmpVal, ← hd, fixedCmpInt, ofBool_beq]
        · simp only [cmpVal, ← hd, fixedCmpInt, ofBool_beq, cmpInt_swap (M : Int) (n : Int), opHolds_reverse]
      · by_cases h1 : k = 1
        · subst h1
          simp only [h0, if_false, if_true] at hd
          refine ⟨.int m, .int n, by simp [evalOperand, pyIndex, henv, versionTuple, Lit.val, Elem.toVal], by simp [evalOperand, Lit.val], ?_, ?_⟩
          · simp only [cmpVal, ← hd, fixedCmpInt, ofBool_beq]
          · simp only [cmpVal, ← hd, fixedCmpInt, ofBool_beq, cmpInt_swap (m : Int) (n : Int), opHolds_reverse]
        · simp [h0, h1] at hd; exact absurd hd.symm hne
  | slice lo hi =>
    cases th with
    | int n => simp [decideVersion] at hd; exact absurd hd.symm hne
    | tuple ts =>
      simp only [decideVersion] at hd
      split at hd
      · next hb =>
        split at hd
        · next hlen =>
          obtain ⟨extra, hsl, hex⟩ := slice_rt M m mc se lv lo hi hb
          have hvv := cvi_slice hv env
          rw [henv, hsl] at hvv
          have htt := ciot_tuple ht env
          generalize hval : ((natsToInts [M, m]).drop (lo.getD 0)).take (hi.getD 2 - lo.getD 0) = val at *
          have hle : (natsToInts ts).length ≤ val.length := by
            rw [natsToInts_length]; rcases hlen with h | h <;> omega
          refine ⟨_, _, hvv, htt, ?_, ?_⟩
          all_goals
            simp only [cmpVal]
            first
              | rw [cmpElems_prefix op extra val _ hle]
              | rw [cmpElems_prefix_swapped (reverseOp op) extra val _ hle, reverseOp_reverseOp]
            rw [← hd, fixedCmpTuple, ofBool_beq]
            congr 1
            by_cases hx : extra = []
            · simp [hx, ordThen_eq]
            · simp only [hx, if_false]
              by_cases ho : lexOrd val (natsToInts ts) = .eq
              · -- equal tuples and an open-ended slice: only `<` and `>=` survive, by `hf4`
                have hhi : hi = none := by
                  cases hi with
                  | none => rfl
                  | some b => exact absurd (hex.mpr (by simp)) hx
                subst hhi
                have heq := (lexOrd_eq_iff _ _).mp ho
                have hval' : (natsToInts [M, m]).drop (lo.getD 0) = val := by
                  rw [← hval]
                  apply (List.take_of_length_le _).symm
                  simp [natsToInts] <;> omega
                simp only [f4Core, hval', ← heq, decide_true, Bool.true_and] at hf4
                rw [ho]
                cases op <;> simp [ordThen, opHolds] at hf4 ⊢ <;> decide
              · simp [ordThen, ho]
        · exact absurd hd.symm hne
      · exact absurd hd.symm hne

theorem decideVersion_none_left (th : Option Thing) (op : Op) (M m : Nat) :
    decideVersion none th op M m = .unknown := by simp [decideVersion]

theorem decideVersion_none_right (i : Option VIdx) (op : Op) (M m : Nat) :
    decideVersion i none op M m = .unknown := by
  cases i with
  | none => simp [decideVersion]
  | some i => cases i <;> simp [decideVersion]

/-- the F4 shape of a comparison as written (`pickOperands` decides which side is the version) -/
def f4Shape (l : Operand) (op : Op) (r : Operand) (major minor : Nat) : Bool :=
  let p := pickOperands l op r
  match p.1, p.2.1 with
  | some i, some th => f4Core i th p.2.2 major minor
  | _, _ => false

theorem version_cmp_exact (env : Env) (M m mc se : Nat) (lv : String)
    (henv : env.versionInfo = versionTuple M m mc lv se) (l : Operand) (op : Op) (r : Operand) (tv : TV)
    (hd : considerSysVersionInfo l op r M m = tv) (hne : tv ≠ .unknown)
    (hf4 : f4Shape l op r M m = false) :
    eval env (.cmp l op r) = some (tv == .alwaysTrue) := by
  unfold considerSysVersionInfo at hd
  unfold f4Shape at hf4
  simp only at hd hf4
  unfold pickOperands at hd hf4
  cases hcl : containsSysVersionInfo l with
  | some i =>
    cases hcr : containsIntOrTupleOfInts r with
    | some th =>
      simp only [hcl, hcr] at hd hf4
      obtain ⟨a, b, ha, hb, hc, _⟩ := version_core env M m mc se lv henv l r i th op hcl hcr tv hd hne hf4
      simp [eval, ha, hb, hc]
    | none =>
      simp only [hcl, hcr] at hd hf4
      cases hi : containsSysVersionInfo r with
      | none => rw [hi, decideVersion_none_left] at hd; exact absurd hd.symm hne
      | some i' =>
        cases ht : containsIntOrTupleOfInts l with
        | none => rw [ht, decideVersion_none_right] at hd; exact absurd hd.symm hne
        | some th' =>
          simp only [hi, ht] at hd hf4
          obtain ⟨a, b, ha, hb, _, hc⟩ :=
            version_core env M m mc se lv henv r l i' th' (reverseOp op) hi ht tv hd hne hf4
          rw [reverseOp_reverseOp] at hc
          simp [eval, ha, hb, hc]
  | none =>
    simp only [hcl] at hd hf4
    cases hi : containsSysVersionInfo r with
    | none => rw [hi, decideVersion_none_left] at hd; exact absurd hd.symm hne
    | some i' =>
      cases ht : containsIntOrTupleOfInts l with
      | none => rw [ht, decideVersion_none_right] at hd; exact absurd hd.symm hne
      | some th' =>
        simp only [hi, ht] at hd hf4
        obtain ⟨a, b, ha, hb, _, hc⟩ :=
          version_core env M m mc se lv henv r l i' th' (reverseOp op) hi ht tv hd hne hf4
        rw [reverseOp_reverseOp] at hc
        simp [eval, ha, hb, hc]

/-! ### platform tests -/

def isCallKw : Cond → Bool
  | .callKw _ _ _ => true
  | _ => false

theorem platform_exact (env : Env) (plat : String) (hp : env.platform = plat) (c : Cond) (tv : TV)
    (hd : considerSysPlatform c plat = tv) (hne : tv ≠ .unknown) :
    (isCallKw c = false → eval env c = some (tv == .alwaysTrue)) ∧
    (∀ b, eval env c = some b → b = (tv == .alwaysTrue)) := by
  have key : isCallKw c = false → eval env c = some (tv == .alwaysTrue) := by
    intro hk
    unfold considerSysPlatform at hd
    split at hd
    · next op s =>
      split at hd
      · simp [eval, evalOperand, cmpVal, hp, ← hd, fixedCmpStr, ofBool_beq]
      · exact absurd hd.symm hne
    · next meth s =>
      split at hd
      · next hm => simp [eval, evalOperand, hp, hm, ← hd, ofBool_beq]
      · exact absurd hd.symm hne
    · simp [isCallKw] at hk
    · exact absurd hd.symm hne
  refine ⟨key, ?_⟩
  intro b hb
  cases hk : isCallKw c with
  | false => rw [key hk] at hb; injection hb with hb; exact hb.symm
  | true =>
    cases c <;> simp [isCallKw] at hk
    simp [eval] at hb

/-! ### the not / and / or tables -/

/-- what a (decided) truth value claims about mypy's own evaluation … -/
def TV.mt : TV → Bool
  | .alwaysTrue => true | .mypyTrue => true | _ => false
/-- … and about the run-time value -/
def TV.rt : TV → Bool
  | .alwaysTrue => true | .mypyFalse => true | _ => false

/-- entries of the `or` table whose run-time component is wrong -/
def badOr (l r : TV) : Bool :=
  (l == .unknown && r == .mypyTrue) || (l == .mypyTrue && r == .unknown) ||
  (l == .mypyFalse && r == .mypyTrue) || (l == .mypyTrue && r == .mypyFalse) ||
  (l == .mypyFalse && r == .alwaysFalse) || (l == .alwaysFalse && r == .mypyFalse)

/-- entries of the `and` table whose run-time component is wrong -/
def badAnd (l r : TV) : Bool :=
  (l == .unknown && r == .mypyFalse) || (l == .mypyFalse && r == .unknown) ||
  (l == .mypyTrue && r == .mypyFalse) || (l == .mypyFalse && r == .mypyTrue)

theorem invert_unknown {t : TV} (h : invert t ≠ .unknown) : t ≠ .unknown := by
  intro ht; subst ht; exact h rfl

theorem invert_mt (t : TV) (h : t ≠ .unknown) : (invert t).mt = !t.mt := by cases t <;> simp_all [invert, TV.mt]
theorem invert_rt (t : TV) (h : t ≠ .unknown) : (invert t).rt = !t.rt := by cases t <;> simp_all [invert, TV.rt]

/-- `a or b` with short circuit: `va` the value of `a`, `vb` the outcome of evaluating `b` -/
def orVal (va : Bool) (vb : Option Bool) : Option Bool := if va then some true else vb
def andVal (va : Bool) (vb : Option Bool) : Option Bool := if va then vb else some false

/-- what is known about the second operand: it may not have been evaluated, or may raise -/
def Claim (f : TV → Bool) (t : TV) (vb : Option Bool) : Prop :=
  match vb with
  | some x => t ≠ .unknown → x = f t
  | none => True

instance (f : TV → Bool) (t : TV) (vb : Option Bool) : Decidable (Claim f t vb) := by
  unfold Claim; cases vb <;> infer_instance

theorem orTable_mt (ta tb : TV) (va : Bool) (vb : Option Bool) (v : Bool)
    (ha : ta ≠ .unknown → va = ta.mt) (hb : Claim TV.mt tb vb)
    (hv : orVal va vb = some v) (hne : orTable ta tb ≠ .unknown) : v = (orTable ta tb).mt := by
  revert ha hb hv hne
  cases ta <;> cases tb <;> cases va <;> cases v <;> rcases vb with _ | _ | _ <;> decide

theorem andTable_mt (ta tb : TV) (va : Bool) (vb : Option Bool) (v : Bool)
    (ha : ta ≠ .unknown → va = ta.mt) (hb : Claim TV.mt tb vb)
    (hv : andVal va vb = some v) (hne : andTable ta tb ≠ .unknown) : v = (andTable ta tb).mt := by
  revert ha hb hv hne
  cases ta <;> cases tb <;> cases va <;> cases v <;> rcases vb with _ | _ | _ <;> decide

theorem orTable_rt (ta tb : TV) (va : Bool) (vb : Option Bool) (v : Bool)
    (ha : ta ≠ .unknown → va = ta.rt) (hb : Claim TV.rt tb vb)
    (hv : orVal va vb = some v) (hne : orTable ta tb ≠ .unknown) (hbad : badOr ta tb = false) :
    v = (orTable ta tb).rt := by
  revert ha hb hv hne hbad
  cases ta <;> cases tb <;> cases va <;> cases v <;> rcases vb with _ | _ | _ <;> decide

theorem andTable_rt (ta tb : TV) (va : Bool) (vb : Option Bool) (v : Bool)
    (ha : ta ≠ .unknown → va = ta.rt) (hb : Claim TV.rt tb vb)
    (hv : andVal va vb = some v) (hne : andTable ta tb ≠ .unknown) (hbad : badAnd ta tb = false) :
    v = (andTable ta tb).rt := by
  revert ha hb hv hne hbad
  cases ta <;> cases tb <;> cases va <;> cases v <;> rcases vb with _ | _ | _ <;> decide

/-- the `bad` sets are exact: every listed entry is wrong for some evaluation consistent with the
    operands' own claims -/
theorem badOr_exact (ta tb : TV) (h : badOr ta tb = true) :
    ∃ va vb v, (ta ≠ .unknown → va = ta.rt) ∧ Claim TV.rt tb vb ∧ orVal va vb = some v ∧
      orTable ta tb ≠ .unknown ∧ v ≠ (orTable ta tb).rt := by
  refine ⟨decide (ta = .unknown ∨ ta = .mypyFalse),
    if ta = .unknown ∨ ta = .mypyFalse then none else some true, true, ?_⟩
  revert h
  cases ta <;> cases tb <;> decide

theorem badAnd_exact (ta tb : TV) (h : badAnd ta tb = true) :
    ∃ va vb v, (ta ≠ .unknown → va = ta.rt) ∧ Claim TV.rt tb vb ∧ andVal va vb = some v ∧
      andTable ta tb ≠ .unknown ∧ v ≠ (andTable ta tb).rt := by
  refine ⟨decide (ta = .mypyFalse), if ta = .mypyFalse then some false else none, false, ?_⟩
  revert h
  cases ta <;> cases tb <;> decide

/-! ### inside the F4 shape mypy's answer is always the wrong one -/

theorem version_core_f4 (env : Env) (M m mc se : Nat) (lv : String)
    (henv : env.versionInfo = versionTuple M m mc lv se)
    (v t : Operand) (i : VIdx) (th : Thing) (op : Op)
    (hv : containsSysVersionInfo v = some i) (ht : containsIntOrTupleOfInts t = some th)
    (tv : TV) (hd : decideVersion (some i) (some th) op M m = tv) (hne : tv ≠ .unknown)
    (hf4 : f4Core i th op M m = true) :
    ∃ a b, evalOperand env v = some a ∧ evalOperand env t = some b ∧
      cmpVal op a b = some (!(tv == .alwaysTrue)) ∧ cmpVal (reverseOp op) b a = some (!(tv == .alwaysTrue)) := by
  cases i with
  | index k => simp [f4Core] at hf4
  | slice lo hi =>
    cases th with
    | int n => simp [f4Core] at hf4
    | tuple ts =>
      cases hi with
      | some b => simp [f4Core] at hf4
      | none =>
        simp only [f4Core, Bool.and_eq_true, decide_eq_true_eq] at hf4
        obtain ⟨hts, hop⟩ := hf4
        simp only [decideVersion] at hd
        split at hd
        · next hb =>
          obtain ⟨extra, hsl, hex⟩ := slice_rt M m mc se lv lo none hb
          have hx : extra ≠ [] := fun h => (hex.mp h) rfl
          have hvv := cvi_slice hv env
          rw [henv, hsl] at hvv
          have htt := ciot_tuple ht env
          have hval : ((natsToInts [M, m]).drop (lo.getD 0)).take (Option.getD none 2 - lo.getD 0) = natsToInts ts := by
            rw [hts]
            apply List.take_of_length_le
            simp [natsToInts] <;> omega
          rw [hval] at hvv hd
          have hlex : lexOrd (natsToInts ts) (natsToInts ts) = .eq := (lexOrd_eq_iff _ _).mpr rfl
          split at hd
          · refine ⟨_, _, hvv, htt, ?_, ?_⟩
            · simp only [cmpVal]
              rw [cmpElems_prefix op extra _ _ (Nat.le_refl _), ← hd, fixedCmpTuple, ofBool_beq, hlex]
              simp only [hx, if_false]
              cases op <;> simp [ordThen, opHolds] at hop ⊢ <;> decide
            · simp only [cmpVal]
              rw [cmpElems_prefix_swapped (reverseOp op) extra _ _ (Nat.le_refl _), reverseOp_reverseOp,
                ← hd, fixedCmpTuple, ofBool_beq, hlex]
              simp only [hx, if_false]
              cases op <;> simp [ordThen, opHolds] at hop ⊢ <;> decide
          · exact absurd hd.symm hne
        · exact absurd hd.symm hne

theorem version_cmp_f4_wrong (env : Env) (M m mc se : Nat) (lv : String)
    (henv : env.versionInfo = versionTuple M m mc lv se) (l : Operand) (op : Op) (r : Operand) (tv : TV)
    (hd : considerSysVersionInfo l op r M m = tv) (hne : tv ≠ .unknown)
    (hf4 : f4Shape l op r M m = true) :
    eval env (.cmp l op r) = some (!(tv == .alwaysTrue)) := by
  unfold considerSysVersionInfo at hd
  unfold f4Shape at hf4
  simp only at hd hf4
  unfold pickOperands at hd hf4
  cases hcl : containsSysVersionInfo l with
  | some i =>
    cases hcr : containsIntOrTupleOfInts r with
    | some th =>
      simp only [hcl, hcr] at hd hf4
      obtain ⟨a, b, ha, hb, hc, _⟩ := version_core_f4 env M m mc se lv henv l r i th op hcl hcr tv hd hne hf4
      simp [eval, ha, hb, hc]
    | none =>
      simp only [hcl, hcr] at hd hf4
      cases hi : containsSysVersionInfo r with
      | none => simp [hi] at hf4
      | some i' =>
        cases ht : containsIntOrTupleOfInts l with
        | none => simp [hi, ht] at hf4
        | some th' =>
          simp only [hi, ht] at hd hf4
          obtain ⟨a, b, ha, hb, _, hc⟩ :=
            version_core_f4 env M m mc se lv henv r l i' th' (reverseOp op) hi ht tv hd hne hf4
          rw [reverseOp_reverseOp] at hc
          simp [eval, ha, hb, hc]
  | none =>
    simp only [hcl] at hd hf4
    cases hi : containsSysVersionInfo r with
    | none => simp [hi] at hf4
    | some i' =>
      cases ht : containsIntOrTupleOfInts l with
      | none => simp [hi, ht] at hf4
      | some th' =>
        simp only [hi, ht] at hd hf4
        obtain ⟨a, b, ha, hb, _, hc⟩ :=
          version_core_f4 env M m mc se lv henv r l i' th' (reverseOp op) hi ht tv hd hne hf4
        rw [reverseOp_reverseOp] at hc
        simp [eval, ha, hb, hc]

def IsBoolish (t : TV) : Prop := t = .alwaysTrue ∨ t = .alwaysFalse ∨ t = .unknown

theorem ofBool_boolish (b : Bool) : IsBoolish (ofBool b) := by cases b <;> simp [IsBoolish, ofBool]

theorem decideVersion_boolish (i : Option VIdx) (th : Option Thing) (op : Op) (M m : Nat) :
    IsBoolish (decideVersion i th op M m) := by
  unfold decideVersion
  split
  · split
    · exact ofBool_boolish _
    · split
      · exact ofBool_boolish _
      · exact Or.inr (Or.inr rfl)
  · simp only
    split
    · split
      · exact ofBool_boolish _
      · exact Or.inr (Or.inr rfl)
    · exact Or.inr (Or.inr rfl)
  · exact Or.inr (Or.inr rfl)


/-! ### the variant with the open-ended-slice rule (proposed_fix_F4) -/

theorem take_drop_two (M m lo : Nat) (_h : lo < 2) :
    ((natsToInts [M, m]).drop lo).take (2 - lo) = (natsToInts [M, m]).drop lo := by
  apply List.take_of_length_le
  simp [natsToInts] <;> omega

theorem lexOrd_self (l : List Int) : lexOrd l l = .eq := (lexOrd_eq_iff l l).mpr rfl

/-- outside the F4 shape the rule changes nothing -/
theorem decideVersionFix_of_not_f4 (i : VIdx) (th : Thing) (op : Op) (M m : Nat)
    (hf4 : f4Core i th op M m = false) :
    decideVersionFix (some i) (some th) op M m = decideVersion (some i) (some th) op M m := by
  cases i with
  | index k => rfl
  | slice lo hi =>
    cases th with
    | int n => cases hi <;> rfl
    | tuple t =>
      cases hi with
      | some b => rfl
      | none =>
        simp only [decideVersionFix]
        split
        · next hc =>
          obtain ⟨hlo, heq⟩ := hc
          simp only [f4Core, heq, decide_true, Bool.true_and] at hf4
          simp only [decideVersion, Option.getD_none]
          have hb : lo.getD 0 < 2 ∧ 2 ≤ 2 := ⟨hlo, Nat.le_refl _⟩
          rw [if_pos hb, take_drop_two M m _ hlo, heq]
          simp only [natsToInts_length, true_or, if_true, fixedCmpInt, fixedCmpTuple, lexOrd_self]
          cases op <;> simp at hf4 <;> rfl
        · rfl

/-- inside it (and when the old code decided at all) the new answer is "greater" -/
theorem decideVersionFix_of_f4 (i : VIdx) (th : Thing) (op : Op) (M m : Nat)
    (hf4 : f4Core i th op M m = true) (hne : decideVersionFix (some i) (some th) op M m ≠ .unknown) :
    decideVersion (some i) (some th) op M m ≠ .unknown ∧
    (decideVersionFix (some i) (some th) op M m == .alwaysTrue) =
      !(decideVersion (some i) (some th) op M m == .alwaysTrue) := by
  cases i with
  | index k => simp [f4Core] at hf4
  | slice lo hi =>
    cases th with
    | int n => simp [f4Core] at hf4
    | tuple t =>
      cases hi with
      | some b => simp [f4Core] at hf4
      | none =>
        simp only [f4Core, Bool.and_eq_true, decide_eq_true_eq] at hf4
        obtain ⟨heq, hop⟩ := hf4
        by_cases hlo : lo.getD 0 < 2
        · have hb : lo.getD 0 < 2 ∧ 2 ≤ 2 := ⟨hlo, Nat.le_refl _⟩
          have hold : decideVersion (some (.slice lo none)) (some (.tuple t)) op M m =
              ofBool (opHolds op .eq) := by
            simp only [decideVersion, Option.getD_none]
            rw [if_pos hb, take_drop_two M m _ hlo, ← heq]
            simp [natsToInts_length, fixedCmpTuple, lexOrd_self]
          have hnew : decideVersionFix (some (.slice lo none)) (some (.tuple t)) op M m =
              ofBool (opHolds op .gt) := by
            simp only [decideVersionFix]
            rw [if_pos ⟨hlo, heq.symm⟩]
            rfl
          rw [hold, hnew]
          refine ⟨ofBool_ne_unknown _, ?_⟩
          rw [ofBool_beq, ofBool_beq]
          cases op <;> simp at hop <;> rfl
        · exfalso
          apply hne
          simp only [decideVersionFix]
          rw [if_neg (fun h => hlo h.1)]
          simp only [decideVersion, Option.getD_none]
          rw [if_neg (fun h' => hlo h'.1)]

theorem version_core_fixed (env : Env) (M m mc se : Nat) (lv : String)
    (henv : env.versionInfo = versionTuple M m mc lv se)
    (v t : Operand) (i : VIdx) (th : Thing) (op : Op)
    (hv : containsSysVersionInfo v = some i) (ht : containsIntOrTupleOfInts t = some th)
    (tv : TV) (hd : decideVersionFix (some i) (some th) op M m = tv) (hne : tv ≠ .unknown) :
    ∃ a b, evalOperand env v = some a ∧ evalOperand env t = some b ∧
      cmpVal op a b = some (tv == .alwaysTrue) ∧ cmpVal (reverseOp op) b a = some (tv == .alwaysTrue) := by
  cases hf4 : f4Core i th op M m with
  | false =>
    rw [decideVersionFix_of_not_f4 i th op M m hf4] at hd
    exact version_core env M m mc se lv henv v t i th op hv ht tv hd hne hf4
  | true =>
    subst hd
    obtain ⟨hold, hflip⟩ := decideVersionFix_of_f4 i th op M m hf4 hne
    rw [hflip]
    exact version_core_f4 env M m mc se lv henv v t i th op hv ht _ rfl hold hf4

theorem decideVersionFix_none_left (th : Option Thing) (op : Op) (M m : Nat) :
    decideVersionFix none th op M m = .unknown := by simp [decideVersionFix, decideVersion]

theorem decideVersionFix_none_right (i : Option VIdx) (op : Op) (M m : Nat) :
    decideVersionFix i none op M m = .unknown := by
  cases i with
  | none => simp [decideVersionFix, decideVersion]
  | some i => cases i with
    | index k => simp [decideVersionFix, decideVersion]
    | slice lo hi => cases hi <;> simp [decideVersionFix, decideVersion]

/-- with the open-ended-slice rule every decided comparison is exact — no excluded shape -/
theorem version_cmp_exact_fixed (env : Env) (M m mc se : Nat) (lv : String)
    (henv : env.versionInfo = versionTuple M m mc lv se) (l : Operand) (op : Op) (r : Operand) (tv : TV)
    (hd : considerSysVersionInfoFix l op r M m = tv) (hne : tv ≠ .unknown) :
    eval env (.cmp l op r) = some (tv == .alwaysTrue) := by
  unfold considerSysVersionInfoFix at hd
  simp only at hd
  unfold pickOperands at hd
  cases hcl : containsSysVersionInfo l with
  | some i =>
    cases hcr : containsIntOrTupleOfInts r with
    | some th =>
      simp only [hcl, hcr] at hd
      obtain ⟨a, b, ha, hb, hc, _⟩ := version_core_fixed env M m mc se lv henv l r i th op hcl hcr tv hd hne
      simp [eval, ha, hb, hc]
    | none =>
      simp only [hcl, hcr] at hd
      cases hi : containsSysVersionInfo r with
      | none => rw [hi, decideVersionFix_none_left] at hd; exact absurd hd.symm hne
      | some i' =>
        cases ht : containsIntOrTupleOfInts l with
        | none => rw [ht, decideVersionFix_none_right] at hd; exact absurd hd.symm hne
        | some th' =>
          simp only [hi, ht] at hd
          obtain ⟨a, b, ha, hb, _, hc⟩ :=
            version_core_fixed env M m mc se lv henv r l i' th' (reverseOp op) hi ht tv hd hne
          rw [reverseOp_reverseOp] at hc
          simp [eval, ha, hb, hc]
  | none =>
    simp only [hcl] at hd
    cases hi : containsSysVersionInfo r with
    | none => rw [hi, decideVersionFix_none_left] at hd; exact absurd hd.symm hne
    | some i' =>
      cases ht : containsIntOrTupleOfInts l with
      | none => rw [ht, decideVersionFix_none_right] at hd; exact absurd hd.symm hne
      | some th' =>
        simp only [hi, ht] at hd
        obtain ⟨a, b, ha, hb, _, hc⟩ :=
          version_core_fixed env M m mc se lv henv r l i' th' (reverseOp op) hi ht tv hd hne
        rw [reverseOp_reverseOp] at hc
        simp [eval, ha, hb, hc]

theorem decideVersionFix_boolish (i : Option VIdx) (th : Option Thing) (op : Op) (M m : Nat) :
    IsBoolish (decideVersionFix i th op M m) := by
  unfold decideVersionFix
  split
  · split
    · exact ofBool_boolish _
    · exact decideVersion_boolish _ _ _ _ _
  · exact decideVersion_boolish _ _ _ _ _

/-- the value of the version test in the tree at hand -/
def versionValue (o : Options) (l : Operand) (op : Op) (r : Operand) : TV :=
  if o.openSliceFix then considerSysVersionInfoFix l op r o.major o.minor
  else considerSysVersionInfo l op r o.major o.minor

theorem versionValue_boolish (o : Options) (l : Operand) (op : Op) (r : Operand) :
    IsBoolish (versionValue o l op r) := by
  unfold versionValue
  split
  · unfold considerSysVersionInfoFix; exact decideVersionFix_boolish _ _ _ _ _
  · unfold considerSysVersionInfo; exact decideVersion_boolish _ _ _ _ _

/-! ### infer_condition_value as a whole -/

/-- a run on the configured target -/
def EnvFor (o : Options) (env : Env) : Prop :=
  (∃ mc lv se, env.versionInfo = versionTuple o.major o.minor mc lv se) ∧ env.platform = o.platform

/-- the special names have their conventional run-time values, and the user's `--always-true` /
    `--always-false` promises hold -/
def NamesOK (o : Options) (env : Env) : Prop :=
  ∀ n b, env.names n = some b → nameValue n o ≠ .unknown → b = (nameValue n o).rt

/-- no comparison in the condition has the F4 shape — or the tree has the open-ended-slice rule -/
def noF4 (o : Options) : Cond → Bool
  | .cmp l op r => o.openSliceFix || !f4Shape l op r o.major o.minor
  | .not c => noF4 o c
  | .and a b => noF4 o a && noF4 o b
  | .or a b => noF4 o a && noF4 o b
  | _ => true

/-- no `and` / `or` node of the condition hits an entry of `badAnd` / `badOr` -/
def noBadPair (o : Options) : Cond → Bool
  | .not c => noBadPair o c
  | .and a b => noBadPair o a && noBadPair o b && !badAnd (infer o a) (infer o b)
  | .or a b => noBadPair o a && noBadPair o b && !badOr (infer o a) (infer o b)
  | _ => true

theorem leaf_sound (o : Options) (env : Env) (henv : EnvFor o env) (c : Cond) (tv : TV)
    (hleaf : (∃ l op r, c = .cmp l op r) ∨ (∃ r m a, c = .call r m a) ∨ (∃ r m a, c = .callKw r m a))
    (hd : leafValue c o = tv) (hne : tv ≠ .unknown) (hf4 : noF4 o c = true) :
    (tv = .alwaysTrue ∨ tv = .alwaysFalse) ∧ ∀ b, eval env c = some b → b = (tv == .alwaysTrue) := by
  obtain ⟨⟨mc, lv, se, hvi⟩, hplat⟩ := henv
  have hplatform : ∀ tv, considerSysPlatform c o.platform = tv → tv ≠ .unknown →
      (tv = .alwaysTrue ∨ tv = .alwaysFalse) ∧ ∀ b, eval env c = some b → b = (tv == .alwaysTrue) := by
    intro tv hd hne
    refine ⟨?_, (platform_exact env o.platform hplat c tv hd hne).2⟩
    unfold considerSysPlatform at hd
    split at hd
    · split at hd
      · rw [← hd, fixedCmpStr]; cases opHolds _ _ <;> simp [ofBool]
      · exact absurd hd.symm hne
    · split at hd
      · rw [← hd]; cases pyStartsWith _ _ <;> simp [ofBool]
      · exact absurd hd.symm hne
    · split at hd
      · rw [← hd]; cases pyStartsWith _ _ <;> simp [ofBool]
      · exact absurd hd.symm hne
    · exact absurd hd.symm hne
  rcases hleaf with ⟨l, op, r, rfl⟩ | ⟨r, m, a, rfl⟩ | ⟨r, m, a, rfl⟩
  · have hfold : leafValue (.cmp l op r) o =
        (if versionValue o l op r = .unknown then considerSysPlatform (.cmp l op r) o.platform
         else versionValue o l op r) := rfl
    rw [hfold] at hd
    split at hd
    · exact hplatform tv hd hne
    · next hv =>
      have hbool : tv = .alwaysTrue ∨ tv = .alwaysFalse := by
        rcases versionValue_boolish o l op r with h | h | h
        · exact Or.inl (hd ▸ h)
        · exact Or.inr (hd ▸ h)
        · exact absurd h hv
      refine ⟨hbool, ?_⟩
      have hex : eval env (.cmp l op r) = some (tv == .alwaysTrue) := by
        unfold versionValue at hd
        split at hd
        · exact version_cmp_exact_fixed env o.major o.minor mc se lv hvi l op r tv hd hne
        · next hfix =>
          simp only [noF4, hfix, Bool.false_or, Bool.not_eq_true'] at hf4
          exact version_cmp_exact env o.major o.minor mc se lv hvi l op r tv hd hne hf4
      intro b hb
      rw [hex] at hb; injection hb with hb; exact hb.symm
  · simp only [leafValue, if_true] at hd; exact hplatform tv hd hne
  · simp only [leafValue, if_true] at hd; exact hplatform tv hd hne

theorem eval_mtEnv_leaf (env : Env) (c : Cond)
    (hleaf : (∃ l op r, c = .cmp l op r) ∨ (∃ r m a, c = .call r m a) ∨ (∃ r m a, c = .callKw r m a)) :
    eval (mtEnv env) c = eval env c := by
  rcases hleaf with ⟨l, op, r, rfl⟩ | ⟨r, m, a, rfl⟩ | ⟨r, m, a, rfl⟩ <;> rfl

theorem eval_or (env : Env) (a b : Cond) (v : Bool) (h : eval env (.or a b) = some v) :
    ∃ va, eval env a = some va ∧ orVal va (eval env b) = some v := by
  simp only [eval] at h
  cases ha : eval env a with
  | none => simp [ha] at h
  | some va => cases va <;> simp [ha] at h <;> simp [orVal, h]

theorem eval_and (env : Env) (a b : Cond) (v : Bool) (h : eval env (.and a b) = some v) :
    ∃ va, eval env a = some va ∧ andVal va (eval env b) = some v := by
  simp only [eval] at h
  cases ha : eval env a with
  | none => simp [ha] at h
  | some va => cases va <;> simp [ha] at h <;> simp [andVal, h]

theorem claim_of (f : TV → Bool) (t : TV) (vb : Option Bool) (h : ∀ x, vb = some x → t ≠ .unknown → x = f t) :
    Claim f t vb := by
  cases vb with
  | none => trivial
  | some x => exact h x rfl

theorem mt_eq_rt_of_bool {tv : TV} (h : tv = .alwaysTrue ∨ tv = .alwaysFalse) :
    tv.mt = (tv == .alwaysTrue) ∧ tv.rt = (tv == .alwaysTrue) := by
  rcases h with rfl | rfl <;> exact ⟨rfl, rfl⟩

/-- **Soundness of infer_condition_value.**  For a condition without an F4-shaped comparison, evaluated on
    the configured target: whatever is decided is (i) the value of the condition as mypy sees the world
    (TYPE_CHECKING and MYPY true) and (ii) — if no and/or node hits a `bad` table entry — its run-time value. -/
theorem infer_sound (o : Options) (env : Env) (henv : EnvFor o env) (hn : NamesOK o env) :
    ∀ (c : Cond), noF4 o c = true → infer o c ≠ .unknown →
      (∀ b, eval (mtEnv env) c = some b → b = (infer o c).mt) ∧
      (noBadPair o c = true → ∀ b, eval env c = some b → b = (infer o c).rt) := by
  intro c
  induction c with
  | cmp l op r =>
    intro hf hne
    have hl := leaf_sound o env henv (.cmp l op r) _ (Or.inl ⟨l, op, r, rfl⟩) rfl hne hf
    have hmr := mt_eq_rt_of_bool hl.1
    simp only [infer] at hne ⊢
    rw [eval_mtEnv_leaf env _ (Or.inl ⟨l, op, r, rfl⟩), hmr.1, hmr.2]
    exact ⟨hl.2, fun _ => hl.2⟩
  | call r m a =>
    intro hf hne
    have hl := leaf_sound o env henv (.call r m a) _ (Or.inr (Or.inl ⟨r, m, a, rfl⟩)) rfl hne hf
    have hmr := mt_eq_rt_of_bool hl.1
    simp only [infer] at hne ⊢
    rw [eval_mtEnv_leaf env _ (Or.inr (Or.inl ⟨r, m, a, rfl⟩)), hmr.1, hmr.2]
    exact ⟨hl.2, fun _ => hl.2⟩
  | callKw r m a =>
    intro hf hne
    have hl := leaf_sound o env henv (.callKw r m a) _ (Or.inr (Or.inr ⟨r, m, a, rfl⟩)) rfl hne hf
    have hmr := mt_eq_rt_of_bool hl.1
    simp only [infer] at hne ⊢
    rw [eval_mtEnv_leaf env _ (Or.inr (Or.inr ⟨r, m, a, rfl⟩)), hmr.1, hmr.2]
    exact ⟨hl.2, fun _ => hl.2⟩
  | name n =>
    intro _ hne
    simp only [infer] at hne ⊢
    refine ⟨?_, fun _ b hb => hn n b hb hne⟩
    intro b hb
    simp only [eval, mtEnv] at hb
    split at hb
    · next hmy =>
      injection hb with hb
      have : nameValue n o = .mypyTrue := by
        rcases hmy with rfl | rfl <;> simp [nameValue]
      rw [this, ← hb]; rfl
    · next hmy =>
      have hb' := hn n b hb hne
      rw [hb']
      unfold nameValue at hne ⊢
      simp only [hmy, if_false] at hne ⊢
      split
      · rfl
      · split
        · rfl
        · split
          · rfl
          · split
            · rfl
            · rfl
  | «opaque» k => intro _ hne; exact absurd rfl hne
  | not c ih =>
    intro hf hne
    simp only [infer] at hne ⊢
    simp only [noF4] at hf
    have hne' := invert_unknown hne
    obtain ⟨ihm, ihr⟩ := ih hf hne'
    refine ⟨?_, ?_⟩
    · intro b hb
      simp only [eval] at hb
      cases hc : eval (mtEnv env) c with
      | none => simp [hc] at hb
      | some x => simp [hc] at hb; rw [invert_mt _ hne', ← ihm x hc, hb]; simp
    · intro hbad b hb
      simp only [noBadPair] at hbad
      simp only [eval] at hb
      cases hc : eval env c with
      | none => simp [hc] at hb
      | some x => simp [hc] at hb; rw [invert_rt _ hne', ← ihr hbad x hc, hb]; simp
  | and a b iha ihb =>
    intro hf hne
    simp only [infer] at hne ⊢
    simp only [noF4, Bool.and_eq_true] at hf
    refine ⟨?_, ?_⟩
    · intro v hv
      obtain ⟨va, hva, hvv⟩ := eval_and _ a b v hv
      exact andTable_mt _ _ va _ v (fun h => (iha hf.1 h).1 va hva)
        (claim_of _ _ _ (fun x hx h => (ihb hf.2 h).1 x hx)) hvv hne
    · intro hbad v hv
      simp only [noBadPair, Bool.and_eq_true, Bool.not_eq_true'] at hbad
      obtain ⟨va, hva, hvv⟩ := eval_and _ a b v hv
      exact andTable_rt _ _ va _ v (fun h => (iha hf.1 h).2 hbad.1.1 va hva)
        (claim_of _ _ _ (fun x hx h => (ihb hf.2 h).2 hbad.1.2 x hx)) hvv hne hbad.2
  | or a b iha ihb =>
    intro hf hne
    simp only [infer] at hne ⊢
    simp only [noF4, Bool.and_eq_true] at hf
    refine ⟨?_, ?_⟩
    · intro v hv
      obtain ⟨va, hva, hvv⟩ := eval_or _ a b v hv
      exact orTable_mt _ _ va _ v (fun h => (iha hf.1 h).1 va hva)
        (claim_of _ _ _ (fun x hx h => (ihb hf.2 h).1 x hx)) hvv hne
    · intro hbad v hv
      simp only [noBadPair, Bool.and_eq_true, Bool.not_eq_true'] at hbad
      obtain ⟨va, hva, hvv⟩ := eval_or _ a b v hv
      exact orTable_rt _ _ va _ v (fun h => (iha hf.1 h).2 hbad.1.1 va hva)
        (claim_of _ _ _ (fun x hx h => (ihb hf.2 h).2 hbad.1.2 x hx)) hvv hne hbad.2

/-! ### conditions that only test the version / platform -/

def noMypyNames : Cond → Bool
  | .name n => n != "MYPY" && n != "TYPE_CHECKING"
  | .not c => noMypyNames c
  | .and a b => noMypyNames a && noMypyNames b
  | .or a b => noMypyNames a && noMypyNames b
  | _ => true

theorem considerSysPlatform_boolish (c : Cond) (p : String) : IsBoolish (considerSysPlatform c p) := by
  unfold considerSysPlatform
  split
  · split
    · exact ofBool_boolish _
    · exact Or.inr (Or.inr rfl)
  · split
    · exact ofBool_boolish _
    · exact Or.inr (Or.inr rfl)
  · split
    · exact ofBool_boolish _
    · exact Or.inr (Or.inr rfl)
  · exact Or.inr (Or.inr rfl)

theorem leafValue_boolish (c : Cond) (o : Options) : IsBoolish (leafValue c o) := by
  cases c with
  | cmp l op r =>
    have hfold : leafValue (.cmp l op r) o =
        (if versionValue o l op r = .unknown then considerSysPlatform (.cmp l op r) o.platform
         else versionValue o l op r) := rfl
    rw [hfold]
    split
    · exact considerSysPlatform_boolish _ _
    · exact versionValue_boolish _ _ _ _
  | _ => simp only [leafValue, if_true]; exact considerSysPlatform_boolish _ _

theorem pure_infer (o : Options) : ∀ c, noMypyNames c = true → IsBoolish (infer o c) := by
  intro c
  induction c with
  | cmp l op r => intro _; exact leafValue_boolish _ _
  | call r m a => intro _; exact leafValue_boolish _ _
  | callKw r m a => intro _; exact leafValue_boolish _ _
  | name n =>
    intro h
    simp only [noMypyNames, Bool.and_eq_true, bne_iff_ne, ne_eq] at h
    simp only [infer, nameValue]
    split
    · exact Or.inr (Or.inl rfl)
    · split
      · exact Or.inl rfl
      · split
        · next hm => rcases hm with hm | hm <;> simp [hm] at h
        · split
          · exact Or.inl rfl
          · split
            · exact Or.inr (Or.inl rfl)
            · exact Or.inr (Or.inr rfl)
  | «opaque» k => intro _; exact Or.inr (Or.inr rfl)
  | not c ih =>
    intro h
    rcases ih h with h' | h' | h' <;> simp [infer, h', invert, IsBoolish]
  | and a b iha ihb =>
    intro h
    simp only [noMypyNames, Bool.and_eq_true] at h
    rcases iha h.1 with h1 | h1 | h1 <;> rcases ihb h.2 with h2 | h2 | h2 <;>
      simp [infer, h1, h2, andTable, IsBoolish]
  | or a b iha ihb =>
    intro h
    simp only [noMypyNames, Bool.and_eq_true] at h
    rcases iha h.1 with h1 | h1 | h1 <;> rcases ihb h.2 with h2 | h2 | h2 <;>
      simp [infer, h1, h2, orTable, IsBoolish]

theorem noBad_of_pure (o : Options) : ∀ c, noMypyNames c = true → noBadPair o c = true := by
  intro c
  induction c with
  | not c ih => intro h; exact ih h
  | and a b iha ihb =>
    intro h
    simp only [noMypyNames, Bool.and_eq_true] at h
    simp only [noBadPair, Bool.and_eq_true, iha h.1, ihb h.2, true_and, Bool.not_eq_true']
    rcases pure_infer o a h.1 with h1 | h1 | h1 <;> rcases pure_infer o b h.2 with h2 | h2 | h2 <;>
      simp [h1, h2, badAnd]
  | or a b iha ihb =>
    intro h
    simp only [noMypyNames, Bool.and_eq_true] at h
    simp only [noBadPair, Bool.and_eq_true, iha h.1, ihb h.2, true_and, Bool.not_eq_true']
    rcases pure_infer o a h.1 with h1 | h1 | h1 <;> rcases pure_infer o b h.2 with h2 | h2 | h2 <;>
      simp [h1, h2, badOr]
  | _ => intro _; rfl


end Reach
