import MypyVerif.Model.Layout
/-!
Helper lemmas about names for the C18 model: suffix stripping, `moduleName`, `dropStubs`, identifiers, `splitext`,
`splitDots`.
-/
namespace Layout

theorem stripPrefix?_append (p s : List Char) : stripPrefix? p (p ++ s) = some s := by
  induction p with
  | nil => cases s <;> rfl
  | cons c cs ih => simp [stripPrefix?, ih]

theorem stripPrefix?_some {p s t : List Char} (h : stripPrefix? p s = some t) : s = p ++ t := by
  induction p generalizing s with
  | nil => cases s <;> simp_all [stripPrefix?]
  | cons c cs ih =>
    cases s with
    | nil => simp [stripPrefix?] at h
    | cons d ds =>
      simp only [stripPrefix?] at h
      split at h
      · next hcd => subst hcd; simp [ih h]
      · cases h

theorem stripSuffix?_append (suf t : List Char) : stripSuffix? suf (t ++ suf) = some t := by
  simp [stripSuffix?, stripPrefix?_append]

theorem stripSuffix?_some {suf s t : List Char} (h : stripSuffix? suf s = some t) : s = t ++ suf := by
  simp only [stripSuffix?, Option.map_eq_some_iff] at h
  obtain ⟨r, hr, rfl⟩ := h
  have := stripPrefix?_some hr
  have h2 : s = (suf.reverse ++ r).reverse := by rw [← this]; simp
  simpa using h2

theorem stripPy_py (x : Name) : stripPy (x ++ extPy) = some x := by
  have h1 : stripSuffix? extPyi (x ++ extPy) = none := by
    simp [stripSuffix?, extPyi, extPy, stripPrefix?]
  simp [stripPy, h1, stripSuffix?_append]

theorem stripPy_pyi (x : Name) : stripPy (x ++ extPyi) = some x := by
  simp [stripPy, stripSuffix?_append]

theorem moduleName_py {x : Name} (hx : x ≠ []) : moduleName (x ++ extPy) = x := by
  unfold moduleName
  rw [stripPy_py]
  cases x with
  | nil => exact absurd rfl hx
  | cons c cs => rfl

theorem moduleName_pyi {x : Name} (hx : x ≠ []) : moduleName (x ++ extPyi) = x := by
  unfold moduleName
  rw [stripPy_pyi]
  cases x with
  | nil => exact absurd rfl hx
  | cons c cs => rfl

theorem moduleName_initPy : moduleName initPy = sInit := by decide
theorem moduleName_initPyi : moduleName initPyi = sInit := by decide

theorem endsPy_py (x : Name) : endsPy (x ++ extPy) = true := by simp [endsPy, stripPy_py]
theorem endsPy_pyi (x : Name) : endsPy (x ++ extPyi) = true := by simp [endsPy, stripPy_pyi]
theorem endsPy_initPy : endsPy initPy = true := by decide
theorem endsPy_initPyi : endsPy initPyi = true := by decide

theorem dropStubs_append (x : Name) : dropStubs (x ++ sStubs) = x := by
  simp [dropStubs, stripSuffix?_append]

theorem isIdent_ne_nil {x : Name} (h : isIdent x = true) : x ≠ [] := by
  cases x with
  | nil => simp [isIdent] at h
  | cons c cs => simp

theorem isIdent_all_alnum {x : Name} (h : isIdent x = true) : ∀ c ∈ x, isAlnum c = true := by
  cases x with
  | nil => simp [isIdent] at h
  | cons c cs =>
    simp only [isIdent, Bool.and_eq_true, List.all_eq_true] at h
    intro d hd
    cases hd with
    | head => simp [isAlnum, h.1]
    | tail _ hd => exact h.2 d hd

theorem isIdent_no_dot {x : Name} (h : isIdent x = true) : ∀ c ∈ x, c ≠ '.' := by
  intro c hc hdot
  have := isIdent_all_alnum h c hc
  subst hdot
  revert this; decide

theorem isIdent_no_dash {x : Name} (h : isIdent x = true) : ∀ c ∈ x, c ≠ '-' := by
  intro c hc hdot
  have := isIdent_all_alnum h c hc
  subst hdot
  revert this; decide

theorem dropStubs_ident {x : Name} (h : isIdent x = true) : dropStubs x = x := by
  unfold dropStubs
  cases hs : stripSuffix? sStubs x with
  | none => rfl
  | some t =>
    have := stripSuffix?_some hs
    have hd : '-' ∈ x := by rw [this]; simp [sStubs]
    exact absurd rfl (isIdent_no_dash h '-' hd)

theorem isIdent_ne_append_stubs {x y : Name} (h : isIdent x = true) : x ≠ y ++ sStubs := by
  intro he
  have hd : '-' ∈ x := by rw [he]; simp [sStubs]
  exact absurd rfl (isIdent_no_dash h '-' hd)

theorem splitDots_no_dot (x cur : List Char) (h : ∀ c ∈ x, c ≠ '.') : splitDots x cur = [cur.reverse ++ x] := by
  induction x generalizing cur with
  | nil => simp [splitDots]
  | cons c cs ih =>
    have hc : c ≠ '.' := h c (by simp)
    simp only [splitDots, hc, if_false]
    rw [ih (c :: cur) (fun d hd => h d (by simp [hd]))]
    simp

theorem searchComps_ident {m : List Name} (h : ∀ c ∈ m, isIdent c = true) : searchComps m = m := by
  induction m with
  | nil => rfl
  | cons c cs ih =>
    have hc := splitDots_no_dot c [] (isIdent_no_dot (h c (by simp)))
    have ih' := ih (fun d hd => h d (by simp [hd]))
    simp only [searchComps, List.flatMap_cons] at ih' ⊢
    rw [hc, ih']; simp

theorem splitextRev_no_dot (l acc : List Char) (h : ∀ c ∈ l, c ≠ '.') :
    splitextRev l acc = (l.reverse ++ acc, []) := by
  induction l generalizing acc with
  | nil => simp [splitextRev]
  | cons c cs ih =>
    have hc : c ≠ '.' := h c (by simp)
    simp only [splitextRev, hc, if_false]
    rw [ih (c :: acc) (fun d hd => h d (by simp [hd]))]
    simp

theorem splitext_no_dot {x : Name} (h : ∀ c ∈ x, c ≠ '.') : splitext x = (x, []) := by
  unfold splitext
  rw [splitextRev_no_dot x.reverse [] (by simpa using h)]
  simp

/-- `splitext("<x>.py") = ("<x>", ".py")`, `splitext("<x>.pyi") = ("<x>", ".pyi")` for a dot-free non-empty stem -/
theorem splitext_ext {x : Name} (hx : x ≠ []) (h : ∀ c ∈ x, c ≠ '.') :
    splitext (x ++ extPy) = (x, extPy) ∧ splitext (x ++ extPyi) = (x, extPyi) := by
  have hall : x.reverse.all (· = '.') = false := by
    cases hr : x.reverse with
    | nil => simp at hr; exact absurd hr hx
    | cons c cs =>
      have hc : c ≠ '.' := h c (by rw [← List.mem_reverse, hr]; simp)
      simp [hc]
  constructor
  · unfold splitext
    simp only [extPy, List.reverse_append]
    simp [splitextRev, hall]
  · unfold splitext
    simp only [extPyi, List.reverse_append]
    simp [splitextRev, hall]

/-- `splitext` cuts the name in two; a non-empty extension leaves a non-empty stem -/
theorem splitextRev_spec : ∀ (l acc : List Char) (st e : Name), splitextRev l acc = (st, e) →
    st ++ e = l.reverse ++ acc ∧ (e ≠ [] → st ≠ []) := by
  intro l
  induction l with
  | nil =>
    intro acc st e h
    simp only [splitextRev, Prod.mk.injEq] at h
    obtain ⟨rfl, rfl⟩ := h
    simp
  | cons c rest ih =>
    intro acc st e h
    simp only [splitextRev] at h
    split at h
    · next hc =>
      subst hc
      split at h
      · simp only [Prod.mk.injEq] at h
        obtain ⟨rfl, rfl⟩ := h
        simp
      · next hall =>
        simp only [Prod.mk.injEq] at h
        obtain ⟨rfl, rfl⟩ := h
        refine ⟨by simp, ?_⟩
        intro _ hnil
        have : rest = [] := by simpa using hnil
        subst this
        simp at hall
    · have := ih (c :: acc) st e h
      simpa using this

theorem splitext_spec {n st e : Name} (h : splitext n = (st, e)) : n = st ++ e ∧ (e ≠ [] → st ≠ []) := by
  unfold splitext at h
  have := splitextRev_spec n.reverse [] st e h
  simp only [List.reverse_reverse, List.append_nil] at this
  exact ⟨this.1.symm, this.2⟩

theorem isPyExt_iff {e : Name} : isPyExt e = true ↔ e = extPyi ∨ e = extPy := by
  simp [isPyExt]

/-- a directory entry whose `splitext` extension is `.py`/`.pyi` has its `splitext` stem as module name -/
theorem moduleName_of_splitext {n : Name} (h : isPyExt (splitext n).2 = true) : moduleName n = (splitext n).1 := by
  cases hse : splitext n with
  | mk st e =>
    rw [hse] at h
    simp only at h ⊢
    have hs := splitext_spec hse
    rw [isPyExt_iff] at h
    rcases h with h | h
    · subst h
      have hne : st ≠ [] := hs.2 (by decide)
      rw [hs.1, moduleName_pyi hne]
    · subst h
      have hne : st ≠ [] := hs.2 (by decide)
      rw [hs.1, moduleName_py hne]

end Layout
