import MypyVerif.Proofs.LayoutFind
/-!
The round trip path → module → path of the C18 model (`crawlUp` then `findModule`).
Components are split as `m = dc ++ [x]` (directory chain and last component) throughout.
-/
namespace Layout

variable (fs : FS) (o : Opts)

theorem extend_inj {c : Crawl} {x : Name} {dc : List Name} {B : Path}
    (h : c.extend x = .some (dc ++ [x]) B) : c = .some dc B := by
  cases c with
  | none => simp [Crawl.extend] at h
  | err n => simp [Crawl.extend] at h
  | some mp b =>
    simp only [Crawl.extend, Crawl.some.injEq] at h
    obtain ⟨h1, h2⟩ := h
    have := List.append_cancel_right h1
    subst this; subst h2; rfl

/-- the four ways a file can spell the module `dc.x` below a base -/
def spellsAt (bd : Path) (x : Name) (f : Path) : Prop :=
  f = bd ++ [x, initPyi] ∨ f = bd ++ [x, initPy] ∨ f = bd ++ [x ++ extPyi] ∨ f = bd ++ [x ++ extPy]

theorem spellsAt_mem {bd : Path} {x : Name} {f : Path} (h : spellsAt bd x f) :
    f ∈ pkgFiles bd x ++ modFiles bd x := by
  unfold spellsAt at h
  simp only [pkgFiles, modFiles, List.cons_append, List.nil_append, List.mem_cons, List.mem_nil_iff, or_false]
  rcases h with h | h | h | h <;> simp [h]

/-- Piece A: the directory chain of a file that spells `dc.x` below `B` crawls to `(dc, B)` -/
theorem crawl_parent {B : Path} {dc : List Name} {x : Name} {f : Path}
    (hx : isIdent x = true) (hxi : x ≠ sInit) (hsp : spellsAt (B ++ dc) x f) (hf : fs.isFile f = true)
    (hc : crawlUp fs o f = .some (dc ++ [x]) B) : crawlUpDir fs o (B ++ dc) = .some dc B := by
  have hxne : x ≠ [] := isIdent_ne_nil hx
  have pkgcase : ∀ ini : Name, moduleName ini = sInit → hasInit fs (B ++ dc ++ [x]) = true →
      crawlUp fs o (B ++ dc ++ [x] ++ [ini]) = .some (dc ++ [x]) B → crawlUpDir fs o (B ++ dc) = .some dc B := by
    intro ini hmn hi hc
    rw [crawlUp_snoc, hmn] at hc
    simp only [joinFile, if_true] at hc
    by_cases hb : o.isBase (B ++ dc ++ [x]) = true
    · have := helper_of_isBase fs o hb
      unfold crawlUpDir at hc
      rw [this] at hc
      simp [Crawl.orBase] at hc
    · have hb' : o.isBase (B ++ dc ++ [x]) = false := by simpa using hb
      rw [crawlUpDir_pkg fs o hi hb' (by rw [dropStubs_ident hx]; exact hx), dropStubs_ident hx] at hc
      exact extend_inj hc
  rcases hsp with rfl | rfl | rfl | rfl
  · have e : B ++ dc ++ [x, initPyi] = B ++ dc ++ [x] ++ [initPyi] := by simp
    rw [e] at hf hc
    exact pkgcase initPyi moduleName_initPyi (hasInit_of_pyi fs hf) hc
  · have e : B ++ dc ++ [x, initPy] = B ++ dc ++ [x] ++ [initPy] := by simp
    rw [e] at hf hc
    exact pkgcase initPy moduleName_initPy (hasInit_of_py fs hf) hc
  · rw [crawlUp_snoc, moduleName_pyi hxne] at hc
    simp only [joinFile, hxi, if_false] at hc
    exact extend_inj hc
  · rw [crawlUp_snoc, moduleName_py hxne] at hc
    simp only [joinFile, hxi, if_false] at hc
    exact extend_inj hc

/-- the directory that should contain the last component exists -/
theorem isDir_bd (wf : fs.WF) {bd : Path} {x : Name} {f : Path} (hsp : spellsAt bd x f) (hf : fs.isFile f = true) :
    fs.isDir bd = true := by
  rcases hsp with rfl | rfl | rfl | rfl
  · have e : bd ++ [x, initPyi] = bd ++ [x] ++ [initPyi] := by simp
    rw [e] at hf
    exact wf.dirParent _ _ (wf.fileParent _ _ hf)
  · have e : bd ++ [x, initPy] = bd ++ [x] ++ [initPy] := by simp
    rw [e] at hf
    exact wf.dirParent _ _ (wf.fileParent _ _ hf)
  · exact wf.fileParent _ _ hf
  · exact wf.fileParent _ _ hf

/-- Piece B: the base directory of a file is among the candidate directories for its module -/
theorem base_candidate (wf : fs.WF) {roots : List Path} {B : Path} {dc : List Name} {x : Name} {f : Path}
    (hdc : ∀ c ∈ dc, isIdent c = true) (hx : isIdent x = true)
    (hsp : spellsAt (B ++ dc) x f) (hf : fs.isFile f = true) (hB : B ∈ roots) :
    (B ++ dc, B) ∈ candidates fs roots (dc ++ [x]) := by
  rw [mem_candidates]
  have hdir : fs.isDir (B ++ dc) = true := isDir_bd fs wf hsp hf
  refine ⟨hB, ?_, by simpa using hdir, by simp⟩
  unfold topLevelOk
  rw [List.any_eq_true]
  cases dc with
  | nil =>
    simp only [List.nil_append, List.headD_cons]
    have hnd := isIdent_no_dot hx
    have hxne := isIdent_ne_nil hx
    simp only [List.append_nil] at hsp hdir
    rcases hsp with rfl | rfl | rfl | rfl
    · have e : B ++ [x, initPyi] = B ++ [x] ++ [initPyi] := by simp
      rw [e] at hf
      exact ⟨x, (wf.listed B x).mpr (Or.inr (wf.fileParent _ _ hf)), by simp [splitext_no_dot hnd]⟩
    · have e : B ++ [x, initPy] = B ++ [x] ++ [initPy] := by simp
      rw [e] at hf
      exact ⟨x, (wf.listed B x).mpr (Or.inr (wf.fileParent _ _ hf)), by simp [splitext_no_dot hnd]⟩
    · exact ⟨x ++ extPyi, (wf.listed B _).mpr (Or.inl hf), by simp [(splitext_ext hxne hnd).2]⟩
    · exact ⟨x ++ extPy, (wf.listed B _).mpr (Or.inl hf), by simp [(splitext_ext hxne hnd).1]⟩
  | cons c rest =>
    simp only [List.cons_append, List.headD_cons]
    have hc := hdc c (by simp)
    have hd1 : fs.isDir (B ++ [c]) = true := by
      have : B ++ c :: rest = (B ++ [c]) ++ rest := by simp
      rw [this] at hdir
      exact isDir_of_prefix fs wf hdir
    exact ⟨c, (wf.listed B c).mpr (Or.inr hd1), by simp [splitext_no_dot (isIdent_no_dot hc)]⟩

/-- Piece C: without namespace packages the crawl only passes `__init__` directories, so `verify_module` holds
    at the file's own base -/
theorem verify_of_crawl_nons (hns : o.ns = false) {B : Path} : ∀ rq : List Name,
    crawlUpDir fs o (B ++ rq.reverse) = .some rq.reverse B → verifyFrom fs (rq ++ B.reverse) rq.length = true := by
  intro rq
  induction rq with
  | nil => intro _; simp [verifyFrom]
  | cons c rq ih =>
    intro h
    unfold crawlUpDir at h
    have hrev : (B ++ (c :: rq).reverse).reverse = c :: (rq ++ B.reverse) := by simp
    have hdir : (c :: (rq ++ B.reverse)).reverse = B ++ (c :: rq).reverse := by simp
    rw [hrev] at h
    simp only [helper, hdir, hns] at h
    split at h
    · simp [Crawl.orBase] at h
    · split at h
      · next hi =>
        split at h
        · -- package level
          have hcu : crawlUpDir fs o (B ++ rq.reverse) = (helper fs o (rq ++ B.reverse)).orBase (rq ++ B.reverse).reverse := by
            unfold crawlUpDir; simp
          rw [← hcu] at h
          cases hcd : crawlUpDir fs o (B ++ rq.reverse) with
          | none => rw [hcd] at h; simp [Crawl.extend, Crawl.orBase] at h
          | err n => rw [hcd] at h; simp [Crawl.extend, Crawl.orBase] at h
          | some mp b =>
            rw [hcd] at h
            simp only [Crawl.extend, Crawl.orBase, Crawl.some.injEq, List.reverse_cons] at h
            obtain ⟨h1, h2⟩ := h
            have hmp : mp = rq.reverse := (List.append_inj' h1 (by simp)).1
            subst h2
            rw [hmp] at hcd
            have := ih hcd
            simp only [List.length_cons, List.cons_append, verifyFrom, Bool.and_eq_true]
            exact ⟨by rw [hdir]; exact hi, this⟩
        · simp [Crawl.orBase] at h
      · split at h
        · simp [Crawl.orBase] at h
        · simp [Crawl.orBase] at h

theorem chainOK_of_verify {R : Path} : ∀ rq : List Name, (∀ c ∈ rq, isIdent c = true) → noBaseBelow o R rq = true →
    verifyFrom fs (rq ++ R.reverse) rq.length = true → chainOK fs o R rq = true := by
  intro rq
  induction rq with
  | nil => intro _ _ _; rfl
  | cons c rq ih =>
    intro hid hnb hv
    have hdir : (c :: (rq ++ R.reverse)).reverse = R ++ (c :: rq).reverse := by simp
    simp only [List.length_cons, List.cons_append, verifyFrom, Bool.and_eq_true, hdir] at hv
    simp only [noBaseBelow, Bool.and_eq_true, Bool.not_eq_true'] at hnb
    simp only [chainOK, Bool.and_eq_true, Bool.or_eq_true, Bool.not_eq_true']
    exact ⟨⟨⟨hid c (by simp), hnb.1⟩, Or.inl hv.1⟩, ih (fun d hd => hid d (by simp [hd])) hnb.2 hv.2⟩

/-- Piece D: a verified hit under a good root is mapped back to the module by `crawl_up` -/
theorem found_claims {ns : Bool} {R : Path} {dc : List Name} {x : Name} {g : Path}
    (hR : crawlUpDir fs o R = .some [] R)
    (hdc : ∀ c ∈ dc, isIdent c = true) (hx : isIdent x = true) (hxi : x ≠ sInit)
    (hnb : noBaseBelow o R (x :: dc.reverse) = true) (hnbs : o.isBase (R ++ dc ++ [x ++ sStubs]) = false)
    (hs : scanDir fs ns (R ++ dc) x dc.length = .found g) :
    fs.isFile g = true ∧ crawlUp fs o g = .some (dc ++ [x]) R ∧ g ∈ pkgFiles (R ++ dc) x ++ modFiles (R ++ dc) x := by
  obtain ⟨hv, hmem, hfile⟩ := scanDir_found fs hxi hs
  simp only [noBaseBelow, Bool.and_eq_true, Bool.not_eq_true'] at hnb
  have hv' : verifyFrom fs (dc.reverse ++ R.reverse) dc.reverse.length = true := by simpa using hv
  have hchain := chainOK_of_verify fs o dc.reverse (by simpa using hdc) hnb.2 hv'
  have hbd := (chain_up fs o hR dc.reverse hchain).1
  simp only [List.reverse_reverse] at hbd
  refine ⟨hfile, crawl_candidate fs o hbd hx hxi ?_ hnbs hmem hfile, hmem⟩
  simpa using hnb.1

theorem getLast?_snoc (dc : List Name) (x : Name) : (dc ++ [x]).getLast? = some x := by simp

/-- **Round trip without namespace packages.**  A file that spells `dc.x` below its crawled base `B` is found
    again by `find_module`, or the file found instead is mapped by `crawl_up` to the same module name. -/
theorem find_claims_nons (wf : fs.WF) (hns : o.ns = false) {roots : List Path} {B : Path} {dc : List Name}
    {x : Name} {f : Path}
    (hdc : ∀ c ∈ dc, isIdent c = true) (hx : isIdent x = true) (hxi : x ≠ sInit)
    (hsp : spellsAt (B ++ dc) x f) (hf : fs.isFile f = true)
    (hc : crawlUp fs o f = .some (dc ++ [x]) B) (hB : B ∈ roots)
    (hgood : ∀ R ∈ roots, crawlUpDir fs o R = .some [] R)
    (hinner : ∀ R ∈ roots, noBaseBelow o R (x :: dc.reverse) = true ∧ o.isBase (R ++ dc ++ [x ++ sStubs]) = false) :
    ∃ g R, findModule fs o.ns roots (dc ++ [x]) = some g ∧ R ∈ roots ∧ fs.isFile g = true ∧
      crawlUp fs o g = .some (dc ++ [x]) R ∧ g ∈ pkgFiles (R ++ dc) x ++ modFiles (R ++ dc) x := by
  have hcand := base_candidate fs wf hdc hx hsp hf hB
  have hpar := crawl_parent fs o hx hxi hsp hf hc
  have hver : verifyFrom fs (B ++ dc).reverse dc.length = true := by
    have := verify_of_crawl_nons fs o hns (B := B) dc.reverse (by simpa using hpar)
    simpa using this
  obtain ⟨g0, hg0⟩ := scanDir_of_verified fs (ns := o.ns) hxi hver (spellsAt_mem hsp) hf
  have hlen : (dc ++ [x]).length - 1 = dc.length := by simp
  obtain ⟨g, hg⟩ := findLoop_some_of_found fs (ns := o.ns) (last := x) (nlev := dc.length)
    (candidates fs roots (dc ++ [x])) [] ⟨(B ++ dc, B), hcand, g0, hg0⟩
  have hfm : findModule fs o.ns roots (dc ++ [x]) = some g := by
    simp only [findModule, getLast?_snoc, hlen]; exact hg
  rcases findLoop_spec fs _ _ _ hg with ⟨c, hcm, hfound⟩ | ⟨hns', _⟩
  · obtain ⟨bd, R⟩ := c
    obtain ⟨hR, _, _, hbd⟩ := (mem_candidates fs).mp hcm
    have hbd' : bd = R ++ dc := by simpa using hbd
    subst hbd'
    obtain ⟨hfile, hcr, hmem⟩ := found_claims fs o (hgood R hR) hdc hx hxi (hinner R hR).1 (hinner R hR).2 hfound
    exact ⟨g, R, hfm, hR, hfile, hcr, hmem⟩
  · rw [hns] at hns'; cases hns'

/-! ### namespace mode -/

theorem isBase_false_of_epb (h : o.epb = false) (p : Path) : o.isBase p = false := by
  simp [Opts.isBase, Opts.bases, h]

theorem helper_some_nil : ∀ {rdir : List Name} {b : Path}, helper fs o rdir = .some [] b → o.isBase b = true := by
  intro rdir
  cases rdir with
  | nil =>
    intro b h
    simp only [helper] at h
    split at h
    · next hb => cases h; exact hb
    · split at h <;> cases h
  | cons name rpar =>
    intro b h
    simp only [helper] at h
    split at h
    · next hb => cases h; exact hb
    · split at h
      · split at h
        · cases hh : (helper fs o rpar).orBase rpar.reverse with
          | none => rw [hh] at h; simp [Crawl.extend] at h
          | err n => rw [hh] at h; simp [Crawl.extend] at h
          | some mp b' => rw [hh] at h; simp [Crawl.extend] at h
        · cases h
      · split at h
        · cases h
        · split at h
          · cases h
          · cases hh : helper fs o rpar with
            | none => rw [hh] at h; simp [Crawl.extend] at h
            | err n => rw [hh] at h; simp [Crawl.extend] at h
            | some mp b' => rw [hh] at h; simp [Crawl.extend] at h

theorem helper_cons_notBase {name : Name} {rpar : List Name} (hnb : o.isBase (name :: rpar).reverse = false) :
    helper fs o (name :: rpar) =
      if hasInit fs (name :: rpar).reverse = true then
        (if isIdent (dropStubs name) = true then ((helper fs o rpar).orBase rpar.reverse).extend (dropStubs name)
         else .err (dropStubs name))
      else if isIdent (dropStubs name) = false then .none
      else if o.ns = false then .none
      else (helper fs o rpar).extend (dropStubs name) := by
  simp only [helper, hnb]
  by_cases hi : hasInit fs (name :: rpar).reverse = true
  · simp [hi]
  · by_cases hid : isIdent (dropStubs name) = true
    · by_cases hns : o.ns = true <;> simp [hi, hid, hns]
    · simp [hi, hid]

theorem orBase_extend_eq {c : Crawl} {d : Path} {x : Name} {mp : List Name} {B : Path}
    (h : (c.extend x).orBase d = .some (mp ++ [x]) B) : c = .some mp B := by
  cases c with
  | none => simp [Crawl.extend, Crawl.orBase] at h
  | err n => simp [Crawl.extend, Crawl.orBase] at h
  | some mp' b =>
    simp only [Crawl.extend, Crawl.orBase, Crawl.some.injEq] at h
    obtain ⟨h1, h2⟩ := h
    have := List.append_cancel_right h1
    subst this; subst h2; rfl

/-- without explicit bases, a crawl that collects a non-empty chain down from `B` starts at a package:
    the first directory below the base has an `__init__` file -/
theorem top_init_of_crawl (hepb : o.epb = false) {B : Path} : ∀ rq : List Name, (∀ c ∈ rq, isIdent c = true) →
    crawlUpDir fs o (B ++ rq.reverse) = .some rq.reverse B →
    ∀ t, rq.getLast? = some t → hasInit fs (B ++ [t]) = true := by
  intro rq
  induction rq with
  | nil => intro _ _ t ht; simp at ht
  | cons c rq ih =>
    intro hid h t ht
    have hc := hid c (by simp)
    have hid' : ∀ d ∈ rq, isIdent d = true := fun d hd => hid d (by simp [hd])
    unfold crawlUpDir at h
    have hrev : (B ++ (c :: rq).reverse).reverse = c :: (rq ++ B.reverse) := by simp
    have hdir : (c :: (rq ++ B.reverse)).reverse = B ++ (c :: rq).reverse := by simp
    have hcu : crawlUpDir fs o (B ++ rq.reverse) = (helper fs o (rq ++ B.reverse)).orBase (rq ++ B.reverse).reverse := by
      unfold crawlUpDir; simp
    rw [hrev, helper_cons_notBase fs o (isBase_false_of_epb o hepb _), dropStubs_ident hc, hdir] at h
    simp only [hc, if_true] at h
    by_cases hi : hasInit fs (B ++ (c :: rq).reverse) = true
    · simp only [hi, if_true] at h
      rw [← hcu] at h
      have hcd := orBase_extend_eq (by simpa using h)
      cases rq with
      | nil =>
        simp only [List.getLast?_singleton, Option.some.injEq] at ht
        subst ht
        simpa using hi
      | cons d rq' => exact ih hid' hcd t (by simpa using ht)
    · simp only [hi] at h
      by_cases hns : o.ns = false
      · simp [hns, Crawl.orBase] at h
      · simp only [hns, if_false] at h
        have hh := orBase_extend_eq (by simpa using h)
        cases rq with
        | nil =>
          have := helper_some_nil fs o (by simpa using hh)
          rw [isBase_false_of_epb o hepb] at this
          cases this
        | cons d rq' =>
          have hcd : crawlUpDir fs o (B ++ (d :: rq').reverse) = .some (d :: rq').reverse B := by
            rw [hcu, hh]; rfl
          exact ih hid' hcd t (by simpa using ht)

theorem chainOK_of_ns (hns : o.ns = true) {R : Path} : ∀ rq : List Name, (∀ c ∈ rq, isIdent c = true) →
    noBaseBelow o R rq = true →
    (∀ t, rq.getLast? = some t → o.isBase R = true ∨ hasInit fs (R ++ [t]) = true) →
    chainOK fs o R rq = true := by
  intro rq
  induction rq with
  | nil => intro _ _ _; rfl
  | cons c rq ih =>
    intro hid hnb htop
    simp only [noBaseBelow, Bool.and_eq_true, Bool.not_eq_true'] at hnb
    simp only [chainOK, Bool.and_eq_true, Bool.or_eq_true, Bool.not_eq_true']
    refine ⟨⟨⟨hid c (by simp), hnb.1⟩, ?_⟩, ?_⟩
    · cases rq with
      | nil =>
        rcases htop c (by simp) with h | h
        · right; exact ⟨hns, Or.inr h⟩
        · left; simpa using h
      | cons d rq' => right; exact ⟨hns, Or.inl (by simp)⟩
    · apply ih (fun d hd => hid d (by simp [hd])) hnb.2
      intro t ht
      cases rq with
      | nil => simp at ht
      | cons d rq' => exact htop t (by simpa using ht)

/-- `highest_init_level` counted from the innermost directory: bounded by the number of levels, and maximal
    exactly when the first directory below the root has an `__init__` file -/
theorem initLevelFrom_spec (rest : List Name) : ∀ (rq : List Name) (i best : Nat), best ≤ i →
    initLevelFrom fs (rq ++ rest) rq.length i best ≤ i + rq.length ∧
    ∀ t, rq.getLast? = some t →
      (initLevelFrom fs (rq ++ rest) rq.length i best = i + rq.length ↔ hasInit fs (rest.reverse ++ [t]) = true) := by
  intro rq
  induction rq with
  | nil => intro i best hb; simp [initLevelFrom]; omega
  | cons c rq ih =>
    intro i best hb
    have hdir : (c :: (rq ++ rest)).reverse = rest.reverse ++ rq.reverse ++ [c] := by simp
    simp only [List.cons_append, List.length_cons, initLevelFrom, hdir]
    generalize hbest : (if hasInit fs (rest.reverse ++ rq.reverse ++ [c]) = true then i + 1 else best) = best'
    have hb' : best' ≤ i + 1 := by rw [← hbest]; split <;> omega
    obtain ⟨ih1, ih2⟩ := ih (i + 1) best' hb'
    refine ⟨by omega, ?_⟩
    intro t ht
    cases rq with
    | nil =>
      simp only [List.getLast?_singleton, Option.some.injEq] at ht
      subst ht
      simp only [List.nil_append, List.length_nil, initLevelFrom, List.reverse_nil, List.append_nil] at hbest ⊢
      by_cases hi : hasInit fs (rest.reverse ++ [c]) = true
      · rw [if_pos hi] at hbest
        simp [hi, ← hbest]
      · rw [if_neg hi] at hbest
        constructor
        · intro h; omega
        · intro h; exact absurd h hi
    | cons d rq' =>
      have := ih2 t (by simpa using ht)
      rw [← this]
      simp only [List.length_cons] at *
      constructor <;> intro h <;> omega

theorem initLevel_le (R : Path) (dc : List Name) : initLevel fs (R ++ dc) dc.length ≤ dc.length := by
  have := (initLevelFrom_spec fs R.reverse dc.reverse 0 0 (Nat.le_refl 0)).1
  simpa [initLevel] using this

theorem initLevel_full (R : Path) (c : Name) (rest : List Name) :
    initLevel fs (R ++ c :: rest) (c :: rest).length = (c :: rest).length ↔ hasInit fs (R ++ [c]) = true := by
  have := (initLevelFrom_spec fs R.reverse (c :: rest).reverse 0 0 (Nat.le_refl 0)).2 c (by simp)
  simpa [initLevel] using this

/-- **Round trip with namespace packages.**  Outside the F10 cell (`hbare`), with every search root a genuine base
    (`hgood`), no explicit base inside a root along the module path (`hinner`) and — when explicit package bases
    are used — every root an explicit base (`hexp`), the file found for the module of `f` is again mapped to
    that module by `crawl_up`. -/
theorem find_claims_ns (wf : fs.WF) (hns : o.ns = true) {roots : List Path} {B : Path} {dc : List Name}
    {x : Name} {f : Path}
    (hdc : ∀ c ∈ dc, isIdent c = true) (hx : isIdent x = true) (hxi : x ≠ sInit)
    (hsp : spellsAt (B ++ dc) x f) (hf : fs.isFile f = true)
    (hc : crawlUp fs o f = .some (dc ++ [x]) B) (hB : B ∈ roots)
    (hgood : ∀ R ∈ roots, crawlUpDir fs o R = .some [] R)
    (hinner : ∀ R ∈ roots, noBaseBelow o R (x :: dc.reverse) = true ∧ o.isBase (R ++ dc ++ [x ++ sStubs]) = false)
    (hexp : o.epb = true → ∀ R ∈ roots, o.isBase R = true)
    (hbare : verifyFrom fs (B ++ dc).reverse dc.length = true ∨ ∀ R ∈ roots, nsDir fs true (R ++ dc) x = []) :
    ∃ g R, findModule fs o.ns roots (dc ++ [x]) = some g ∧ R ∈ roots ∧ fs.isFile g = true ∧
      crawlUp fs o g = .some (dc ++ [x]) R ∧ g ∈ pkgFiles (R ++ dc) x ++ modFiles (R ++ dc) x := by
  have hcand := base_candidate fs wf hdc hx hsp hf hB
  have hpar := crawl_parent fs o hx hxi hsp hf hc
  have hlen : (dc ++ [x]).length - 1 = dc.length := by simp
  rw [hns]
  by_cases hver : verifyFrom fs (B ++ dc).reverse dc.length = true
  · obtain ⟨g0, hg0⟩ := scanDir_of_verified fs (ns := true) hxi hver (spellsAt_mem hsp) hf
    obtain ⟨g, hg⟩ := findLoop_some_of_found fs (ns := true) (last := x) (nlev := dc.length)
      (candidates fs roots (dc ++ [x])) [] ⟨(B ++ dc, B), hcand, g0, hg0⟩
    have hfm : findModule fs true roots (dc ++ [x]) = some g := by
      simp only [findModule, getLast?_snoc, hlen]; exact hg
    rcases findLoop_spec fs _ _ _ hg with ⟨c, hcm, hfound⟩ | ⟨_, hall, _⟩
    · obtain ⟨bd, R⟩ := c
      obtain ⟨hR, _, _, hbd⟩ := (mem_candidates fs).mp hcm
      have hbd' : bd = R ++ dc := by simpa using hbd
      subst hbd'
      obtain ⟨hfile, hcr, hmem⟩ := found_claims fs o (hgood R hR) hdc hx hxi (hinner R hR).1 (hinner R hR).2 hfound
      exact ⟨g, R, hfm, hR, hfile, hcr, hmem⟩
    · obtain ⟨l, hl⟩ := hall _ hcand
      rw [hg0] at hl; cases hl
  · have hver' : verifyFrom fs (B ++ dc).reverse dc.length = false := by simpa using hver
    have hnsd : ∀ R ∈ roots, nsDir fs true (R ++ dc) x = [] := by
      rcases hbare with h | h
      · exact absurd h hver
      · exact h
    obtain ⟨l, hl, hfl⟩ := scanDir_of_unverified fs (ns := true) hxi hver' (spellsAt_mem hsp) hf
    have hmemf : (f, initLevel fs (B ++ dc) dc.length) ∈ missesOf fs true x dc.length (candidates fs roots (dc ++ [x])) :=
      (mem_missesOf fs).mpr ⟨(B ++ dc, B), hcand, l, hl, hfl, (levelOf_of_ne fs hxi f).symm⟩
    obtain ⟨g, hg⟩ := findLoop_some_of_near fs (last := x) (nlev := dc.length) (candidates fs roots (dc ++ [x])) []
      (by intro h; simp only [List.nil_append] at h; rw [h] at hmemf; cases hmemf)
    have hfm : findModule fs true roots (dc ++ [x]) = some g := by
      simp only [findModule, getLast?_snoc, hlen]; exact hg
    rcases findLoop_spec fs _ _ _ hg with ⟨c, hcm, hfound⟩ | ⟨_, _, lvl, hmem, hmax⟩
    · obtain ⟨bd, R⟩ := c
      obtain ⟨hR, _, _, hbd⟩ := (mem_candidates fs).mp hcm
      have hbd' : bd = R ++ dc := by simpa using hbd
      subst hbd'
      obtain ⟨hfile, hcr, hmem⟩ := found_claims fs o (hgood R hR) hdc hx hxi (hinner R hR).1 (hinner R hR).2 hfound
      exact ⟨g, R, hfm, hR, hfile, hcr, hmem⟩
    · simp only [List.nil_append] at hmem hmax
      obtain ⟨c, hcm, l', hs', hgl', hlvl⟩ := (mem_missesOf fs).mp hmem
      obtain ⟨bd, R⟩ := c
      obtain ⟨hR, _, _, hbd⟩ := (mem_candidates fs).mp hcm
      have hbd' : bd = R ++ dc := by simpa using hbd
      subst hbd'
      simp only at hs' hgl' hlvl
      rw [levelOf_of_ne fs hxi] at hlvl
      have hgfile : g ∈ pkgFiles (R ++ dc) x ++ modFiles (R ++ dc) x ∧ fs.isFile g = true := by
        rcases scanDir_misses fs hs' g hgl' with h | h
        · exact ⟨h.1, h.2⟩
        · rw [hnsd R hR] at h; cases h
      cases dc with
      | nil => simp [verifyFrom] at hver
      | cons c1 rest =>
        have hdcr : ∀ c ∈ (c1 :: rest).reverse, isIdent c = true := by
          intro c hc; exact hdc c (List.mem_reverse.mp hc)
        have hinn := hinner R hR
        simp only [noBaseBelow, Bool.and_eq_true, Bool.not_eq_true'] at hinn
        have htop : o.isBase R = true ∨ hasInit fs (R ++ [c1]) = true := by
          by_cases hepb : o.epb = true
          · exact Or.inl (hexp hepb R hR)
          · have hepb' : o.epb = false := by simpa using hepb
            right
            have hBtop : hasInit fs (B ++ [c1]) = true :=
              top_init_of_crawl fs o hepb' (B := B) (c1 :: rest).reverse hdcr
                (by simpa using hpar) c1 (by simp)
            have hLf := (initLevel_full fs B c1 rest).mpr hBtop
            have h1 := hmax _ hmemf
            simp only at h1
            rw [hLf] at h1
            have h2 := initLevel_le fs R (c1 :: rest)
            rw [← hlvl] at h2
            have : initLevel fs (R ++ c1 :: rest) (c1 :: rest).length = (c1 :: rest).length := by
              rw [← hlvl]; omega
            exact (initLevel_full fs R c1 rest).mp this
        have hchain := chainOK_of_ns fs o hns (R := R) (c1 :: rest).reverse hdcr hinn.1.2
          (by intro t ht; have : t = c1 := by simpa using ht.symm
              subst this; exact htop)
        have hbd := (chain_up fs o (hgood R hR) _ hchain).1
        simp only [List.reverse_reverse] at hbd
        have hcr := crawl_candidate fs o hbd hx hxi (by simpa using hinn.1.1) hinn.2 hgfile.1 hgfile.2
        exact ⟨g, R, hfm, hR, hgfile.2, hcr, hgfile.1⟩

/-- **module → path → module.**  Whatever *file* `find_module` returns for an importable module `dc.x` under search
    roots that are genuine bases is named `dc.x` again by `crawl_up` — provided, for a namespace near miss, that the
    top-level directory is a regular package or the root an explicit base (`htop`; otherwise the crawl names the file
    relative to a deeper directory: the by-design difference between `mypy -p` and `mypy FILES`). -/
theorem find_then_crawl (wf : fs.WF) {roots : List Path} {dc : List Name} {x : Name} {g : Path}
    (hdc : ∀ c ∈ dc, isIdent c = true) (hx : isIdent x = true) (hxi : x ≠ sInit)
    (hgood : ∀ R ∈ roots, crawlUpDir fs o R = .some [] R)
    (hinner : ∀ R ∈ roots, noBaseBelow o R (x :: dc.reverse) = true ∧ o.isBase (R ++ dc ++ [x ++ sStubs]) = false)
    (htop : ∀ R ∈ roots, fs.isDir (R ++ dc) = true → ∀ c1, dc.head? = some c1 →
      o.isBase R = true ∨ hasInit fs (R ++ [c1]) = true)
    (hfind : findModule fs o.ns roots (dc ++ [x]) = some g) (hfile : fs.isFile g = true) :
    ∃ R ∈ roots, crawlUp fs o g = .some (dc ++ [x]) R := by
  have hlen : (dc ++ [x]).length - 1 = dc.length := by simp
  simp only [findModule, getLast?_snoc, hlen] at hfind
  rcases findLoop_spec fs _ _ _ hfind with ⟨c, hcm, hfound⟩ | ⟨hns, _, lvl, hmem, _⟩
  · obtain ⟨bd, R⟩ := c
    obtain ⟨hR, _, _, hbd⟩ := (mem_candidates fs).mp hcm
    have hbd' : bd = R ++ dc := by simpa using hbd
    subst hbd'
    obtain ⟨_, hcr, _⟩ := found_claims fs o (hgood R hR) hdc hx hxi (hinner R hR).1 (hinner R hR).2 hfound
    exact ⟨R, hR, hcr⟩
  · simp only [List.nil_append] at hmem
    obtain ⟨c, hcm, l', hs', hgl', _⟩ := (mem_missesOf fs).mp hmem
    obtain ⟨bd, R⟩ := c
    obtain ⟨hR, _, hisdir, hbd⟩ := (mem_candidates fs).mp hcm
    have hbd' : bd = R ++ dc := by simpa using hbd
    subst hbd'
    have hisdir' : fs.isDir (R ++ dc) = true := by simpa using hisdir
    simp only at hs' hgl'
    have hgmem : g ∈ pkgFiles (R ++ dc) x ++ modFiles (R ++ dc) x := by
      rcases scanDir_misses fs hs' g hgl' with h | h
      · exact h.1
      · -- the namespace directory is not a file
        unfold nsDir at h
        split at h
        · next hc =>
          simp only [List.mem_singleton] at h
          subst h
          simp only [Bool.and_eq_true, Bool.not_eq_true'] at hc
          rw [hfile] at hc
          exact absurd hc.2 (by simp)
        · cases h
    have hns' : o.ns = true := hns
    have hinn := hinner R hR
    simp only [noBaseBelow, Bool.and_eq_true, Bool.not_eq_true'] at hinn
    have hdcr : ∀ c ∈ dc.reverse, isIdent c = true := fun c hc => hdc c (List.mem_reverse.mp hc)
    have hchain := chainOK_of_ns fs o hns' (R := R) dc.reverse hdcr hinn.1.2
      (by intro t ht
          have : dc.head? = some t := by simpa [List.getLast?_reverse] using ht
          exact htop R hR hisdir' t this)
    have hbd := (chain_up fs o (hgood R hR) _ hchain).1
    simp only [List.reverse_reverse] at hbd
    exact ⟨R, hR, crawl_candidate fs o hbd hx hxi (by simpa using hinn.1.1) hinn.2 hgmem hfile⟩

end Layout
