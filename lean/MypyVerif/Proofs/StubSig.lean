import MypyVerif.Model.StubSig
import MypyVerif.Proofs.StubDefault
/-!
Helper lemmas for C19 (a): the emit loop over segments of the argument list, the parser over segments of
the emitted items.  Core Lean only.
-/
namespace StubSig
open StubDefault

variable (c : DCfg) (sl : Nat → Nat) (el : Ident → Bool)

/-- the ArgSigs of a run of arguments starting at index `i` -/
def itemsFrom (i : Nat) : List Arg → List Item
  | [] => []
  | a :: r => argItem c sl (i == 0) a :: itemsFrom (i + 1) r

theorem itemsFrom_length (i : Nat) (l : List Arg) : (itemsFrom c sl i l).length = l.length := by
  induction l generalizing i with
  | nil => rfl
  | cons a r ih => simp [itemsFrom, ih]

theorem itemsFrom_append (i : Nat) (l1 l2 : List Arg) :
    itemsFrom c sl i (l1 ++ l2) = itemsFrom c sl i l1 ++ itemsFrom c sl (i + l1.length) l2 := by
  induction l1 generalizing i with
  | nil => simp [itemsFrom]
  | cons a r ih =>
    simp only [List.cons_append, itemsFrom, ih, List.length_cons]
    have : i + 1 + r.length = i + (r.length + 1) := by omega
    rw [this]

def countPO (l : List Arg) : Nat := (l.filter (·.posOnly)).length

theorem countPO_append (l1 l2 : List Arg) : countPO (l1 ++ l2) = countPO l1 + countPO l2 := by
  simp [countPO]

/-! ### the emit loop -/

theorem fold_nonNamed (seg : List Arg) (h : ∀ a ∈ seg, a.kind ≠ .named) (st : ESt) :
    seg.foldl (estep c sl false false) st =
      { out := st.out ++ itemsFrom c sl st.idx seg, cnt := st.cnt + countPO seg, idx := st.idx + seg.length } := by
  induction seg generalizing st with
  | nil => simp [itemsFrom, countPO]
  | cons a r ih =>
    have ha : a.kind ≠ .named := h a (by simp)
    have hr : ∀ x ∈ r, x.kind ≠ .named := fun x hx => h x (by simp [hx])
    have hk : (a.kind == AKind.named) = false := by
      cases hk' : a.kind <;> simp_all
    rw [List.foldl_cons, ih hr]
    simp only [estep, hk, Bool.false_and, Bool.false_eq_true, ↓reduceIte, itemsFrom, countPO, List.filter_cons,
      List.length_cons, List.append_assoc, List.singleton_append]
    cases a.posOnly <;> simp <;> omega

theorem any_starred_append (l : List Item) (x : Item) (h : l.any Item.starred = true) :
    (l ++ [x]).any Item.starred = true := by
  simp [List.any_append, h]

theorem fold_named_starred (seg : List Arg) (h : ∀ a ∈ seg, a.kind = .named) (st : ESt)
    (hs : st.out.any Item.starred = true) :
    seg.foldl (estep c sl false false) st =
      { out := st.out ++ itemsFrom c sl st.idx seg, cnt := st.cnt + countPO seg, idx := st.idx + seg.length } := by
  induction seg generalizing st with
  | nil => simp [itemsFrom, countPO]
  | cons a r ih =>
    have ha : a.kind = .named := h a (by simp)
    have hr : ∀ x ∈ r, x.kind = .named := fun x hx => h x (by simp [hx])
    rw [List.foldl_cons]
    have hstep : estep c sl false false st a =
        { out := st.out ++ [argItem c sl (st.idx == 0) a], cnt := if a.posOnly then st.cnt + 1 else st.cnt,
          idx := st.idx + 1 } := by
      simp [estep, ha, hs]
    rw [hstep, ih hr]
    · simp only [itemsFrom, countPO, List.filter_cons, List.append_assoc, List.singleton_append, List.length_cons]
      cases a.posOnly <;> simp <;> omega
    · exact any_starred_append _ _ hs

theorem fold_named_fresh (a : Arg) (r : List Arg) (h : ∀ x ∈ a :: r, x.kind = .named) (st : ESt)
    (hs : st.out.any Item.starred = false) :
    (a :: r).foldl (estep c sl false false) st =
      { out := st.out ++ Item.bareStar :: itemsFrom c sl st.idx (a :: r), cnt := st.cnt + countPO (a :: r),
        idx := st.idx + (a :: r).length } := by
  have ha : a.kind = .named := h a (by simp)
  have hr : ∀ x ∈ r, x.kind = .named := fun x hx => h x (by simp [hx])
  rw [List.foldl_cons]
  have hstep : estep c sl false false st a =
      { out := st.out ++ [Item.bareStar] ++ [argItem c sl (st.idx == 0) a],
        cnt := if a.posOnly then st.cnt + 1 else st.cnt, idx := st.idx + 1 } := by
    simp [estep, ha, hs]
  rw [hstep, fold_named_starred c sl r hr]
  · simp only [itemsFrom, countPO, List.filter_cons, List.append_assoc, List.singleton_append, List.length_cons,
      List.cons_append, List.nil_append]
    cases a.posOnly <;> simp <;> omega
  · simp [List.any_append, Item.starred]

/-! ### what `argItem` looks like per kind -/

theorem argItem_param (f : Bool) (a : Arg) (h : a.kind = .pos ∨ a.kind = .named) :
    ∃ ann d, argItem c sl f a = .param a.name ann d ∧ d.isSome = a.dflt.isSome := by
  unfold argItem
  cases hd : a.dflt with
  | some d => exact ⟨_, _, rfl, rfl⟩
  | none =>
    rcases h with h | h <;> simp only [h] <;> exact ⟨_, _, rfl, rfl⟩

/-- … and when the initializer is `good`, the rendered default is well-formed text -/
theorem argItem_param_ok (f : Bool) (a : Arg) (h : a.kind = .pos ∨ a.kind = .named)
    (hg : ∀ d ∈ a.dflt, d.good c = true) :
    ∃ ann d, argItem c sl f a = .param a.name ann d ∧ d.isSome = a.dflt.isSome ∧ dfltLexOk d = true := by
  unfold argItem
  cases hd : a.dflt with
  | some d => exact ⟨_, _, rfl, rfl, defaultToks_lexOk c sl d (hg d (by simp [hd]))⟩
  | none =>
    rcases h with h | h <;> simp only [h] <;> exact ⟨_, _, rfl, rfl, rfl⟩

def GoodArgs (l : List Arg) : Prop := ∀ a ∈ l, ∀ d ∈ a.dflt, d.good c = true

theorem argItem_star (f : Bool) (a : Arg) (hk : a.kind = .star) (hd : a.dflt = none) :
    ∃ ann, argItem c sl f a = .vararg a.name ann := by
  unfold argItem; simp only [hd, hk]; exact ⟨_, rfl⟩

theorem argItem_star2 (f : Bool) (a : Arg) (hk : a.kind = .star2) (hd : a.dflt = none) :
    ∃ ann, argItem c sl f a = .kwarg a.name ann := by
  unfold argItem; simp only [hd, hk]; exact ⟨_, rfl⟩

theorem itemsFrom_params_not_starred (i : Nat) (l : List Arg) (h : ∀ a ∈ l, a.kind = .pos ∨ a.kind = .named) :
    (itemsFrom c sl i l).any Item.starred = false := by
  induction l generalizing i with
  | nil => rfl
  | cons a r ih =>
    obtain ⟨ann, d, he, _⟩ := argItem_param c sl (i == 0) a (h a (by simp))
    simp only [itemsFrom, List.any_cons, he, Item.starred, Bool.false_or]
    exact ih _ (fun x hx => h x (by simp [hx]))

/-! ### the parser over segments -/

theorem run_append (st : PSt) (a b : List Item) :
    run st (a ++ b) = (run st a).bind fun st' => run st' b := by
  induction a generalizing st with
  | nil => simp [run]
  | cons x r ih =>
    simp only [List.cons_append, run]
    cases pstep st x with
    | none => simp
    | some st' => simp [ih]

theorem mono_append (sd : Bool) (l1 l2 : List Bool) :
    mono sd (l1 ++ l2) = (mono sd l1 && mono (sd || l1.any id) l2) := by
  induction l1 generalizing sd with
  | nil => simp [mono]
  | cons d r ih =>
    simp only [List.cons_append, mono, ih, List.any_cons, id]
    cases sd <;> cases d <;> simp

/-- positional parameters, before or after `/` -/
theorem run_pos (seg : List Arg) (hk : ∀ a ∈ seg, a.kind = .pos) (i : Nat) (ph : Phase) (sd nk : Bool)
    (acc : List Summ) (hph : ph = .pre ∨ ph = .post) (hg : GoodArgs c seg)
    (hm : mono sd (seg.map fun a => a.dflt.isSome) = true) :
    run { ph := ph, sd := sd, nk := nk, acc := acc } (itemsFrom c sl i seg) =
      some { ph := ph, sd := sd || seg.any (fun a => a.dflt.isSome), nk := nk,
             acc := acc ++ seg.map fun a => (a.name, PKind.pos, a.dflt.isSome) } := by
  induction seg generalizing i sd acc with
  | nil => simp [itemsFrom, run]
  | cons a r ih =>
    obtain ⟨ann, d, he, hd, hok⟩ := argItem_param_ok c sl (i == 0) a (Or.inl (hk a (by simp))) (hg a (by simp))
    simp only [List.map_cons, mono, Bool.and_eq_true] at hm
    have hstep : pstep { ph := ph, sd := sd, nk := nk, acc := acc } (.param a.name ann d) =
        some { ph := ph, sd := sd || a.dflt.isSome, nk := nk, acc := acc ++ [(a.name, PKind.pos, a.dflt.isSome)] } := by
      have hnot : (sd && d.isNone) = false := by
        have := hm.1
        rw [← hd] at this
        cases sd <;> cases d <;> simp_all
      rcases hph with rfl | rfl <;> simp [pstep, hnot, hd, hok]
    simp only [itemsFrom, run, he, hstep, Option.bind_some]
    rw [ih (fun x hx => hk x (by simp [hx])) _ _ _ (fun x hx => hg x (by simp [hx])) hm.2]
    simp [Bool.or_assoc, List.append_assoc]

/-- keyword-only parameters, after `*` -/
theorem run_kw (seg : List Arg) (hk : ∀ a ∈ seg, a.kind = .named) (hg : GoodArgs c seg) (i : Nat) (sd nk : Bool)
    (acc : List Summ) :
    run { ph := .kw, sd := sd, nk := nk, acc := acc } (itemsFrom c sl i seg) =
      some { ph := .kw, sd := sd, nk := nk && seg.isEmpty,
             acc := acc ++ seg.map fun a => (a.name, PKind.kwOnly, a.dflt.isSome) } := by
  induction seg generalizing i nk acc with
  | nil => simp [itemsFrom, run]
  | cons a r ih =>
    obtain ⟨ann, d, he, hd, hok⟩ := argItem_param_ok c sl (i == 0) a (Or.inr (hk a (by simp))) (hg a (by simp))
    simp only [itemsFrom, run, he, pstep, hok, Bool.not_true, Bool.false_eq_true, ↓reduceIte, Option.bind_some]
    rw [ih (fun x hx => hk x (by simp [hx])) (fun x hx => hg x (by simp [hx]))]
    simp [hd, List.append_assoc]

theorem insertAt_length_append (l1 l2 : List α) (x : α) :
    insertAt l1.length x (l1 ++ l2) = l1 ++ x :: l2 := by
  simp [insertAt]

/-! ## (a) signature emission -/

def PySig.aPo (s : PySig) : List Arg := s.po.map (mkArgE el .pos true)
def PySig.aPp (s : PySig) : List Arg := s.pp.map (mkArgE el .pos false)
def PySig.aVa (s : PySig) : List Arg := s.va.toList.map (mkVArgE el .star)
def PySig.aKw (s : PySig) : List Arg := s.kw.map (mkArgE el .named false)
def PySig.aKa (s : PySig) : List Arg := s.ka.toList.map (mkVArgE el .star2)

/-- the bare `*` is emitted exactly when there are keyword-only parameters and no `*args` -/
def PySig.starItems (s : PySig) : List Item := if s.va.isNone && !s.kw.isEmpty then [.bareStar] else []

/-- the emitted parameter list, written along the grammar's production -/
def PySig.shape (s : PySig) : List Item :=
  itemsFrom c sl 0 (s.aPo el) ++ (if s.po.isEmpty then [] else [Item.slash]) ++
  itemsFrom c sl s.po.length (s.aPp el) ++ itemsFrom c sl (s.po.length + s.pp.length) (s.aVa el) ++ s.starItems ++
  itemsFrom c sl (s.po.length + s.pp.length + (s.aVa el).length) (s.aKw el) ++
  itemsFrom c sl (s.po.length + s.pp.length + (s.aVa el).length + s.kw.length) (s.aKa el)

theorem countPO_aPo (s : PySig) : countPO (s.aPo el) = s.po.length := by
  simp [countPO, PySig.aPo, mkArgE, List.filter_map, Function.comp_def]

theorem countPO_noElide (l : List PParam) (k : AKind) (h : ∀ p ∈ l, el p.name = false) :
    countPO (l.map (mkArgE el k false)) = 0 := by
  induction l with
  | nil => rfl
  | cons p r ih =>
    have hp := h p (by simp)
    have := ih (fun x hx => h x (by simp [hx]))
    simp only [countPO, List.map_cons, List.filter_cons, mkArgE, hp, Bool.or_self, Bool.false_eq_true,
      ↓reduceIte] at this ⊢
    exact this

theorem countPO_v (o : Option VParam) (k : AKind) (h : ∀ p ∈ o, el p.name = false) :
    countPO (o.toList.map (mkVArgE el k)) = 0 := by
  cases o with
  | none => rfl
  | some v => have := h v rfl; simp [countPO, mkVArgE, this]

/-- The loop of `_get_func_args` followed by the `/` insertion produces exactly the grammar-shaped list. -/
theorem emit_shape (s : PySig) (hne : s.NoElideE el) : emitArgs c sl false false (s.toMypyE el) = s.shape c sl el := by
  obtain ⟨hpp, hva, hkw, hka⟩ := hne
  have hsplit : s.toMypyE el = ((s.aPo el) ++ (s.aPp el) ++ (s.aVa el)) ++ (s.aKw el) ++ (s.aKa el) := by
    simp [PySig.toMypyE, PySig.aPo, PySig.aPp, PySig.aVa, PySig.aKw, PySig.aKa]
  have h1 : ∀ a ∈ (s.aPo el) ++ (s.aPp el) ++ (s.aVa el), a.kind ≠ .named := by
    intro a ha
    simp only [PySig.aPo, PySig.aPp, PySig.aVa, List.mem_append, List.mem_map] at ha
    rcases ha with (⟨p, _, rfl⟩ | ⟨p, _, rfl⟩) | ⟨p, _, rfl⟩ <;> simp [mkArgE, mkVArgE]
  have hkwk : ∀ a ∈ (s.aKw el), a.kind = .named := by
    intro a ha; simp only [PySig.aKw, List.mem_map] at ha; obtain ⟨p, _, rfl⟩ := ha; rfl
  have hkak : ∀ a ∈ (s.aKa el), a.kind ≠ .named := by
    intro a ha; simp only [PySig.aKa, List.mem_map] at ha; obtain ⟨p, _, rfl⟩ := ha; simp [mkVArgE]
  have hcnt : countPO ((s.aPo el) ++ (s.aPp el) ++ (s.aVa el)) = s.po.length := by
    rw [countPO_append, countPO_append, countPO_aPo el]
    have := countPO_noElide el s.pp .pos hpp
    have := countPO_v el s.va .star hva
    simp_all [PySig.aPp, PySig.aVa]
  have hcntkw : countPO (s.aKw el) = 0 := countPO_noElide el s.kw .named hkw
  have hcntka : countPO (s.aKa el) = 0 := countPO_v el s.ka .star2 hka
  -- the state after the three non-keyword segments
  have hst1 := fold_nonNamed c sl ((s.aPo el) ++ (s.aPp el) ++ (s.aVa el)) h1 { out := [], cnt := 0, idx := 0 }
  simp only [List.nil_append, Nat.zero_add, hcnt] at hst1
  -- starred-ness of what has been collected so far
  have hstar : (itemsFrom c sl 0 ((s.aPo el) ++ (s.aPp el) ++ (s.aVa el))).any Item.starred = s.va.isSome := by
    rw [itemsFrom_append, List.any_append]
    have hp : (itemsFrom c sl 0 ((s.aPo el) ++ (s.aPp el))).any Item.starred = false := by
      apply itemsFrom_params_not_starred
      intro a ha
      simp only [PySig.aPo, PySig.aPp, List.mem_append, List.mem_map] at ha
      rcases ha with ⟨p, _, rfl⟩ | ⟨p, _, rfl⟩ <;> exact Or.inl rfl
    rw [hp, Bool.false_or]
    cases hv : s.va with
    | none => simp [PySig.aVa, hv, itemsFrom]
    | some v =>
      have he : ∀ f, (argItem c sl f (mkVArgE el .star v)).starred = true := by
        intro f; obtain ⟨ann, he⟩ := argItem_star c sl f (mkVArgE el .star v) rfl rfl; rw [he]; rfl
      simp [PySig.aVa, hv, itemsFrom, he]
  -- the keyword-only segment
  have hst2 : ((s.aKw el)).foldl (estep c sl false false)
        { out := itemsFrom c sl 0 ((s.aPo el) ++ (s.aPp el) ++ (s.aVa el)), cnt := s.po.length, idx := ((s.aPo el) ++ (s.aPp el) ++ (s.aVa el)).length } =
      { out := itemsFrom c sl 0 ((s.aPo el) ++ (s.aPp el) ++ (s.aVa el)) ++ s.starItems ++
                 itemsFrom c sl ((s.aPo el) ++ (s.aPp el) ++ (s.aVa el)).length (s.aKw el),
        cnt := s.po.length, idx := ((s.aPo el) ++ (s.aPp el) ++ (s.aVa el)).length + (s.aKw el).length } := by
    cases hk : (s.aKw el) with
    | nil =>
      have : s.kw = [] := by simpa [PySig.aKw] using hk
      simp [itemsFrom, PySig.starItems, this]
    | cons a r =>
      have hkne : s.kw.isEmpty = false := by
        cases hq : s.kw with
        | nil => simp [PySig.aKw, hq] at hk
        | cons _ _ => rfl
      rw [hk] at hkwk hcntkw
      cases hv : s.va with
      | none =>
        rw [fold_named_fresh c sl a r hkwk _ (by rw [hstar, hv]; rfl)]
        simp [PySig.starItems, hv, hkne, hcntkw]
      | some v =>
        rw [fold_named_starred c sl (a :: r) hkwk _ (by rw [hstar, hv]; rfl)]
        simp [PySig.starItems, hv, hcntkw]
  have hst3 := fold_nonNamed c sl (s.aKa el) hkak
    { out := itemsFrom c sl 0 ((s.aPo el) ++ (s.aPp el) ++ (s.aVa el)) ++ s.starItems ++
               itemsFrom c sl ((s.aPo el) ++ (s.aPp el) ++ (s.aVa el)).length (s.aKw el),
      cnt := s.po.length, idx := ((s.aPo el) ++ (s.aPp el) ++ (s.aVa el)).length + (s.aKw el).length }
  simp only [hcntka, Nat.add_zero] at hst3
  have hlen : ((s.aPo el) ++ (s.aPp el) ++ (s.aVa el)).length = s.po.length + s.pp.length + (s.aVa el).length := by
    simp [PySig.aPo, PySig.aPp]; omega
  have hlenkw : (s.aKw el).length = s.kw.length := by simp [PySig.aKw]
  unfold emitArgs
  rw [hsplit, List.foldl_append, List.foldl_append, hst1, hst2, hst3]
  simp only [hlen, hlenkw]
  rw [itemsFrom_append, itemsFrom_append]
  have hpolen : (itemsFrom c sl 0 (s.aPo el)).length = s.po.length := by
    rw [itemsFrom_length]; simp [PySig.aPo]
  have hapolen : (s.aPo el).length = s.po.length := by simp [PySig.aPo]
  have happlen : (s.aPp el).length = s.pp.length := by simp [PySig.aPp]
  unfold PySig.shape
  cases hpo : s.po with
  | nil =>
    simp [PySig.aPo, hpo, itemsFrom, happlen]
  | cons p r =>
    have hne0 : ¬ (p :: r).length = 0 := by simp
    rw [hpo] at hpolen hapolen
    simp only [hne0, ↓reduceIte, List.isEmpty_cons, Bool.false_eq_true, hapolen, happlen,
      List.length_append, Nat.zero_add, List.append_assoc]
    rw [← hpolen, insertAt_length_append]
    simp [hpolen]

theorem aPo_hasD (s : PySig) : ((s.aPo el).map fun a => a.dflt.isSome) = s.po.map PParam.hasD := by
  simp [PySig.aPo, mkArgE, PParam.hasD, Function.comp_def]
theorem aPp_hasD (s : PySig) : ((s.aPp el).map fun a => a.dflt.isSome) = s.pp.map PParam.hasD := by
  simp [PySig.aPp, mkArgE, PParam.hasD, Function.comp_def]

/-- parsing the positional part of the shape -/
theorem run_positional (s : PySig) (hd : s.DefaultsOk) (hgd : s.GoodDefaults c) :
    run PSt.init (itemsFrom c sl 0 (s.aPo el) ++ (if s.po.isEmpty then [] else [Item.slash]) ++
        itemsFrom c sl s.po.length (s.aPp el)) =
      some { ph := if s.po.isEmpty then .pre else .post, sd := (s.po ++ s.pp).any PParam.hasD, nk := false,
             acc := s.po.map (fun p => (p.name, PKind.posOnly, p.hasD)) ++
                    s.pp.map (fun p => (p.name, PKind.pos, p.hasD)) } := by
  unfold PySig.DefaultsOk at hd
  rw [List.map_append, mono_append, Bool.and_eq_true] at hd
  obtain ⟨hm1, hm2⟩ := hd
  have hkpo : ∀ a ∈ (s.aPo el), a.kind = .pos := by
    intro a ha; simp only [PySig.aPo, List.mem_map] at ha; obtain ⟨p, _, rfl⟩ := ha; rfl
  have hkpp : ∀ a ∈ (s.aPp el), a.kind = .pos := by
    intro a ha; simp only [PySig.aPp, List.mem_map] at ha; obtain ⟨p, _, rfl⟩ := ha; rfl
  have hfun : (fun x : PParam => x.dflt.isSome) = PParam.hasD := rfl
  have hanyPo : ((s.aPo el).any fun a => a.dflt.isSome) = s.po.any PParam.hasD := by
    simp [PySig.aPo, mkArgE, List.any_map, Function.comp_def, hfun]
  have hanyPp : ((s.aPp el).any fun a => a.dflt.isSome) = s.pp.any PParam.hasD := by
    simp [PySig.aPp, mkArgE, List.any_map, Function.comp_def, hfun]
  have hgpo : GoodArgs c (s.aPo el) := by
    intro a ha d hdm
    simp only [PySig.aPo, List.mem_map] at ha; obtain ⟨p, hp, rfl⟩ := ha
    exact hgd p (by simp [hp]) d hdm
  have hgpp : GoodArgs c (s.aPp el) := by
    intro a ha d hdm
    simp only [PySig.aPp, List.mem_map] at ha; obtain ⟨p, hp, rfl⟩ := ha
    exact hgd p (by simp [hp]) d hdm
  have hanyId : ((s.po.map PParam.hasD).any id) = s.po.any PParam.hasD := by
    simp [List.any_map, Function.comp_def]
  have haccPo : ((s.aPo el).map fun a => (a.name, PKind.pos, a.dflt.isSome)) =
      s.po.map fun p => (p.name, PKind.pos, p.hasD) := by
    simp [PySig.aPo, mkArgE, PParam.hasD, Function.comp_def]
  have haccPp : ((s.aPp el).map fun a => (a.name, PKind.pos, a.dflt.isSome)) =
      s.pp.map fun p => (p.name, PKind.pos, p.hasD) := by
    simp [PySig.aPp, mkArgE, PParam.hasD, Function.comp_def]
  rw [run_append, run_append]
  rw [show PSt.init = { ph := .pre, sd := false, nk := false, acc := [] } from rfl]
  rw [run_pos c sl (s.aPo el) hkpo 0 .pre false false [] (Or.inl rfl) hgpo (by rw [aPo_hasD]; exact hm1)]
  simp only [Option.bind_some, Bool.false_or, List.nil_append, hanyPo, haccPo]
  rw [hanyId] at hm2
  cases hpo : s.po with
  | nil =>
    simp only [List.isEmpty_nil, ↓reduceIte, run, Option.bind_some, List.any_nil, List.map_nil, List.length_nil]
    rw [hpo] at hm2
    rw [run_pos c sl (s.aPp el) hkpp 0 .pre false false [] (Or.inl rfl) hgpp (by rw [aPp_hasD]; simpa using hm2)]
    simp [hanyPp, haccPp]
  | cons p r =>
    rw [hpo] at hm2
    simp only [List.isEmpty_cons, Bool.false_eq_true, ↓reduceIte, run, pstep, List.map_cons, List.isEmpty_cons,
      Option.bind_some]
    rw [run_pos c sl (s.aPp el) hkpp _ .post _ false _ (Or.inr rfl) hgpp (by rw [aPp_hasD]; exact hm2)]
    simp [hanyPp, haccPp, toPosOnly, Function.comp_def, Bool.or_assoc]

/-- parsing what follows the positional part -/
theorem run_tail (s : PySig) (hgd : s.GoodDefaults c) (i j k : Nat) (ph : Phase) (sd : Bool) (acc : List Summ)
    (hph : ph = .pre ∨ ph = .post) :
    ∃ st', run { ph := ph, sd := sd, nk := false, acc := acc }
        (itemsFrom c sl i (s.aVa el) ++ s.starItems ++ itemsFrom c sl j (s.aKw el) ++ itemsFrom c sl k (s.aKa el)) = some st' ∧
      st'.nk = false ∧
      st'.acc = acc ++ s.va.toList.map (fun p => (p.name, PKind.varArg, false)) ++
                s.kw.map (fun p => (p.name, PKind.kwOnly, p.hasD)) ++
                s.ka.toList.map (fun p => (p.name, PKind.kwArg, false)) := by
  have hkw : ∀ a ∈ (s.aKw el), a.kind = .named := by
    intro a ha; simp only [PySig.aKw, List.mem_map] at ha; obtain ⟨p, _, rfl⟩ := ha; rfl
  have hacckw : ((s.aKw el).map fun a => (a.name, PKind.kwOnly, a.dflt.isSome)) =
      s.kw.map fun p => (p.name, PKind.kwOnly, p.hasD) := by
    simp [PySig.aKw, mkArgE, PParam.hasD, Function.comp_def]
  have hemp : (s.aKw el).isEmpty = s.kw.isEmpty := by simp [PySig.aKw]
  have hgkw : GoodArgs c (s.aKw el) := by
    intro a ha d hdm
    simp only [PySig.aKw, List.mem_map] at ha; obtain ⟨p, hp, rfl⟩ := ha
    exact hgd p (by simp [hp]) d hdm
  -- the `**kwargs` step, from any phase but `done`, with no pending bare star
  have hka : ∀ (ph' : Phase) (acc' : List Summ), ph' ≠ .done →
      ∃ st', run { ph := ph', sd := sd, nk := false, acc := acc' } (itemsFrom c sl k (s.aKa el)) = some st' ∧
        st'.nk = false ∧ st'.acc = acc' ++ s.ka.toList.map (fun p => (p.name, PKind.kwArg, false)) := by
    intro ph' acc' hne
    cases hk : s.ka with
    | none => exact ⟨{ ph := ph', sd := sd, nk := false, acc := acc' }, by simp [PySig.aKa, hk, itemsFrom, run], rfl, by simp⟩
    | some v =>
      obtain ⟨ann, he⟩ := argItem_star2 c sl (k == 0) (mkVArgE el .star2 v) rfl rfl
      have he' : argItem c sl (k == 0) (mkVArgE el .star2 v) = .kwarg v.name ann := he
      refine ⟨{ ph := .done, sd := sd, nk := false, acc := acc' ++ [(v.name, PKind.kwArg, false)] }, ?_, rfl, by simp⟩
      cases ph' <;> simp_all [PySig.aKa, itemsFrom, run, pstep]
  rw [run_append, run_append, run_append]
  cases hv : s.va with
  | some v =>
    obtain ⟨ann, he⟩ := argItem_star c sl (i == 0) (mkVArgE el .star v) rfl rfl
    have he' : argItem c sl (i == 0) (mkVArgE el .star v) = .vararg v.name ann := he
    have h1 : run { ph := ph, sd := sd, nk := false, acc := acc } (itemsFrom c sl i (s.aVa el)) =
        some { ph := .kw, sd := sd, nk := false, acc := acc ++ [(v.name, PKind.varArg, false)] } := by
      rcases hph with rfl | rfl <;> simp [PySig.aVa, hv, itemsFrom, run, he', pstep]
    have h2 : s.starItems = [] := by simp [PySig.starItems, hv]
    rw [h1, h2]
    simp only [Option.bind_some, run, run_kw c sl (s.aKw el) hkw hgkw, Bool.false_and, hacckw]
    obtain ⟨st', hr, hn, ha⟩ := hka .kw (acc ++ [(v.name, PKind.varArg, false)] ++
      s.kw.map fun p => (p.name, PKind.kwOnly, p.hasD)) (by simp)
    exact ⟨st', hr, hn, by simp [ha]⟩
  | none =>
    have h1 : run { ph := ph, sd := sd, nk := false, acc := acc } (itemsFrom c sl i (s.aVa el)) =
        some { ph := ph, sd := sd, nk := false, acc := acc } := by simp [PySig.aVa, hv, itemsFrom, run]
    rw [h1]
    simp only [Option.bind_some]
    cases hq : s.kw with
    | nil =>
      have h2 : s.starItems = [] := by simp [PySig.starItems, hq]
      have h3 : (s.aKw el) = [] := by simp [PySig.aKw, hq]
      rw [h2, h3]
      simp only [run, itemsFrom, Option.bind_some]
      obtain ⟨st', hr, hn, ha⟩ := hka ph acc (by rcases hph with rfl | rfl <;> simp)
      exact ⟨st', hr, hn, by simp [ha]⟩
    | cons p r =>
      have h2 : s.starItems = [Item.bareStar] := by simp [PySig.starItems, hv, hq]
      have h3 : run { ph := ph, sd := sd, nk := false, acc := acc } [Item.bareStar] =
          some { ph := .kw, sd := sd, nk := true, acc := acc } := by
        rcases hph with rfl | rfl <;> simp [run, pstep]
      have h4 : (s.aKw el).isEmpty = false := by rw [hemp, hq]; rfl
      rw [h2, h3]
      simp only [Option.bind_some, run_kw c sl (s.aKw el) hkw hgkw, h4, Bool.and_false, hacckw]
      rw [← hq]
      obtain ⟨st', hr, hn, ha⟩ := hka .kw (acc ++ s.kw.map fun p => (p.name, PKind.kwOnly, p.hasD)) (by simp)
      exact ⟨st', hr, hn, by simp [ha]⟩

theorem itemsFrom_params (i : Nat) (l : List Arg) (h : ∀ a ∈ l, a.kind = .pos ∨ a.kind = .named) :
    (∀ x ∈ itemsFrom c sl i l, x.isParam = true) ∧
    (itemsFrom c sl i l).map Item.hasD = l.map fun a => a.dflt.isSome := by
  induction l generalizing i with
  | nil => simp [itemsFrom]
  | cons a r ih =>
    obtain ⟨ann, d, he, hd⟩ := argItem_param c sl (i == 0) a (h a (by simp))
    obtain ⟨h1, h2⟩ := ih (i + 1) (fun x hx => h x (by simp [hx]))
    constructor
    · intro x hx
      simp only [itemsFrom, List.mem_cons] at hx
      rcases hx with rfl | hx
      · rw [he]; rfl
      · exact h1 x hx
    · simp [itemsFrom, he, Item.hasD, hd, h2]

/-- the round trip, for any name rule `el` -/
theorem roundtrip_E (s : PySig) (hd : s.DefaultsOk) (hne : s.NoElideE el) (hg : s.GoodDefaults c) :
    parseItems (emitArgs c sl false false (s.toMypyE el)) = some s.summary := by
  rw [emit_shape c sl el s hne]
  have hre : s.shape c sl el =
      (itemsFrom c sl 0 (s.aPo el) ++ (if s.po.isEmpty then [] else [Item.slash]) ++ itemsFrom c sl s.po.length (s.aPp el)) ++
      (itemsFrom c sl (s.po.length + s.pp.length) (s.aVa el) ++ s.starItems ++
        itemsFrom c sl (s.po.length + s.pp.length + (s.aVa el).length) (s.aKw el) ++
        itemsFrom c sl (s.po.length + s.pp.length + (s.aVa el).length + s.kw.length) (s.aKa el)) := by
    simp [PySig.shape, List.append_assoc]
  rw [hre]
  unfold parseItems
  rw [run_append, run_positional c sl el s hd hg]
  simp only [Option.bind_some]
  obtain ⟨st', hr, hn, ha⟩ := run_tail c sl el s hg (s.po.length + s.pp.length)
    (s.po.length + s.pp.length + (s.aVa el).length) (s.po.length + s.pp.length + (s.aVa el).length + s.kw.length)
    (if s.po.isEmpty then .pre else .post) ((s.po ++ s.pp).any PParam.hasD)
    (s.po.map (fun p => (p.name, PKind.posOnly, p.hasD)) ++ s.pp.map (fun p => (p.name, PKind.pos, p.hasD)))
    (by cases s.po <;> simp)
  rw [hr]
  simp [hn, ha, PySig.summary]


/-- the grammar shape, for any name rule `el` -/
theorem valid_E (s : PySig) (hd : s.DefaultsOk) (hne : s.NoElideE el) :
    GrammarShape (emitArgs c sl false false (s.toMypyE el)) := by
  rw [emit_shape c sl el s hne]
  have hpo : ∀ a ∈ (s.aPo el), a.kind = .pos ∨ a.kind = .named := by
    intro a ha; simp only [PySig.aPo, List.mem_map] at ha; obtain ⟨p, _, rfl⟩ := ha; exact Or.inl rfl
  have hpp : ∀ a ∈ (s.aPp el), a.kind = .pos ∨ a.kind = .named := by
    intro a ha; simp only [PySig.aPp, List.mem_map] at ha; obtain ⟨p, _, rfl⟩ := ha; exact Or.inl rfl
  have hkw : ∀ a ∈ (s.aKw el), a.kind = .pos ∨ a.kind = .named := by
    intro a ha; simp only [PySig.aKw, List.mem_map] at ha; obtain ⟨p, _, rfl⟩ := ha; exact Or.inr rfl
  obtain ⟨p1, d1⟩ := itemsFrom_params c sl 0 (s.aPo el) hpo
  obtain ⟨p2, d2⟩ := itemsFrom_params c sl s.po.length (s.aPp el) hpp
  obtain ⟨p3, _⟩ := itemsFrom_params c sl (s.po.length + s.pp.length + (s.aVa el).length) (s.aKw el) hkw
  refine ⟨itemsFrom c sl 0 (s.aPo el), if s.po.isEmpty then [] else [Item.slash], itemsFrom c sl s.po.length (s.aPp el),
    itemsFrom c sl (s.po.length + s.pp.length) (s.aVa el) ++ s.starItems,
    itemsFrom c sl (s.po.length + s.pp.length + (s.aVa el).length) (s.aKw el),
    itemsFrom c sl (s.po.length + s.pp.length + (s.aVa el).length + s.kw.length) (s.aKa el), ?_, ?_, ?_, ?_, ?_, ?_⟩
  · simp [PySig.shape, List.append_assoc]
  · intro x hx
    simp only [List.mem_append] at hx
    rcases hx with (hx | hx) | hx
    · exact p1 x hx
    · exact p2 x hx
    · exact p3 x hx
  · cases hq : s.po with
    | nil => left; simp [PySig.aPo, hq, itemsFrom]
    | cons p r => right; simp [PySig.aPo, hq, itemsFrom]
  · cases hv : s.va with
    | some v =>
      right; left
      obtain ⟨ann, he⟩ := argItem_star c sl ((s.po.length + s.pp.length) == 0) (mkVArgE el .star v) rfl rfl
      exact ⟨v.name, ann, by simp only [PySig.aVa, hv, Option.toList_some, List.map_cons, List.map_nil, itemsFrom, PySig.starItems, Option.isNone_some, Bool.false_and, Bool.false_eq_true, ↓reduceIte, List.append_nil]; exact congrArg (· :: []) he⟩
    | none =>
      cases hq : s.kw with
      | nil => left; simp [PySig.aVa, PySig.aKw, hv, hq, itemsFrom, PySig.starItems]
      | cons p r => right; right; simp [PySig.aVa, PySig.aKw, hv, hq, itemsFrom, PySig.starItems]
  · cases hk : s.ka with
    | none => left; simp [PySig.aKa, hk, itemsFrom]
    | some v =>
      right
      obtain ⟨ann, he⟩ := argItem_star2 c sl
        ((s.po.length + s.pp.length + (s.aVa el).length + s.kw.length) == 0) (mkVArgE el .star2 v) rfl rfl
      exact ⟨v.name, ann, by simp only [PySig.aKa, hk, Option.toList_some, List.map_cons, List.map_nil, itemsFrom]; exact congrArg (· :: []) he⟩
  · rw [List.map_append, d1, d2, aPo_hasD el, aPp_hasD el, ← List.map_append]
    exact hd


/-! ### magic methods: `actually_pos_only_args` is false, the flags are ignored -/

def clearPO (a : Arg) : Arg := { a with posOnly := false }

theorem argItem_clearPO (f : Bool) (a : Arg) : argItem c sl f (clearPO a) = argItem c sl f a := rfl

theorem estep_magic (st : ESt) (a : Arg) : estep c sl false true st a = estep c sl false false st (clearPO a) := by
  simp [estep, clearPO, argItem]

theorem fold_magic (args : List Arg) (st : ESt) :
    args.foldl (estep c sl false true) st = (args.map clearPO).foldl (estep c sl false false) st := by
  induction args generalizing st with
  | nil => rfl
  | cons a r ih => simp only [List.foldl_cons, List.map_cons, estep_magic, ih]

theorem emit_magic (args : List Arg) : emitArgs c sl false true args = emitArgs c sl false false (args.map clearPO) := by
  simp only [emitArgs, fold_magic]

theorem toMypy_clearPO (s : PySig) (h : s.po = []) :
    (s.toMypyE el).map clearPO = s.toMypyE (fun _ => false) := by
  simp only [PySig.toMypyE, h, List.map_nil, List.nil_append, List.map_append, List.map_map]
  rfl


/-! ### the repaired `/` rule (`contig = true`): only a contiguous prefix of positional parameters counts -/

/-- what the repaired counter sees: flags outside the maximal prefix of (pos_only ∧ positional) are ignored -/
def prefixOnly : List Arg → List Arg
  | [] => []
  | a :: r => if a.posOnly && a.kind == .pos then a :: prefixOnly r else clearPO a :: r.map clearPO

theorem estep_contig_out (st : ESt) (a : Arg) (h : st.cnt < st.idx) :
    estep c sl true false st a = estep c sl false false st (clearPO a) := by
  have hne : (st.cnt == st.idx) = false := by simp; omega
  simp [estep, clearPO, argItem, hne]

theorem fold_contig_out (args : List Arg) (st : ESt) (h : st.cnt < st.idx) :
    args.foldl (estep c sl true false) st = (args.map clearPO).foldl (estep c sl false false) st := by
  induction args generalizing st with
  | nil => rfl
  | cons a r ih =>
    simp only [List.foldl_cons, List.map_cons, estep_contig_out c sl st a h]
    apply ih
    simp [estep, clearPO]; omega

theorem fold_contig_in (args : List Arg) (st : ESt) (h : st.cnt = st.idx) :
    args.foldl (estep c sl true false) st = (prefixOnly args).foldl (estep c sl false false) st := by
  induction args generalizing st with
  | nil => rfl
  | cons a r ih =>
    by_cases hc : (a.posOnly && a.kind == .pos) = true
    · simp only [prefixOnly, hc, ↓reduceIte, List.foldl_cons]
      have hstep : estep c sl true false st a = estep c sl false false st a := by
        simp only [Bool.and_eq_true] at hc
        simp [estep, hc.1, hc.2, h]
      rw [hstep]
      apply ih
      simp only [Bool.and_eq_true] at hc
      simp [estep, hc.1, h]
    · have hc' : (a.posOnly && a.kind == .pos) = false := by simpa using hc
      simp only [prefixOnly, hc', Bool.false_eq_true, ↓reduceIte, List.foldl_cons]
      have hstep : estep c sl true false st a = estep c sl false false st (clearPO a) := by
        have : (a.posOnly && (a.kind == AKind.pos && st.cnt == st.idx)) = false := by
          rw [← Bool.and_assoc, hc', Bool.false_and]
        simp [estep, clearPO, argItem, this]
      rw [hstep]
      apply fold_contig_out
      simp [estep, clearPO]; omega

theorem emit_contig (args : List Arg) :
    emitArgs c sl true false args = emitArgs c sl false false (prefixOnly args) := by
  simp only [emitArgs, fold_contig_in c sl args { out := [], cnt := 0, idx := 0 } rfl]

theorem estep_contig_magic (st : ESt) (a : Arg) : estep c sl true true st a = estep c sl false true st a := by
  simp [estep]

theorem emit_contig_magic (args : List Arg) : emitArgs c sl true true args = emitArgs c sl false true args := by
  have : ∀ (st : ESt), args.foldl (estep c sl true true) st = args.foldl (estep c sl false true) st := by
    induction args with
    | nil => intro st; rfl
    | cons a r ih => intro st; simp only [List.foldl_cons, estep_contig_magic, ih]
  simp only [emitArgs, this]

theorem prefixOnly_append_all (l1 l2 : List Arg) (h : ∀ a ∈ l1, a.posOnly = true ∧ a.kind = .pos) :
    prefixOnly (l1 ++ l2) = l1 ++ prefixOnly l2 := by
  induction l1 with
  | nil => rfl
  | cons a r ih =>
    obtain ⟨h1, h2⟩ := h a (by simp)
    simp only [List.cons_append, prefixOnly, h1, h2, beq_self_eq_true, Bool.and_self, ↓reduceIte]
    rw [ih (fun x hx => h x (by simp [hx]))]

theorem prefixOnly_stop (l : List Arg) (h : ∀ a, l.head? = some a → (a.posOnly && a.kind == .pos) = false) :
    prefixOnly l = l.map clearPO := by
  cases l with
  | nil => rfl
  | cons a r => simp [prefixOnly, h a rfl]

theorem elidedPrefix_le (l : List PParam) : elidedPrefix l ≤ l.length := by
  induction l with
  | nil => simp [elidedPrefix]
  | cons p r ih => simp only [elidedPrefix]; split <;> simp <;> omega

theorem take_elided (l : List PParam) : ∀ p ∈ l.take (elidedPrefix l), elide p.name = true := by
  induction l with
  | nil => intro p hp; simp [elidedPrefix] at hp
  | cons q r ih =>
    intro p hp
    simp only [elidedPrefix] at hp
    split at hp
    · rename_i hq
      simp only [List.take_succ_cons, List.mem_cons] at hp
      rcases hp with rfl | hp
      · exact hq
      · exact ih p hp
    · simp at hp

theorem drop_head_not_elided (l : List PParam) :
    ∀ p, (l.drop (elidedPrefix l)).head? = some p → elide p.name = false := by
  induction l with
  | nil => intro p hp; simp [elidedPrefix] at hp
  | cons q r ih =>
    intro p hp
    simp only [elidedPrefix] at hp
    split at hp
    · simp only [List.drop_succ_cons] at hp; exact ih p hp
    · rename_i hq
      simp only [List.drop_zero, List.head?_cons, Option.some.injEq] at hp
      subst hp; simpa using hq

/-- the repaired counter on what mypy's parser produces = the as-found counter on the PEP 484-normalised
    signature with the name rule switched off -/
theorem prefixOnly_toMypy (s : PySig) :
    prefixOnly (s.toMypyE elide) = s.normalize.toMypyE (fun _ => false) := by
  have hsplit : s.pp = s.pp.take (elidedPrefix s.pp) ++ s.pp.drop (elidedPrefix s.pp) :=
    (List.take_append_drop _ _).symm
  have hL : s.toMypyE elide =
      (s.po.map (mkArgE elide .pos true) ++ (s.pp.take (elidedPrefix s.pp)).map (mkArgE elide .pos false)) ++
      ((s.pp.drop (elidedPrefix s.pp)).map (mkArgE elide .pos false) ++ s.va.toList.map (mkVArgE elide .star) ++
        s.kw.map (mkArgE elide .named false) ++ s.ka.toList.map (mkVArgE elide .star2)) := by
    have hm : s.pp.map (mkArgE elide .pos false) =
        (s.pp.take (elidedPrefix s.pp)).map (mkArgE elide .pos false) ++
        (s.pp.drop (elidedPrefix s.pp)).map (mkArgE elide .pos false) := by
      rw [← List.map_append, List.take_append_drop]
    simp only [PySig.toMypyE]
    rw [hm]
    simp only [List.append_assoc]
  rw [hL, prefixOnly_append_all]
  · rw [prefixOnly_stop]
    · -- both sides, segment by segment
      have e1 : (s.pp.take (elidedPrefix s.pp)).map (mkArgE elide .pos false) =
          (s.pp.take (elidedPrefix s.pp)).map (mkArgE (fun _ => false) .pos true) := by
        apply List.map_congr_left
        intro p hp
        simp [mkArgE, take_elided s.pp p hp]
      have e0 : s.po.map (mkArgE elide .pos true) = s.po.map (mkArgE (fun _ => false) .pos true) := by
        apply List.map_congr_left; intro p _; simp [mkArgE]
      rw [e1, e0]
      simp only [PySig.toMypyE, PySig.normalize, List.map_append, List.map_map, List.append_assoc]
      rfl
    · intro a ha
      cases hd : s.pp.drop (elidedPrefix s.pp) with
      | cons p r =>
        rw [hd] at ha
        simp only [List.map_cons, List.cons_append, List.head?_cons, Option.some.injEq] at ha
        subst ha
        have := drop_head_not_elided s.pp p (by rw [hd]; rfl)
        simp [mkArgE, this]
      | nil =>
        rw [hd] at ha
        cases hv : s.va with
        | some v => simp [hv] at ha; subst ha; simp [mkVArgE]
        | none =>
          cases hk : s.kw with
          | cons p r => simp [hv, hk] at ha; subst ha; simp [mkArgE]
          | nil =>
            cases hka : s.ka with
            | some v => simp [hv, hk, hka] at ha; subst ha; simp [mkVArgE]
            | none => simp [hv, hk, hka] at ha
  · intro a ha
    simp only [List.mem_append, List.mem_map] at ha
    rcases ha with ⟨p, _, rfl⟩ | ⟨p, hp, rfl⟩
    · simp [mkArgE]
    · simp [mkArgE, take_elided s.pp p hp]

theorem normalize_positional (s : PySig) : s.normalize.po ++ s.normalize.pp = s.po ++ s.pp := by
  simp [PySig.normalize, List.append_assoc]

theorem normalize_noElide (s : PySig) : PySig.NoElideE (fun _ => false) s.normalize := by
  simp [PySig.NoElideE]

theorem normalize_of_noElide (s : PySig) (h : s.NoElide) : s.normalize = s := by
  have h0 : elidedPrefix s.pp = 0 := by
    cases hp : s.pp with
    | nil => rfl
    | cons p r => simp [elidedPrefix, h.1 p (by simp [hp])]
  cases s
  simp_all [PySig.normalize]

theorem goodDefaults_normalize (s : PySig) (hg : s.GoodDefaults c) : s.normalize.GoodDefaults c := by
  intro p hp d hd
  apply hg p _ d hd
  simp only [PySig.normalize, List.mem_append] at hp ⊢
  rcases hp with ((hp | hp) | hp) | hp
  · exact Or.inl (Or.inl hp)
  · exact Or.inl (Or.inr (List.mem_of_mem_take hp))
  · exact Or.inl (Or.inr (List.mem_of_mem_drop hp))
  · exact Or.inr hp

theorem defaultsOk_normalize (s : PySig) (hd : s.DefaultsOk) : s.normalize.DefaultsOk := by
  unfold PySig.DefaultsOk at hd ⊢
  rw [normalize_positional]; exact hd


end StubSig
