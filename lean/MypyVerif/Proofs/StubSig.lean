import MypyVerif.Model.StubSig
/-!
Helper lemmas for C19 (a): the emit loop over segments of the argument list, the parser over segments of
the emitted items.  Core Lean only.
-/
namespace StubSig
open StubDefault

variable (sl : Nat → Nat)

/-- the ArgSigs of a run of arguments starting at index `i` -/
def itemsFrom (i : Nat) : List Arg → List Item
  | [] => []
  | a :: r => argItem sl (i == 0) a :: itemsFrom (i + 1) r

theorem itemsFrom_length (i : Nat) (l : List Arg) : (itemsFrom sl i l).length = l.length := by
  induction l generalizing i with
  | nil => rfl
  | cons a r ih => simp [itemsFrom, ih]

theorem itemsFrom_append (i : Nat) (l1 l2 : List Arg) :
    itemsFrom sl i (l1 ++ l2) = itemsFrom sl i l1 ++ itemsFrom sl (i + l1.length) l2 := by
  induction l1 generalizing i with
  | nil => simp [itemsFrom]
  | cons a r ih =>
    simp only [List.cons_append, itemsFrom, ih, List.length_cons]
    have : i + 1 + r.length = i + (r.length + 1) := by omega
    rw [this]

def countPO (l : List Arg) : Nat := (l.filter (·.posOnly)).length

theorem countPO_append (l1 l2 : List Arg) : countPO (l1 ++ l2) = countPO l1 + countPO l2 := by
  simp [countPO]

/-! ### the emit loop -/

theorem fold_nonNamed (seg : List Arg) (h : ∀ a ∈ seg, a.kind ≠ .named) (st : ESt) :
    seg.foldl (estep sl false) st =
      { out := st.out ++ itemsFrom sl st.idx seg, cnt := st.cnt + countPO seg, idx := st.idx + seg.length } := by
  induction seg generalizing st with
  | nil => simp [itemsFrom, countPO]
  | cons a r ih =>
    have ha : a.kind ≠ .named := h a (by simp)
    have hr : ∀ x ∈ r, x.kind ≠ .named := fun x hx => h x (by simp [hx])
    have hk : (a.kind == AKind.named) = false := by
      cases hk' : a.kind <;> simp_all
    rw [List.foldl_cons, ih hr]
    simp only [estep, hk, Bool.false_and, Bool.false_eq_true, ↓reduceIte, itemsFrom, countPO, List.filter_cons,
      List.length_cons, List.append_assoc, List.singleton_append]
    cases a.posOnly <;> simp <;> omega

theorem any_starred_append (l : List Item) (x : Item) (h : l.any Item.starred = true) :
    (l ++ [x]).any Item.starred = true := by
  simp [List.any_append, h]

theorem fold_named_starred (seg : List Arg) (h : ∀ a ∈ seg, a.kind = .named) (st : ESt)
    (hs : st.out.any Item.starred = true) :
    seg.foldl (estep sl false) st =
      { out := st.out ++ itemsFrom sl st.idx seg, cnt := st.cnt + countPO seg, idx := st.idx + seg.length } := by
  induction seg generalizing st with
  | nil => simp [itemsFrom, countPO]
  | cons a r ih =>
    have ha : a.kind = .named := h a (by simp)
    have hr : ∀ x ∈ r, x.kind = .named := fun x hx => h x (by simp [hx])
    rw [List.foldl_cons]
    have hstep : estep sl false st a =
        { out := st.out ++ [argItem sl (st.idx == 0) a], cnt := if a.posOnly then st.cnt + 1 else st.cnt,
          idx := st.idx + 1 } := by
      simp [estep, ha, hs]
    rw [hstep, ih hr]
    · simp only [itemsFrom, countPO, List.filter_cons, List.append_assoc, List.singleton_append, List.length_cons]
      cases a.posOnly <;> simp <;> omega
    · exact any_starred_append _ _ hs

theorem fold_named_fresh (a : Arg) (r : List Arg) (h : ∀ x ∈ a :: r, x.kind = .named) (st : ESt)
    (hs : st.out.any Item.starred = false) :
    (a :: r).foldl (estep sl false) st =
      { out := st.out ++ Item.bareStar :: itemsFrom sl st.idx (a :: r), cnt := st.cnt + countPO (a :: r),
        idx := st.idx + (a :: r).length } := by
  have ha : a.kind = .named := h a (by simp)
  have hr : ∀ x ∈ r, x.kind = .named := fun x hx => h x (by simp [hx])
  rw [List.foldl_cons]
  have hstep : estep sl false st a =
      { out := st.out ++ [Item.bareStar] ++ [argItem sl (st.idx == 0) a],
        cnt := if a.posOnly then st.cnt + 1 else st.cnt, idx := st.idx + 1 } := by
    simp [estep, ha, hs]
  rw [hstep, fold_named_starred sl r hr]
  · simp only [itemsFrom, countPO, List.filter_cons, List.append_assoc, List.singleton_append, List.length_cons,
      List.cons_append, List.nil_append]
    cases a.posOnly <;> simp <;> omega
  · simp [List.any_append, Item.starred]

/-! ### what `argItem` looks like per kind -/

theorem argItem_param (f : Bool) (a : Arg) (h : a.kind = .pos ∨ a.kind = .named) :
    ∃ ann d, argItem sl f a = .param a.name ann d ∧ d.isSome = a.dflt.isSome := by
  unfold argItem
  cases hd : a.dflt with
  | some d => exact ⟨_, _, rfl, rfl⟩
  | none =>
    rcases h with h | h <;> simp only [h] <;> exact ⟨_, _, rfl, rfl⟩

theorem argItem_star (f : Bool) (a : Arg) (hk : a.kind = .star) (hd : a.dflt = none) :
    ∃ ann, argItem sl f a = .vararg a.name ann := by
  unfold argItem; simp only [hd, hk]; exact ⟨_, rfl⟩

theorem argItem_star2 (f : Bool) (a : Arg) (hk : a.kind = .star2) (hd : a.dflt = none) :
    ∃ ann, argItem sl f a = .kwarg a.name ann := by
  unfold argItem; simp only [hd, hk]; exact ⟨_, rfl⟩

theorem itemsFrom_params_not_starred (i : Nat) (l : List Arg) (h : ∀ a ∈ l, a.kind = .pos ∨ a.kind = .named) :
    (itemsFrom sl i l).any Item.starred = false := by
  induction l generalizing i with
  | nil => rfl
  | cons a r ih =>
    obtain ⟨ann, d, he, _⟩ := argItem_param sl (i == 0) a (h a (by simp))
    simp only [itemsFrom, List.any_cons, he, Item.starred, Bool.false_or]
    exact ih _ (fun x hx => h x (by simp [hx]))

/-! ### the parser over segments -/

theorem run_append (st : PSt) (a b : List Item) :
    run st (a ++ b) = (run st a).bind fun st' => run st' b := by
  induction a generalizing st with
  | nil => simp [run]
  | cons x r ih =>
    simp only [List.cons_append, run]
    cases pstep st x with
    | none => simp
    | some st' => simp [ih]

theorem mono_append (sd : Bool) (l1 l2 : List Bool) :
    mono sd (l1 ++ l2) = (mono sd l1 && mono (sd || l1.any id) l2) := by
  induction l1 generalizing sd with
  | nil => simp [mono]
  | cons d r ih =>
    simp only [List.cons_append, mono, ih, List.any_cons, id]
    cases sd <;> cases d <;> simp

/-- positional parameters, before or after `/` -/
theorem run_pos (seg : List Arg) (hk : ∀ a ∈ seg, a.kind = .pos) (i : Nat) (ph : Phase) (sd nk : Bool)
    (acc : List Summ) (hph : ph = .pre ∨ ph = .post)
    (hm : mono sd (seg.map fun a => a.dflt.isSome) = true) :
    run { ph := ph, sd := sd, nk := nk, acc := acc } (itemsFrom sl i seg) =
      some { ph := ph, sd := sd || seg.any (fun a => a.dflt.isSome), nk := nk,
             acc := acc ++ seg.map fun a => (a.name, PKind.pos, a.dflt.isSome) } := by
  induction seg generalizing i sd acc with
  | nil => simp [itemsFrom, run]
  | cons a r ih =>
    obtain ⟨ann, d, he, hd⟩ := argItem_param sl (i == 0) a (Or.inl (hk a (by simp)))
    simp only [List.map_cons, mono, Bool.and_eq_true] at hm
    have hstep : pstep { ph := ph, sd := sd, nk := nk, acc := acc } (.param a.name ann d) =
        some { ph := ph, sd := sd || a.dflt.isSome, nk := nk, acc := acc ++ [(a.name, PKind.pos, a.dflt.isSome)] } := by
      have hnot : (sd && d.isNone) = false := by
        have := hm.1
        rw [← hd] at this
        cases sd <;> cases d <;> simp_all
      rcases hph with rfl | rfl <;> simp [pstep, hnot, hd]
    simp only [itemsFrom, run, he, hstep, Option.bind_some]
    rw [ih (fun x hx => hk x (by simp [hx])) _ _ _ hm.2]
    simp [Bool.or_assoc, List.append_assoc]

/-- keyword-only parameters, after `*` -/
theorem run_kw (seg : List Arg) (hk : ∀ a ∈ seg, a.kind = .named) (i : Nat) (sd nk : Bool) (acc : List Summ) :
    run { ph := .kw, sd := sd, nk := nk, acc := acc } (itemsFrom sl i seg) =
      some { ph := .kw, sd := sd, nk := nk && seg.isEmpty,
             acc := acc ++ seg.map fun a => (a.name, PKind.kwOnly, a.dflt.isSome) } := by
  induction seg generalizing i nk acc with
  | nil => simp [itemsFrom, run]
  | cons a r ih =>
    obtain ⟨ann, d, he, hd⟩ := argItem_param sl (i == 0) a (Or.inr (hk a (by simp)))
    simp only [itemsFrom, run, he, pstep, Option.bind_some]
    rw [ih (fun x hx => hk x (by simp [hx]))]
    simp [hd, List.append_assoc]

theorem insertAt_length_append (l1 l2 : List α) (x : α) :
    insertAt l1.length x (l1 ++ l2) = l1 ++ x :: l2 := by
  simp [insertAt]

end StubSig
