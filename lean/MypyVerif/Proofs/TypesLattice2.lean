import MypyVerif.Proofs.TypesLattice
/-! Lattice laws, part 2: proper = non-proper on `Type[...]`-free terms, leaf-determined predicates, inversion. -/
namespace Types
variable {H : Hier}

theorem noTTL_mem {xs : List Ty} (h : noTypeTypeL xs = true) : ∀ x ∈ xs, x.noTypeType = true := by
  induction xs with
  | nil => intro x hx; cases hx
  | cons y ys ih =>
    simp [noTypeTypeL] at h
    intro x hx
    cases hx with
    | head => exact h.1
    | tail _ hx => exact ih h.2 x hx

theorem mapTo_arg_noTT (l : Ty) (d : Nat) (hl : l.noTypeType = true) :
    ∀ c x, H.mapTo l d = .gen c x → x.noTypeType = true := by
  intro c x hm
  cases l with
  | inst c0 =>
    simp only [Hier.mapTo] at hm
    split at hm
    · cases hm
    · split at hm <;> cases hm
      rfl
  | gen c0 x0 =>
    simp only [Hier.mapTo] at hm
    split at hm
    · cases hm; simpa [Ty.noTypeType] using hl
    · split at hm <;> cases hm
      · simpa [Ty.noTypeType] using hl
      · rfl
  | never | none | union _ | tuple _ | callable _ _ | lit _ _ | typeType _ =>
    simp [Hier.mapTo] at hm

theorem subInstance_up (f g : Ty → Ty → Bool) (l r : Ty) (c d : Nat) (hl : l.isInstance = true)
    (hnl : l.noTypeType = true) (hnr : r.noTypeType = true)
    (h : ∀ l' r', l'.size + r'.size < l.size + r.size → l'.noTypeType = true → r'.noTypeType = true →
      f l' r' = true → g l' r' = true) :
    subInstance H f l r c d = true → subInstance H g l r c d = true := by
  unfold subInstance
  split
  · split
    · rename_i c1 x c2 y hm
      have hs := mapTo_arg_size H l d hl c1 x hm
      have hx := mapTo_arg_noTT l d hnl c1 x hm
      have hy : y.noTypeType = true := by simpa [Ty.noTypeType] using hnr
      apply varCheck_mono <;> apply h <;> first | (simp [Ty.size]; omega) | assumption
    · exact id
  · exact id

theorem subAtom_up (f g : Ty → Ty → Bool) (l r : Ty) (hnl : l.noTypeType = true) (hnr : r.noTypeType = true)
    (h : ∀ l' r', l'.size + r'.size < l.size + r.size → l'.noTypeType = true → r'.noTypeType = true →
      f l' r' = true → g l' r' = true) :
    subAtom H false f l r = true → subAtom H true g l r = true := by
  cases l with
  | never => exact id
  | none => exact id
  | union _ => exact id
  | typeType _ => simp [Ty.noTypeType] at hnl
  | inst c =>
    simp only [subAtom, subFromInstance]
    split
    · exact subInstance_up f g _ _ c _ rfl hnl hnr h
    · exact subInstance_up f g _ _ c _ rfl hnl hnr h
    · exact id
  | gen c x0 =>
    simp only [subAtom, subFromInstance]
    split
    · exact subInstance_up f g _ _ c _ rfl hnl hnr h
    · exact subInstance_up f g _ _ c _ rfl hnl hnr h
    · exact id
  | tuple ls =>
    have hls := noTTL_mem (by simpa [Ty.noTypeType] using hnl : noTypeTypeL ls = true)
    simp only [subAtom, subFromTuple]
    split
    · exact id
    · split
      · apply all_mono; intro li hli; apply h
        · have := size_le_sizeL hli; simp [Ty.size]; omega
        · exact hls li hli
        · simpa [Ty.noTypeType] using hnr
      · exact id
    · rename_i rs
      have hrs := noTTL_mem (by simpa [Ty.noTypeType] using hnr : noTypeTypeL rs = true)
      simp only [Bool.and_eq_true]
      rintro ⟨h1, h2⟩
      refine ⟨h1, all2_mono ?_ h2⟩
      intro x hx y hy; apply h
      · have := size_le_sizeL hx; have := size_le_sizeL hy; simp [Ty.size]; omega
      · exact hls x hx
      · exact hrs y hy
    · exact id
  | callable as ret =>
    have hl2 : noTypeTypeL as = true ∧ ret.noTypeType = true := by simpa [Ty.noTypeType] using hnl
    have has := noTTL_mem hl2.1
    simp only [subAtom, subFromCallable]
    split
    · rename_i bs ret'
      have hr2 : noTypeTypeL bs = true ∧ ret'.noTypeType = true := by simpa [Ty.noTypeType] using hnr
      have hbs := noTTL_mem hr2.1
      simp only [Bool.and_eq_true]
      rintro ⟨⟨h1, h2⟩, h3⟩
      refine ⟨⟨h _ _ (by simp [Ty.size]; omega) hl2.2 hr2.2 h1, h2⟩, all2_mono ?_ h3⟩
      intro x hx y hy; apply h
      · have := size_le_sizeL hx; have := size_le_sizeL hy; simp [Ty.size]; omega
      · exact hbs x hx
      · exact has y hy
    · apply h _ _ (by simp [Ty.size]; omega) rfl hnr
    · apply h _ _ (by simp [Ty.size]; omega) rfl hnr
    · exact id
  | lit c v =>
    simp only [subAtom]
    split
    · exact id
    · apply h _ _ (by simp [Ty.size]) rfl hnr

/-- on `Type[...]`-free terms `is_subtype` implies `is_proper_subtype` -/
theorem S_up : ∀ (n : Nat) (l r : Ty), l.size + r.size ≤ n → l.noTypeType = true → r.noTypeType = true →
    S H false l r = true → S H true l r = true := by
  intro n
  induction n with
  | zero => intro l r h; have := Ty.size_pos l; omega
  | succ n ih =>
    intro l r hn hnl hnr
    by_cases hlu : l.isUnion = true
    · cases l <;> simp [Ty.isUnion] at hlu
      rename_i ls
      have hls := noTTL_mem (by simpa [Ty.noTypeType] using hnl : noTypeTypeL ls = true)
      rw [S_union_left, S_union_left]
      apply all_mono
      intro i hi
      apply ih _ _ _ (hls i hi) hnr
      have := size_le_sizeL hi; simp [Ty.size] at hn; omega
    · have hlu : l.isUnion = false := by simpa using hlu
      by_cases hru : r.isUnion = true
      · cases r <;> simp [Ty.isUnion] at hru
        rename_i rs
        have hrs := noTTL_mem (by simpa [Ty.noTypeType] using hnr : noTypeTypeL rs = true)
        rw [S_union_right _ _ _ _ hlu, S_union_right _ _ _ _ hlu]
        apply any_mono
        intro x hx
        apply ih _ _ _ hnl (hrs x hx)
        have := size_le_sizeL hx; simp [Ty.size] at hn; omega
      · have hru : r.isUnion = false := by simpa using hru
        rw [S_atom _ _ _ _ hlu hru, S_atom _ _ _ _ hlu hru]
        simp only [Bool.or_eq_true]
        rintro (h | h)
        · exact Or.inl h
        · right
          refine subAtom_up _ _ l r hnl hnr ?_ h
          intro l' r' hlt h1 h2
          exact ih l' r' (by omega) h1 h2


theorem noFuncL_iff {xs : List Ty} : noFuncL H xs = true ↔ ∀ x ∈ xs, x.noFunc H = true := by
  induction xs with
  | nil => simp [noFuncL]
  | cons y ys ih => simp [noFuncL, ih]

theorem latOkL_iff {xs : List Ty} : latOkL H xs = true ↔ ∀ x ∈ xs, x.latOk H = true := by
  induction xs with
  | nil => simp [latOkL]
  | cons y ys ih => simp [latOkL, ih]

/-- predicates that a union has iff all its items have, and Never has -/
structure LeafPred (Q : Ty → Bool) : Prop where
  never : Q .never = true
  union : ∀ is, Q (.union is) = true ↔ ∀ i ∈ is, Q i = true

theorem noFunc_leafPred : LeafPred (Ty.noFunc H) :=
  ⟨rfl, fun is => by simp [Ty.noFunc, noFuncL_iff]⟩

theorem latOk_leafPred : LeafPred (Ty.latOk H) :=
  ⟨rfl, fun is => by simp [Ty.latOk, latOkL_iff]⟩

mutual
theorem flattenT_pred {Q : Ty → Bool} (hQ : LeafPred Q) : ∀ (t : Ty), Q t = true → ∀ x ∈ flattenT t, Q x = true
  | .union is, hw, x, hx => by
    simp only [flattenT] at hx
    exact flattenL_pred hQ is ((hQ.union is).1 hw) x hx
  | .never, hw, x, hx | .none, hw, x, hx | .inst _, hw, x, hx | .gen _ _, hw, x, hx | .tuple _, hw, x, hx
  | .callable _ _, hw, x, hx | .lit _ _, hw, x, hx | .typeType _, hw, x, hx => by
    simp [flattenT] at hx; subst hx; exact hw
theorem flattenL_pred {Q : Ty → Bool} (hQ : LeafPred Q) : ∀ (ts : List Ty), (∀ t ∈ ts, Q t = true) →
    ∀ x ∈ flattenL ts, Q x = true
  | [], _, x, hx => by simp [flattenL] at hx
  | t :: ts, hw, x, hx => by
    simp only [flattenL, List.mem_append] at hx
    rcases hx with hx | hx
    · exact flattenT_pred hQ t (hw t (by simp)) x hx
    · exact flattenL_pred hQ ts (fun u hu => hw u (by simp [hu])) x hx
end

theorem makeUnion_pred {Q : Ty → Bool} (hQ : LeafPred Q) {rr : List Ty} (h : ∀ x ∈ rr, Q x = true) :
    Q (makeUnion rr) = true := by
  match rr, h with
  | [], _ => simpa [makeUnion] using hQ.never
  | [x], h => simpa [makeUnion] using h x (by simp)
  | x :: y :: zs, h => simp only [makeUnion]; exact (hQ.union _).2 h

theorem simplify_pred {Q : Ty → Bool} (hQ : LeafPred Q) (items : List Ty) (h : ∀ t ∈ items, Q t = true) :
    Q (simplifyUnion H items) = true := by
  have hl := flattenL_pred hQ items h
  unfold simplifyUnion
  simp only
  split
  · rename_i t heq; exact hl t (by rw [heq]; simp)
  · apply makeUnion_pred hQ
    intro x hx
    have a2 := (removePass_spec (isProperSubtype H) (fun x => S_refl H true x) (flattenL items) [] []).2.1
    have a2' : ∀ y ∈ removePass (isProperSubtype H) (flattenL items) [] [], y ∈ flattenL items := by
      intro y hy; rcases a2 y hy with h | h
      · cases h
      · exact h
    unfold removeRedundant at hx
    simp only at hx
    split at hx
    · exact hl x (a2' x hx)
    · have b2 := (removePass_spec (isProperSubtype H) (fun x => S_refl H true x)
        (removePass (isProperSubtype H) (flattenL items) [] []).reverse [] []).2.1
      have b2' : ∀ y ∈ removePass (isProperSubtype H) (removePass (isProperSubtype H) (flattenL items) [] []).reverse [] [],
          y ∈ flattenL items := by
        intro y hy; rcases b2 y hy with h | h
        · cases h
        · exact a2' y (by simpa using h)
      split at hx
      · exact hl x (b2' x hx)
      · exact hl x (b2' x (by simpa using hx))

theorem trueOrFalse_pred {Q : Ty → Bool} (hQ : LeafPred Q) {t : Ty} (h : Q t = true) : Q (trueOrFalse H t) = true := by
  cases t <;> simp only [trueOrFalse] <;> try exact h
  exact simplify_pred hQ _ ((hQ.union _).1 h)


/-! ### inversion: what can be below an atom of each kind -/

theorem below_tuple (p : Bool) {x : Ty} {ts : List Ty} (hx : x.isUnion = false) (h : S H p x (.tuple ts) = true) :
    x = .never ∨ ∃ xs, x = .tuple xs ∧ xs.length = ts.length ∧ all2 (S H p) xs ts = true := by
  rw [S_atom H p _ _ hx rfl] at h
  simp only [Bool.or_eq_true] at h
  rcases h with h | h
  · have : x = .tuple ts := by simpa using h
    subst this
    right
    refine ⟨ts, rfl, rfl, ?_⟩
    clear h hx
    induction ts with
    | nil => rfl
    | cons t ts ih => simp [all2, S_refl, ih]
  · cases x <;> simp [subAtom, subFromInstance, subFromTuple, subFromCallable, subFromTypeType, Ty.isNone] at h
    · left; rfl
    · rename_i xs; right; exact ⟨xs, rfl, h.1, h.2⟩
    · rename_i c v; rw [S_atom H p _ _ rfl rfl] at h; simp [subAtom, subFromInstance] at h

theorem below_lit (p : Bool) {x : Ty} {c v : Nat} (hx : x.isUnion = false) (h : S H p x (.lit c v) = true) :
    x = .never ∨ x = .lit c v := by
  rw [S_atom H p _ _ hx rfl] at h
  simp only [Bool.or_eq_true] at h
  rcases h with h | h
  · right; simpa using h
  · cases x <;> simp [subAtom, subFromInstance, subFromTuple, subFromCallable, subFromTypeType, Ty.isNone] at h
    left; rfl

theorem below_typeType (p : Bool) {x y : Ty} (hx : x.isUnion = false) (h : S H p x (.typeType y) = true) :
    x = .never ∨ ∃ x', x = .typeType x' ∧ S H p x' y = true := by
  rw [S_atom H p _ _ hx rfl] at h
  simp only [Bool.or_eq_true] at h
  rcases h with h | h
  · have : x = .typeType y := by simpa using h
    right; exact ⟨y, this, S_refl H p y⟩
  · cases x <;> simp [subAtom, subFromInstance, subFromTuple, subFromCallable, subFromTypeType, Ty.isNone] at h
    · left; rfl
    · rename_i c v; rw [S_atom H p _ _ rfl rfl] at h; simp [subAtom, subFromInstance] at h
    · rename_i x'; right; exact ⟨x', rfl, h⟩

theorem below_none (p : Bool) {x : Ty} (hx : x.isUnion = false) (h : S H p x .none = true) :
    x = .never ∨ x = .none := by
  rw [S_atom H p _ _ hx rfl] at h
  simp only [Bool.or_eq_true] at h
  rcases h with h | h
  · right; simpa using h
  · cases x with
    | never => left; rfl
    | none => right; rfl
    | lit c v =>
      simp only [subAtom] at h
      rw [S_atom H p _ _ rfl rfl] at h; simp [subAtom, subFromInstance] at h
    | union _ | inst _ | gen _ _ | tuple _ | callable _ _ | typeType _ =>
      simp [subAtom, subFromInstance, subFromTuple, subFromCallable, subFromTypeType] at h

theorem below_never (p : Bool) {x : Ty} (hx : x.isUnion = false) (h : S H p x .never = true) : x = .never := by
  rw [S_atom H p _ _ hx rfl] at h
  simp only [Bool.or_eq_true] at h
  rcases h with h | h
  · simpa using h
  · cases x <;> simp [subAtom, subFromInstance, subFromTuple, subFromCallable, subFromTypeType, Ty.isNone] at h
    · rfl
    · rename_i c v; rw [S_atom H p _ _ rfl rfl] at h; simp [subAtom, subFromInstance] at h

theorem below_callable (p : Bool) {x : Ty} {bs : List Ty} {ret : Ty} (hx : x.isUnion = false)
    (h : S H p x (.callable bs ret) = true) :
    x = .never ∨ (∃ x', x = .typeType x') ∨
    ∃ as r, x = .callable as r ∧ as.length = bs.length ∧ S H p r ret = true ∧ all2 (S H p) bs as = true := by
  rw [S_atom H p _ _ hx rfl] at h
  simp only [Bool.or_eq_true] at h
  rcases h with h | h
  · have : x = .callable bs ret := by simpa using h
    subst this
    right; right
    refine ⟨bs, ret, rfl, rfl, S_refl H p ret, ?_⟩
    clear h hx
    induction bs with
    | nil => rfl
    | cons t ts ih => simp [all2, S_refl, ih]
  · cases x <;> simp [subAtom, subFromInstance, subFromTuple, subFromCallable, subFromTypeType, Ty.isNone] at h
    · left; rfl
    · rename_i as r; right; right; exact ⟨as, r, rfl, h.1.2, h.1.1, h.2⟩
    · rename_i c v; rw [S_atom H p _ _ rfl rfl] at h; simp [subAtom, subFromInstance] at h
    · rename_i x'; right; left; exact ⟨x', rfl⟩

/-- an instance is below instances only -/
theorem below_instance_is_inst_or (p : Bool) {x t : Ty} {d : Nat} (hd : t.cls = some d) (hx : x.isUnion = false)
    (h : S H p t x = true) : ∃ e, x.cls = some e := S_inst_right p hd hx h


end Types
