import MypyVerif.Proofs.LayoutNames
/-!
Lemmas about the upward crawl (`helper`, `crawlUpDir`, `crawlUp`) of the C18 model.
-/
namespace Layout

variable (fs : FS) (o : Opts)

theorem crawlUp_snoc (d : Path) (fn : Name) :
    crawlUp fs o (d ++ [fn]) = joinFile (crawlUpDir fs o d) (moduleName fn) := by
  simp [crawlUp]

theorem helper_of_isBase {R : Path} (h : o.isBase R = true) : helper fs o R.reverse = .some [] R := by
  cases hr : R.reverse with
  | nil =>
    have : R = [] := by simpa using hr
    subst this
    simp [helper, h]
  | cons name rpar =>
    have hR : (name :: rpar).reverse = R := by rw [← hr]; simp
    simp only [helper, hR, h, if_true]

/-- the base directory returned by the helper is a fixed point of `crawl_up_dir` -/
theorem helper_base_good : ∀ (rdir : List Name) (mp : List Name) (b : Path),
    helper fs o rdir = .some mp b → crawlUpDir fs o b = .some [] b := by
  intro rdir
  induction rdir with
  | nil =>
    intro mp b h
    simp only [helper] at h
    split at h
    · next hb =>
      cases h
      simp [crawlUpDir, helper, hb, Crawl.orBase]
    · split at h <;> cases h
  | cons name rpar ih =>
    intro mp b h
    simp only [helper] at h
    split at h
    · next hb =>
      cases h
      have := helper_of_isBase fs o hb
      simp only [crawlUpDir, this, Crawl.orBase]
    · split at h
      · split at h
        · -- package directory: ((helper rpar).orBase …).extend
          cases hh : helper fs o rpar with
          | none =>
            rw [hh] at h
            simp only [Crawl.orBase, Crawl.extend] at h
            cases h
            simp [crawlUpDir, hh, Crawl.orBase]
          | some mp' b' =>
            rw [hh] at h
            simp only [Crawl.orBase, Crawl.extend] at h
            cases h
            exact ih mp' _ hh
          | err n =>
            rw [hh] at h
            simp [Crawl.orBase, Crawl.extend] at h
        · cases h
      · split at h
        · cases h
        · split at h
          · cases h
          · cases hh : helper fs o rpar with
            | none => rw [hh] at h; simp [Crawl.extend] at h
            | some mp' b' =>
              rw [hh] at h
              simp only [Crawl.extend] at h
              cases h
              exact ih mp' _ hh
            | err n => rw [hh] at h; simp [Crawl.extend] at h

theorem crawlUpDir_base_good {d : Path} {mp : List Name} {b : Path}
    (h : crawlUpDir fs o d = .some mp b) : crawlUpDir fs o b = .some [] b := by
  unfold crawlUpDir at h
  cases hh : helper fs o d.reverse with
  | none =>
    rw [hh] at h
    simp only [Crawl.orBase] at h
    cases h
    simp [crawlUpDir, hh, Crawl.orBase]
  | some mp' b' =>
    rw [hh] at h
    simp only [Crawl.orBase] at h
    cases h
    exact helper_base_good fs o _ _ _ hh
  | err n => rw [hh] at h; simp [Crawl.orBase] at h

theorem joinFile_some {c : Crawl} {mn : Name} {m : List Name} {b : Path} (h : joinFile c mn = .some m b) :
    ∃ mp, c = .some mp b := by
  unfold joinFile at h
  split at h
  · exact ⟨m, h⟩
  · cases c with
    | none => simp [Crawl.extend] at h
    | some mp b' => simp only [Crawl.extend] at h; cases h; exact ⟨mp, rfl⟩
    | err n => simp [Crawl.extend] at h

/-- the base of every crawled file is a fixed point: `crawl_up_dir(base) = ("", base)` -/
theorem crawlUp_base_good {f : Path} {m : List Name} {B : Path} (h : crawlUp fs o f = .some m B) :
    crawlUpDir fs o B = .some [] B := by
  unfold crawlUp at h
  split at h
  · exact crawlUpDir_base_good fs o h
  · next fn rpar _ =>
    obtain ⟨mp, hc⟩ := joinFile_some h
    exact crawlUpDir_base_good fs o hc

/-- conditions under which the crawl from `R/c1/…/ck` (components given innermost first) arrives at `R` having
    collected exactly `c1.….ck`: identifiers, no explicit base in between, and at every level an `__init__` file
    or namespace mode (at the first level below `R` a namespace directory only counts when `R` is an explicit base) -/
def chainOK (R : Path) : List Name → Bool
  | [] => true
  | c :: rq => isIdent c && !o.isBase (R ++ (c :: rq).reverse) &&
      (hasInit fs (R ++ (c :: rq).reverse) || (o.ns && (!rq.isEmpty || o.isBase R))) && chainOK R rq

theorem chain_up {R : Path} (hR : crawlUpDir fs o R = .some [] R) : ∀ rq : List Name, chainOK fs o R rq = true →
    crawlUpDir fs o (R ++ rq.reverse) = .some rq.reverse R ∧
    ((rq ≠ [] ∨ o.isBase R = true) → helper fs o (rq ++ R.reverse) = .some rq.reverse R) := by
  intro rq
  induction rq with
  | nil =>
    intro _
    refine ⟨by simpa using hR, ?_⟩
    intro h
    rcases h with h | h
    · exact absurd rfl h
    · simpa using helper_of_isBase fs o h
  | cons c rq ih =>
    intro hc
    simp only [chainOK, Bool.and_eq_true, Bool.or_eq_true, Bool.not_eq_true'] at hc
    obtain ⟨⟨⟨hid, hnb⟩, hlev⟩, hrest⟩ := hc
    obtain ⟨ihA, ihB⟩ := ih hrest
    have hdir : (c :: (rq ++ R.reverse)).reverse = R ++ (c :: rq).reverse := by simp
    have hB : helper fs o (c :: rq ++ R.reverse) = .some (c :: rq).reverse R := by
      show helper fs o (c :: (rq ++ R.reverse)) = _
      simp only [helper, hdir, hnb, dropStubs_ident hid, hid]
      by_cases hi : hasInit fs (R ++ (c :: rq).reverse) = true
      · simp only [hi, if_true]
        have : (helper fs o (rq ++ R.reverse)).orBase (rq ++ R.reverse).reverse = .some rq.reverse R := by
          have := ihA
          unfold crawlUpDir at this
          simpa using this
        rw [this]
        simp [Crawl.extend]
      · have hi' : hasInit fs (R ++ (c :: rq).reverse) = false := by simpa using hi
        rcases hlev with hlev | hlev
        · exact absurd hlev hi
        · simp only [hi', hlev.1]
          have hcond : rq ≠ [] ∨ o.isBase R = true := by
            rcases hlev.2 with h | h
            · left; intro he; subst he; simp at h
            · right; exact h
          rw [ihB hcond]
          simp [Crawl.extend]
    refine ⟨?_, fun _ => hB⟩
    unfold crawlUpDir
    have : (R ++ (c :: rq).reverse).reverse = c :: rq ++ R.reverse := by simp
    rw [this, hB]
    rfl

/-- one package level: a directory with an `__init__` file that is not an explicit base extends the module -/
theorem crawlUpDir_pkg {bd : Path} {n : Name} (hi : hasInit fs (bd ++ [n]) = true)
    (hnb : o.isBase (bd ++ [n]) = false) (hid : isIdent (dropStubs n) = true) :
    crawlUpDir fs o (bd ++ [n]) = (crawlUpDir fs o bd).extend (dropStubs n) := by
  unfold crawlUpDir
  have hrev : (bd ++ [n]).reverse = n :: bd.reverse := by simp
  have hdir : (n :: bd.reverse).reverse = bd ++ [n] := by simp
  rw [hrev]
  simp only [helper, hdir, hnb, hi, hid, if_true]
  simp only [List.reverse_reverse]
  cases h : helper fs o bd.reverse with
  | none => simp [Crawl.extend, Crawl.orBase]
  | some mp b => simp [Crawl.extend, Crawl.orBase]
  | err e => simp [Crawl.extend, Crawl.orBase]

theorem hasInit_of_pyi {d : Path} (h : fs.isFile (d ++ [initPyi]) = true) : hasInit fs d = true := by
  simp [hasInit, h]

theorem hasInit_of_py {d : Path} (h : fs.isFile (d ++ [initPy]) = true) : hasInit fs d = true := by
  simp [hasInit, h]

theorem sInit_ne_nil : sInit ≠ [] := by decide

/-- every file `_find_module` can return for `dc.x` under a root `R` whose directory chain crawls back to `R`
    is mapped by `crawl_up` to the module `dc.x` with base `R` -/
theorem crawl_candidate {R : Path} {dc : List Name} {x : Name} {g : Path}
    (hbd : crawlUpDir fs o (R ++ dc) = .some dc R)
    (hx : isIdent x = true) (hxi : x ≠ sInit)
    (hnb1 : o.isBase (R ++ dc ++ [x]) = false) (hnb2 : o.isBase (R ++ dc ++ [x ++ sStubs]) = false)
    (hg : g ∈ pkgFiles (R ++ dc) x ++ modFiles (R ++ dc) x) (hfile : fs.isFile g = true) :
    crawlUp fs o g = .some (dc ++ [x]) R := by
  have hxne : x ≠ [] := isIdent_ne_nil hx
  simp only [pkgFiles, modFiles, List.cons_append, List.nil_append, List.mem_cons, List.mem_nil_iff, or_false] at hg
  rcases hg with rfl | rfl | rfl | rfl | rfl
  · -- <x>-stubs/__init__.pyi
    have e : R ++ dc ++ [x ++ sStubs, initPyi] = (R ++ dc ++ [x ++ sStubs]) ++ [initPyi] := by simp
    rw [e] at hfile ⊢
    rw [crawlUp_snoc, moduleName_initPyi]
    simp only [joinFile, if_true]
    rw [crawlUpDir_pkg fs o (hasInit_of_pyi fs hfile) hnb2 (by rw [dropStubs_append]; exact hx), dropStubs_append, hbd]
    rfl
  · have e : R ++ dc ++ [x, initPyi] = (R ++ dc ++ [x]) ++ [initPyi] := by simp
    rw [e] at hfile ⊢
    rw [crawlUp_snoc, moduleName_initPyi]
    simp only [joinFile, if_true]
    rw [crawlUpDir_pkg fs o (hasInit_of_pyi fs hfile) hnb1 (by rw [dropStubs_ident hx]; exact hx), dropStubs_ident hx, hbd]
    rfl
  · have e : R ++ dc ++ [x, initPy] = (R ++ dc ++ [x]) ++ [initPy] := by simp
    rw [e] at hfile ⊢
    rw [crawlUp_snoc, moduleName_initPy]
    simp only [joinFile, if_true]
    rw [crawlUpDir_pkg fs o (hasInit_of_py fs hfile) hnb1 (by rw [dropStubs_ident hx]; exact hx), dropStubs_ident hx, hbd]
    rfl
  · rw [crawlUp_snoc, moduleName_pyi hxne, hbd]
    simp [joinFile, hxi, Crawl.extend]
  · rw [crawlUp_snoc, moduleName_py hxne, hbd]
    simp [joinFile, hxi, Crawl.extend]

end Layout
